// race-stress: C17 — the calls documented as safe from any goroutine, used concurrently with a running loop and with
// Start/Stop/Terminate from one controlling goroutine, and one require.Registry shared by runtimes on different
// goroutines: no data race (this binary is built with -race), no deadlock, each source file fetched at most once per
// Registry, module state never shared between runtimes.
//
// The parent process runs every scenario in a child process (so that a race report, a deadlock or a crash of one
// scenario is attributed to it) and prints one line per scenario:
//
//	#C17JSON {"kind":"EL","seed":123}
//	C17 EL 123 => ok | RACE <where> | DEADLOCK | FAIL <what> | CRASH <what>
package main

import (
	"bufio"
	"bytes"
	"encoding/json"
	"flag"
	"fmt"
	"os"
	"os/exec"
	"regexp"
	"runtime"
	"strings"
	"sync"
	"sync/atomic"
	"time"

	"github.com/dop251/goja"
	"github.com/dop251/goja_nodejs/eventloop"
	"github.com/dop251/goja_nodejs/require"

	"verifharness/internal/hx"
)

type ccase struct {
	Kind string `json:"kind"`
	Seed uint64 `json:"seed"`
}

// ------------------------------------------------------------------------------------------------------------
// child: event loop scenario
// ------------------------------------------------------------------------------------------------------------

func childEL(seed uint64) string {
	rng := hx.NewRng(seed)
	// yield points: a cheap per-call hash decides whether the goroutine yields here, so that the interleavings differ
	// from run to run of the same code but are spread over all synchronisation actions
	var ctr uint64
	yieldEvery := uint64(2 + rng.Intn(6))
	eventloop.VerifHook = func(loop *eventloop.EventLoop, point string, obj interface{}) {
		c := atomic.AddUint64(&ctr, 1)
		if (c*0x9E3779B97F4A7C15>>33)%yieldEvery == 0 {
			runtime.Gosched()
		}
	}
	loop := eventloop.NewEventLoop()
	nworkers := 2 + rng.Intn(6)
	iters := 20 + rng.Intn(60)
	cycles := 1 + rng.Intn(4)
	var executed, accepted int64
	var wg sync.WaitGroup
	stopWorkers := make(chan struct{})
	for w := 0; w < nworkers; w++ {
		wr := hx.NewRng(seed*31 + uint64(w) + 1)
		wg.Add(1)
		go func() {
			defer wg.Done()
			var timers []*eventloop.Timer
			var intervals []*eventloop.Interval
			for i := 0; i < iters; i++ {
				select {
				case <-stopWorkers:
					return
				default:
				}
				switch x := wr.Intn(100); {
				case x < 30:
					if loop.RunOnLoop(func(vm *goja.Runtime) {
						atomic.AddInt64(&executed, 1)
						if wr2 := atomic.LoadInt64(&executed); wr2%7 == 0 {
							vm.RunString("setTimeout(function(){}, 1); setImmediate(function(){})")
						}
					}) {
						atomic.AddInt64(&accepted, 1)
					}
				case x < 50:
					if t := loop.SetTimeout(func(*goja.Runtime) {}, time.Duration(wr.Intn(3))*time.Millisecond); t != nil {
						timers = append(timers, t)
					}
				case x < 62:
					if iv := loop.SetInterval(func(*goja.Runtime) {}, time.Duration(1+wr.Intn(2))*time.Millisecond); iv != nil {
						intervals = append(intervals, iv)
					}
				case x < 78:
					if len(timers) > 0 {
						k := wr.Intn(len(timers))
						loop.ClearTimeout(timers[k])
						if wr.Chance(30) {
							loop.ClearTimeout(timers[k]) // twice
						}
					}
				case x < 92:
					if len(intervals) > 0 {
						k := wr.Intn(len(intervals))
						loop.ClearInterval(intervals[k])
						intervals = append(intervals[:k], intervals[k+1:]...)
					}
				case x < 95:
					loop.StopNoWait()
				default:
					time.Sleep(time.Duration(wr.Intn(300)) * time.Microsecond)
				}
				if wr.Chance(20) {
					runtime.Gosched()
				}
			}
			for _, iv := range intervals {
				loop.ClearInterval(iv)
			}
		}()
	}
	// the controlling goroutine
	ctlDone := make(chan struct{})
	go func() {
		defer close(ctlDone)
		for c := 0; c < cycles; c++ {
			loop.Start()
			time.Sleep(time.Duration(200+rng.Intn(3000)) * time.Microsecond)
			if rng.Chance(30) {
				loop.Terminate()
			} else {
				loop.Stop()
			}
		}
		// let the workers finish against a running loop, then terminate for good
		loop.Start()
		wg.Wait()
		time.Sleep(time.Duration(rng.Intn(1500)) * time.Microsecond)
		loop.Terminate()
		if loop.RunOnLoop(func(*goja.Runtime) {}) {
			fmt.Println("FAIL RunOnLoop accepted a job after the final Terminate")
		}
	}()
	select {
	case <-ctlDone:
	case <-time.After(40 * time.Second):
		close(stopWorkers)
		buf := make([]byte, 1<<16)
		n := runtime.Stack(buf, true)
		os.Stderr.Write(buf[:n])
		return "DEADLOCK"
	}
	return "ok"
}

// ------------------------------------------------------------------------------------------------------------
// child: shared registry scenario
// ------------------------------------------------------------------------------------------------------------

func childREG(seed uint64) string {
	rng := hx.NewRng(seed)
	files := map[string]string{
		"/a.js":       "var n = 0; var b = require('./b.js'); exports.inc = function(){ n++; b.inc(); return n }; exports.get = function(){ return [n, b.get()] }",
		"/b.js":       "var n = 0; exports.inc = function(){ return ++n }; exports.get = function(){ return n }",
		"/c.js":       "var n = 0; var d = require('./d.json'); exports.inc = function(){ return ++n + d.k }",
		"/d.json":     `{"k": 100}`,
		"/bad.js":     "{{{ not javascript",
		"/lib/e.js":   "var a = require('../a.js'); var n = 0; exports.inc = function(){ a.inc(); return ++n }",
		"/lib/f.js":   "exports.v = 1",
		"/cyc1.js":    "exports.x = 1; var c2 = require('./cyc2.js'); exports.y = c2.z",
		"/cyc2.js":    "var c1 = require('./cyc1.js'); exports.z = c1.x + 1",
		"/main/g.js":  "module.exports = function(){ return 7 }",
		"/throws.js":  "throw new Error('boom')",
		"/lib/h.json": `[1,2,3]`,
	}
	var mu sync.Mutex
	loads := map[string]int{}
	reg := require.NewRegistry(require.WithLoader(func(path string) ([]byte, error) {
		mu.Lock()
		loads[path]++
		mu.Unlock()
		if rng2 := len(path); rng2%3 == 0 {
			runtime.Gosched()
		}
		if s, ok := files["/"+strings.TrimPrefix(path, "/")]; ok {
			return []byte(s), nil
		}
		return nil, require.ModuleFileDoesNotExistError
	}), require.WithPathResolver(func(base, p string) string {
		// pure path arithmetic (no symlink resolution on the host file system)
		if strings.HasPrefix(p, "/") {
			return cleanJoin("", p)
		}
		return cleanJoin(base, p)
	}))
	nrt := 2 + rng.Intn(6)
	start := make(chan struct{})
	var wg sync.WaitGroup
	fails := make(chan string, 64)
	for r := 0; r < nrt; r++ {
		k := 1 + rng.Intn(9)
		order := rng.Intn(4)
		wg.Add(1)
		go func(r int) {
			defer wg.Done()
			vm := goja.New()
			reg.Enable(vm)
			<-start
			script := fmt.Sprintf(`
				var order = %d, k = %d, out = [];
				var names = ["/a.js", "/lib/e.js", "/c.js", "/cyc1.js", "/main/g.js", "/lib/f.js", "/lib/h.json"];
				if (order & 1) names.reverse();
				if (order & 2) names.push(names.shift());
				var mods = {};
				names.forEach(function (n) { mods[n] = require(n); });
				try { require("/bad.js"); out.push("bad loaded"); } catch (e) {}
				try { require("/throws.js"); out.push("throws loaded"); } catch (e) {}
				try { require("/missing.js"); out.push("missing loaded"); } catch (e) {}
				var a = mods["/a.js"], e = mods["/lib/e.js"];
				for (var i = 0; i < k; i++) a.inc();
				for (var j = 0; j < k; j++) e.inc();
				// a was incremented k times directly and k times through e; b as often as a
				var g = a.get();
				if (g[0] !== 2 * k || g[1] !== 2 * k) out.push("module state is not private to the runtime: " + JSON.stringify(g) + " k=" + k);
				if (require("/a.js") !== a) out.push("require is not idempotent within a runtime");
				if (mods["/c.js"].inc() !== 101) out.push("c.inc");
				if (mods["/cyc1.js"].y !== 2) out.push("cycle");
				out.join("; ")`, order, k)
			v, err := vm.RunString(script)
			if err != nil {
				fails <- fmt.Sprintf("runtime %d: %v", r, err)
				return
			}
			if s := v.String(); s != "" {
				fails <- fmt.Sprintf("runtime %d: %s", r, s)
			}
		}(r)
	}
	close(start)
	done := make(chan struct{})
	go func() { wg.Wait(); close(done) }()
	select {
	case <-done:
	case <-time.After(40 * time.Second):
		return "DEADLOCK"
	}
	close(fails)
	for f := range fails {
		return "FAIL " + strings.ReplaceAll(f, " ", "_")
	}
	mu.Lock()
	defer mu.Unlock()
	for p, n := range loads {
		key := "/" + strings.TrimPrefix(p, "/")
		_, exists := files[key]
		if exists && key != "/bad.js" && n > 1 {
			return fmt.Sprintf("FAIL %s_was_fetched_%d_times_by_one_registry", p, n)
		}
	}
	return "ok"
}

func cleanJoin(base, p string) string {
	parts := strings.Split(base+"/"+p, "/")
	var st []string
	for _, s := range parts {
		switch s {
		case "", ".":
		case "..":
			if len(st) > 0 {
				st = st[:len(st)-1]
			}
		default:
			st = append(st, s)
		}
	}
	return "/" + strings.Join(st, "/")
}

// ------------------------------------------------------------------------------------------------------------
// parent
// ------------------------------------------------------------------------------------------------------------

var raceWhere = regexp.MustCompile(`(?m)^\s+(github\.com/dop251/goja_nodejs/[^\s(]+)`)

func runChild(self string, c ccase) string {
	cmd := exec.Command(self, "-child", c.Kind, "-seed", fmt.Sprint(c.Seed))
	cmd.Env = append(os.Environ(), "GORACE=halt_on_error=1 exitcode=66 atexit_sleep_ms=30")
	var out, errb bytes.Buffer
	cmd.Stdout, cmd.Stderr = &out, &errb
	done := make(chan error, 1)
	if err := cmd.Start(); err != nil {
		return "CRASH cannot_start_child"
	}
	go func() { done <- cmd.Wait() }()
	var err error
	select {
	case err = <-done:
	case <-time.After(90 * time.Second):
		cmd.Process.Kill()
		return "DEADLOCK"
	}
	es := errb.String()
	if strings.Contains(es, "WARNING: DATA RACE") {
		var where []string
		seen := map[string]bool{}
		for _, m := range raceWhere.FindAllStringSubmatch(es, -1) {
			if !seen[m[1]] && len(where) < 4 {
				seen[m[1]] = true
				where = append(where, strings.TrimPrefix(m[1], "github.com/dop251/goja_nodejs/"))
			}
		}
		return "RACE " + strings.Join(where, ",")
	}
	res := strings.TrimSpace(out.String())
	if i := strings.LastIndex(res, "\n"); i >= 0 {
		// an earlier FAIL line takes precedence
		for _, l := range strings.Split(res, "\n") {
			if strings.HasPrefix(l, "FAIL") {
				return strings.ReplaceAll(l, " ", "_")[:4] + " " + strings.ReplaceAll(l[5:], " ", "_")
			}
		}
		res = res[i+1:]
	}
	if err != nil && res != "DEADLOCK" {
		first := es
		if i := strings.Index(first, "\n"); i >= 0 {
			first = first[:i]
		}
		return "CRASH " + strings.ReplaceAll(first, " ", "_")
	}
	if res == "" {
		return "CRASH no_result"
	}
	return res
}

func main() {
	child := flag.String("child", "", "run one scenario in this process: EL | REG")
	n := flag.Int("n", 100, "number of scenarios")
	seed := flag.Uint64("seed", hx.SeedFromEnv(), "PRNG seed")
	corpus := flag.String("corpus", "", "corpus file")
	statsPath := flag.String("stats", "", "stats JSON")
	flag.Parse()
	if *child != "" {
		switch *child {
		case "EL":
			fmt.Println(childEL(*seed))
		case "REG":
			fmt.Println(childREG(*seed))
		}
		return
	}
	self, _ := os.Executable()
	w := bufio.NewWriter(os.Stdout)
	defer w.Flush()
	st := hx.NewStats()
	emit := func(c ccase) {
		jb, _ := json.Marshal(c)
		fmt.Fprintf(w, "#C17JSON %s\n", jb)
		res := runChild(self, c)
		fmt.Fprintf(w, "C17 %s %d => %s\n", c.Kind, c.Seed, res)
		w.Flush()
		st.Hit("kind:" + c.Kind)
		st.Hit("result:" + strings.SplitN(res, " ", 2)[0])
	}
	if *corpus != "" {
		if fh, err := os.Open(*corpus); err == nil {
			sc := bufio.NewScanner(fh)
			for sc.Scan() {
				line := strings.TrimSpace(sc.Text())
				if strings.HasPrefix(line, "C17JSON ") {
					var c ccase
					if json.Unmarshal([]byte(line[8:]), &c) == nil && c.Kind != "" {
						st.Hit("source:corpus")
						emit(c)
					}
				}
			}
			fh.Close()
		}
	}
	rng := hx.NewRng(*seed)
	for i := 0; i < *n; i++ {
		kind := "EL"
		if rng.Chance(35) {
			kind = "REG"
		}
		emit(ccase{kind, rng.U64() % 1000000007})
	}
	if *statsPath != "" {
		st.WriteJSON(*statsPath, map[string]interface{}{"seed": *seed})
	}
}
