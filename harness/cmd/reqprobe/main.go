// reqprobe: demonstrations of require() cache findings on a virtual file tree.
package main

import (
	"fmt"
	"path"

	"github.com/dop251/goja"
	"github.com/dop251/goja_nodejs/require"
	_ "github.com/dop251/goja_nodejs/util"
)

func run(name string, files map[string]string, natives map[string]string, scripts ...[2]string) {
	fmt.Println("== " + name)
	reg := require.NewRegistry(require.WithLoader(func(p string) ([]byte, error) {
		if s, ok := files[p]; ok {
			return []byte(s), nil
		}
		return nil, require.ModuleFileDoesNotExistError
	}), require.WithPathResolver(func(base, p string) string { return path.Join(base, p) }))
	for n, tag := range natives {
		tag := tag
		reg.RegisterNativeModule(n, func(vm *goja.Runtime, m *goja.Object) {
			m.Get("exports").(*goja.Object).Set("tag", tag)
		})
	}
	vm := goja.New()
	reg.Enable(vm)
	for _, s := range scripts {
		v, err := vm.RunScript(s[0], s[1])
		if err != nil {
			fmt.Printf("  %s: %s  => ERR %v\n", s[0], s[1], err)
		} else {
			fmt.Printf("  %s: %s  => %v\n", s[0], s[1], v)
		}
	}
}

func main() {
	run("C02 node_modules cache conflates (dir, name) pairs with the same join",
		map[string]string{
			"/app/node_modules/y/index.js": "exports.f = __filename",
			"/app/node_modules/x/y.js":     "exports.f = __filename",
		}, nil,
		[2]string{"/app/main.js", "require('x/y').f"},
	)
	run("C02 … warm: after require('y') from /app/x",
		map[string]string{
			"/app/node_modules/y/index.js": "exports.f = __filename",
			"/app/node_modules/x/y.js":     "exports.f = __filename",
		}, nil,
		[2]string{"/app/x/main.js", "require('y').f"},
		[2]string{"/app/main.js", "require('x/y').f"},
	)
	run("C01 stale alias after a failed cycle member",
		map[string]string{
			"/app/a.js": "exports.n = (globalThis.na = (globalThis.na||0)+1); require('./b'); throw new Error('boom')",
			"/app/b.js": "require('./a')",
		}, nil,
		[2]string{"/app/main.js", "try { require('./a') } catch (e) { 'threw ' + e.message }"},
		[2]string{"/app/main.js", "try { JSON.stringify(require('./a')) + ' evals=' + na } catch (e) { 'threw again (fresh evaluation), evals=' + na }"},
	)
	run("C02 main -> directory depends on history (cold)",
		map[string]string{
			"/app/p/package.json": `{"main":"../d"}`, "/app/d/package.json": `{"main":"lib.js"}`,
			"/app/d/lib.js": "exports.f = __filename", "/app/d/index.js": "exports.f = __filename",
		}, nil,
		[2]string{"/app/main.js", "require('./p').f"})
	run("C02 main -> directory depends on history (after require('./d'))",
		map[string]string{
			"/app/p/package.json": `{"main":"../d"}`, "/app/d/package.json": `{"main":"lib.js"}`,
			"/app/d/lib.js": "exports.f = __filename", "/app/d/index.js": "exports.f = __filename",
		}, nil,
		[2]string{"/app/main.js", "require('./d').f"},
		[2]string{"/app/main.js", "require('./p').f"})
	run("C15 ./util vs util with relative script names",
		map[string]string{"util.js": "exports.tag = 'user file'"}, nil,
		[2]string{"main.js", "require('./util').tag"},
		[2]string{"main.js", "String(require('util').tag) + ' / has format: ' + (typeof require('util').format)"})
	run("C15 node:util clobbers a registry override of util",
		map[string]string{}, map[string]string{"util": "override"},
		[2]string{"/app/main.js", "require('node:util').tag"},
		[2]string{"/app/main.js", "require('util').tag"})
}
