// elprobe: run JS snippets on a real event loop (Run), report panics
package main

import (
	"fmt"
	"os"
	"time"

	"github.com/dop251/goja"
	"github.com/dop251/goja_nodejs/eventloop"
)

func main() {
	for _, src := range os.Args[1:] {
		func() {
			defer func() {
				if r := recover(); r != nil {
					fmt.Printf("%s\n  => PANIC %v\n", src, r)
				}
			}()
			loop := eventloop.NewEventLoop()
			done := make(chan string, 1)
			go func() {
				defer func() {
					if r := recover(); r != nil {
						done <- fmt.Sprintf("PANIC %v", r)
					}
				}()
				var out string
				loop.Run(func(vm *goja.Runtime) {
					v, err := vm.RunString(src)
					if err != nil {
						out = "throw " + err.Error()
					} else {
						out = "ok " + v.String()
					}
				})
				done <- out + " ; Run returned"
			}()
			select {
			case s := <-done:
				fmt.Printf("%s\n  => %s\n", src, s)
			case <-time.After(2 * time.Second):
				fmt.Printf("%s\n  => Run did not return within 2s\n", src)
			}
		}()
	}
}
