// corr-require: correspondence harness for require() (C01 identity/evaluation, C02 file selection, C15 native/core names).
//
// A generated virtual file tree is offered through a SourceLoader with a pure PathResolver (path.Join).
// Generated module bodies log enter / got / caught events with export identities; top-level calls come
// from scripts with generated names and from (*RequireModule).Require.  The log is the observable.
package main

import (
	"bufio"
	"encoding/hex"
	"encoding/json"
	"errors"
	"flag"
	"fmt"
	"os"
	"path"
	"path/filepath"
	"sort"
	"strings"

	"github.com/dop251/goja"
	"github.com/dop251/goja_nodejs/require"

	"verifharness/internal/hx"
)

func hs(s string) string { return hx.Hex([]byte(s)) }

type act struct {
	K string `json:"k"` // S | R | T
	A string `json:"a"` // tag | spelling | tok
	C bool   `json:"c,omitempty"`
}

type fileSpec struct {
	Path string `json:"path"`
	Kind string `json:"kind"` // J | B | JO | JB | PM
	Body []act  `json:"body,omitempty"`
	Main string `json:"main,omitempty"`
	// Decoy: other keys a careless decoder might take for "main" (the model only knows Main, the value of the exact key)
	Decoy int `json:"decoy,omitempty"`
}

type topCall struct {
	Script string `json:"script"` // "" = Go Require
	Spell  string `json:"spell"`
}

type reqCase struct {
	Files   []fileSpec `json:"files"`
	LoadErr []string   `json:"loaderr"`
	Global  []string   `json:"global"`
	Reg     []string   `json:"reg"`
	Calls   []topCall  `json:"calls"`
	// Real: the tree is written to a temporary directory and served by require.DefaultSourceLoader with the default
	// path resolver (the "real directories" half of C02); the protocol line is the same, with the directory prefix removed
	Real bool `json:"real,omitempty"`
}

// realRoot is the temporary directory of the case being run in Real mode ("" otherwise)
var realRoot string

func abs(p string) string {
	if realRoot != "" && strings.HasPrefix(p, "/") {
		return realRoot + p
	}
	return p
}

func unabs(p string) string {
	if realRoot != "" && strings.HasPrefix(p, realRoot) {
		if q := p[len(realRoot):]; q == "" {
			return "/"
		} else {
			return q
		}
	}
	return p
}

// realEligible: the case can be laid out on a real file system and does not depend on the process's working directory
func realEligible(c reqCase) bool {
	for _, tc := range c.Calls {
		if !strings.HasPrefix(tc.Script, "/") {
			return false
		}
	}
	for _, f := range c.Files {
		if !strings.HasPrefix(f.Path, "/") || strings.Contains(f.Path, "\x00") {
			return false
		}
		for _, g := range c.Files {
			if strings.HasPrefix(g.Path, f.Path+"/") {
				return false // a name that is a file and a directory at once exists only in a virtual tree
			}
		}
	}
	return len(c.Files) > 0
}

// process-wide registrations (RegisterCoreModule / RegisterNativeModule are global)
var coreNames = []string{"cm1", "cm2", "cg", "cr", "cgr", "util", "a/b", "node:pre", "pre"}
var globNames = []string{"gn1", "cg", "cgr", "g/x"}
var regPool = []string{"rn1", "cr", "cgr", "util", "r/y", "cm2"}

type runner struct {
	vm     *goja.Runtime
	log    []string
	seen   []*goja.Object // exports identities in order of first appearance
	files  map[*goja.Object]string
	fileOf []struct {
		o *goja.Object
		p string
	}
	thrown  map[string]goja.Value
	escaped bool // Real mode: a request left the temporary directory
}

var current *runner // the runner whose loaders / hooks are active

func (r *runner) idOf(v goja.Value) string {
	o, ok := v.(*goja.Object)
	if !ok {
		return "prim"
	}
	for i, s := range r.seen {
		if s == o || s.SameAs(o) {
			return fmt.Sprint(i)
		}
	}
	r.seen = append(r.seen, o)
	return fmt.Sprint(len(r.seen) - 1)
}

func (r *runner) fileStr(v goja.Value) string {
	o, ok := v.(*goja.Object)
	if !ok {
		return "~"
	}
	for _, f := range r.fileOf {
		if f.o == o || f.o.SameAs(o) {
			return hs(f.p)
		}
	}
	return "~"
}

func (r *runner) tagsOf(v goja.Value) []string {
	o, ok := v.(*goja.Object)
	if !ok {
		return nil
	}
	var t []string
	for _, k := range o.Keys() {
		if strings.HasPrefix(k, "t") {
			t = append(t, k)
		}
	}
	return t
}

func (r *runner) emit(toks ...string) { r.log = append(r.log, toks...) }

func (r *runner) errTok(e goja.Value, goErr error) string {
	if goErr != nil {
		switch {
		case errors.Is(goErr, require.InvalidModuleError):
			return "invalid"
		case errors.Is(goErr, require.NoSuchBuiltInModuleError):
			return "nobuiltin"
		}
		if ex, ok := goErr.(*goja.Exception); ok {
			return r.errTok(ex.Value(), nil)
		}
		msg := goErr.Error()
		if i := strings.Index(msg, "HOSTFAIL:"); i >= 0 {
			return "thrown:" + hs(strings.SplitN(msg[i+9:], ":", 2)[0])
		}
		if strings.Contains(msg, "LOADERR") {
			return "loaderr"
		}
		return "syntax"
	}
	if o, ok := e.(*goja.Object); ok {
		if t := o.Get("__tok"); t != nil && !goja.IsUndefined(t) {
			tok := t.String()
			if orig, ok := r.thrown[tok]; ok && orig.SameAs(e) {
				return "thrown:" + hs(tok)
			}
			return "thrown-copy:" + hs(tok)
		}
		name := ""
		if n := o.Get("name"); n != nil {
			name = n.String()
		}
		msg := ""
		if m := o.Get("message"); m != nil {
			msg = m.String()
		}
		if i := strings.Index(msg, "HOSTFAIL:"); i >= 0 {
			return "thrown:" + hs(strings.SplitN(msg[i+9:], ":", 2)[0])
		}
		switch {
		case strings.Contains(msg, "Invalid module"):
			return "invalid"
		case strings.Contains(msg, "No such built-in module"):
			return "nobuiltin"
		case strings.Contains(msg, "LOADERR"):
			return "loaderr"
		case name == "SyntaxError":
			return "jsonsyntax"
		case name == "GoError":
			return "syntax"
		}
		return "other:" + hs(name+":"+msg)
	}
	return "other:" + hs(e.String())
}

func nativeLoader(table, name string) require.ModuleLoader {
	return func(vm *goja.Runtime, module *goja.Object) {
		r := current
		ex := module.Get("exports").(*goja.Object)
		ex.Set("__native", table+":"+name)
		// the name under which it was requested is not known to the loader; log the registered name
		r.emit("N", table, hs(name), r.idOf(ex))
	}
}

func init() {
	for _, n := range coreNames {
		require.RegisterCoreModule(n, nativeLoader("C", n))
	}
	for _, n := range globNames {
		require.RegisterNativeModule(n, nativeLoader("G", n))
	}
}

func jsString(s string) string { b, _ := json.Marshal(s); return string(b) }

func bodySource(f fileSpec) string {
	switch f.Kind {
	case "B":
		return "this is not js ((("
	case "JO":
		return fmt.Sprintf(`{"j": %q}`, f.Path)
	case "JB":
		return `{"j": `
	case "PM":
		switch f.Decoy {
		case 1: // a differently spelled key after the real one
			return fmt.Sprintf(`{"main": %s, "Main": "decoy.js", "j": %q}`, jsString(f.Main), f.Path)
		case 2: // ... and before it
			return fmt.Sprintf(`{"MAIN": "decoy.js", "main": %s, "j": %q}`, jsString(f.Main), f.Path)
		case 3: // a differently spelled key of another type
			return fmt.Sprintf(`{"Main": 5, "main": %s, "j": %q}`, jsString(f.Main), f.Path)
		case 4: // the exact key twice: the last one counts (JSON.parse)
			return fmt.Sprintf(`{"main": "decoy.js", "main": %s, "j": %q}`, jsString(f.Main), f.Path)
		}
		if f.Main == "" && f.Decoy == 5 { // no exact key at all, only look-alikes
			return fmt.Sprintf(`{"Main": "decoy.js", "mAin": "decoy.js", "j": %q}`, f.Path)
		}
		return fmt.Sprintf(`{"main": %s, "j": %q}`, jsString(f.Main), f.Path)
	}
	var sb strings.Builder
	sb.WriteString("__enter(module, __filename);\n")
	for _, a := range f.Body {
		switch a.K {
		case "S":
			fmt.Fprintf(&sb, "exports[%s] = true;\n", jsString(a.A))
		case "R":
			if a.C {
				fmt.Fprintf(&sb, "try { var m = require(%s); __got(%s, m); } catch (e) { __caught(%s, e); }\n", jsString(abs(a.A)), jsString(a.A), jsString(a.A))
			} else {
				fmt.Fprintf(&sb, "{ var m = require(%s); __got(%s, m); }\n", jsString(abs(a.A)), jsString(a.A))
			}
		case "T":
			if strings.HasPrefix(a.A, "N") {
				fmt.Fprintf(&sb, "__hostfail(%s);\n", jsString(a.A))
			} else {
				fmt.Fprintf(&sb, "throw __mkthrow(%s);\n", jsString(a.A))
			}
		}
	}
	return sb.String()
}

func execCase(c reqCase) (out string) {
	defer func() {
		if r := recover(); r != nil {
			out = strings.ReplaceAll(fmt.Sprintf("PANIC %v", r), "\n", " ")
		}
	}()
	r := &runner{thrown: map[string]goja.Value{}}
	current = r
	realRoot = ""
	if c.Real {
		d, err := os.MkdirTemp("", "verif-req-")
		if err != nil {
			return "PANIC cannot create a temporary directory: " + err.Error()
		}
		if rd, err := filepath.EvalSymlinks(d); err == nil {
			d = rd
		}
		defer os.RemoveAll(d)
		realRoot = d
		defer func() { realRoot = "" }()
		for _, f := range c.Files {
			os.MkdirAll(filepath.Dir(d+f.Path), 0o755)
			if err := os.WriteFile(d+f.Path, []byte(bodySource(f)), 0o644); err != nil {
				return "PANIC cannot write the tree: " + err.Error()
			}
		}
	}
	files := map[string]string{}
	for _, f := range c.Files {
		files[f.Path] = bodySource(f)
	}
	loadErr := map[string]bool{}
	for _, p := range c.LoadErr {
		loadErr[p] = true
	}
	opts := []require.Option{
		require.WithLoader(func(p string) ([]byte, error) {
			if c.Real {
				if !strings.HasPrefix(p, realRoot+"/") {
					// the node_modules walk goes on above the tree, up to the root of the host file system: nothing there.
					// Any other path outside the tree means the request climbed above the virtual root ("/.." is "/"
					// in the virtual tree and the parent of the temporary directory here): not comparable.
					if !strings.Contains(p, "/node_modules/") {
						r.escaped = true
					}
					return require.DefaultSourceLoader(p)
				}
				p = unabs(p)
			}
			if path.Base(p) != "package.json" {
				r.emit("L", hs(p))
			}
			if loadErr[p] {
				return nil, errors.New("LOADERR")
			}
			if c.Real {
				return require.DefaultSourceLoader(abs(p))
			}
			if s, ok := files[p]; ok {
				return []byte(s), nil
			}
			return nil, require.ModuleFileDoesNotExistError
		}),
	}
	if !c.Real {
		opts = append(opts, require.WithPathResolver(func(base, p string) string { return path.Join(base, p) }))
	}
	if len(c.Global) > 0 {
		gl := make([]string, len(c.Global))
		for i, gdir := range c.Global {
			gl[i] = abs(gdir)
		}
		opts = append(opts, require.WithGlobalFolders(gl...))
	}
	reg := require.NewRegistry(opts...)
	for _, n := range c.Reg {
		reg.RegisterNativeModule(n, nativeLoader("R", n))
	}
	vm := goja.New()
	r.vm = vm
	rm := reg.Enable(vm)
	vm.Set("__enter", func(module *goja.Object, filename string) {
		ex, _ := module.Get("exports").(*goja.Object)
		if ex != nil {
			r.fileOf = append(r.fileOf, struct {
				o *goja.Object
				p string
			}{ex, unabs(filename)})
			r.emit("E", hs(unabs(filename)), r.idOf(ex))
		}
	})
	vm.Set("__got", func(spelling string, m goja.Value) {
		tags := r.tagsOf(m)
		r.emit("G", hs(spelling), r.idOf(m), r.fileStr(m), fmt.Sprint(len(tags)))
		for _, t := range tags {
			r.emit(hs(t))
		}
	})
	vm.Set("__caught", func(spelling string, e goja.Value) {
		r.emit("C", hs(spelling), r.errTok(e, nil))
	})
	vm.Set("__mkthrow", func(tok string) goja.Value {
		o := vm.NewObject()
		o.Set("__tok", tok)
		r.thrown[tok] = o
		return o
	})
	vm.Set("__hostfail", func(tok string) error {
		return fmt.Errorf("HOSTFAIL:%s: %w", tok, require.ModuleFileDoesNotExistError)
	})
	vm.Set("__topok", func(m goja.Value) {
		tags := r.tagsOf(m)
		r.emit("T", r.idOf(m), r.fileStr(m), fmt.Sprint(len(tags)))
		for _, t := range tags {
			r.emit(hs(t))
		}
	})
	vm.Set("__toperr", func(e goja.Value) { r.emit("X", r.errTok(e, nil)) })
	for _, tc := range c.Calls {
		if tc.Script == "" {
			v, err := rm.Require(abs(tc.Spell))
			if err != nil {
				r.emit("X", r.errTok(nil, err))
			} else {
				tags := r.tagsOf(v)
				r.emit("T", r.idOf(v), r.fileStr(v), fmt.Sprint(len(tags)))
				for _, t := range tags {
					r.emit(hs(t))
				}
			}
			continue
		}
		src := fmt.Sprintf("try { __topok(require(%s)); } catch (e) { __toperr(e); }", jsString(abs(tc.Spell)))
		if _, err := vm.RunScript(abs(tc.Script), src); err != nil {
			r.emit("X", "script-error:"+hs(err.Error()))
		}
	}
	// the native loader cannot know the requested spelling; patch "?name" tokens: the driver prints the
	// requested spelling, which for a first load equals the registered name or "node:"+name
	if r.escaped {
		return "ESCAPED"
	}
	return strings.Join(r.log, " ")
}

func lineOf(c reqCase) string {
	t := []string{"REQ", fmt.Sprint(len(c.Files))}
	for _, f := range c.Files {
		t = append(t, hs(f.Path))
		switch f.Kind {
		case "J":
			t = append(t, "J", fmt.Sprint(len(f.Body)))
			for _, a := range f.Body {
				switch a.K {
				case "S", "T":
					t = append(t, a.K, hs(a.A))
				case "R":
					c := "0"
					if a.C {
						c = "1"
					}
					t = append(t, "R", hs(a.A), c)
				}
			}
		case "PM":
			t = append(t, "PM", hs(f.Main))
		default:
			t = append(t, f.Kind)
		}
	}
	list := func(xs []string) {
		t = append(t, fmt.Sprint(len(xs)))
		for _, x := range xs {
			t = append(t, hs(x))
		}
	}
	list(c.LoadErr)
	list(c.Global)
	list(c.Reg)
	list(globNames)
	list(coreNames)
	t = append(t, fmt.Sprint(len(c.Calls)))
	for _, tc := range c.Calls {
		if tc.Script == "" {
			t = append(t, "~")
		} else {
			t = append(t, hs(tc.Script))
		}
		t = append(t, hs(tc.Spell))
	}
	return strings.Join(t, " ")
}

// ------------------------------------------------------------------------------------------ generator

type gen struct {
	r    *hx.Rng
	st   *hx.Stats
	prop string
}

var dirsAbs = []string{"/app", "/app/lib", "/app/lib/deep", "/"}
var stems = []string{"a", "b", "c", "p", "d", "util", "cm1"}
var pkgs = []string{"pk", "a", "x/y", "cm1", "q"}
var mains = []string{"lib.js", "lib", "./sub", "../b", "index.js", "", "nonexist", "../d", "sub.js", "."}

func (g *gen) spelling(fromDir string, relRoot bool) string {
	r := g.r
	stem := stems[r.Intn(len(stems))]
	switch x := r.Intn(100); {
	case x < 22:
		return "./" + stem
	case x < 32:
		return "./" + stem + ".js"
	case x < 36:
		return "./" + stem + ".json"
	case x < 44:
		return "../" + []string{"", "lib/", "deep/"}[r.Intn(3)] + stem
	case x < 52:
		if relRoot {
			return "./" + stem
		}
		// absolute requests, one in three with a detour that only lexical cleaning removes
		sep := "/"
		if r.Chance(33) {
			sep = []string{"/./", "//", "/lib/../", "/../" + "app/"}[r.Intn(3)]
			g.st.Hit("spelling:absolute-detour")
		}
		return dirsAbs[r.Intn(3)] + sep + stem + []string{"", ".js", "/index.js", "/lib.js"}[r.Intn(4)]
	case x < 55:
		return "./" + stem + "/../" + stems[r.Intn(len(stems))]
	case x < 58:
		return "./" + stem + "/" + []string{"lib", "sub", "lib/impl", "sub/impl.js"}[r.Intn(4)]
	case x < 62:
		return []string{".", "..", "./index", "./lib"}[r.Intn(4)]
	case x < 80:
		return pkgs[r.Intn(len(pkgs))] + []string{"", "", "", "/lib", "/sub.js"}[r.Intn(5)]
	default:
		n := []string{"cm1", "cm2", "cg", "cr", "cgr", "util", "a/b", "node:pre", "pre", "gn1", "g/x", "rn1", "r/y", "nosuch"}[r.Intn(14)]
		if r.Chance(40) {
			return "node:" + n
		}
		return n
	}
}

// throwTok: most bodies throw a JavaScript object; one in seven fails in a host function whose Go error wraps the
// loader's own "module file does not exist" sentinel (the thrown value is then a GoError)
func (g *gen) throwTok() string {
	if g.r.Chance(14) {
		g.st.Hit("throw:host-error-wrapping-not-exist")
		return fmt.Sprintf("N%d", g.r.Intn(1000))
	}
	return fmt.Sprintf("T%d", g.r.Intn(1000))
}

func (g *gen) body(dir string, relRoot bool) []act {
	r := g.r
	n := r.Intn(5)
	var b []act
	tagN := 0
	for i := 0; i < n; i++ {
		switch x := r.Intn(100); {
		case x < 30:
			tagN++
			b = append(b, act{K: "S", A: fmt.Sprintf("t%d", tagN)})
		case x < 88:
			b = append(b, act{K: "R", A: g.spelling(dir, relRoot), C: r.Chance(45)})
		default:
			b = append(b, act{K: "T", A: g.throwTok()})
			return b
		}
	}
	return b
}

func (g *gen) genCase() reqCase {
	r := g.r
	var c reqCase
	have := map[string]bool{}
	relRoot := g.prop == "C15" && r.Chance(60)
	dirs := dirsAbs
	if relRoot {
		dirs = []string{".", "lib"}
	}
	add := func(f fileSpec) {
		f.Path = path.Clean(f.Path)
		if have[f.Path] {
			return
		}
		have[f.Path] = true
		c.Files = append(c.Files, f)
	}
	jsFile := func(p string) {
		if r.Chance(6) {
			add(fileSpec{Path: p, Kind: "B"})
			return
		}
		add(fileSpec{Path: p, Kind: "J", Body: g.body(path.Dir(p), relRoot)})
	}
	jsonFile := func(p string) {
		if r.Chance(15) {
			add(fileSpec{Path: p, Kind: "JB"})
		} else {
			add(fileSpec{Path: p, Kind: "JO"})
		}
	}
	mkdir := func(d string) {
		// a directory module with some of: package.json, index.js, index.json, lib.js, lib/index.js, sub.js
		switch x := r.Intn(10); {
		case x < 5:
			pm := fileSpec{Path: d + "/package.json", Kind: "PM", Main: mains[r.Intn(len(mains))]}
			if r.Chance(30) {
				pm.Decoy = 1 + r.Intn(4)
				if pm.Main == "" {
					pm.Decoy = 5
				}
				add(fileSpec{Path: d + "/decoy.js", Kind: "J", Body: []act{{K: "S", A: "t1"}}})
				g.st.Hit("package.json:decoy-keys")
			}
			add(pm)
		case x < 6:
			add(fileSpec{Path: d + "/package.json", Kind: "JB"})
		case x < 7:
			add(fileSpec{Path: d + "/package.json", Kind: "JO"})
		}
		if r.Chance(60) {
			jsFile(d + "/index.js")
		}
		if r.Chance(20) {
			jsonFile(d + "/index.json")
		}
		if r.Chance(50) {
			jsFile(d + "/lib.js")
		}
		if r.Chance(25) {
			jsFile(d + "/lib/index.js")
		}
		if r.Chance(30) {
			jsFile(d + "/sub.js")
		}
		if r.Chance(10) {
			jsFile(d + "/sub/index.js")
		}
		// a sub-directory that is a package of its own (its package.json matters when it is required directly,
		// and must NOT matter when it is reached as another package's "main")
		for _, sub := range []string{"lib", "sub"} {
			if r.Chance(22) {
				add(fileSpec{Path: d + "/" + sub + "/package.json", Kind: "PM", Main: []string{"impl.js", "impl", "../lib.js", "./index.js"}[r.Intn(4)]})
				if r.Chance(80) {
					jsFile(d + "/" + sub + "/impl.js")
				}
				if r.Chance(60) {
					jsFile(d + "/" + sub + "/index.js")
				}
			}
		}
	}
	density := 35
	if g.prop == "C01" {
		density = 45
	}
	for _, d := range dirs {
		for _, s := range stems {
			if !r.Chance(density) {
				continue
			}
			if r.Chance(15) {
				jsFile(d + "/" + s) // exact file without extension
			}
			if r.Chance(70) {
				jsFile(d + "/" + s + ".js")
			}
			if r.Chance(20) {
				jsonFile(d + "/" + s + ".json")
			}
			if r.Chance(35) {
				mkdir(d + "/" + s)
			}
		}
		if g.prop != "C01" || r.Chance(30) {
			for _, p := range pkgs {
				if !r.Chance(30) {
					continue
				}
				nm := d + "/node_modules/" + p
				if r.Chance(40) {
					jsFile(nm + ".js")
				}
				if r.Chance(10) {
					jsFile(nm)
				}
				if r.Chance(60) {
					mkdir(nm)
				}
			}
		}
	}
	if g.prop == "C02" && r.Chance(25) && len(c.Files) > 0 {
		// loader errors on chosen paths (existing or probed-only)
		n := 1 + r.Intn(2)
		for i := 0; i < n; i++ {
			if r.Bool() {
				c.LoadErr = append(c.LoadErr, c.Files[r.Intn(len(c.Files))].Path)
			} else {
				c.LoadErr = append(c.LoadErr, path.Clean(dirs[r.Intn(len(dirs))]+"/"+stems[r.Intn(len(stems))]+[]string{"", ".js", ".json", "/index.js"}[r.Intn(4)]))
			}
		}
	}
	for _, n := range regPool {
		if r.Chance(g.regChance()) {
			c.Reg = append(c.Reg, n)
		}
	}
	// requests aimed at what exists: a file, the same without extension, its directory, the directory above —
	// from a script in one of its ancestor directories (relative) or absolute
	aimed := func() (topCall, bool) {
		if len(c.Files) == 0 {
			return topCall{}, false
		}
		f := c.Files[r.Intn(len(c.Files))].Path
		target := f
		switch r.Intn(6) {
		case 0:
			target = strings.TrimSuffix(strings.TrimSuffix(f, ".js"), ".json")
		case 1, 2:
			target = path.Dir(f)
		case 3:
			target = path.Dir(path.Dir(f))
		}
		if !strings.HasPrefix(target, "/") {
			return topCall{Script: "main.js", Spell: "./" + target}, true
		}
		// an ancestor directory of the target for the requiring script
		anc := path.Dir(target)
		for k := r.Intn(3); k > 0 && anc != "/"; k-- {
			anc = path.Dir(anc)
		}
		if r.Chance(25) {
			return topCall{Script: path.Join(anc, "m.js"), Spell: target}, true
		}
		rel := strings.TrimPrefix(strings.TrimPrefix(target, anc), "/")
		if rel == "" {
			rel = "."
		} else {
			rel = "./" + rel
		}
		return topCall{Script: path.Join(anc, "m.js"), Spell: rel}, true
	}
	// templates of interactions that random trees hit too rarely
	if !relRoot && r.Chance(12) {
		d := dirs[r.Intn(3)] + "/" + []string{"pkg", "p", "d"}[r.Intn(3)]
		sub := []string{"lib", "sub", "core"}[r.Intn(3)]
		// a package whose main is a directory that is itself a package: its own package.json must be ignored
		// when it is reached as "main", and used when it is required directly — in either order
		delete(have, path.Clean(d+"/package.json"))
		var kept []fileSpec
		for _, f := range c.Files {
			if f.Path != path.Clean(d+"/package.json") && f.Path != path.Clean(d+"/"+sub+"/package.json") {
				kept = append(kept, f)
			}
		}
		c.Files = kept
		delete(have, path.Clean(d+"/"+sub+"/package.json"))
		add(fileSpec{Path: d + "/package.json", Kind: "PM", Main: []string{sub, "./" + sub, sub + "/"}[r.Intn(2)]})
		add(fileSpec{Path: d + "/" + sub + "/package.json", Kind: "PM", Main: "impl.js"})
		jsFile(d + "/" + sub + "/impl.js")
		if r.Chance(85) {
			jsFile(d + "/" + sub + "/index.js")
		}
		a := topCall{Script: path.Join(path.Dir(d), "m.js"), Spell: "./" + path.Base(d)}
		b := topCall{Script: path.Join(path.Dir(d), "m.js"), Spell: "./" + path.Base(d) + "/" + sub}
		if r.Bool() {
			a, b = b, a
		}
		c.Calls = append(c.Calls, a, b)
		if r.Bool() {
			c.Calls = append(c.Calls, a)
		}
	}
	if g.prop == "C01" && !relRoot && r.Chance(25) {
		// a dependency cycle through A with the back edge spelled in some other way than the entry request,
		// a member that throws at some position, and retries under several spellings
		d := dirs[r.Intn(3)]
		n := 2 + r.Intn(3)
		names := []string{"ca", "cb", "cc", "cd"}[:n]
		spell := func(k int) string {
			return []string{"./" + names[k], "./" + names[k] + ".js", d + "/" + names[k], "./x/../" + names[k]}[r.Intn(4)]
		}
		thrower := r.Intn(n + 1) // n = nobody throws
		for k := 0; k < n; k++ {
			var b []act
			b = append(b, act{K: "S", A: "t1"})
			pos := r.Intn(3)
			if k == thrower && pos == 0 {
				b = append(b, act{K: "T", A: g.throwTok()})
			}
			b = append(b, act{K: "R", A: spell((k + 1) % n), C: r.Chance(30)})
			if r.Chance(50) {
				// the same member again under a spelling that is another request path (with / without the extension):
				// a module that fails afterwards is known under several request keys
				nx := names[(k+1)%n]
				b = append(b, act{K: "R", A: []string{"./" + nx, "./" + nx + ".js"}[r.Intn(2)], C: r.Chance(30)})
				if r.Chance(40) {
					b = append(b, act{K: "R", A: []string{"./" + nx + ".js", d + "/" + nx}[r.Intn(2)], C: r.Chance(30)})
				}
			}
			if k == thrower && pos == 1 {
				b = append(b, act{K: "T", A: g.throwTok()})
			}
			b = append(b, act{K: "S", A: "t2"})
			if k == thrower && pos == 2 {
				b = append(b, act{K: "T", A: g.throwTok()})
			}
			p := path.Clean(d + "/" + names[k] + ".js")
			if !have[p] {
				have[p] = true
				c.Files = append(c.Files, fileSpec{Path: p, Kind: "J", Body: b})
			}
		}
		for i := 0; i < 2+r.Intn(4); i++ {
			c.Calls = append(c.Calls, topCall{Script: path.Join(d, "m.js"), Spell: spell(r.Intn(n))})
		}
		if thrower < n {
			// afterwards every spelling of the member that threw is tried again
			for _, sp := range []string{"./" + names[thrower], "./" + names[thrower] + ".js", d + "/" + names[thrower]} {
				if r.Chance(70) {
					c.Calls = append(c.Calls, topCall{Script: path.Join(d, "m.js"), Spell: sp})
				}
			}
		}
	}
	if g.prop == "C15" && r.Chance(30) {
		// the same name through every table, prefixed and unprefixed, in a random order
		x := []string{"cm1", "cg", "cr", "cgr", "util", "pre", "cm2", "a/b"}[r.Intn(8)]
		if r.Chance(60) && !contains(c.Reg, x) && contains(regPool, x) {
			c.Reg = append(c.Reg, x)
		}
		sp := []string{x, "node:" + x, x, "node:" + x, "node:node:" + x, "./" + x}
		for i := 0; i < 2+r.Intn(4); i++ {
			script := "/app/main.js"
			if relRoot {
				script = "main.js"
			}
			c.Calls = append(c.Calls, topCall{Script: script, Spell: sp[r.Intn(len(sp))]})
		}
	}
	ncalls := 1 + r.Intn(8)
	for i := 0; i < ncalls; i++ {
		if r.Chance(45) {
			if tc, ok := aimed(); ok {
				c.Calls = append(c.Calls, tc)
				continue
			}
		}
		if i > 0 && r.Chance(25) { // retry / repeat an earlier call
			c.Calls = append(c.Calls, c.Calls[r.Intn(len(c.Calls))])
			continue
		}
		d := dirs[r.Intn(len(dirs))]
		var tc topCall
		if r.Chance(12) {
			tc.Script = ""
			tc.Spell = g.spelling(".", relRoot)
		} else {
			tc.Script = path.Join(d, []string{"main.js", "m.js", "s.js"}[r.Intn(3)])
			tc.Spell = g.spelling(d, relRoot)
		}
		c.Calls = append(c.Calls, tc)
	}
	return c
}

func contains(xs []string, x string) bool {
	for _, y := range xs {
		if y == x {
			return true
		}
	}
	return false
}

func (g *gen) regChance() int {
	if g.prop == "C15" {
		return 40
	}
	return 10
}

func emit(w *bufio.Writer, st *hx.Stats, c reqCase) {
	jb, _ := json.Marshal(c)
	out := execCase(c)
	for _, k := range []string{" C ", " X thrown", " X invalid", " X loaderr", " X nobuiltin", " N R", " N G", " N C", " E "} {
		if strings.Contains(" "+out, k) {
			st.Hit("event:" + strings.TrimSpace(k))
		}
	}
	if c.Real && out == "ESCAPED" {
		st.Hit("mode:real-directory-escaped")
		return
	}
	fmt.Fprintf(w, "#REQJSON %s\n", jb)
	fmt.Fprintf(w, "%s => %s\n", lineOf(c), out)
	if !c.Real && realEligible(c) && len(jb)%4 == 0 {
		// the same case on a real directory with the default loader and path resolver
		c.Real = true
		st.Hit("mode:real-directory")
		emit(w, st, c)
	}
}

func main() {
	prop := flag.String("prop", "C01", "C01 | C02 | C15 (generator bias)")
	n := flag.Int("n", 1000, "number of generated cases")
	seed := flag.Uint64("seed", hx.SeedFromEnv(), "PRNG seed")
	corpus := flag.String("corpus", "", "corpus file")
	statsPath := flag.String("stats", "", "stats JSON")
	flag.Parse()
	w := bufio.NewWriterSize(os.Stdout, 1<<20)
	defer w.Flush()
	st := hx.NewStats()
	g := &gen{r: hx.NewRng(*seed), st: st, prop: *prop}
	if *corpus != "" && *prop != "C16" {
		if fh, err := os.Open(*corpus); err == nil {
			sc := bufio.NewScanner(fh)
			sc.Buffer(make([]byte, 1<<20), 1<<26)
			for sc.Scan() {
				line := strings.TrimSpace(sc.Text())
				if strings.HasPrefix(line, "REQJSON ") {
					var c reqCase
					if json.Unmarshal([]byte(line[8:]), &c) == nil {
						st.Hit("source:corpus")
						emit(w, st, c)
					}
				}
			}
			fh.Close()
		}
	}
	if *prop == "C16" {
		if *corpus != "" {
			if fh, err := os.Open(*corpus); err == nil {
				sc := bufio.NewScanner(fh)
				sc.Buffer(make([]byte, 1<<20), 1<<26)
				for sc.Scan() {
					t := strings.Fields(sc.Text())
					if len(t) >= 2 && t[0] == "C16" {
						if t[1] == "-" {
							emitC16(w, st, nil)
						} else if b, err := hex.DecodeString(t[1]); err == nil {
							st.Hit("source:corpus")
							emitC16(w, st, b)
						}
					}
				}
				fh.Close()
			}
		}
		for i := 0; i < *n; i++ {
			emitC16(w, st, g.c16content())
		}
		if *statsPath != "" {
			st.WriteJSON(*statsPath, map[string]interface{}{"seed": *seed})
		}
		return
	}
	for i := 0; i < *n; i++ {
		emit(w, st, g.genCase())
	}
	if *statsPath != "" {
		sort.Strings(coreNames)
		st.WriteJSON(*statsPath, map[string]interface{}{"seed": *seed})
	}
}
