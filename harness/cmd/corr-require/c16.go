package main

import (
	"bufio"
	"encoding/json"
	"fmt"
	"path"
	"strings"

	"github.com/dop251/goja"
	"github.com/dop251/goja_nodejs/require"

	"verifharness/internal/hx"
)

var adversarial = []string{
	"'", "\"", "\\", "\n", "\r", " ", " ", "})", ")(", "*/", "/*", "</script>", "<!--", "-->",
	"');globalThis.__pwned=1;('", "\");globalThis.__pwned=1;(\"", "\\\");globalThis.__pwned=1;(\\\"",
	"\\u0027);globalThis.__pwned=1;(", "${globalThis.__pwned=1}", "`", "\\x27", "\\'", "\x00", "\x08", "\x0c", "\x1f", "\x7f",
	"\U000E0001", "\U0010FFFF", "\U0001F600", "�", "", "é", "&", "<", ">", "\\u2028", "\t",
	"\\", "\\\\", "\\\"", "\\n})", "__proto__", "//", "\n})\n(function(){globalThis.__pwned=1})(",
}

func (g *gen) jsonValue(depth int) interface{} {
	r := g.r
	switch x := r.Intn(10); {
	case x < 3 || depth > 2:
		return g.jsonString()
	case x < 4:
		return float64(r.Intn(2000)-1000) / 4
	case x < 5:
		return []interface{}{nil, true, false}[r.Intn(3)]
	case x < 7:
		n := r.Intn(4)
		a := make([]interface{}, n)
		for i := range a {
			a[i] = g.jsonValue(depth + 1)
		}
		return a
	default:
		n := r.Intn(4)
		m := map[string]interface{}{}
		for i := 0; i < n; i++ {
			m[g.jsonString()] = g.jsonValue(depth + 1)
		}
		return m
	}
}

func (g *gen) jsonString() string {
	r := g.r
	n := r.Intn(6)
	var sb strings.Builder
	for i := 0; i < n; i++ {
		switch x := r.Intn(10); {
		case x < 4:
			sb.WriteString(adversarial[r.Intn(len(adversarial))])
		case x < 6:
			sb.WriteRune(rune(r.Intn(0x80)))
		case x < 8:
			c := rune(r.Intn(0x110000))
			if c >= 0xD800 && c < 0xE000 {
				c = 0xFFFD
			}
			sb.WriteRune(c)
		default:
			sb.WriteString([]string{"a", "key", "1", " "}[r.Intn(4)])
		}
	}
	return sb.String()
}

func (g *gen) c16content() []byte {
	b := g.c16body()
	// what a loader may put in front of or behind the document: a byte order mark, white space JSON allows and white
	// space only JavaScript allows (JSON.parse rejects U+FEFF, U+00A0, U+2028 outside strings, form feed, vertical tab)
	if g.r.Chance(8) {
		pre := []string{"\xEF\xBB\xBF", " \t\r\n", "\xC2\xA0", "\x0c", "\x0b", "\xE2\x80\xA8", "\xEF\xBB\xBF\xEF\xBB\xBF"}[g.r.Intn(7)]
		g.st.Hit("content:prefix")
		if g.r.Chance(70) {
			return append([]byte(pre), b...)
		}
		return append(b, []byte(pre)...)
	}
	return b
}

func (g *gen) c16body() []byte {
	r := g.r
	switch x := r.Intn(100); {
	case x < 50: // valid JSON (Go's encoder, HTML escaping off so raw <, >, & and U+2028 stay in the text)
		var sb strings.Builder
		enc := json.NewEncoder(&sb)
		enc.SetEscapeHTML(false)
		enc.Encode(g.jsonValue(0))
		s := strings.TrimSuffix(sb.String(), "\n")
		if r.Chance(30) { // un-escape U+2028/9 which Go always escapes
			s = strings.ReplaceAll(s, "\\u2028", " ")
			s = strings.ReplaceAll(s, "\\u2029", " ")
		}
		g.st.Hit("content:valid-json")
		return []byte(s)
	case x < 65: // near-JSON
		b, _ := json.Marshal(g.jsonValue(1))
		s := string(b)
		switch r.Intn(5) {
		case 0:
			s = strings.Replace(s, "]", ",]", 1)
		case 1:
			s = s + " // comment"
		case 2:
			s = strings.ReplaceAll(s, "\"", "'")
		case 3:
			s = s + s
		default:
			s = "{" + s
		}
		g.st.Hit("content:near-json")
		return []byte(s)
	case x < 90: // adversarial text assembled from the wrapper's delimiters
		n := 1 + r.Intn(6)
		var sb strings.Builder
		for i := 0; i < n; i++ {
			sb.WriteString(adversarial[r.Intn(len(adversarial))])
			if r.Chance(30) {
				sb.WriteString("1")
			}
		}
		g.st.Hit("content:adversarial")
		if r.Chance(40) { // … inside a JSON string, so that it is *valid* JSON containing hostile characters
			b, _ := json.Marshal(sb.String())
			return b
		}
		return []byte(sb.String())
	default: // arbitrary bytes, possibly ill-formed UTF-8
		g.st.Hit("content:bytes")
		return g.r.Bytes(r.Intn(12))
	}
}

func c16outcome(vm *goja.Runtime, f func() (goja.Value, error)) (out string) {
	defer func() {
		if r := recover(); r != nil {
			out = "PANIC"
		}
	}()
	v, err := f()
	if err != nil {
		if ex, ok := err.(*goja.Exception); ok {
			if o, ok := ex.Value().(*goja.Object); ok {
				if n := o.Get("name"); n != nil {
					return "throw:" + n.String()
				}
			}
			return "throw:other"
		}
		return "throw:goerror"
	}
	str, _ := goja.AssertFunction(vm.Get("JSON").ToObject(vm).Get("stringify"))
	s, err := str(goja.Undefined(), v)
	if err != nil {
		return "stringify-throw"
	}
	return "ok:" + hs(s.String())
}

// c16Shapes: how the .json file is named and reached (file name -> request); what makes a file JSON is its last extension
var c16Shapes = []struct{ file, request, pkgJSON string }{
	{"/d/data.json", "/d/data.json", ""},
	{"/d/data.json", "/d/data", ""},                    // extension search
	{"/d/config.prod.json", "/d/config.prod.json", ""}, // more than one dot in the name
	{"/d/.eslintrc.json", "/d/.eslintrc.json", ""},
	{"/d/payload.min.json", "/d/payload.min", ""},
	{"/d/pkg/lib/main.cfg.json", "/d/pkg", `{"main":"lib/main.cfg.json"}`},
	{"/d/dir.json/index.json", "/d/dir.json", ""},
	{"/d/pkg2/index.json", "/d/pkg2", ""},
}

var c16ShapeCounter int

func emitC16(w *bufio.Writer, st *hx.Stats, content []byte) {
	vm := goja.New()
	shape := c16Shapes[c16ShapeCounter%len(c16Shapes)]
	c16ShapeCounter++
	st.Hit("shape:" + shape.file)
	reg := require.NewRegistry(require.WithLoader(func(p string) ([]byte, error) {
		if p == shape.file {
			return content, nil
		}
		if shape.pkgJSON != "" && p == shape.request+"/package.json" {
			return []byte(shape.pkgJSON), nil
		}
		return nil, require.ModuleFileDoesNotExistError
	}), require.WithPathResolver(func(base, p string) string { return path.Join(base, p) }))
	rm := reg.Enable(vm)
	vm.RunString(`globalThis.__sentinel = 42; var __before = Object.getOwnPropertyNames(globalThis).sort().join(",");`)
	impl := c16outcome(vm, func() (goja.Value, error) { return rm.Require(shape.request) })
	ref := c16outcome(vm, func() (goja.Value, error) {
		parse, _ := goja.AssertFunction(vm.Get("JSON").ToObject(vm).Get("parse"))
		return parse(goja.Undefined(), vm.ToValue(string(content)))
	})
	sv, err := vm.RunString(`__sentinel === 42 && typeof __pwned === "undefined" && Object.getOwnPropertyNames(globalThis).sort().join(",") === __before`)
	sent := "0"
	if err == nil && sv.ToBoolean() {
		sent = "1"
	}
	q, _ := json.Marshal(string(content))
	fmt.Fprintf(w, "C16 %s => Q %s I %s R %s S %s\n", hx.Hex(content), hx.Hex(q), impl, ref, sent)
	st.Hit("outcome:" + strings.SplitN(impl, ":", 2)[0])
}
