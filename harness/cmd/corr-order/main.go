// corr-order: correspondence harness for C18 (callback order seen by JavaScript).
//
// A generated program (a table of callback bodies over log / promise.then / setImmediate / setTimeout /
// setInterval / clear / throw) runs on the real event loop through loop.Run; every scheduling and every callback
// begin/end is logged from JavaScript with a unique instance id.  The Lean driver checks the log against the
// program-independent partial order and, for timer-free programs, against the model's exact log.
package main

import (
	"bufio"
	"encoding/json"
	"flag"
	"fmt"
	"os"
	"strings"
	"time"

	"github.com/dop251/goja"
	"github.com/dop251/goja_nodejs/console"
	"github.com/dop251/goja_nodejs/eventloop"
	"github.com/dop251/goja_nodejs/require"

	"verifharness/internal/hx"
)

type act struct {
	K string `json:"k"` // log then imm st si clr throw
	A int    `json:"a"` // callback id / slot
	D int    `json:"d"` // delay ms
	N int    `json:"n"` // interval: number of ticks before it clears itself
	H int    `json:"h"` // handle slot
}

type program struct {
	Cbs [][]act `json:"cbs"`
	Con bool    `json:"con,omitempty"` // the loop's console is enabled (messages go to a printer that discards them)
}

// console output of the programs is discarded (stdout carries the line protocol)
type nullPrinter struct{}

func (nullPrinter) Log(string)   {}
func (nullPrinter) Warn(string)  {}
func (nullPrinter) Error(string) {}

const prelude = `
var LOG = [], NEXT = 1, H = {}, HID = {};
function sched(kind, k, parent) { var id = NEXT++; LOG.push("s:" + kind + ":" + id + ":" + parent + ":" + k); return id; }
function run(k, id, kind) {
  LOG.push("b:" + id + ":" + kind);
  try { body(k, id); } finally { LOG.push("e:" + id); }
}
function body(k, me) {
  var acts = PROG[k] || [];
  for (var i = 0; i < acts.length; i++) {
    var a = acts[i];
    switch (a.k) {
      case "log": LOG.push("l:" + me); break;
      case "slp": __sleep(a.d); LOG.push("l:" + me); break;
      case "then": (function (a) { var id = sched("p", a.a, me); Promise.resolve().then(function () { run(a.a, id, "p"); }); })(a); break;
      case "imm": (function (a) { var id = sched("i", a.a, me); H[a.h] = setImmediate(function () { run(a.a, id, "i"); }); HID[a.h] = id; })(a); break;
      case "st": (function (a) { var id = sched("t", a.a, me); H[a.h] = setTimeout(function () { run(a.a, id, "t"); }, a.d); HID[a.h] = id; })(a); break;
      case "si": (function (a) {
          var id = sched("v", a.a, me), n = 0;
          var h = setInterval(function () {
            n++;
            try { run(a.a, id, "v"); } finally { if (n >= a.n) { LOG.push("c:" + id); clearInterval(h); } }
          }, a.d);
          H[a.h] = h; HID[a.h] = id;
        })(a); break;
      case "clr":
        if (H[a.a] !== undefined) { LOG.push("c:" + HID[a.a]); clearTimeout(H[a.a]); clearImmediate(H[a.a]); clearInterval(H[a.a]); }
        break;
      case "throw": LOG.push("x:" + me);
        switch (a.d) { case 1: throw null; case 2: throw undefined; case 3: throw 0; case 4: throw ""; case 5: throw {};
          case 6: throw Symbol("s"); case 7: throw { toString: function () { throw new Error("ts"); } }; default: throw new Error("boom"); }
    }
  }
}
`

func execProgram(p program) (out string) {
	defer func() {
		if r := recover(); r != nil {
			out = strings.ReplaceAll(fmt.Sprintf("PANIC %v", r), " ", "_")
		}
	}()
	var loop *eventloop.EventLoop
	if p.Con {
		reg := require.NewRegistry()
		reg.RegisterNativeModule("console", console.RequireWithPrinter(nullPrinter{}))
		loop = eventloop.NewEventLoop(eventloop.WithRegistry(reg))
	} else {
		loop = eventloop.NewEventLoop(eventloop.EnableConsole(false))
	}
	var log []string
	done := make(chan struct{})
	go func() {
		defer close(done)
		defer func() {
			if r := recover(); r != nil {
				log = []string{"PANIC"}
			}
		}()
		loop.Run(func(vm *goja.Runtime) {
			// a callback that keeps the loop busy while other timers expire
			vm.Set("__sleep", func(ms int) { time.Sleep(time.Duration(ms) * time.Millisecond) })
			jb, _ := json.Marshal(p.Cbs)
			if _, err := vm.RunString("var PROG = " + string(jb) + ";"); err != nil {
				panic(err)
			}
			if _, err := vm.RunString(prelude); err != nil {
				panic(err)
			}
			vm.RunString(`var id0 = sched("m", 0, 0); try { run(0, id0, "m"); } catch (e) {}`)
		})
		loop.Run(func(vm *goja.Runtime) {
			v, _ := vm.RunString(`LOG.join(" ")`)
			log = strings.Fields(v.String())
		})
	}()
	select {
	case <-done:
	case <-time.After(5 * time.Second):
		loop.StopNoWait()
		return "HANG"
	}
	return strings.Join(log, " ")
}

func lineOf(p program) string {
	t := []string{"C18", fmt.Sprint(len(p.Cbs))}
	for _, b := range p.Cbs {
		t = append(t, fmt.Sprint(len(b)))
		for _, a := range b {
			t = append(t, fmt.Sprintf("%s:%d:%d:%d:%d", a.K, a.A, a.D, a.N, a.H))
		}
	}
	return strings.Join(t, " ")
}

type gen struct {
	r  *hx.Rng
	st *hx.Stats
}

// wide: many immediates requested in one synchronous block, some of which request further immediates and
// reactions (exercises batches longer than any fixed bound and the position of nested requests)
func (g *gen) wide() program {
	r := g.r
	n := 12 + r.Intn(8)
	if r.Chance(12) {
		// beyond any batch size an implementation might choose (64, 128, 256 ...)
		n = 130 + r.Intn(400)
		g.st.Hit("program:very-wide")
	}
	var p program
	var main []act
	for i := 1; i < n; i++ {
		main = append(main, act{K: "imm", A: i, H: r.Intn(3)})
		if r.Chance(15) {
			main = append(main, act{K: "then", A: 1 + r.Intn(n-1)})
		}
	}
	p.Cbs = append(p.Cbs, main)
	for k := 1; k < n; k++ {
		var b []act
		if r.Chance(35) && k+1 < n {
			b = append(b, act{K: "imm", A: k + 1 + r.Intn(n-k-1), H: r.Intn(3)})
		}
		if r.Chance(25) && k+1 < n {
			b = append(b, act{K: "then", A: k + 1 + r.Intn(n-k-1)})
		}
		if r.Chance(10) {
			b = append(b, act{K: "throw"})
		} else {
			b = append(b, act{K: "log"})
		}
		p.Cbs = append(p.Cbs, b)
	}
	// nested callbacks must not schedule forever: callbacks only point forward (k+1..n-1), the last ones are leaves
	g.st.Hit("program:wide")
	return p
}

// busy: a callback blocks long enough for other timers to expire and queue up behind it, then clears one of them
// (or an interval), schedules reactions and logs: whatever has expired meanwhile must wait for the end of this
// synchronous block and for the reactions
func (g *gen) busy() program {
	r := g.r
	var p program
	main := []act{{K: "st", A: 1, D: 0, H: 0}}
	for _, k := range []int{2, 3, 4} {
		if r.Chance(25) {
			main = append(main, act{K: "si", A: k, D: 1 + r.Intn(2), N: 1 + r.Intn(2), H: k - 1})
		} else {
			main = append(main, act{K: "st", A: k, D: 1 + r.Intn(4), H: k - 1})
		}
	}
	if r.Chance(40) {
		main = append(main, act{K: "imm", A: 5, H: 0})
	}
	p.Cbs = append(p.Cbs, main)
	b := []act{{K: "slp", D: 8 + r.Intn(8)}}
	if r.Chance(60) {
		b = append(b, act{K: "then", A: 5})
	}
	b = append(b, act{K: "log"}, act{K: "clr", A: 1 + r.Intn(3)})
	if r.Chance(50) {
		b = append(b, act{K: "clr", A: 1 + r.Intn(3)})
	}
	if r.Chance(40) {
		b = append(b, act{K: "then", A: 5})
	}
	b = append(b, act{K: "log"})
	p.Cbs = append(p.Cbs, b)
	for k := 2; k <= 5; k++ {
		c := []act{{K: "log"}}
		if k < 5 && r.Chance(30) {
			c = append(c, act{K: "slp", D: 3 + r.Intn(4)}, act{K: "clr", A: 1 + r.Intn(3)}, act{K: "log"})
		}
		p.Cbs = append(p.Cbs, c)
	}
	g.st.Hit("program:busy")
	return p
}

func (g *gen) program() program {
	r := g.r
	if r.Chance(15) {
		return g.wide()
	}
	if r.Chance(15) {
		return g.busy()
	}
	n := 4 + r.Intn(6)
	timers := r.Chance(60)
	var p program
	for k := 0; k < n; k++ {
		var b []act
		m := r.Intn(5)
		if k == 0 {
			m = 2 + r.Intn(4)
		}
		for i := 0; i < m; i++ {
			// a callback only schedules callbacks with a larger id: programs terminate
			tgt := k + 1 + r.Intn(n-k)
			if tgt >= n {
				b = append(b, act{K: "log"})
				continue
			}
			switch x := r.Intn(100); {
			case x < 15:
				b = append(b, act{K: "log"})
			case x < 45:
				b = append(b, act{K: "then", A: tgt})
			case x < 70:
				b = append(b, act{K: "imm", A: tgt, H: r.Intn(3)})
			case x < 82 && timers:
				b = append(b, act{K: "st", A: tgt, D: r.Intn(3), H: r.Intn(3)})
			case x < 88 && timers:
				b = append(b, act{K: "si", A: tgt, D: r.Intn(2), N: 1 + r.Intn(2), H: r.Intn(3)})
			case x < 94:
				b = append(b, act{K: "clr", A: r.Intn(3)})
			case x < 98:
				b = append(b, act{K: "throw", D: []int{0, 0, 0, 1, 2, 3, 4, 5, 6, 7}[r.Intn(10)]})
				i = m
			default:
				b = append(b, act{K: "log"})
			}
		}
		p.Cbs = append(p.Cbs, b)
	}
	if timers {
		g.st.Hit("program:with-timers")
	} else {
		g.st.Hit("program:deterministic")
	}
	return p
}

func main() {
	n := flag.Int("n", 100, "number of generated programs")
	seed := flag.Uint64("seed", hx.SeedFromEnv(), "PRNG seed")
	corpus := flag.String("corpus", "", "corpus file")
	statsPath := flag.String("stats", "", "stats JSON")
	flag.String("prop", "C18", "")
	flag.Parse()
	w := bufio.NewWriterSize(os.Stdout, 1<<20)
	defer w.Flush()
	st := hx.NewStats()
	g := &gen{r: hx.NewRng(*seed), st: st}
	emit := func(p program) {
		jb, _ := json.Marshal(p)
		fmt.Fprintf(w, "#C18JSON %s\n%s => %s\n", jb, lineOf(p), execProgram(p))
	}
	if *corpus != "" {
		if fh, err := os.Open(*corpus); err == nil {
			s := bufio.NewScanner(fh)
			s.Buffer(make([]byte, 1<<20), 1<<26)
			for s.Scan() {
				line := strings.TrimSpace(s.Text())
				if strings.HasPrefix(line, "C18JSON ") {
					var p program
					if json.Unmarshal([]byte(line[8:]), &p) == nil {
						st.Hit("source:corpus")
						emit(p)
					}
				}
			}
			fh.Close()
		}
	}
	for i := 0; i < *n; i++ {
		pr := g.program()
		pr.Con = g.r.Chance(50)
		if pr.Con {
			st.Hit("console:enabled")
		}
		emit(pr)
	}
	if *statsPath != "" {
		st.WriteJSON(*statsPath, map[string]interface{}{"seed": *seed})
	}
}
