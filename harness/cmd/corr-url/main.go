// corr-url: correspondence harness for URLSearchParams (C12) and URL (C13, C14).
package main

import (
	"bufio"
	"encoding/json"
	"flag"
	"fmt"
	"os"
	"strings"

	"github.com/dop251/goja"
	"github.com/dop251/goja_nodejs/require"
	"github.com/dop251/goja_nodejs/url"

	"verifharness/internal/hx"
)

const prelude = `
var __hexd = "0123456789abcdef";
function hx(s) {
  s = String(s);
  if (s.length === 0) return "-";
  var out = "";
  function b(x) { out += __hexd[x >> 4] + __hexd[x & 15]; }
  for (var i = 0; i < s.length; i++) {
    var c = s.charCodeAt(i);
    if (c >= 0xd800 && c < 0xdc00 && i + 1 < s.length) {
      var d = s.charCodeAt(i + 1);
      if (d >= 0xdc00 && d < 0xe000) { c = 0x10000 + ((c - 0xd800) << 10) + (d - 0xdc00); i++; }
    }
    if (c >= 0xd800 && c < 0xe000) c = 0xfffd;
    if (c < 0x80) b(c);
    else if (c < 0x800) { b(0xc0 | (c >> 6)); b(0x80 | (c & 63)); }
    else if (c < 0x10000) { b(0xe0 | (c >> 12)); b(0x80 | ((c >> 6) & 63)); b(0x80 | (c & 63)); }
    else { b(0xf0 | (c >> 18)); b(0x80 | ((c >> 12) & 63)); b(0x80 | ((c >> 6) & 63)); b(0x80 | (c & 63)); }
  }
  return out;
}
function __obs(res, p) {
  var e = Array.from(p);
  var ts = p.toString();
  var q = Array.from(new URLSearchParams(ts));
  var f = [];
  p.forEach(function (v, k, self) { f.push([k, v]); if (self !== p) f.push("self"); });
  var rt = JSON.stringify(q) === JSON.stringify(e) ? "rt:1" : "rt:0";
  if (JSON.stringify(f) !== JSON.stringify(e)) rt = "rt:F";
  var t = [res, rt, String(p.size)];
  e.forEach(function (x) { t.push(hx(x[0]), hx(x[1])); });
  t.push(hx(ts));
  return t.join(" ");
}
function __runC12(ctor, ops) {
  var p, other;
  switch (ctor[0]) {
    case "CN": p = new URLSearchParams(); break;
    case "CS": p = new URLSearchParams(ctor[1]); break;
    case "CR": { var o = {}; ctor[1].forEach(function (kv) { o[kv[0]] = kv[1]; }); p = new URLSearchParams(o); break; }
    case "CP": p = new URLSearchParams(ctor[1]); break;
    case "CU": p = new URLSearchParams(new URLSearchParams(ctor[1])); break;
    case "CC": other = new URLSearchParams(ctor[1]); p = new URLSearchParams(other); break;
  }
  var out = [__obs("-", p)];
  var iters = [];
  ops.forEach(function (op) {
    var res = "-";
    switch (op[0]) {
      case "A": p.append(op[1], op[2]); break;
      case "D1": p.delete(op[1]); break;
      case "D2": p.delete(op[1], op[2]); break;
      case "DU": p.delete(op[1], undefined); break;
      case "S": p.set(op[1], op[2]); break;
      case "O": p.sort(); break;
      case "X": if (other) { var t = p; p = other; other = t; } break;
      case "FM": {
        var cnt = 0, vis = [];
        p.forEach(function (v, k) {
          vis.push(hx(k) + "=" + hx(v));
          if (cnt === op[1]) { if (op[2] === 0) p.append(op[3], op[4]); else if (op[2] === 1) p.delete(op[3]); else p.set(op[3], op[4]); }
          cnt++;
        });
        res = "m" + vis.join(",");
        break;
      }
      case "G": { var g = p.get(op[1]); res = g === null ? "n" : "v" + hx(g); break; }
      case "L": res = "l" + p.getAll(op[1]).map(hx).join(","); break;
      case "H1": res = p.has(op[1]) ? "t" : "f"; break;
      case "HU": res = p.has(op[1], undefined) ? "t" : "f"; break;
      case "H2": res = p.has(op[1], op[2]) ? "t" : "f"; break;
      case "IK": iters.push([0, p.keys()]); break;
      case "IV": iters.push([1, p.values()]); break;
      case "IE": iters.push([2, op[1] ? p[Symbol.iterator]() : p.entries()]); break;
      case "N": {
        var it = iters[op[1]];
        if (!it) { res = "noiter"; break; }
        var r = it[1].next();
        if (r.done) res = "d";
        else if (it[0] === 0) res = "k" + hx(r.value);
        else if (it[0] === 1) res = "v" + hx(r.value);
        else res = "e" + hx(r.value[0]) + "," + hx(r.value[1]);
        break;
      }
    }
    out.push(__obs(res, p));
  });
  return out.join(" ");
}
`

type env struct {
	vm     *goja.Runtime
	runC12 goja.Callable
	rng    *hx.Rng
	st     *hx.Stats
}

func newEnv(seed uint64) *env {
	vm := goja.New()
	new(require.Registry).Enable(vm)
	url.Enable(vm)
	if _, err := vm.RunString(prelude); err != nil {
		panic(err)
	}
	e := &env{vm: vm, rng: hx.NewRng(seed), st: hx.NewStats()}
	e.runC12, _ = goja.AssertFunction(vm.Get("__runC12"))
	return e
}

func hs(s string) string { return hx.Hex([]byte(s)) }

var words = []string{"a", "b", "A", "", "a b", "é", "é", "%", "+", "&", "=", "?", "a+b", "ä", "z", "😀", "%41", "%zz", "1", "c", "#", "/", "x=y", "~", "*", " ",
	// the URL standard sorts by UTF-16 code units: characters beyond U+FFFF sort before U+E000..U+FFFF
	"\uffff", "\ue000", "\U00010000", "a\U00010000", "a\uffff", "\ufffd"}

func (e *env) word() string {
	if e.rng.Chance(60) {
		return words[e.rng.Intn(8)] // small alphabet: many duplicates
	}
	if e.rng.Chance(15) {
		return words[e.rng.Intn(len(words))] + words[e.rng.Intn(len(words))]
	}
	return words[e.rng.Intn(len(words))]
}

var queryPieces = []string{"a=1", "b=2", "a=3", "&", "&", "&&", "?", "%41", "%4", "%zz", "%", "+", "=", "a", "é", "%c3%a9", "%C3%A9", "%ff", "%e2%82", "b=2=3", "=x", "x=", "%26", "%3D", "%2B", "%25", " ", "#h", "a+b=c+d",
	// characters next to the three hex ranges, in either digit position
	"%g1", "%1g", "%G0", "%0G", "%/0", "%0/", "%:0", "%0:", "%@A", "%A@", "%`a", "%a`", "%fF", "%Ff"}

func (e *env) queryString() string {
	var sb strings.Builder
	if e.rng.Chance(30) {
		sb.WriteString("?")
		if e.rng.Chance(20) {
			sb.WriteString("?")
		}
	}
	n := e.rng.Intn(8)
	for i := 0; i < n; i++ {
		sb.WriteString(queryPieces[e.rng.Intn(len(queryPieces))])
		if e.rng.Chance(50) {
			sb.WriteString("&")
		}
	}
	return sb.String()
}

type c12case struct {
	Ctor []interface{}   `json:"ctor"`
	Ops  [][]interface{} `json:"ops"`
}

func (e *env) genPairs(distinctKeys bool) [][]string {
	n := e.rng.Intn(6)
	var out [][]string
	seen := map[string]bool{}
	for i := 0; i < n; i++ {
		k := e.word()
		if distinctKeys {
			// record keys: distinct, and not array-index-like (JS would reorder those)
			if seen[k] || (len(k) > 0 && k[0] >= '0' && k[0] <= '9') {
				continue
			}
			seen[k] = true
		}
		out = append(out, []string{k, e.word()})
	}
	return out
}

func (e *env) genC12() c12case {
	var c c12case
	switch e.rng.Intn(10) {
	case 0:
		c.Ctor = []interface{}{"CN"}
	case 1, 2, 3:
		c.Ctor = []interface{}{"CS", e.queryString()}
	case 4:
		c.Ctor = []interface{}{"CR", e.genPairs(true)}
	case 5, 6, 7:
		c.Ctor = []interface{}{"CP", e.genPairs(false)}
	case 8:
		c.Ctor = []interface{}{"CU", e.genPairs(false)}
	default:
		// a copy next to its source: operations on one must not show in the other
		ps := e.genPairs(false)
		for len(ps) < 3 {
			ps = append(ps, []string{e.word(), e.word()})
		}
		c.Ctor = []interface{}{"CC", ps}
	}
	e.st.Hit("ctor:" + c.Ctor[0].(string))
	if e.rng.Chance(12) {
		// an iterator is an index into the live list: advance it, shrink the list below its position, ask again,
		// let the list grow again, ask again
		ps := [][]string{{"a", "1"}, {"b", "2"}, {"a", "3"}, {"c", "4"}}[:2+e.rng.Intn(3)]
		c.Ctor = []interface{}{"CP", ps}
		c.Ops = append(c.Ops, []interface{}{[]string{"IK", "IV", "IE"}[e.rng.Intn(3)], e.rng.Bool()})
		for i := 0; i < 1+e.rng.Intn(len(ps)+1); i++ {
			c.Ops = append(c.Ops, []interface{}{"N", 0})
		}
		for round := 0; round < 2+e.rng.Intn(3); round++ {
			switch e.rng.Intn(4) {
			case 0:
				c.Ops = append(c.Ops, []interface{}{"D1", []string{"a", "b", "c"}[e.rng.Intn(3)]})
			case 1:
				c.Ops = append(c.Ops, []interface{}{"S", "a", "9"})
			case 2:
				c.Ops = append(c.Ops, []interface{}{"D1", "a"}, []interface{}{"D1", "b"}, []interface{}{"D1", "c"})
			default:
				c.Ops = append(c.Ops, []interface{}{"A", e.word(), e.word()})
			}
			c.Ops = append(c.Ops, []interface{}{"N", 0})
			if e.rng.Chance(60) {
				c.Ops = append(c.Ops, []interface{}{"A", e.word(), e.word()}, []interface{}{"N", 0})
			}
		}
		c.Ops = append(c.Ops, []interface{}{"N", 0})
		e.st.Hit("template:iterator-shrink-grow")
		return c
	}
	if e.rng.Chance(6) {
		// a long list with few distinct names, sorted: stability only shows beyond the sizes an implementation may
		// special-case (library sorts switch algorithm at 12 elements and again around 50)
		n := 13 + e.rng.Intn(60)
		names := []string{"b", "a", "c", "é", "a b", "", "B"}[:2+e.rng.Intn(6)]
		if e.rng.Chance(30) {
			names = []string{"\uffff", "\U00010000", "😀", "\ue000", "z"}[:2+e.rng.Intn(4)]
		}
		var ps [][]string
		for i := 0; i < n; i++ {
			ps = append(ps, []string{names[e.rng.Intn(len(names))], fmt.Sprintf("v%d", i)})
		}
		c.Ctor = []interface{}{"CP", ps}
		if e.rng.Chance(40) {
			c.Ops = append(c.Ops, []interface{}{"A", e.word(), e.word()})
		}
		c.Ops = append(c.Ops, []interface{}{"O"}, []interface{}{"L", names[0]}, []interface{}{"IE", false}, []interface{}{"N", 0})
		if e.rng.Chance(50) {
			c.Ops = append(c.Ops, []interface{}{"D1", names[len(names)-1]}, []interface{}{"O"})
		}
		e.st.Hit("template:long-sort")
		return c
	}
	nops := e.rng.Intn(16)
	niter := 0
	for i := 0; i < nops; i++ {
		var op []interface{}
		if c.Ctor[0].(string) == "CC" && e.rng.Chance(18) {
			c.Ops = append(c.Ops, []interface{}{"X"})
			e.st.Hit("op:X")
			continue
		}
		if e.rng.Chance(6) {
			// forEach whose callback changes the list while it is being walked
			c.Ops = append(c.Ops, []interface{}{"FM", e.rng.Intn(4), e.rng.Intn(3), e.word(), e.word()})
			e.st.Hit("op:FM")
			continue
		}
		switch x := e.rng.Intn(100); {
		case x < 20:
			op = []interface{}{"A", e.word(), e.word()}
		case x < 30:
			op = []interface{}{"D1", e.word()}
		case x < 38:
			op = []interface{}{"D2", e.word(), e.word()}
		case x < 41:
			op = []interface{}{"DU", e.word()}
		case x < 56:
			op = []interface{}{"S", e.word(), e.word()}
		case x < 64:
			op = []interface{}{"O"}
		case x < 70:
			op = []interface{}{"G", e.word()}
		case x < 75:
			op = []interface{}{"L", e.word()}
		case x < 79:
			op = []interface{}{"H1", e.word()}
		case x < 83:
			op = []interface{}{"H2", e.word(), e.word()}
		case x < 85:
			op = []interface{}{"HU", e.word()}
		case x < 91:
			op = []interface{}{[]string{"IK", "IV", "IE"}[e.rng.Intn(3)], e.rng.Bool()}
			niter++
		default:
			if niter == 0 {
				op = []interface{}{"IE", false}
				niter++
			} else {
				op = []interface{}{"N", e.rng.Intn(niter)}
			}
		}
		e.st.Hit("op:" + op[0].(string))
		c.Ops = append(c.Ops, op)
	}
	return c
}

func lineOfC12(c c12case) string {
	t := []string{"C12", c.Ctor[0].(string)}
	switch c.Ctor[0].(string) {
	case "CS":
		t = append(t, hs(c.Ctor[1].(string)))
	case "CR", "CP", "CU", "CC":
		ps := toPairs(c.Ctor[1])
		t = append(t, fmt.Sprint(len(ps)))
		for _, p := range ps {
			t = append(t, hs(p[0]), hs(p[1]))
		}
	}
	t = append(t, fmt.Sprint(len(c.Ops)))
	for _, op := range c.Ops {
		name := op[0].(string)
		switch name {
		case "IK", "IV", "IE", "O", "X":
			t = append(t, name)
		case "N":
			t = append(t, "N", fmt.Sprint(toInt(op[1])))
		case "FM":
			t = append(t, "FM", fmt.Sprint(toInt(op[1])), fmt.Sprint(toInt(op[2])), hs(op[3].(string)), hs(op[4].(string)))
		default:
			t = append(t, name)
			for _, a := range op[1:] {
				t = append(t, hs(a.(string)))
			}
		}
	}
	return strings.Join(t, " ")
}

func toInt(x interface{}) int {
	switch v := x.(type) {
	case int:
		return v
	case float64:
		return int(v)
	}
	return 0
}

func toPairs(x interface{}) [][]string {
	switch v := x.(type) {
	case [][]string:
		return v
	case []interface{}:
		var out [][]string
		for _, p := range v {
			pp := p.([]interface{})
			out = append(out, []string{pp[0].(string), pp[1].(string)})
		}
		return out
	}
	return nil
}

func (e *env) execC12(c c12case) (out string) {
	defer func() {
		if r := recover(); r != nil {
			out = fmt.Sprintf("PANIC %v", r)
			out = strings.ReplaceAll(out, "\n", " ")
		}
	}()
	// the record constructor must see keys in the order given: pass pairs and let JS build the object
	res, err := e.runC12(goja.Undefined(), e.vm.ToValue(c.Ctor), e.vm.ToValue(c.Ops))
	if err != nil {
		return "THROW " + strings.ReplaceAll(err.Error(), "\n", " ")
	}
	return res.String()
}

func (e *env) emitC12(w *bufio.Writer, c c12case) {
	jb, _ := json.Marshal(c)
	fmt.Fprintf(w, "#C12JSON %s\n", jb)
	fmt.Fprintf(w, "%s => %s\n", lineOfC12(c), e.execC12(c))
}

func readCorpus(path string, f func(line string)) {
	if path == "" {
		return
	}
	fh, err := os.Open(path)
	if err != nil {
		return
	}
	defer fh.Close()
	sc := bufio.NewScanner(fh)
	sc.Buffer(make([]byte, 1<<20), 1<<26)
	for sc.Scan() {
		f(strings.TrimSpace(sc.Text()))
	}
}

func main() {
	prop := flag.String("prop", "C12", "C12 | C13 | C14")
	n := flag.Int("n", 1000, "number of generated cases")
	seed := flag.Uint64("seed", hx.SeedFromEnv(), "PRNG seed")
	corpus := flag.String("corpus", "", "corpus file")
	statsPath := flag.String("stats", "", "stats JSON")
	flag.Parse()
	w := bufio.NewWriterSize(os.Stdout, 1<<20)
	defer w.Flush()
	e := newEnv(*seed)
	switch *prop {
	case "C12":
		readCorpus(*corpus, func(line string) {
			if strings.HasPrefix(line, "C12JSON ") {
				var c c12case
				if json.Unmarshal([]byte(line[8:]), &c) == nil && len(c.Ctor) > 0 {
					e.st.Hit("source:corpus")
					e.emitC12(w, c)
				}
			}
		})
		for i := 0; i < *n; i++ {
			e.emitC12(w, e.genC12())
		}
	case "C13":
		runC13(e, w, *n, *corpus)
	case "C14":
		runC14(e, w, *n, *corpus)
	default:
		fmt.Fprintln(os.Stderr, "unknown -prop")
		os.Exit(2)
	}
	if *statsPath != "" {
		e.st.WriteJSON(*statsPath, map[string]interface{}{"seed": *seed})
	}
}
