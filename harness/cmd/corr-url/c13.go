package main

import "bufio"

func runC13(e *env, w *bufio.Writer, n int, corpus string) {}
func runC14(e *env, w *bufio.Writer, n int, corpus string) {}
