package main

// C13 (a URL object stays coherent under every setter / searchParams history) and
// C14 (new URL(reference, base) is RFC 3986 / WHATWG resolution): generators and the JS side of the line protocol.

import (
	"bufio"
	"encoding/json"
	"fmt"
	"strings"

	"github.com/dop251/goja"
)

const preludeURL = `
function __thr(e) {
  var m = (e && e.message !== undefined) ? String(e.message) : String(e);
  var known = {"Invalid URL":1, "Invalid base URL":1, "URL is not absolute":1, "Invalid hostname":1};
  if (!known[m]) m = "other:" + hx(m);
  return "T:" + m.replace(/ /g, "_");
}
function __obsU(u, sp, order) {
  var g = {};
  var readers = {
    href: function () { return u.href; }, ts: function () { return u.toString(); },
    tj: function () { return u.toJSON(); }, search: function () { return u.search; }
  };
  var ord = [["href", "ts", "tj", "search"], ["ts", "href", "search", "tj"], ["search", "tj", "ts", "href"],
             ["tj", "search", "href", "ts"]][order % 4];
  function rest() {
    g.protocol = u.protocol; g.username = u.username; g.password = u.password; g.host = u.host;
    g.hostname = u.hostname; g.port = u.port; g.pathname = u.pathname; g.hash = u.hash; g.origin = u.origin;
  }
  if (order & 4) rest();
  ord.forEach(function (k) { g[k] = readers[k](); });
  if (!(order & 4)) rest();
  var re;
  try { re = hx(new URL(g.href).href); } catch (e) { re = "THROW"; }
  var spS = "~";
  if (sp) {
    var e = Array.from(sp);
    spS = String(e.length);
    e.forEach(function (x) { spS += "," + hx(x[0]) + "," + hx(x[1]); });
  }
  return ["O", hx(g.href), hx(g.ts), hx(g.tj), hx(g.protocol), hx(g.username), hx(g.password), hx(g.host),
          hx(g.hostname), hx(g.port), hx(g.pathname), hx(g.search), hx(g.hash), hx(g.origin), spS, re].join(" ");
}
function __runC13(ctor, ops) {
  var out = [];
  var u, sp = null;
  try { u = new URL(ctor); } catch (e) { return __thr(e); }
  out.push(__obsU(u, sp, 0));
  ops.forEach(function (op) {
    var thr = null;
    try {
      switch (op[0]) {
        case "S": u[op[1]] = op[2]; break;
        case "P": u.port = op[1]; break;
        case "G": sp = u.searchParams; break;
        case "A": sp.append(op[1], op[2]); break;
        case "D": sp.delete(op[1]); break;
        case "D2": sp.delete(op[1], op[2]); break;
        case "E": sp.set(op[1], op[2]); break;
        case "O": sp.sort(); break;
      }
    } catch (e) { thr = __thr(e); }
    var obsflag = op[op.length - 2], order = op[op.length - 1];
    var r = [];
    if (thr) r.push(thr);
    if (obsflag) r.push(__obsU(u, sp, order));
    out.push(r.length ? r.join(" ") : "-");
  });
  return out.join(" ; ");
}
function __runC14(ref, base) {
  var u;
  try { u = base === null ? new URL(ref) : new URL(ref, base); } catch (e) { return __thr(e); }
  return ["O", hx(u.href), hx(u.protocol), hx(u.username), hx(u.password), hx(u.host), hx(u.hostname), hx(u.port),
          hx(u.pathname), hx(u.search), hx(u.hash)].join(" ");
}
`

type urlEnv struct {
	*env
	runC13 goja.Callable
	runC14 goja.Callable
}

func newURLEnv(e *env) *urlEnv {
	if _, err := e.vm.RunString(preludeURL); err != nil {
		panic(err)
	}
	u := &urlEnv{env: e}
	u.runC13, _ = goja.AssertFunction(e.vm.Get("__runC13"))
	u.runC14, _ = goja.AssertFunction(e.vm.Get("__runC14"))
	return u
}

func (e *urlEnv) pick(xs []string) string { return xs[e.rng.Intn(len(xs))] }

// ---------------------------------------------------------------------------------------------------------------
// the grammar of C14
// ---------------------------------------------------------------------------------------------------------------

var (
	gSchemes   = []string{"http", "https", "ws", "wss", "ftp", "HTTP", "hTTps", "Ws", "FTP", "wsS"}
	gUserinfos = []string{"", "", "", "user", "user:pw", "u%40x:p%3Aq", "a.b-c_d~", "u!$&'()*+,;=", "U:", "%C3%A9"}
	gHosts     = []string{"example.com", "EXAMPLE.Org", "a.b.c", "h", "é.com", "日本.jp", "bücher.de", "sub.例え.jp", "[::1]",
		"[2001:db8::A]", "x-y.z", "a1.b2", "ρ.gr", "привет.рф", "😀.la", "Straße.de",
		"BÜCHER.example", "Á.com", "ΡΩΣ.gr", "ПРИВЕТ.рф", "Éa.Ñb.org", "ЁЖ.su"}
	gSegs = []string{"a", "b", "c", "d;p", "e.f", "bb", "c.d", "e;x=1", "f,g", "~h", "i'j", "k(l)", "m*n", "%41", "%C3%A9", "é",
		"日本", "%7e", "a:b", "@x", "$", "!", "q\"r", "s<t>", "u{v}", "w|x", "y^z", "a`b", "...", ".a", "a.", "..b", "%e2%82%ac", "%3F", "%23", "%25"}
	gQueries = []string{"q", "a=1&b=2", "x=é", "p=%20", "a/b?c", "k=\"v\"", "a'b", "x=<y>", "", "a=%41", "日本=語", "a+b", "x={y}|^`", "@:", "%26=%3D"}
	gFrags   = []string{"frag", "é", "a/b?c", "%41", "x{y}", "a`b", "", "top", "a\"b", "<x>", "日本", "!$&'()*+,;=:@", "%25"}
)

func (e *urlEnv) gPort(scheme string) string {
	def := map[string]string{"http": "80", "https": "443", "ws": "80", "wss": "443", "ftp": "21"}[strings.ToLower(scheme)]
	switch e.rng.Intn(10) {
	case 0, 1, 2, 3, 4:
		return ""
	case 5, 6:
		return ":" + def
	default:
		return ":" + e.pick([]string{"8080", "1", "65535", "443", "80", "21", "8443", "0", "3000"})
	}
}

func (e *urlEnv) gAuthority(scheme string) string {
	ui := e.pick(gUserinfos)
	if ui != "" {
		ui += "@"
	}
	return ui + e.pick(gHosts) + e.gPort(scheme)
}

// gPath: absolute ("/"-rooted) or relative; depth 0..5; dot segments; optional trailing slash
func (e *urlEnv) gPath(absolute bool, allowEmpty bool) string {
	n := e.rng.Intn(6)
	if n == 0 {
		if absolute {
			if allowEmpty && e.rng.Chance(40) {
				return ""
			}
			return "/"
		}
		return ""
	}
	var segs []string
	for i := 0; i < n; i++ {
		switch x := e.rng.Intn(100); {
		case x < 18:
			segs = append(segs, "..")
		case x < 28:
			segs = append(segs, ".")
		case x < 70:
			segs = append(segs, gSegs[e.rng.Intn(8)])
		default:
			segs = append(segs, e.pick(gSegs))
		}
	}
	if !absolute && strings.Contains(segs[0], ":") {
		segs[0] = "s"
	}
	p := strings.Join(segs, "/")
	if absolute {
		p = "/" + p
	}
	if e.rng.Chance(35) {
		p += "/"
	}
	return p
}

func (e *urlEnv) gQF() string {
	s := ""
	if e.rng.Chance(45) {
		s += "?" + e.pick(gQueries)
	}
	if e.rng.Chance(40) {
		s += "#" + e.pick(gFrags)
	}
	return s
}

func (e *urlEnv) gAbsolute() string {
	sc := e.pick(gSchemes)
	return sc + "://" + e.gAuthority(sc) + e.gPath(true, true) + e.gQF()
}

func (e *urlEnv) gReference() (string, string) {
	switch x := e.rng.Intn(100); {
	case x < 10:
		return e.gAbsolute(), "absolute"
	case x < 20:
		return "//" + e.gAuthority("http") + e.gPath(true, true) + e.gQF(), "scheme-relative"
	case x < 38:
		return e.gPath(true, false) + e.gQF(), "path-absolute"
	case x < 78:
		p := e.gPath(false, false)
		if p == "" {
			p = e.pick([]string{"x", ".", "..", "./", "../", "../..", "../../..", "./x", "x/"})
		}
		return p + e.gQF(), "path-relative"
	case x < 86:
		return "?" + e.pick(gQueries) + func() string {
			if e.rng.Chance(30) {
				return "#" + e.pick(gFrags)
			}
			return ""
		}(), "query-only"
	case x < 94:
		return "#" + e.pick(gFrags), "fragment-only"
	default:
		return "", "empty"
	}
}

// strings outside the grammar: compared model-vs-implementation only
var hostilePieces = []string{"http:", "https:", "//", "/", "\\", " ", "%2F", "%2e", "%2E%2E", "%zz", "%", "mailto:", "file:", "foo:", "a", "b",
	"..", ".", "@", ":", "::", "?", "#", "##", "[", "]", "[::1]", "127.0.0.1", "0x7f.1", "1", ":80", ":99999", ":00080", ":0", ":abc", "xn--caf-dma", "xn--é", "É", "Ü.de",
	"\t", "\n", "h.com", "u:p@", "*", "//a//b", "a//b", "x y", "%41", "é", "\x7f", " ", "👍", "+", "&", "=", "data:text/plain,x", "javascript:alert(1)", "h", "h.", ".h", "a..b", "-", "_"}

func (e *urlEnv) hostile() string {
	n := 1 + e.rng.Intn(6)
	var sb strings.Builder
	for i := 0; i < n; i++ {
		sb.WriteString(e.pick(hostilePieces))
	}
	return sb.String()
}

func (e *urlEnv) otherScheme() string {
	return e.pick([]string{"foo://h/p", "foo://h:81/p/q?x#y", "mailto:x@y.z", "file:///a/b", "file://host/a", "data:text/plain,hi", "foo:/a/b",
		"foo:a/b", "FOO://User@H/P", "x+y-z.1://h", "git+ssh://u@h:22/r.git", "urn:isbn:123", "foo://h", "foo://:81/x", "http:///x", "tel:+1-2"})
}

type c14case struct {
	Ref  string  `json:"ref"`
	Base *string `json:"base"`
}

func (e *urlEnv) genC14() c14case {
	switch x := e.rng.Intn(100); {
	case x < 62:
		ref, kind := e.gReference()
		b := e.gAbsolute()
		e.st.Hit("c14:ref:" + kind)
		return c14case{ref, &b}
	case x < 74:
		e.st.Hit("c14:one-arg:absolute")
		return c14case{e.gAbsolute(), nil}
	case x < 80:
		e.st.Hit("c14:one-arg:no-scheme")
		ref, _ := e.gReference()
		return c14case{ref, nil}
	case x < 86:
		e.st.Hit("c14:hostile-ref")
		b := e.gAbsolute()
		return c14case{e.hostile(), &b}
	case x < 92:
		e.st.Hit("c14:hostile-base")
		ref, _ := e.gReference()
		b := e.hostile()
		if e.rng.Chance(40) {
			b = e.otherScheme()
		}
		return c14case{ref, &b}
	default:
		e.st.Hit("c14:hostile-one-arg")
		if e.rng.Chance(30) {
			return c14case{e.otherScheme(), nil}
		}
		return c14case{e.hostile(), nil}
	}
}

func (e *urlEnv) execC14(c c14case) (out string) {
	defer func() {
		if r := recover(); r != nil {
			out = strings.ReplaceAll(fmt.Sprintf("PANIC %v", r), "\n", " ")
		}
	}()
	var base goja.Value = goja.Null()
	if c.Base != nil {
		base = e.vm.ToValue(*c.Base)
	}
	res, err := e.runC14(goja.Undefined(), e.vm.ToValue(c.Ref), base)
	if err != nil {
		return "THROW " + strings.ReplaceAll(err.Error(), "\n", " ")
	}
	return res.String()
}

func (e *urlEnv) emitC14(w *bufio.Writer, c c14case) {
	jb, _ := json.Marshal(c)
	fmt.Fprintf(w, "#C14JSON %s\n", jb)
	b := "~"
	if c.Base != nil {
		b = hs(*c.Base)
	}
	fmt.Fprintf(w, "C14 %s %s => %s\n", hs(c.Ref), b, e.execC14(c))
}

func runC14(e0 *env, w *bufio.Writer, n int, corpus string) {
	e := newURLEnv(e0)
	readCorpus(corpus, func(line string) {
		if strings.HasPrefix(line, "C14JSON ") {
			var c c14case
			if json.Unmarshal([]byte(line[8:]), &c) == nil {
				e.st.Hit("source:corpus")
				e.emitC14(w, c)
			}
		}
	})
	for i := 0; i < n; i++ {
		e.emitC14(w, e.genC14())
	}
}

// ---------------------------------------------------------------------------------------------------------------
// C13
// ---------------------------------------------------------------------------------------------------------------

var setterValues = map[string][]string{
	"protocol": {"https", "http:", "ws", "wss:", "ftp", "file", "foo", "FOO:", "", ":", "h ttp", "1a", "a+b", "javascript:alert(1)", "é", "HTTPS", "http", "ftp:", "wss", "bar:baz", "/x", "/", "/a?b", "a/b", "x y", "é:", "ws:/"},
	"username": {"", "u", "a b", "a:b", "a@b", "é", "%41", "/", "?#", "user", "U", "a%zz"},
	"password": {"", "p", "a b", "a:b", "a@b", "é", "%41", "/", "?#", "pw"},
	"host": {"h.com", "H.COM:8080", "h.com:80", "h.com:443", "h.com:21", "h.com:", "x/y", "a@b", "", ":81", "h:99999", "h:0", "h:00080", "é.com", "[::1]", "[::1]:81", "[::1",
		"a b", "a?b", "a#b", "h.com:81:82", "xn--é", "a..b", "h.com:abc", "[::A]:443", "Ü.de", "h.com:65535", "h.com:65536", "xn--0.com", "www.xn--999999999.example", "xn--0.com:81", "xn--a", "a:b", "%41.com", "a%2Fb", "h::", "h:::", "ÑANDÚ.es:81", "ΑΒΓ.gr"},
	"hostname": {"h.com", "H", "", "a:b", "x/y", "é.de", "[::2]", "a@b", "a b", "g.org", "xn--é", "xn--0.com", "www.xn--999999999.example", "xn--a", "a?b", "a#b", "%41", "Ü.de", "ŒUVRE.fr", "ДОМ.рф"},
	"port":     {"", "80", "443", "21", "8080", "0", "65535", "65536", "99999", "8080abc", "abc", " 81", "-1", "+5", "1e3", "81", "00080", "080", "8 0"},
	"pathname": {"", "/", "a", "/a/b", "a b", "/a/../b/", "/a/./b/.", "..", "a?b", "a#b", "é", "%41", "%zz", "//x", "/a//b", "\\x", "/x/", "/a/b/..", "a/", "/%2e%2e/x", "/;p", "/a:b", "*"},
	"search":   {"", "?", "a=1", "?a=1", "??a=1", "a=1&b=2", "a b", "é=ü", "#x", "a=1#f", "%zz", "a='b'", "&&", "=", "a=%41", "?x=y&x=z", "a+b=c", "?%26=%3D", "a=\"b\"", "a=<b>"},
	"hash":     {"", "#", "x", "#x", "##x", "a b", "é", "%41", "%zz", "a#b", "?q", "#a/b", "a\"b", "a`b", "<x>"},
}

var portInts = []int64{80, 443, 81, -1, 0, 65535, 65536, 70000, 21, 8080, 1 << 40}

type c13case struct {
	Ctor string          `json:"ctor"`
	Ops  [][]interface{} `json:"ops"`
}

func (e *urlEnv) genC13() c13case {
	var c c13case
	switch x := e.rng.Intn(100); {
	case x < 70:
		c.Ctor = e.gAbsolute()
		e.st.Hit("c13:ctor:grammar")
	case x < 85:
		c.Ctor = e.otherScheme()
		e.st.Hit("c13:ctor:other-scheme")
	default:
		c.Ctor = e.hostile()
		e.st.Hit("c13:ctor:hostile")
	}
	props := []string{"href", "protocol", "username", "password", "host", "hostname", "port", "pathname", "search", "hash"}
	nops := e.rng.Intn(9)
	held := false
	for i := 0; i < nops; i++ {
		obs, order := 1, e.rng.Intn(8)
		if e.rng.Chance(35) {
			obs = 0
		}
		var op []interface{}
		x := e.rng.Intn(100)
		if x >= 62 && x < 92 && !held {
			x = 95 // an operation on searchParams needs the object first
		}
		switch {
		case x < 62:
			p := props[e.rng.Intn(len(props))]
			if e.rng.Chance(25) {
				p = []string{"search", "href", "host", "port", "protocol"}[e.rng.Intn(5)]
			}
			switch {
			case p == "href":
				v := e.gAbsolute()
				if e.rng.Chance(25) {
					v = e.hostile()
				} else if e.rng.Chance(15) {
					v = e.otherScheme()
				}
				op = []interface{}{"S", p, v}
			case p == "port" && e.rng.Chance(35):
				op = []interface{}{"P", portInts[e.rng.Intn(len(portInts))]}
			default:
				op = []interface{}{"S", p, e.pick(setterValues[p])}
			}
			e.st.Hit("c13:op:set-" + p)
		case x < 72:
			op = []interface{}{"A", e.word(), e.word()}
		case x < 78:
			op = []interface{}{"D", e.word()}
		case x < 81:
			op = []interface{}{"D2", e.word(), e.word()}
		case x < 88:
			op = []interface{}{"E", e.word(), e.word()}
		case x < 92:
			op = []interface{}{"O"}
		default:
			op = []interface{}{"G"}
			held = true
		}
		if op[0].(string) != "S" && op[0].(string) != "P" {
			e.st.Hit("c13:op:" + op[0].(string))
		}
		op = append(op, obs, order)
		c.Ops = append(c.Ops, op)
	}
	return c
}

func lineOfC13(c c13case) string {
	t := []string{"C13", hs(c.Ctor)}
	for _, op := range c.Ops {
		t = append(t, ";")
		name := op[0].(string)
		t = append(t, name)
		args := op[1 : len(op)-2]
		for i, a := range args {
			switch {
			case name == "S" && i == 0:
				t = append(t, a.(string))
			case name == "P":
				t = append(t, fmt.Sprint(toInt64(a)))
			default:
				t = append(t, hs(a.(string)))
			}
		}
		t = append(t, fmt.Sprint(toInt(op[len(op)-2])))
	}
	return strings.Join(t, " ")
}

func toInt64(x interface{}) int64 {
	switch v := x.(type) {
	case int64:
		return v
	case int:
		return int64(v)
	case float64:
		return int64(v)
	}
	return 0
}

func (e *urlEnv) execC13(c c13case) (out string) {
	defer func() {
		if r := recover(); r != nil {
			out = strings.ReplaceAll(fmt.Sprintf("PANIC %v", r), "\n", " ")
		}
	}()
	// JSON round trips turn integers into float64: hand integral port values to JS as integers
	ops := make([]interface{}, len(c.Ops))
	for i, op := range c.Ops {
		o := make([]interface{}, len(op))
		copy(o, op)
		if o[0].(string) == "P" {
			o[1] = toInt64(o[1])
		}
		o[len(o)-1] = toInt(o[len(o)-1])
		o[len(o)-2] = toInt(o[len(o)-2])
		ops[i] = o
	}
	res, err := e.runC13(goja.Undefined(), e.vm.ToValue(c.Ctor), e.vm.ToValue(ops))
	if err != nil {
		return "THROW " + strings.ReplaceAll(err.Error(), "\n", " ")
	}
	return res.String()
}

func (e *urlEnv) emitC13(w *bufio.Writer, c c13case) {
	jb, _ := json.Marshal(c)
	fmt.Fprintf(w, "#C13JSON %s\n", jb)
	out := e.execC13(c)
	if strings.HasPrefix(out, "T:") && !strings.Contains(out, " ; ") {
		// the constructor threw: there is no object to operate on
		fmt.Fprintf(w, "C13 %s => %s\n", hs(c.Ctor), out)
		return
	}
	fmt.Fprintf(w, "%s => %s\n", lineOfC13(c), out)
}

func runC13(e0 *env, w *bufio.Writer, n int, corpus string) {
	e := newURLEnv(e0)
	readCorpus(corpus, func(line string) {
		if strings.HasPrefix(line, "C13JSON ") {
			var c c13case
			if json.Unmarshal([]byte(line[8:]), &c) == nil {
				e.st.Hit("source:corpus")
				e.emitC13(w, c)
			}
		}
	})
	for i := 0; i < n; i++ {
		e.emitC13(w, e.genC13())
	}
}
