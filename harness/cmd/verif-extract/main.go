// verif-extract: the "regenerated" tie between /repo's Go source and the Lean model.
//
// It is deliberately tiny.  It re-emits, from the current working tree,
//   - straight-line int64 kernels (range guards, sign extension, offset guards, ms->ns conversion)
//     as BitVec 64 definitions,
//   - data: byte tables, string switch tables, registration lists, per-method facts,
//
// into lean/GN/Generated/*.lean.  Theorems in GN/Props are stated about these generated definitions,
// so `lake build` re-proves them against what the code says now.
//
// A fragment whose source no longer fits the translator's subset falls back to the committed
// snapshot (lean/snapshot/<name>.frag); the status file records which fragments were regenerated and
// which fell back, and the correspondence check then carries that part of the tie alone.
package main

import (
	"bytes"
	"crypto/sha256"
	"encoding/binary"
	"encoding/json"
	"flag"
	"fmt"
	"go/ast"
	"go/parser"
	"go/printer"
	"go/token"
	"os"
	"path/filepath"
	"regexp"
	"sort"
	"strconv"
	"strings"
)

type fragStatus struct {
	Name   string `json:"name"`
	File   string `json:"file"`
	Status string `json:"status"` // regenerated | fallback
	Reason string `json:"reason,omitempty"`
}

var (
	repo, outDir, snapDir string
	updateSnap            bool
	statuses              []fragStatus
	fset                  = token.NewFileSet()
	parsed                = map[string]*ast.File{}
)

func parseFile(rel string) (*ast.File, error) {
	if f, ok := parsed[rel]; ok {
		return f, nil
	}
	f, err := parser.ParseFile(fset, filepath.Join(repo, rel), nil, parser.ParseComments)
	if err != nil {
		return nil, err
	}
	parsed[rel] = f
	return f, nil
}

func findFunc(f *ast.File, name string) *ast.FuncDecl {
	for _, d := range f.Decls {
		if fd, ok := d.(*ast.FuncDecl); ok && fd.Name.Name == name {
			return fd
		}
	}
	return nil
}

// ---------------------------------------------------------------------------------------------
// int64 expression translation

type env struct {
	i64    map[string]bool // int64-typed identifiers in scope
	params []string        // parameter order of the emitted definition
	seen   map[string]bool
}

func (e *env) addParam(n string) {
	if !e.seen[n] {
		e.seen[n] = true
		e.params = append(e.params, n)
	}
	e.i64[n] = true
}

type trErr struct{ msg string }

func (t trErr) Error() string { return t.msg }

func fail(format string, a ...interface{}) { panic(trErr{fmt.Sprintf(format, a...)}) }

var mathConsts = map[string]string{
	"MinInt8": "-128", "MaxInt8": "127", "MaxUint8": "255",
	"MinInt16": "-32768", "MaxInt16": "32767", "MaxUint16": "65535",
	"MinInt32": "-2147483648", "MaxInt32": "2147483647", "MaxUint32": "4294967295",
	"MinInt64": "-9223372036854775808", "MaxInt64": "9223372036854775807",
}
var timeConsts = map[string]string{
	"Nanosecond": "1", "Microsecond": "1000", "Millisecond": "1000000", "Second": "1000000000",
}

func lit(s string) string {
	if strings.HasPrefix(s, "-") {
		return "(-(" + s[1:] + " : I64))"
	}
	return "(" + s + " : I64)"
}

// tr translates an int64- or bool-valued Go expression. isBool reports which.
func (e *env) tr(x ast.Expr) (s string, isBool bool) {
	switch v := x.(type) {
	case *ast.ParenExpr:
		return e.tr(v.X)
	case *ast.Ident:
		if v.Name == "true" || v.Name == "false" {
			return v.Name, true
		}
		if e.i64[v.Name] {
			return v.Name, false
		}
		fail("identifier %s is not a known int64", v.Name)
	case *ast.BasicLit:
		if v.Kind == token.INT {
			n, err := strconv.ParseInt(v.Value, 0, 64)
			if err != nil {
				fail("bad int literal %s", v.Value)
			}
			return lit(strconv.FormatInt(n, 10)), false
		}
		fail("literal %s", v.Value)
	case *ast.SelectorExpr:
		if p, ok := v.X.(*ast.Ident); ok {
			if p.Name == "math" {
				if c, ok := mathConsts[v.Sel.Name]; ok {
					return lit(c), false
				}
			}
			if p.Name == "time" {
				if c, ok := timeConsts[v.Sel.Name]; ok {
					return lit(c), false
				}
			}
		}
		fail("selector %s", exprString(x))
	case *ast.UnaryExpr:
		a, b := e.tr(v.X)
		switch v.Op {
		case token.SUB:
			if b {
				fail("negating a bool")
			}
			return "(-(" + a + "))", false
		case token.NOT:
			if !b {
				fail("! on int")
			}
			return "(!" + a + ")", true
		}
		fail("unary %s", v.Op)
	case *ast.BinaryExpr:
		a, ab := e.tr(v.X)
		b, bb := e.tr(v.Y)
		switch v.Op {
		case token.LOR, token.LAND:
			if !ab || !bb {
				fail("logical op on ints")
			}
			op := "||"
			if v.Op == token.LAND {
				op = "&&"
			}
			return "(" + a + " " + op + " " + b + ")", true
		}
		if ab || bb {
			fail("arithmetic on bools")
		}
		switch v.Op {
		case token.ADD:
			return "(" + a + " + " + b + ")", false
		case token.SUB:
			return "(" + a + " - " + b + ")", false
		case token.MUL:
			return "(" + a + " * " + b + ")", false
		case token.QUO:
			return "(BitVec.sdiv " + a + " " + b + ")", false
		case token.SHL:
			return "(" + a + " <<< " + b + ")", false
		case token.SHR:
			return "(BitVec.sshiftRight' " + a + " " + b + ")", false
		case token.OR:
			return "(" + a + " ||| " + b + ")", false
		case token.AND:
			return "(" + a + " &&& " + b + ")", false
		case token.LSS:
			return "(BitVec.slt " + a + " " + b + ")", true
		case token.GTR:
			return "(BitVec.slt " + b + " " + a + ")", true
		case token.LEQ:
			return "(BitVec.sle " + a + " " + b + ")", true
		case token.GEQ:
			return "(BitVec.sle " + b + " " + a + ")", true
		case token.EQL:
			return "(" + a + " == " + b + ")", true
		case token.NEQ:
			return "(" + a + " != " + b + ")", true
		}
		fail("binary %s", v.Op)
	case *ast.CallExpr:
		// conversions that are the identity on the int64 bit pattern in the contexts we accept
		if id, ok := v.Fun.(*ast.Ident); ok && len(v.Args) == 1 {
			switch id.Name {
			case "int64", "uint", "uint64", "int":
				if c, ok := v.Args[0].(*ast.CallExpr); ok {
					if f, ok := c.Fun.(*ast.Ident); ok && f.Name == "len" && len(c.Args) == 1 {
						if a, ok := c.Args[0].(*ast.Ident); ok {
							n := "len_" + a.Name
							e.addParam(n)
							return n, false
						}
					}
				}
				return e.tr(v.Args[0])
			}
		}
		if sel, ok := v.Fun.(*ast.SelectorExpr); ok && len(v.Args) == 1 {
			if p, ok := sel.X.(*ast.Ident); ok && p.Name == "time" && sel.Sel.Name == "Duration" {
				return e.tr(v.Args[0])
			}
		}
		fail("call %s", exprString(x))
	}
	fail("expression %T", x)
	return "", false
}

func exprString(x ast.Expr) string {
	var sb strings.Builder
	printExpr(&sb, x)
	return sb.String()
}

func printExpr(sb *strings.Builder, x ast.Expr) {
	switch v := x.(type) {
	case *ast.Ident:
		sb.WriteString(v.Name)
	case *ast.BasicLit:
		sb.WriteString(v.Value)
	case *ast.SelectorExpr:
		printExpr(sb, v.X)
		sb.WriteString(".")
		sb.WriteString(v.Sel.Name)
	case *ast.ParenExpr:
		sb.WriteString("(")
		printExpr(sb, v.X)
		sb.WriteString(")")
	case *ast.BinaryExpr:
		printExpr(sb, v.X)
		sb.WriteString(v.Op.String())
		printExpr(sb, v.Y)
	case *ast.UnaryExpr:
		sb.WriteString(v.Op.String())
		printExpr(sb, v.X)
	case *ast.CallExpr:
		printExpr(sb, v.Fun)
		sb.WriteString("(")
		for i, a := range v.Args {
			if i > 0 {
				sb.WriteString(",")
			}
			printExpr(sb, a)
		}
		sb.WriteString(")")
	case *ast.IndexExpr:
		printExpr(sb, v.X)
		sb.WriteString("[")
		printExpr(sb, v.Index)
		sb.WriteString("]")
	case *ast.SliceExpr:
		printExpr(sb, v.X)
		sb.WriteString("[")
		if v.Low != nil {
			printExpr(sb, v.Low)
		}
		sb.WriteString(":")
		if v.High != nil {
			printExpr(sb, v.High)
		}
		sb.WriteString("]")
	case *ast.StarExpr:
		sb.WriteString("*")
		printExpr(sb, v.X)
	case *ast.CompositeLit:
		if v.Type != nil {
			printExpr(sb, v.Type)
		}
		sb.WriteString("{}")
	default:
		fmt.Fprintf(sb, "<%T>", x)
	}
}

func isPanicBlock(b *ast.BlockStmt) bool {
	if len(b.List) != 1 {
		return false
	}
	es, ok := b.List[0].(*ast.ExprStmt)
	if !ok {
		return false
	}
	c, ok := es.X.(*ast.CallExpr)
	if !ok {
		return false
	}
	id, ok := c.Fun.(*ast.Ident)
	return ok && id.Name == "panic"
}

func containsPkgCall(x ast.Expr, pkg string) bool {
	found := false
	ast.Inspect(x, func(n ast.Node) bool {
		if c, ok := n.(*ast.CallExpr); ok {
			if s, ok := c.Fun.(*ast.SelectorExpr); ok {
				if p, ok := s.X.(*ast.Ident); ok && p.Name == pkg {
					found = true
				}
			}
		}
		return true
	})
	return found
}

func newEnv(fd *ast.FuncDecl) *env {
	e := &env{i64: map[string]bool{}, seen: map[string]bool{}}
	for _, fld := range fd.Type.Params.List {
		t := exprString(fld.Type)
		if t == "int64" || t == "time.Duration" {
			for _, n := range fld.Names {
				e.addParam(n.Name)
			}
		}
	}
	return e
}

// kernel translates a function body made of int64 assignments, `if c { panic(..) }` guards,
// `if c { return e }` / `if c { x = e }` and a final return.  mode "guard": result Bool (true = no panic);
// mode "value": result I64 (first returned value).
func kernel(fd *ast.FuncDecl, leanName, mode string) string {
	e := newEnv(fd)
	var body func(stmts []ast.Stmt) string
	body = func(stmts []ast.Stmt) string {
		if len(stmts) == 0 {
			if mode == "guard" {
				return "true"
			}
			fail("value kernel falls off the end")
		}
		st := stmts[0]
		rest := stmts[1:]
		switch v := st.(type) {
		case *ast.DeclStmt:
			// const name = expr
			gd, ok := v.Decl.(*ast.GenDecl)
			if !ok || gd.Tok != token.CONST || len(gd.Specs) != 1 {
				fail("declaration statement")
			}
			vs, ok := gd.Specs[0].(*ast.ValueSpec)
			if !ok || len(vs.Names) != 1 || len(vs.Values) != 1 {
				fail("const declaration")
			}
			rhs, b := e.tr(vs.Values[0])
			if b {
				fail("bool const")
			}
			e.i64[vs.Names[0].Name] = true
			return "let " + vs.Names[0].Name + " : I64 := " + rhs + "\n  " + body(rest)
		case *ast.AssignStmt:
			if len(v.Lhs) != 1 || len(v.Rhs) != 1 {
				fail("multi-assign")
			}
			id, ok := v.Lhs[0].(*ast.Ident)
			if !ok {
				fail("assign to non-identifier")
			}
			if containsPkgCall(v.Rhs[0], "goutil") {
				e.addParam(id.Name) // an argument coerced by goutil: a free parameter of the kernel
				return body(rest)
			}
			rhs, b := e.tr(v.Rhs[0])
			if b {
				fail("bool local")
			}
			e.i64[id.Name] = true
			return "let " + id.Name + " : I64 := " + rhs + "\n  " + body(rest)
		case *ast.IfStmt:
			if v.Init != nil || v.Else != nil {
				fail("if with init/else")
			}
			c, b := e.tr(v.Cond)
			if !b {
				fail("non-bool condition")
			}
			if isPanicBlock(v.Body) {
				if mode != "guard" {
					fail("panic in value kernel")
				}
				return "if " + c + " then false else\n  " + body(rest)
			}
			if len(v.Body.List) == 1 {
				switch w := v.Body.List[0].(type) {
				case *ast.ReturnStmt:
					if mode == "value" && len(w.Results) >= 1 {
						r, rb := e.tr(w.Results[0])
						if rb {
							fail("bool return")
						}
						return "if " + c + " then " + r + " else\n  " + body(rest)
					}
				case *ast.AssignStmt:
					if len(w.Lhs) == 1 && len(w.Rhs) == 1 && w.Tok == token.ASSIGN {
						if id, ok := w.Lhs[0].(*ast.Ident); ok && e.i64[id.Name] {
							r, rb := e.tr(w.Rhs[0])
							if rb {
								fail("bool assign")
							}
							return "let " + id.Name + " : I64 := if " + c + " then " + r + " else " + id.Name + "\n  " + body(rest)
						}
					}
				}
			}
			fail("unsupported if body")
		case *ast.ReturnStmt:
			if mode == "guard" {
				return "true"
			}
			if len(v.Results) < 1 {
				fail("bare return")
			}
			r, b := e.tr(v.Results[0])
			if b {
				fail("bool return")
			}
			return r
		}
		fail("statement %T", st)
		return ""
	}
	b := body(fd.Body.List)
	ret := "I64"
	if mode == "guard" {
		ret = "Bool"
	}
	var ps []string
	for _, p := range e.params {
		ps = append(ps, "("+p+" : I64)")
	}
	return fmt.Sprintf("def %s %s : %s :=\n  %s\n", leanName, strings.Join(ps, " "), ret, b)
}

// inlineGuard finds, in fd, the first `if cond { panic(...) }` whose condition mentions only `varName`
// and constants, and emits it as a Bool kernel of one parameter.
func inlineGuard(fd *ast.FuncDecl, leanName, varName string) string {
	var out string
	ast.Inspect(fd.Body, func(n ast.Node) bool {
		if out != "" {
			return false
		}
		if is, ok := n.(*ast.IfStmt); ok && isPanicBlock(is.Body) {
			e := &env{i64: map[string]bool{varName: true}, seen: map[string]bool{varName: true}, params: []string{varName}}
			ok := func() (ok bool) {
				defer func() {
					if r := recover(); r != nil {
						if _, is := r.(trErr); is {
							ok = false
							return
						}
						panic(r)
					}
				}()
				c, b := e.tr(is.Cond)
				if !b || len(e.params) != 1 {
					return false
				}
				out = fmt.Sprintf("def %s (%s : I64) : Bool :=\n  if %s then false else true\n", leanName, varName, c)
				return true
			}()
			_ = ok
		}
		return true
	})
	if out == "" {
		fail("no inline guard on %s found", varName)
	}
	return out
}

// ---------------------------------------------------------------------------------------------
// data extraction

func byteTable(f *ast.File, name string) string {
	for _, d := range f.Decls {
		gd, ok := d.(*ast.GenDecl)
		if !ok {
			continue
		}
		for _, sp := range gd.Specs {
			vs, ok := sp.(*ast.ValueSpec)
			if !ok || len(vs.Names) != 1 || vs.Names[0].Name != name || len(vs.Values) != 1 {
				continue
			}
			cl, ok := vs.Values[0].(*ast.CompositeLit)
			if !ok {
				fail("table %s is not a composite literal", name)
			}
			var xs []string
			for _, el := range cl.Elts {
				bl, ok := el.(*ast.BasicLit)
				if !ok || bl.Kind != token.INT {
					fail("table %s: non-literal element", name)
				}
				n, err := strconv.ParseInt(bl.Value, 0, 64)
				if err != nil {
					fail("table %s: %v", name, err)
				}
				xs = append(xs, strconv.FormatInt(n, 10))
			}
			var sb strings.Builder
			fmt.Fprintf(&sb, "def %s : List Nat := [\n", name)
			for i := 0; i < len(xs); i += 16 {
				j := i + 16
				if j > len(xs) {
					j = len(xs)
				}
				sb.WriteString("  " + strings.Join(xs[i:j], ", "))
				if j < len(xs) {
					sb.WriteString(",")
				}
				sb.WriteString("\n")
			}
			sb.WriteString("]\n")
			return sb.String()
		}
	}
	fail("table %s not found", name)
	return ""
}

func stringConst(f *ast.File, name string) string {
	for _, d := range f.Decls {
		gd, ok := d.(*ast.GenDecl)
		if !ok {
			continue
		}
		for _, sp := range gd.Specs {
			vs, ok := sp.(*ast.ValueSpec)
			if !ok {
				continue
			}
			for i, n := range vs.Names {
				if n.Name == name && i < len(vs.Values) {
					if bl, ok := vs.Values[i].(*ast.BasicLit); ok && bl.Kind == token.STRING {
						s, _ := strconv.Unquote(bl.Value)
						return s
					}
				}
			}
		}
	}
	fail("string constant %s not found", name)
	return ""
}

func leanStr(s string) string { return strconv.Quote(s) }

func leanStrList(xs []string) string {
	var q []string
	for _, x := range xs {
		q = append(q, leanStr(x))
	}
	return "[" + strings.Join(q, ", ") + "]"
}

// stringSwitchSet: `switch v { case "a", "b": return true }; return false`
func stringSwitchSet(fd *ast.FuncDecl, leanName string) string {
	var out []string
	ok := false
	for _, st := range fd.Body.List {
		if sw, is := st.(*ast.SwitchStmt); is {
			for _, c := range sw.Body.List {
				cc := c.(*ast.CaseClause)
				if len(cc.Body) != 1 {
					fail("case body")
				}
				rs, is := cc.Body[0].(*ast.ReturnStmt)
				if !is || len(rs.Results) != 1 || exprString(rs.Results[0]) != "true" {
					fail("case does not return true")
				}
				for _, x := range cc.List {
					bl, is := x.(*ast.BasicLit)
					if !is || bl.Kind != token.STRING {
						fail("non-string case")
					}
					s, _ := strconv.Unquote(bl.Value)
					out = append(out, s)
				}
			}
			ok = true
		}
	}
	if !ok {
		fail("no switch")
	}
	return fmt.Sprintf("def %s : List String := %s\n", leanName, leanStrList(out))
}

// isDefaultURLPort: switch port { case N: if protocol == "a" || protocol == "b" { return true } }
func defaultPorts(fd *ast.FuncDecl) string {
	type ent struct {
		port   int64
		protos []string
	}
	var ents []ent
	found := false
	for _, st := range fd.Body.List {
		sw, is := st.(*ast.SwitchStmt)
		if !is {
			continue
		}
		found = true
		for _, c := range sw.Body.List {
			cc := c.(*ast.CaseClause)
			var protos []string
			if len(cc.Body) != 1 {
				fail("port case body")
			}
			is1, ok := cc.Body[0].(*ast.IfStmt)
			if !ok || len(is1.Body.List) != 1 {
				fail("port case: expected if")
			}
			if rs, ok := is1.Body.List[0].(*ast.ReturnStmt); !ok || exprString(rs.Results[0]) != "true" {
				fail("port case: expected return true")
			}
			var walk func(x ast.Expr)
			walk = func(x ast.Expr) {
				switch v := x.(type) {
				case *ast.ParenExpr:
					walk(v.X)
				case *ast.BinaryExpr:
					if v.Op == token.LOR {
						walk(v.X)
						walk(v.Y)
						return
					}
					if v.Op == token.EQL {
						if bl, ok := v.Y.(*ast.BasicLit); ok && bl.Kind == token.STRING {
							s, _ := strconv.Unquote(bl.Value)
							protos = append(protos, s)
							return
						}
					}
					fail("port condition %s", exprString(x))
				default:
					fail("port condition %s", exprString(x))
				}
			}
			walk(is1.Cond)
			for _, x := range cc.List {
				bl, ok := x.(*ast.BasicLit)
				if !ok || bl.Kind != token.INT {
					fail("port literal")
				}
				n, _ := strconv.ParseInt(bl.Value, 0, 64)
				ents = append(ents, ent{n, protos})
			}
		}
	}
	if !found {
		fail("no switch in isDefaultURLPort")
	}
	var sb strings.Builder
	sb.WriteString("def defaultPorts : List (Nat × List String) := [")
	for i, e := range ents {
		if i > 0 {
			sb.WriteString(", ")
		}
		fmt.Fprintf(&sb, "(%d, %s)", e.port, leanStrList(e.protos))
	}
	sb.WriteString("]\n")
	return sb.String()
}

// mapKeys: var name = map[string]T{ "k": v, ... }  ->  list of (key, value expression text)
func mapLiteral(f *ast.File, name, leanName string) string {
	for _, d := range f.Decls {
		gd, ok := d.(*ast.GenDecl)
		if !ok {
			continue
		}
		for _, sp := range gd.Specs {
			vs, ok := sp.(*ast.ValueSpec)
			if !ok || len(vs.Names) != 1 || vs.Names[0].Name != name || len(vs.Values) != 1 {
				continue
			}
			cl, ok := vs.Values[0].(*ast.CompositeLit)
			if !ok {
				fail("%s is not a composite literal", name)
			}
			var ents []string
			for _, el := range cl.Elts {
				kv, ok := el.(*ast.KeyValueExpr)
				if !ok {
					fail("%s: element", name)
				}
				bl, ok := kv.Key.(*ast.BasicLit)
				if !ok {
					fail("%s: key", name)
				}
				k, _ := strconv.Unquote(bl.Value)
				v := exprString(kv.Value)
				ents = append(ents, "("+leanStr(k)+", "+leanStr(v)+")")
			}
			return fmt.Sprintf("def %s : List (String × String) := [%s]\n", leanName, strings.Join(ents, ", "))
		}
	}
	fail("map %s not found", name)
	return ""
}

// setCalls: in function fd, calls `<recv>.Set("name", <expr>)` -> (recv, name, expr text)
func setCalls(fd *ast.FuncDecl, recvs map[string]bool) [][3]string {
	var out [][3]string
	ast.Inspect(fd.Body, func(n ast.Node) bool {
		c, ok := n.(*ast.CallExpr)
		if !ok {
			return true
		}
		sel, ok := c.Fun.(*ast.SelectorExpr)
		if !ok || sel.Sel.Name != "Set" || len(c.Args) != 2 {
			return true
		}
		r := exprString(sel.X)
		if !recvs[r] {
			return true
		}
		bl, ok := c.Args[0].(*ast.BasicLit)
		if !ok || bl.Kind != token.STRING {
			return true
		}
		k, _ := strconv.Unquote(bl.Value)
		out = append(out, [3]string{r, k, exprString(c.Args[1])})
		return true
	})
	return out
}

// ---------------------------------------------------------------------------------------------
// Buffer method facts

type methodFacts struct {
	goName   string
	dir      string // read | write
	coerce   string // Integer | BigInt | Float | -
	offKind  string // fixed | var
	offIdx   int    // argument index of offset
	numBytes int    // for fixed
	endian   string // BE | LE | -
	rangeFn  string // name of the range guard kernel, or -
	conv     string // reads: int8,int16,int32,int64,uint8,uint16,uint32,uint64,f32,f64,bigint64,biguint64
	retAdd   string // writes: what is added to offset in the result
}

func intLit(x ast.Expr) (int, bool) {
	if bl, ok := x.(*ast.BasicLit); ok && bl.Kind == token.INT {
		n, err := strconv.Atoi(bl.Value)
		return n, err == nil
	}
	return 0, false
}

func bufferMethodFacts(fd *ast.FuncDecl) methodFacts {
	m := methodFacts{goName: fd.Name.Name, coerce: "-", endian: "-", rangeFn: "-", conv: "-", retAdd: "-", offIdx: -1}
	if strings.HasPrefix(m.goName, "read") {
		m.dir = "read"
	} else {
		m.dir = "write"
	}
	var loopInit, shiftExpr string
	ast.Inspect(fd.Body, func(n ast.Node) bool {
		switch v := n.(type) {
		case *ast.CallExpr:
			fn := exprString(v.Fun)
			switch {
			case fn == "b.getOffsetArgument" && len(v.Args) == 4:
				m.offKind = "fixed"
				if i, ok := intLit(v.Args[1]); ok {
					m.offIdx = i
				}
				if i, ok := intLit(v.Args[3]); ok {
					m.numBytes = i
				} else {
					fail("%s: numBytes not literal", m.goName)
				}
			case fn == "b.getVariableLengthReadArguments":
				m.offKind, m.offIdx = "var", 0
			case fn == "b.getVariableLengthWriteArguments":
				m.offKind, m.offIdx = "var", 1
			case fn == "goutil.RequiredIntegerArgument":
				m.coerce = "Integer"
			case fn == "goutil.RequiredBigIntArgument":
				m.coerce = "BigInt"
			case fn == "goutil.RequiredFloatArgument":
				m.coerce = "Float"
			case strings.HasPrefix(fn, "b.ensureWithin"):
				m.rangeFn = strings.TrimPrefix(fn, "b.")
			case strings.HasPrefix(fn, "binary.BigEndian."):
				m.endian = "BE"
				m.conv = widthOf(strings.TrimPrefix(fn, "binary.BigEndian."), m.conv)
			case strings.HasPrefix(fn, "binary.LittleEndian."):
				m.endian = "LE"
				m.conv = widthOf(strings.TrimPrefix(fn, "binary.LittleEndian."), m.conv)
			case fn == "int8" || fn == "int16" || fn == "int32" || fn == "int64":
				if m.dir == "read" && len(v.Args) == 1 {
					if _, isCall := v.Args[0].(*ast.CallExpr); isCall || fn == "int8" {
						if _, isIdx := v.Args[0].(*ast.IndexExpr); isIdx || isCall {
							m.conv = "signed:" + fn
						}
					}
				}
			case fn == "math.Float64frombits":
				m.conv = "f64"
			case fn == "math.Float32frombits":
				m.conv = "f32"
			case fn == "math.Float64bits":
				m.conv = "f64"
			case fn == "math.Float32bits":
				m.conv = "f32"
			case fn == "big.NewInt":
				m.conv = "bigint64"
			case fn == "value.Int64":
				m.conv = "bigint64"
			case fn == "value.Uint64":
				m.conv = "biguint64"
			case fn == "signExtend":
				m.conv = "signExtend"
			}
			if sel, ok := v.Fun.(*ast.SelectorExpr); ok && sel.Sel.Name == "SetUint64" {
				m.conv = "biguint64"
			}
			if fn == "b.r.ToValue" && len(v.Args) == 1 && m.dir == "write" {
				if be, ok := v.Args[0].(*ast.BinaryExpr); ok && be.Op == token.ADD && exprString(be.X) == "offset" {
					m.retAdd = exprString(be.Y)
				}
			}
		case *ast.ForStmt:
			if as, ok := v.Init.(*ast.AssignStmt); ok && len(as.Rhs) == 1 {
				loopInit = exprString(as.Rhs[0])
			}
		case *ast.AssignStmt:
			if len(v.Lhs) == 1 && exprString(v.Lhs[0]) == "shift" {
				shiftExpr = exprString(v.Rhs[0])
			}
		}
		return true
	})
	if m.offKind == "var" {
		if m.dir == "read" {
			switch loopInit {
			case "int64(0)":
				m.endian = "BE"
			case "byteLength-1":
				m.endian = "LE"
			default:
				fail("%s: loop init %q", m.goName, loopInit)
			}
			if m.conv != "signExtend" {
				m.conv = "unsigned"
			}
		} else {
			s := strings.ReplaceAll(shiftExpr, "uint", "")
			switch s {
			case "(8*(byteLength-1-i))", "(byteLength-1-i)*8":
				m.endian = "BE"
			case "(8*i)":
				m.endian = "LE"
			default:
				fail("%s: shift %q", m.goName, shiftExpr)
			}
		}
	}
	if m.offKind == "" {
		fail("%s: no offset coercion found", m.goName)
	}
	// inline guards of the 8-bit writes
	if m.goName == "writeInt8" || m.goName == "writeUInt8" {
		m.rangeFn = m.goName + "_valueGuard"
	}
	if m.goName == "readInt8" {
		m.conv = "signed:int8"
	}
	if m.goName == "readUInt8" {
		m.conv = "unsigned8"
	}
	return m
}

func widthOf(acc, prev string) string {
	// acc is Uint16 / PutUint16 / ...; keep a more specific previous conv (signed:…, f32, …)
	if prev != "-" && !strings.HasPrefix(prev, "u") {
		return prev
	}
	acc = strings.TrimPrefix(acc, "Put")
	return "u" + strings.TrimPrefix(acc, "Uint")
}

// ---------------------------------------------------------------------------------------------

// panicSites: an inventory of the expressions in the given files that can raise a Go run-time panic — index and
// slice expressions, type assertions without comma-ok, make with a computed size, close, division by a computed
// value — counted per (file:function, kind).  C09's theorem `inventory_pinned` compares it with the reviewed table.
func panicSites(files []string) string {
	type key struct{ fn, kind string }
	counts := map[key]int{}
	for _, rel := range files {
		f := mustFile(rel)
		for _, d := range f.Decls {
			fd, ok := d.(*ast.FuncDecl)
			if !ok || fd.Body == nil {
				continue
			}
			name := fd.Name.Name
			if fd.Recv != nil && len(fd.Recv.List) > 0 {
				t := fd.Recv.List[0].Type
				if st, ok := t.(*ast.StarExpr); ok {
					t = st.X
				}
				if id, ok := t.(*ast.Ident); ok {
					name = id.Name + "." + name
				}
			}
			fn := rel + ":" + name
			// type assertions in comma-ok position or in a type switch cannot panic
			safe := map[ast.Node]bool{}
			ast.Inspect(fd.Body, func(n ast.Node) bool {
				switch x := n.(type) {
				case *ast.AssignStmt:
					if len(x.Lhs) == 2 && len(x.Rhs) == 1 {
						if ta, ok := x.Rhs[0].(*ast.TypeAssertExpr); ok {
							safe[ta] = true
						}
						if ix, ok := x.Rhs[0].(*ast.IndexExpr); ok {
							safe[ix] = true // v, ok := m[k]
						}
					}
				case *ast.ValueSpec:
					if len(x.Names) == 2 && len(x.Values) == 1 {
						if ta, ok := x.Values[0].(*ast.TypeAssertExpr); ok {
							safe[ta] = true
						}
					}
				case *ast.TypeSwitchStmt:
					ast.Inspect(x.Assign, func(m ast.Node) bool {
						if ta, ok := m.(*ast.TypeAssertExpr); ok {
							safe[ta] = true
						}
						return true
					})
				}
				return true
			})
			ast.Inspect(fd.Body, func(n ast.Node) bool {
				switch x := n.(type) {
				case *ast.IndexExpr:
					if !safe[x] {
						counts[key{fn, "index"}]++
					}
				case *ast.SliceExpr:
					counts[key{fn, "slice"}]++
				case *ast.TypeAssertExpr:
					if x.Type != nil && !safe[x] {
						counts[key{fn, "assert"}]++
					}
				case *ast.CallExpr:
					if id, ok := x.Fun.(*ast.Ident); ok {
						if id.Name == "make" && len(x.Args) >= 2 {
							if _, lit := x.Args[1].(*ast.BasicLit); !lit {
								counts[key{fn, "make"}]++
							}
						}
						if id.Name == "close" {
							counts[key{fn, "close"}]++
						}
					}
				case *ast.BinaryExpr:
					if x.Op == token.QUO || x.Op == token.REM {
						if _, lit := x.Y.(*ast.BasicLit); !lit {
							counts[key{fn, "div"}]++
						}
					}
				case *ast.AssignStmt:
					if x.Tok == token.QUO_ASSIGN || x.Tok == token.REM_ASSIGN {
						if _, lit := x.Rhs[0].(*ast.BasicLit); !lit {
							counts[key{fn, "div"}]++
						}
					}
				}
				return true
			})
		}
	}
	var keys []key
	for k := range counts {
		keys = append(keys, k)
	}
	sort.Slice(keys, func(i, j int) bool {
		if keys[i].fn != keys[j].fn {
			return keys[i].fn < keys[j].fn
		}
		return keys[i].kind < keys[j].kind
	})
	var sb strings.Builder
	sb.WriteString("def panicSites : List (String × String × Nat) := [\n")
	for i, k := range keys {
		sep := ","
		if i == len(keys)-1 {
			sep = ""
		}
		fmt.Fprintf(&sb, "  (%s, %s, %d)%s\n", leanStr(k.fn), leanStr(k.kind), counts[k], sep)
	}
	sb.WriteString("]\n")
	return sb.String()
}

// structFields: the field names of a struct type declared in the file
func structFields(f *ast.File, typeName string) []string {
	var out []string
	ast.Inspect(f, func(n ast.Node) bool {
		ts, ok := n.(*ast.TypeSpec)
		if !ok || ts.Name.Name != typeName {
			return true
		}
		if st, ok := ts.Type.(*ast.StructType); ok {
			for _, fl := range st.Fields.List {
				if len(fl.Names) == 0 {
					out = append(out, exprString(fl.Type)) // embedded
				}
				for _, nm := range fl.Names {
					out = append(out, nm.Name)
				}
			}
		}
		return false
	})
	return out
}

// sharedAccess: every access to a field of the EventLoop struct in eventloop.go, with the function (function
// literals are functions of their own: they run later, possibly on another goroutine), whether it writes, whether it
// goes through sync/atomic, and the mutexes of the loop held at that point.  C17's theorem `race_free` is decided
// over this table.
type accRow struct {
	fn, field     string
	write, atomic bool
	locks         []string
}

// accessTable: every expression of eventloop.go that `match` recognises as a shared field, with function, write,
// atomic and the loop mutexes held (see sharedAccess)
func accessTable(f *ast.File, match func(x ast.Expr) (string, bool)) []accRow {
	loopFields := map[string]bool{}
	for _, n := range structFields(f, "EventLoop") {
		loopFields[n] = true
	}
	isLoopMutex := func(x ast.Expr) (string, bool) {
		se, ok := x.(*ast.SelectorExpr)
		if !ok {
			return "", false
		}
		id, ok := se.X.(*ast.Ident)
		if !ok || id.Name != "loop" || !loopFields[se.Sel.Name] {
			return "", false
		}
		return se.Sel.Name, true
	}
	type acc = accRow
	var accs []acc
	isLoopField := match
	var walkFunc func(name string, body *ast.BlockStmt)
	walkFunc = func(name string, body *ast.BlockStmt) {
		nlit := 0
		var walkStmts func(stmts []ast.Stmt, held []string)
		record := func(x ast.Node, held []string, forceWrite bool) {
			// expressions: find loop.F occurrences; classify
			writes := map[ast.Expr]bool{}
			atomics := map[ast.Expr]bool{}
			skip := map[ast.Expr]bool{}
			ast.Inspect(x, func(n ast.Node) bool {
				switch v := n.(type) {
				case *ast.FuncLit:
					return false
				case *ast.AssignStmt:
					for _, l := range v.Lhs {
						writes[l] = true
					}
				case *ast.IncDecStmt:
					writes[v.X] = true
				case *ast.CallExpr:
					if se, ok := v.Fun.(*ast.SelectorExpr); ok {
						// loop.<mutex|cond>.<Method>() is a synchronisation action, not a data access
						if fld, ok := isLoopMutex(se.X); ok && (fld == "auxJobsLock" || fld == "stopLock" || fld == "stopCond") {
							skip[se.X] = true
						}
						if pk, ok := se.X.(*ast.Ident); ok && pk.Name == "atomic" && len(v.Args) > 0 {
							if ue, ok := v.Args[0].(*ast.UnaryExpr); ok && ue.Op == token.AND {
								atomics[ue.X] = true
								if !strings.HasPrefix(se.Sel.Name, "Load") {
									writes[ue.X] = true
								}
							}
						}
					}
				case *ast.SendStmt:
					skip[v.Chan] = true
				case *ast.UnaryExpr:
					if v.Op == token.ARROW {
						skip[v.X] = true
					}
				}
				return true
			})
			ast.Inspect(x, func(n ast.Node) bool {
				if _, ok := n.(*ast.FuncLit); ok {
					return false
				}
				if e, ok := n.(ast.Expr); ok {
					if fld, ok := isLoopField(e); ok && !skip[e] {
						accs = append(accs, acc{name, fld, writes[e] || forceWrite, atomics[e], append([]string(nil), held...)})
						// x = append(x, ...) reads as well; one write entry is enough for the conflict analysis
						return false
					}
				}
				return true
			})
			// function literals: functions of their own
			ast.Inspect(x, func(n ast.Node) bool {
				if fl, ok := n.(*ast.FuncLit); ok {
					nlit++
					walkFunc(fmt.Sprintf("%s$lit%d", name, nlit), fl.Body)
					return false
				}
				return true
			})
		}
		lockOp := func(s ast.Stmt) (string, string) {
			var call *ast.CallExpr
			switch v := s.(type) {
			case *ast.ExprStmt:
				call, _ = v.X.(*ast.CallExpr)
			}
			if call == nil {
				return "", ""
			}
			se, ok := call.Fun.(*ast.SelectorExpr)
			if !ok || (se.Sel.Name != "Lock" && se.Sel.Name != "Unlock") {
				return "", ""
			}
			if fld, ok := isLoopMutex(se.X); ok {
				return fld, se.Sel.Name
			}
			return "", ""
		}
		walkStmts = func(stmts []ast.Stmt, held []string) {
			for _, st := range stmts {
				if fld, op := lockOp(st); fld != "" {
					if op == "Lock" {
						held = append(append([]string(nil), held...), fld)
					} else {
						var nh []string
						for _, h := range held {
							if h != fld {
								nh = append(nh, h)
							}
						}
						held = nh
					}
					continue
				}
				switch v := st.(type) {
				case *ast.DeferStmt:
					continue // defer X.Unlock(): held until the function returns
				case *ast.BlockStmt:
					walkStmts(v.List, held)
				case *ast.IfStmt:
					if v.Init != nil {
						record(v.Init, held, false)
					}
					record(v.Cond, held, false)
					walkStmts(v.Body.List, held)
					if v.Else != nil {
						walkStmts([]ast.Stmt{v.Else}, held)
					}
				case *ast.ForStmt:
					if v.Init != nil {
						record(v.Init, held, false)
					}
					if v.Cond != nil {
						record(v.Cond, held, false)
					}
					if v.Post != nil {
						record(v.Post, held, false)
					}
					walkStmts(v.Body.List, held)
				case *ast.RangeStmt:
					record(v.X, held, false)
					walkStmts(v.Body.List, held)
				case *ast.SelectStmt:
					for _, c := range v.Body.List {
						cc := c.(*ast.CommClause)
						if cc.Comm != nil {
							record(cc.Comm, held, false)
						}
						walkStmts(cc.Body, held)
					}
				case *ast.SwitchStmt:
					if v.Tag != nil {
						record(v.Tag, held, false)
					}
					for _, c := range v.Body.List {
						walkStmts(c.(*ast.CaseClause).Body, held)
					}
				case *ast.LabeledStmt:
					walkStmts([]ast.Stmt{v.Stmt}, held)
				default:
					record(st, held, false)
				}
			}
		}
		walkStmts(body.List, nil)
	}
	for _, d := range f.Decls {
		fd, ok := d.(*ast.FuncDecl)
		if !ok || fd.Body == nil {
			continue
		}
		name := fd.Name.Name
		if fd.Recv != nil && len(fd.Recv.List) > 0 {
			t := fd.Recv.List[0].Type
			if st, ok := t.(*ast.StarExpr); ok {
				t = st.X
			}
			if id, ok := t.(*ast.Ident); ok {
				name = id.Name + "." + name
			}
		}
		walkFunc(name, fd.Body)
	}
	return accs
}

func renderAccesses(name string, accs []accRow) string {
	type key struct {
		fn, field, locks string
		write, atomic    bool
	}
	seen := map[key]bool{}
	var sb strings.Builder
	sb.WriteString("def " + name + " : List Access := [\n")
	var lines []string
	for _, a := range accs {
		sort.Strings(a.locks)
		k := key{a.fn, a.field, strings.Join(a.locks, ","), a.write, a.atomic}
		if seen[k] {
			continue
		}
		seen[k] = true
		lines = append(lines, fmt.Sprintf("  ⟨%s, %s, %v, %v, %s⟩", leanStr(a.fn), leanStr(a.field), a.write, a.atomic, leanStrList(a.locks)))
	}
	sort.Strings(lines)
	sb.WriteString(strings.Join(lines, ",\n"))
	sb.WriteString("\n]\n\n")
	return sb.String()
}

// sharedAccess: every access to a field of the EventLoop struct in eventloop.go, with the function (function
// literals are functions of their own: they run later, possibly on another goroutine), whether it writes, whether it
// goes through sync/atomic, and the mutexes of the loop held at that point; and the same for the fields of the job
// objects (Timer, Interval, Immediate).  C17's theorem `race_free` is decided over these tables.
func sharedAccess() string {
	f := mustFile("eventloop/eventloop.go")
	fields := map[string]bool{}
	for _, n := range structFields(f, "EventLoop") {
		fields[n] = true
	}
	loopAccs := accessTable(f, func(x ast.Expr) (string, bool) {
		se, ok := x.(*ast.SelectorExpr)
		if !ok {
			return "", false
		}
		id, ok := se.X.(*ast.Ident)
		if !ok || id.Name != "loop" || !fields[se.Sel.Name] {
			return "", false
		}
		return se.Sel.Name, true
	})
	jobFields := map[string]bool{}
	for _, t := range []string{"job", "Timer", "Interval", "Immediate"} {
		for _, n := range structFields(f, t) {
			jobFields[n] = true
		}
	}
	delete(jobFields, "job") // the embedded struct itself: &t.job is an address, not an access
	jobAccs := accessTable(f, func(x ast.Expr) (string, bool) {
		se, ok := x.(*ast.SelectorExpr)
		if !ok || !jobFields[se.Sel.Name] {
			return "", false
		}
		if id, ok := se.X.(*ast.Ident); ok && id.Name != "loop" {
			return se.Sel.Name, true
		}
		return "", false
	})
	var sb strings.Builder
	sb.WriteString("structure Access where\n  fn : String\n  field : String\n  write : Bool\n  atomic : Bool\n  locks : List String\n  deriving Repr, DecidableEq\n\n")
	sb.WriteString(renderAccesses("elAccesses", loopAccs))
	sb.WriteString(renderAccesses("jobAccesses", jobAccs))
	var fl []string
	for _, n := range structFields(f, "EventLoop") {
		fl = append(fl, n)
	}
	sb.WriteString("def eventLoopFields : List String := " + leanStrList(fl) + "\n\n")
	rf := mustFile("require/module.go")
	sb.WriteString("def registryFields : List String := " + leanStrList(structFields(rf, "Registry")) + "\n\n")
	sb.WriteString("def requireModuleFields : List String := " + leanStrList(structFields(rf, "RequireModule")) + "\n\n")
	// does getCompiledSource hold the registry mutex for its whole body (r.Lock(); defer r.Unlock() first)?
	locked := false
	if fd := findFunc(rf, "getCompiledSource"); fd != nil && len(fd.Body.List) >= 2 {
		a, b := exprString(fd.Body.List[0].(*ast.ExprStmt).X), ""
		if d, ok := fd.Body.List[1].(*ast.DeferStmt); ok {
			b = exprString(d.Call)
		}
		locked = a == "r.Lock()" && b == "r.Unlock()"
	}
	fmt.Fprintf(&sb, "def getCompiledSourceHoldsLock : Bool := %v\n", locked)
	return sb.String()
}

// sourcePins: one Nat per top-level declaration of the library (comments and layout do not count): the first 60 bits
// of the SHA-256 of the declaration printed by go/printer from a parse without comments.  The hand-written models
// record, per property, the values of the declarations they were transcribed from (GN/Props/Pins/Cxx.lean).
func sourcePins() string {
	dirs := []string{"buffer", "console", "errors", "eventloop", "goutil", "process", "require", "url", "util"}
	type pin struct {
		key string
		val uint64
	}
	var pins []pin
	seen := map[string]int{}
	add := func(key string, node interface{}) {
		var buf bytes.Buffer
		if err := (&printer.Config{Mode: printer.RawFormat, Tabwidth: 1}).Fprint(&buf, token.NewFileSet(), node); err != nil {
			fail("cannot print %s: %v", key, err)
		}
		// layout does not count: collapse all white space
		txt := strings.Join(strings.Fields(buf.String()), " ")
		sum := sha256.Sum256([]byte(txt))
		v := binary.BigEndian.Uint64(sum[:8]) >> 4
		key = regexp.MustCompile(`[^A-Za-z0-9_]`).ReplaceAllString(key, "_")
		seen[key]++
		if seen[key] > 1 {
			key = fmt.Sprintf("%s_%d", key, seen[key])
		}
		pins = append(pins, pin{key, v})
	}
	for _, d := range dirs {
		ents, err := os.ReadDir(filepath.Join(repo, d))
		if err != nil {
			fail("cannot read %s: %v", d, err)
		}
		var names []string
		for _, e := range ents {
			n := e.Name()
			if strings.HasSuffix(n, ".go") && !strings.HasSuffix(n, "_test.go") && n != "verif_on.go" && n != "verif_off.go" {
				names = append(names, n)
			}
		}
		sort.Strings(names)
		for _, n := range names {
			f, err := parser.ParseFile(token.NewFileSet(), filepath.Join(repo, d, n), nil, 0)
			if err != nil {
				fail("cannot parse %s/%s: %v", d, n, err)
			}
			for _, decl := range f.Decls {
				switch x := decl.(type) {
				case *ast.FuncDecl:
					key := d + "_" + x.Name.Name
					if x.Recv != nil && len(x.Recv.List) == 1 {
						t := x.Recv.List[0].Type
						if st, ok := t.(*ast.StarExpr); ok {
							t = st.X
						}
						if id, ok := t.(*ast.Ident); ok {
							key = d + "_" + id.Name + "_" + x.Name.Name
						}
					}
					add(key, x)
				case *ast.GenDecl:
					if x.Tok == token.IMPORT {
						continue
					}
					for _, sp := range x.Specs {
						switch y := sp.(type) {
						case *ast.ValueSpec:
							add(d+"_"+strings.ToLower(x.Tok.String())+"_"+y.Names[0].Name, y)
						case *ast.TypeSpec:
							add(d+"_type_"+y.Name.Name, y)
						}
					}
				}
			}
		}
	}
	var sb strings.Builder
	sb.WriteString("namespace Pin\n")
	for _, p := range pins {
		fmt.Fprintf(&sb, "def %s : Nat := 0x%015x\n", p.key, p.val)
	}
	sb.WriteString("end Pin\n")
	return sb.String()
}

// byteKernel: a function `func f(c byte) T` whose body is a tagless switch of `return`s followed by a final return,
// with conditions and results built from c, character/integer literals, comparisons, && || and + - on bytes
// (url/escape.go: ishex, unhex).  Emitted as a UInt8 function; UInt8 arithmetic wraps like Go's byte.
func byteKernel(fd *ast.FuncDecl, leanName string) string {
	if fd.Type.Params == nil || len(fd.Type.Params.List) != 1 || len(fd.Type.Params.List[0].Names) != 1 {
		fail("%s: one parameter expected", leanName)
	}
	if id, ok := fd.Type.Params.List[0].Type.(*ast.Ident); !ok || id.Name != "byte" {
		fail("%s: parameter must be a byte", leanName)
	}
	param := fd.Type.Params.List[0].Names[0].Name
	if fd.Type.Results == nil || len(fd.Type.Results.List) != 1 {
		fail("%s: one result expected", leanName)
	}
	rt, ok := fd.Type.Results.List[0].Type.(*ast.Ident)
	if !ok || (rt.Name != "bool" && rt.Name != "byte") {
		fail("%s: result must be bool or byte", leanName)
	}
	leanT := map[string]string{"bool": "Bool", "byte": "UInt8"}[rt.Name]
	var tr func(x ast.Expr) string
	tr = func(x ast.Expr) string {
		switch e := x.(type) {
		case *ast.ParenExpr:
			return tr(e.X)
		case *ast.Ident:
			switch e.Name {
			case param:
				return "c"
			case "true", "false":
				return e.Name
			}
			fail("%s: unknown identifier %s", leanName, e.Name)
		case *ast.BasicLit:
			switch e.Kind {
			case token.CHAR:
				r, _, _, err := strconv.UnquoteChar(e.Value[1:len(e.Value)-1], '\'')
				if err != nil || r > 255 {
					fail("%s: character literal %s", leanName, e.Value)
				}
				return fmt.Sprintf("(%d : UInt8)", r)
			case token.INT:
				n, err := strconv.ParseInt(e.Value, 0, 64)
				if err != nil || n < 0 || n > 255 {
					fail("%s: integer literal %s", leanName, e.Value)
				}
				return fmt.Sprintf("(%d : UInt8)", n)
			}
		case *ast.BinaryExpr:
			a, b := tr(e.X), tr(e.Y)
			switch e.Op {
			case token.LAND:
				return "(" + a + " && " + b + ")"
			case token.LOR:
				return "(" + a + " || " + b + ")"
			case token.LEQ:
				return "decide (" + a + " ≤ " + b + ")"
			case token.LSS:
				return "decide (" + a + " < " + b + ")"
			case token.GEQ:
				return "decide (" + b + " ≤ " + a + ")"
			case token.GTR:
				return "decide (" + b + " < " + a + ")"
			case token.EQL:
				return "(" + a + " == " + b + ")"
			case token.NEQ:
				return "(" + a + " != " + b + ")"
			case token.ADD:
				return "(" + a + " + " + b + ")"
			case token.SUB:
				return "(" + a + " - " + b + ")"
			}
		}
		fail("%s: expression outside the subset: %s", leanName, exprString(x))
		return ""
	}
	if len(fd.Body.List) != 2 {
		fail("%s: body must be a switch followed by a return", leanName)
	}
	sw, ok := fd.Body.List[0].(*ast.SwitchStmt)
	if !ok || sw.Tag != nil || sw.Init != nil {
		fail("%s: tagless switch expected", leanName)
	}
	last, ok := fd.Body.List[1].(*ast.ReturnStmt)
	if !ok || len(last.Results) != 1 {
		fail("%s: final return expected", leanName)
	}
	var sb strings.Builder
	fmt.Fprintf(&sb, "def %s (c : UInt8) : %s :=\n", leanName, leanT)
	for _, st := range sw.Body.List {
		cc := st.(*ast.CaseClause)
		if len(cc.List) != 1 || len(cc.Body) != 1 {
			fail("%s: each case must have one condition and one return", leanName)
		}
		ret, ok := cc.Body[0].(*ast.ReturnStmt)
		if !ok || len(ret.Results) != 1 {
			fail("%s: case body must be a return", leanName)
		}
		fmt.Fprintf(&sb, "  if %s then %s else\n", tr(cc.List[0]), tr(ret.Results[0]))
	}
	fmt.Fprintf(&sb, "  %s\n", tr(last.Results[0]))
	return sb.String()
}

type fragment struct {
	name string
	gen  func() string
}

func emitFile(rel string, header string, frags []fragment) {
	var sb strings.Builder
	sb.WriteString("/- GENERATED by verif-extract from /repo's working tree on every check run. Do not edit. -/\n")
	sb.WriteString(header)
	for _, fr := range frags {
		text, st := runFrag(fr)
		st.File = rel
		statuses = append(statuses, st)
		sb.WriteString("\n")
		sb.WriteString(text)
	}
	sb.WriteString("\nend GN.Generated\n")
	path := filepath.Join(outDir, rel)
	old, _ := os.ReadFile(path)
	if string(old) != sb.String() {
		if err := os.WriteFile(path, []byte(sb.String()), 0o644); err != nil {
			fmt.Fprintln(os.Stderr, err)
			os.Exit(2)
		}
	}
}

func runFrag(fr fragment) (text string, st fragStatus) {
	st.Name = fr.name
	defer func() {
		if r := recover(); r != nil {
			te, ok := r.(trErr)
			if !ok {
				te = trErr{fmt.Sprint(r)}
			}
			snap, err := os.ReadFile(filepath.Join(snapDir, fr.name+".frag"))
			if err != nil {
				fmt.Fprintf(os.Stderr, "verif-extract: fragment %s failed (%s) and has no snapshot\n", fr.name, te.msg)
				os.Exit(2)
			}
			text = string(snap)
			st.Status = "fallback"
			st.Reason = te.msg
		}
	}()
	text = fr.gen()
	st.Status = "regenerated"
	if updateSnap {
		os.MkdirAll(snapDir, 0o755)
		os.WriteFile(filepath.Join(snapDir, fr.name+".frag"), []byte(text), 0o644)
	}
	return
}

func mustFile(rel string) *ast.File {
	f, err := parseFile(rel)
	if err != nil {
		fail("cannot parse %s: %v", rel, err)
	}
	return f
}

func mustFunc(rel, name string) *ast.FuncDecl {
	fd := findFunc(mustFile(rel), name)
	if fd == nil {
		fail("function %s not found in %s", name, rel)
	}
	return fd
}

func main() {
	flag.StringVar(&repo, "repo", "/repo", "repository root")
	flag.StringVar(&outDir, "out", "/verif/lean/GN/Generated", "output directory")
	flag.StringVar(&snapDir, "snapshot", "/verif/lean/snapshot", "snapshot directory for fallbacks")
	flag.BoolVar(&updateSnap, "update-snapshot", false, "rewrite the snapshot fragments")
	statusPath := flag.String("status", "", "write fragment status JSON here")
	flag.Parse()
	os.MkdirAll(outDir, 0o755)

	const hdr = "import GN.Basic\nnamespace GN.Generated\nopen GN\n"

	// ---- buffer kernels
	bufKernel := func(goName, lean, mode string) fragment {
		return fragment{lean, func() string { return kernel(mustFunc("buffer/buffer.go", goName), lean, mode) }}
	}
	emitFile("BufferKernels.lean", hdr, []fragment{
		bufKernel("signExtend", "signExtend", "value"),
		bufKernel("ensureWithinInt16Range", "ensureWithinInt16Range", "guard"),
		bufKernel("ensureWithinInt32Range", "ensureWithinInt32Range", "guard"),
		bufKernel("ensureWithinUInt16Range", "ensureWithinUInt16Range", "guard"),
		bufKernel("ensureWithinUInt32Range", "ensureWithinUInt32Range", "guard"),
		bufKernel("ensureWithinIntRange", "ensureWithinIntRange", "guard"),
		bufKernel("ensureWithinUIntRange", "ensureWithinUIntRange", "guard"),
		bufKernel("getOffsetArgument", "getOffsetArgument_guard", "guard"),
		bufKernel("getVariableLengthArguments", "getVariableLengthArguments_guard", "guard"),
		{"writeInt8_valueGuard", func() string {
			return inlineGuard(mustFunc("buffer/buffer.go", "writeInt8"), "writeInt8_valueGuard", "value")
		}},
		{"writeUInt8_valueGuard", func() string {
			return inlineGuard(mustFunc("buffer/buffer.go", "writeUInt8"), "writeUInt8_valueGuard", "value")
		}},
	})

	// ---- buffer method table
	emitFile("BufferMethods.lean", hdr+`
structure MethodFacts where
  goName : String
  dir : String
  coerce : String
  offKind : String
  offIdx : Nat
  numBytes : Nat
  endian : String
  rangeFn : String
  conv : String
  retAdd : String
  deriving Repr, DecidableEq, Inhabited
`, []fragment{
		{"bufferProtoSet", func() string {
			fd := mustFunc("buffer/buffer.go", "Require")
			var ents []string
			for _, c := range setCalls(fd, map[string]bool{"proto": true}) {
				ents = append(ents, "("+leanStr(c[1])+", "+leanStr(strings.TrimPrefix(c[2], "b."))+")")
			}
			return "def bufferProtoSet : List (String × String) := [\n  " + strings.Join(ents, ",\n  ") + "]\n"
		}},
		{"bufferCtorSet", func() string {
			fd := mustFunc("buffer/buffer.go", "Require")
			var ents []string
			for _, c := range setCalls(fd, map[string]bool{"ctor": true}) {
				ents = append(ents, "("+leanStr(c[1])+", "+leanStr(strings.TrimPrefix(c[2], "b."))+")")
			}
			return "def bufferCtorSet : List (String × String) := [" + strings.Join(ents, ", ") + "]\n"
		}},
		{"bufferMethodFacts", func() string {
			f := mustFile("buffer/buffer.go")
			fd := findFunc(f, "Require")
			seen := map[string]bool{}
			var names []string
			for _, c := range setCalls(fd, map[string]bool{"proto": true}) {
				g := strings.TrimPrefix(c[2], "b.")
				if (strings.HasPrefix(g, "read") || (strings.HasPrefix(g, "write") && g != "write")) && !seen[g] {
					seen[g] = true
					names = append(names, g)
				}
			}
			sort.Strings(names)
			var ents []string
			for _, g := range names {
				mf := findFunc(f, g)
				if mf == nil {
					fail("method %s not found", g)
				}
				m := bufferMethodFacts(mf)
				ents = append(ents, fmt.Sprintf("{ goName := %s, dir := %s, coerce := %s, offKind := %s, offIdx := %d, numBytes := %d, endian := %s, rangeFn := %s, conv := %s, retAdd := %s }",
					leanStr(m.goName), leanStr(m.dir), leanStr(m.coerce), leanStr(m.offKind), m.offIdx, m.numBytes, leanStr(m.endian), leanStr(m.rangeFn), leanStr(m.conv), leanStr(m.retAdd)))
			}
			return "def bufferMethodFacts : List MethodFacts := [\n  " + strings.Join(ents, ",\n  ") + "]\n"
		}},
		{"stringCodecs", func() string {
			return mapLiteral(mustFile("buffer/buffer.go"), "stringCodecs", "stringCodecs")
		}},
	})

	// ---- url tables
	emitFile("UrlTables.lean", hdr, []fragment{
		{"tblEscapeURLQuery", func() string { return byteTable(mustFile("url/escape.go"), "tblEscapeURLQuery") }},
		{"tblEscapeURLQueryParam", func() string { return byteTable(mustFile("url/escape.go"), "tblEscapeURLQueryParam") }},
		{"upperhex", func() string {
			return "def upperhex : String := " + leanStr(stringConst(mustFile("url/escape.go"), "upperhex")) + "\n"
		}},
		{"ishex", func() string { return byteKernel(mustFunc("url/escape.go", "ishex"), "ishex") }},
		{"unhex", func() string { return byteKernel(mustFunc("url/escape.go", "unhex"), "unhex") }},
		{"defaultPorts", func() string { return defaultPorts(mustFunc("url/url.go", "isDefaultURLPort")) }},
		{"specialProtocols", func() string {
			return stringSwitchSet(mustFunc("url/url.go", "isSpecialProtocol"), "specialProtocols")
		}},
		{"specialNetProtocols", func() string {
			return stringSwitchSet(mustFunc("url/url.go", "isSpecialNetProtocol"), "specialNetProtocols")
		}},
	})

	// ---- event loop kernels
	emitFile("EventLoopKernels.lean", hdr, []fragment{
		{"msToDuration", func() string {
			return kernel(mustFunc("eventloop/eventloop.go", "msToDuration"), "msToDuration", "value")
		}},
	})

	// ---- misc registration data
	emitFile("Misc.lean", hdr, []fragment{
		{"nodePrefix", func() string {
			return "def nodePrefix : String := " + leanStr(stringConst(mustFile("require/resolve.go"), "NodePrefix")) + "\n"
		}},
		{"consoleSinks", func() string {
			fd := mustFunc("console/module.go", "requireWithPrinter")
			var ents []string
			for _, c := range setCalls(fd, map[string]bool{"o": true}) {
				// c.log(c.printer.Log) -> Log
				v := c[2]
				v = strings.TrimSuffix(strings.TrimPrefix(v, "c.log(c.printer."), ")")
				ents = append(ents, "("+leanStr(c[1])+", "+leanStr(v)+")")
			}
			return "def consoleSinks : List (String × String) := [" + strings.Join(ents, ", ") + "]\n"
		}},
		{"timerGlobals", func() string {
			fd := mustFunc("eventloop/eventloop.go", "NewEventLoop")
			var ents []string
			for _, c := range setCalls(fd, map[string]bool{"vm": true}) {
				ents = append(ents, "("+leanStr(c[1])+", "+leanStr(strings.TrimPrefix(c[2], "loop."))+")")
			}
			return "def timerGlobals : List (String × String) := [" + strings.Join(ents, ", ") + "]\n"
		}},
		{"resolveLiterals", func() string {
			// the string literals of the candidate-building functions of require/resolve.go, in source order
			f := mustFile("require/resolve.go")
			var ents []string
			for _, fn := range []string{"loadAsFile", "loadIndex", "loadAsDirectory", "loadNodeModules"} {
				fd := findFunc(f, fn)
				if fd == nil {
					fail("function %s not found", fn)
				}
				var lits []string
				ast.Inspect(fd.Body, func(n ast.Node) bool {
					if bl, ok := n.(*ast.BasicLit); ok && bl.Kind == token.STRING {
						v, _ := strconv.Unquote(bl.Value)
						lits = append(lits, v)
					}
					return true
				})
				ents = append(ents, "("+leanStr(fn)+", "+leanStrList(lits)+")")
			}
			return "def resolveLiterals : List (String × List String) := [" + strings.Join(ents, ", ") + "]\n"
		}},
		{"formatDirectives", func() string {
			// case clauses of the switch in (*Util).format: rune literals
			fd := mustFunc("util/module.go", "format")
			var ds []string
			ast.Inspect(fd.Body, func(n ast.Node) bool {
				if cc, ok := n.(*ast.CaseClause); ok {
					for _, x := range cc.List {
						if bl, ok := x.(*ast.BasicLit); ok && bl.Kind == token.CHAR {
							s, _ := strconv.Unquote(bl.Value)
							ds = append(ds, s)
						}
					}
				}
				return true
			})
			return "def formatDirectives : List String := " + leanStrList(ds) + "\n"
		}},
	})

	// ---- accesses to the state shared between goroutines (C17)
	emitFile("SharedAccess.lean", hdr, []fragment{
		{"sharedAccess", sharedAccess},
	})

	// ---- inventory of potential run-time panic sites (C09)
	emitFile("PanicSites.lean", hdr, []fragment{
		{"panicSites", func() string {
			return panicSites([]string{"buffer/buffer.go", "goutil/argtypes.go", "errors/errors.go", "eventloop/eventloop.go",
				"url/url.go", "url/nodeurl.go", "url/urlsearchparams.go", "url/escape.go", "util/module.go", "console/module.go",
				"process/module.go", "require/module.go", "require/resolve.go"})
		}},
	})

	// ---- digests of the declarations the hand transcriptions were written from (transcription pins)
	emitFile("SourcePins.lean", hdr, []fragment{
		{"sourcePins", sourcePins},
	})

	if *statusPath != "" {
		b, _ := json.MarshalIndent(statuses, "", " ")
		os.WriteFile(*statusPath, b, 0o644)
	}
	nfb := 0
	for _, s := range statuses {
		if s.Status == "fallback" {
			nfb++
			fmt.Printf("verif-extract: FALLBACK %s (%s)\n", s.Name, s.Reason)
		}
	}
	fmt.Printf("verif-extract: %d fragments, %d regenerated, %d fallback\n", len(statuses), len(statuses)-nfb, nfb)
}
