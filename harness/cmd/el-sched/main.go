// el-sched: controlled-schedule harness for the event loop (C03-C08, C17).
//
// The real eventloop package is built with -tags verif.  VerifHook parks every goroutine that reaches a yield
// point; a scheduler goroutine lets exactly one parked goroutine proceed and waits until the system has settled
// (every managed goroutine has parked again, has finished, or is blocked inside a Go primitive, which is read off
// the goroutine wait statuses of a runtime.Stack dump).  Every arrival at a yield point is recorded with a
// white-box snapshot of the loop's bookkeeping; API-level events (calls, returns, callback begin/end) are
// recorded by the scenario interpreter.  One scenario = one line: `EL <event>… `, judged by the Lean driver.
package main

import (
	"bufio"
	"bytes"
	"encoding/json"
	"flag"
	"fmt"
	"math"
	"os"
	"regexp"
	"runtime"
	"sort"
	"strconv"
	"strings"
	"sync"
	"time"

	"github.com/dop251/goja"
	"github.com/dop251/goja_nodejs/eventloop"

	"verifharness/internal/hx"
)

// ------------------------------------------------------------------------------------------ scenario

type action struct {
	K string `json:"k"`           // st si im ct ci cim rol snw throw
	A int    `json:"a"`           // callback id | handle slot
	D int    `json:"d"`           // delay ms
	H int    `json:"h"`           // handle slot to store into
	X string `json:"x,omitempty"` // exotic JavaScript delay (overrides D): 1e19 1e300 inf -inf nan 2p63 -1e19 0.9 1e13 str
}

type step struct {
	K string `json:"k"` // controller: start startfg run stop snw term ; submitter: rol st si ct ci snw
	A int    `json:"a"`
	D int    `json:"d"`
	H int    `json:"h"`
}

type scenario struct {
	Callbacks  [][]action `json:"cbs"`
	Controller []step     `json:"ctl"`
	Submitters [][]step   `json:"subs"`
	Seed       uint64     `json:"seed"`     // schedule seed
	Strategy   string     `json:"strategy"` // random | pct
}

// ------------------------------------------------------------------------------------------ scheduler

type gstate struct {
	born   int // registration epoch (a goroutine missing from a stack dump taken before it registered is not finished)
	goid   int64
	role   string
	ch     chan struct{}
	parked bool
	point  string
	prio   int
}

type run struct {
	sc           scenario
	loop         *eventloop.EventLoop
	mu           sync.Mutex
	gs           map[int64]*gstate
	events       []string
	t0           time.Time
	rng          *hx.Rng
	jobIDs       map[interface{}]int
	nJobs        int
	nFn          int
	nLoopG       int
	jsH          map[int]goja.Value
	goT          map[int]*eventloop.Timer
	goI          map[int]*eventloop.Interval
	started      chan struct{} // closed/sent when a foreground start has passed setRunning
	stuck        bool
	steps        int
	cbDepth      int
	pctChange    []int
	epoch        int
	spawns       int // goroutines that have been started but have not registered yet (the system is not settled)
	inJS         bool
	aborted      bool
	errors       []string
	lastReleased *gstate
}

var cur *run

var goidRe = regexp.MustCompile(`^goroutine (\d+) \[`)

func curGoid() int64 {
	var buf [64]byte
	n := runtime.Stack(buf[:], false)
	m := goidRe.FindSubmatch(buf[:n])
	if m == nil {
		return -1
	}
	id, _ := strconv.ParseInt(string(m[1]), 10, 64)
	return id
}

// jobIDL is jobID for callers that do not hold r.mu
func (r *run) jobIDL(obj interface{}) string {
	r.mu.Lock()
	defer r.mu.Unlock()
	return r.jobID(obj)
}

func (r *run) jobID(obj interface{}) string {
	k := eventloop.VerifJobKey(obj)
	if k == nil {
		return "-"
	}
	if id, ok := r.jobIDs[k]; ok {
		return fmt.Sprint(id)
	}
	r.nJobs++
	r.jobIDs[k] = r.nJobs
	return fmt.Sprint(r.nJobs)
}

func (r *run) snapshot() string {
	s := r.loop.VerifSnapshot()
	b := func(x bool) int {
		if x {
			return 1
		}
		return 0
	}
	return fmt.Sprintf("a%d,t%d,c%d,r%d,x%d,n%d,j%d", s.AuxJobs, b(s.Token), b(s.CanRun), b(s.Running), b(s.Terminated), s.JobCount, s.Jobs)
}

func (r *run) us() int64 { return time.Since(r.t0).Microseconds() }

// record an API-level event from a managed goroutine (no yield)
func (r *run) api(fields ...string) {
	g := r.me()
	role := "?"
	if g != nil {
		role = g.role
	}
	r.mu.Lock()
	r.events = append(r.events, "A,"+role+","+strings.Join(fields, ",")+fmt.Sprintf(",@%d", r.us()))
	r.mu.Unlock()
}

func (r *run) me() *gstate {
	id := curGoid()
	r.mu.Lock()
	defer r.mu.Unlock()
	return r.gs[id]
}

func (r *run) register(role string) *gstate {
	id := curGoid()
	r.mu.Lock()
	defer r.mu.Unlock()
	if role == "F" && r.spawns > 0 {
		r.spawns--
	}
	r.epoch++
	g := &gstate{goid: id, role: role, ch: make(chan struct{}, 1), prio: len(r.gs), born: r.epoch}
	r.gs[id] = g
	return g
}

// hook is VerifHook: called by any goroutine at a yield point
func hook(loop *eventloop.EventLoop, point string, obj interface{}) {
	r := cur
	if r == nil || loop != r.loop {
		return // a goroutine left over from an earlier scenario
	}
	id := curGoid()
	r.mu.Lock()
	g := r.gs[id]
	if g == nil {
		role := ""
		switch {
		case point == "timer.fire":
			role = "T" + r.jobID(obj)
		case strings.HasPrefix(point, "ival."):
			role = "I" + r.jobID(obj)
		case point == "run.enter":
			r.nLoopG++
			role = fmt.Sprintf("L%d", r.nLoopG)
			if r.spawns > 0 {
				r.spawns--
			}
		default:
			role = fmt.Sprintf("U%d", id)
		}
		r.epoch++
		g = &gstate{goid: id, role: role, ch: make(chan struct{}, 1), prio: len(r.gs), born: r.epoch}
		r.gs[id] = g
	}
	if lr := r.lastReleased; lr != nil && lr != g && !lr.parked && (g.role == "C" || g.role == "F" || g.role[0] == 'S' || g.role[0] == 'L') {
		// the goroutine the scheduler released is still on its way to its next yield point, and this one arrives:
		// it had been blocked on a lock (or condition) that the released one has just let go.  Both run at once,
		// so this snapshot may show half of the other's segment: the driver does not compare it.
		r.events = append(r.events, "Q,"+g.role)
	}
	ev := fmt.Sprintf("Y,%s,%s,%s,%s,@%d", g.role, point, r.jobID(obj), r.snapshot(), r.us())
	r.events = append(r.events, ev)
	g.parked = true
	g.point = point
	r.mu.Unlock()
	if point == "run.enter" && r.started != nil {
		select {
		case r.started <- struct{}{}:
		default:
		}
	}
	<-g.ch
}

// park at a synthetic yield point of the harness itself (thread start, between API calls)
func (r *run) yield(point string) {
	id := curGoid()
	r.mu.Lock()
	g := r.gs[id]
	if g == nil {
		r.mu.Unlock()
		return
	}
	if lr := r.lastReleased; lr != nil && lr != g && !lr.parked {
		r.events = append(r.events, "Q,"+g.role) // see hook
	}
	r.events = append(r.events, fmt.Sprintf("Y,%s,%s,-,%s,@%d", g.role, point, r.snapshot(), r.us()))
	g.parked = true
	g.point = point
	r.mu.Unlock()
	<-g.ch
}

var statusRe = regexp.MustCompile(`(?m)^goroutine (\d+) \[([^\]]+)\]:`)

func isBlockedStatus(s string) bool {
	s = strings.SplitN(s, ",", 2)[0] // "chan receive, 2 minutes" -> "chan receive"
	switch s {
	case "select", "chan send", "chan receive", "sync.Cond.Wait", "sync.Mutex.Lock", "semacquire", "sync.WaitGroup.Wait", "select (no cases)", "sync.RWMutex.Lock", "sync.RWMutex.RLock":
		return true
	}
	return false
}

var lockPrimitives = [][]byte{[]byte("runtime.gopark"), []byte("runtime.semacquire"), []byte("runtime.goparkunlock"),
	[]byte("internal/sync.runtime_Semacquire"), []byte("sync.runtime_Semacquire"), []byte("internal/sync.(*Mutex)"),
	[]byte("sync.(*Mutex)"), []byte("sync.(*RWMutex)"), []byte("internal/sync.(*RWMutex)"), []byte("internal/sync.runtime_"), []byte("sync.runtime_")}

func isLockPrimitive(frame []byte) bool {
	for _, p := range lockPrimitives {
		if bytes.HasPrefix(frame, p) {
			return true
		}
	}
	return false
}

var stackBuf = make([]byte, 1<<20)

var elDebug = os.Getenv("VERIF_ELDEBUG") != ""

const maxSteps = 1500

// settle waits until every managed goroutine is parked, finished or blocked in a primitive.
// It returns the parked goroutines.
func (r *run) settle() (parked []*gstate, allDone bool) {
	deadline := time.Now().Add(3 * time.Second)
	for {
		r.mu.Lock()
		epoch0 := r.epoch
		r.mu.Unlock()
		n := runtime.Stack(stackBuf, true)
		for n == len(stackBuf) {
			stackBuf = make([]byte, 2*len(stackBuf))
			n = runtime.Stack(stackBuf, true)
		}
		status := map[int64]string{}
		frames := map[int64]string{}
		var dbg []string
		idx := statusRe.FindAllSubmatchIndex(stackBuf[:n], -1)
		for k, m := range idx {
			id, _ := strconv.ParseInt(string(stackBuf[m[2]:m[3]]), 10, 64)
			st := string(stackBuf[m[4]:m[5]])
			if elDebug {
				end := n
				if k+1 < len(idx) {
					end = idx[k+1][0]
				}
				var fs []string
				for _, ln := range bytes.Split(stackBuf[m[0]:end], []byte("\n"))[1:] {
					if len(ln) > 0 && ln[0] != '\t' && len(fs) < 8 {
						fs = append(fs, string(ln))
					}
				}
				frames[id] = strings.Join(fs, " < ")
			}
			// A goroutine that waits for a mutex or semaphore may be waiting for the harness's own lock (inside the
			// hook, on its way to its next yield point) or for a semaphore of the Go runtime itself (gcStart and
			// stopTheWorld take worldsema/gcsema with a plain semacquire, and this very dump stops the world):
			// such a goroutine is running, not blocked by the code under test.
			if base := strings.SplitN(st, ",", 2)[0]; base == "sync.Mutex.Lock" || base == "semacquire" || base == "sync.RWMutex.Lock" || base == "sync.RWMutex.RLock" {
				end := n
				if k+1 < len(idx) {
					end = idx[k+1][0]
				}
				// the function that asked for the lock: the first frame that is not a parking / locking primitive
				sawPrimitive := false
				for _, ln := range bytes.Split(stackBuf[m[0]:end], []byte("\n"))[1:] {
					if len(ln) == 0 || ln[0] == '\t' {
						continue // file:line
					}
					if isLockPrimitive(ln) {
						sawPrimitive = true
						continue
					}
					if base == "semacquire" && !sawPrimitive {
						// parked by the runtime itself (frames of package runtime are elided from the dump): a
						// goroutine that starts a GC cycle or stops the world waits for gcsema/worldsema while
						// this dump holds the world stopped
						st = "running (runtime-internal semaphore)"
						break
					}
					if bytes.HasPrefix(ln, []byte("main.")) {
						st = "running (harness lock)"
					} else if bytes.HasPrefix(ln, []byte("runtime.")) || bytes.HasPrefix(ln, []byte("internal/")) {
						st = "running (runtime-internal semaphore)"
					}
					break
				}
			}
			status[id] = st
		}
		r.mu.Lock()
		busy := false
		parked = parked[:0]
		live := 0
		for id, g := range r.gs {
			st, present := status[id]
			if !present {
				if g.born <= epoch0 {
					delete(r.gs, id) // finished
				} else {
					busy = true // registered after the dump was taken: look again
				}
				continue
			}
			live++
			if g.parked {
				// parked in the hook: status is "chan receive" once it actually blocks
				if !isBlockedStatus(st) {
					busy = true
				}
				parked = append(parked, g)
				continue
			}
			if !isBlockedStatus(st) {
				busy = true
			} else if elDebug {
				dbg = append(dbg, fmt.Sprintf("%s=[%s] %s", g.role, st, frames[id]))
			}
		}
		r.mu.Unlock()
		if !busy {
			if elDebug && len(dbg) > 0 {
				fmt.Fprintf(os.Stderr, "SETTLED @%d with blocked: %s\n", r.us(), strings.Join(dbg, " ;; "))
			}
			return parked, live == 0
		}
		if time.Now().After(deadline) {
			r.errors = append(r.errors, "settle-timeout")
			return parked, false
		}
		time.Sleep(20 * time.Microsecond)
	}
}

func (r *run) pick(parked []*gstate) *gstate {
	// deterministic order first
	for i := 0; i < len(parked); i++ {
		for j := i + 1; j < len(parked); j++ {
			if parked[j].role < parked[i].role {
				parked[i], parked[j] = parked[j], parked[i]
			}
		}
	}
	if r.sc.Strategy == "pct" {
		// priority schedule with a few change points
		for _, c := range r.pctChange {
			if c == r.steps {
				best := r.best(parked)
				best.prio = -r.steps // demote
			}
		}
		return r.best(parked)
	}
	return parked[r.rng.Intn(len(parked))]
}

func (r *run) best(parked []*gstate) *gstate {
	b := parked[0]
	for _, g := range parked[1:] {
		if g.prio > b.prio {
			b = g
		}
	}
	return b
}

// ------------------------------------------------------------------------------------------ scenario interpreter

func (r *run) callback(vm *goja.Runtime, id int, kind string, ref string) {
	r.api("cbbegin", fmt.Sprint(id), kind, ref)
	r.cbDepth++
	prevJS := r.inJS
	r.inJS = ref == "-" && kind != "runfn" // invoked through a JS function: a thrown value is a JS exception
	defer func() { r.inJS = prevJS }()
	defer func() {
		r.cbDepth--
		r.api("cbend", fmt.Sprint(id))
	}()
	if id < 0 || id >= len(r.sc.Callbacks) {
		return
	}
	for _, a := range r.sc.Callbacks[id] {
		r.doAction(vm, a)
	}
}

func (r *run) jsFunc(vm *goja.Runtime, cb int, kind string) goja.Value {
	var self goja.Value
	self = vm.ToValue(func(call goja.FunctionCall) goja.Value {
		r.callback(vm, cb, kind, "-")
		return goja.Undefined()
	})
	return self
}

func (r *run) callGlobal(vm *goja.Runtime, name string, args ...goja.Value) goja.Value {
	f, ok := goja.AssertFunction(vm.Get(name))
	if !ok {
		return goja.Undefined()
	}
	v, err := f(goja.Undefined(), args...)
	if err != nil {
		r.api("jserror", name)
		return goja.Undefined()
	}
	return v
}

func (r *run) doAction(vm *goja.Runtime, a action) {
	switch a.K {
	case "st":
		r.api("willset", "timeout")
		dv, eff := jsDelay(vm, a)
		h := r.callGlobal(vm, "setTimeout", r.jsFunc(vm, a.A, "timeout"), dv)
		r.jsH[a.H] = h
		r.api("set", "timeout", r.jobIDL(exportOf(h)), fmt.Sprint(eff), fmt.Sprint(a.A))
	case "si":
		r.api("willset", "interval")
		dv, eff := jsDelay(vm, a)
		h := r.callGlobal(vm, "setInterval", r.jsFunc(vm, a.A, "interval"), dv)
		r.jsH[a.H] = h
		r.api("set", "interval", r.jobIDL(exportOf(h)), fmt.Sprint(eff), fmt.Sprint(a.A))
	case "im":
		h := r.callGlobal(vm, "setImmediate", r.jsFunc(vm, a.A, "immediate"))
		r.jsH[a.H] = h
		r.api("set", "immediate", r.jobIDL(exportOf(h)), "0", fmt.Sprint(a.A))
	case "ct", "ci", "cim":
		name := map[string]string{"ct": "clearTimeout", "ci": "clearInterval", "cim": "clearImmediate"}[a.K]
		h := r.jsH[a.A]
		if h == nil {
			h = goja.Undefined()
		}
		r.callGlobal(vm, name, h)
		r.api("clear", a.K, r.jobIDL(exportOf(h)))
	case "rol":
		fn := r.newFn()
		r.api("call", "rol", fn)
		ok := r.loop.RunOnLoop(func(vm *goja.Runtime) { r.callback(vm, a.A, "fn", fn) })
		r.api("ret", "rol", fn, fmt.Sprint(ok))
	case "snw":
		r.api("call", "snw")
		r.loop.StopNoWait()
		r.api("ret", "snw")
	case "throw":
		if r.inJS { // a Go panic in a Go-level callback is outside the claim
			r.api("throw")
			panic(vm.ToValue("boom"))
		}
	}
}

// jsDelay: the JavaScript value passed as the delay and the delay (ms) the property speaks about: a delay beyond what
// the scenario can wait for is "never" (9e12 ms), NaN / negative / below 1 ms is 0 (truncation as in Node)
func jsDelay(vm *goja.Runtime, a action) (goja.Value, int64) {
	const never = 9000000000000
	switch a.X {
	case "":
		return vm.ToValue(a.D), int64(a.D)
	case "1e19":
		return vm.ToValue(1e19), never
	case "1e300":
		return vm.ToValue(1e300), never
	case "inf":
		return vm.ToValue(math.Inf(1)), never
	case "2p63":
		return vm.ToValue(9223372036854775808.0), never
	case "1e13":
		return vm.ToValue(1e13), never
	case "max":
		return vm.ToValue(math.MaxFloat64), never
	case "-inf":
		return vm.ToValue(math.Inf(-1)), 0
	case "-1e19":
		return vm.ToValue(-1e19), 0
	case "nan":
		return vm.ToValue(math.NaN()), 0
	case "0.9":
		return vm.ToValue(0.9), 0
	case "throw":
		// the conversion of the delay throws: nothing is set (the harness logs `set` without a handle)
		v, _ := vm.RunString("({valueOf: function () { throw new Error('delay') }})")
		return v, 0
	case "sym":
		v, _ := vm.RunString("Symbol('delay')")
		return v, 0
	}
	return vm.ToValue(a.D), int64(a.D)
}

func exportOf(v goja.Value) interface{} {
	if v == nil || goja.IsUndefined(v) || goja.IsNull(v) {
		return nil
	}
	return v.Export()
}

func (r *run) newFn() string {
	r.mu.Lock()
	r.nFn++
	n := r.nFn
	r.mu.Unlock()
	return fmt.Sprintf("f%d", n)
}

func (r *run) submitter(k int, steps []step) {
	r.register(fmt.Sprintf("S%d", k))
	r.yield("thread.start")
	for _, s := range steps {
		if r.isAborted() {
			return
		}
		switch s.K {
		case "rol":
			fn := r.newFn()
			cb := s.A
			r.api("call", "rol", fn)
			ok := r.loop.RunOnLoop(func(vm *goja.Runtime) { r.callback(vm, cb, "fn", fn) })
			r.api("ret", "rol", fn, fmt.Sprint(ok))
		case "st":
			fn := r.newFn()
			cb := s.A
			r.api("call", "gost", fn, fmt.Sprint(s.D))
			t := r.loop.SetTimeout(func(vm *goja.Runtime) { r.callback(vm, cb, "timeout", fn) }, time.Duration(s.D)*time.Millisecond)
			r.mu.Lock()
			r.goT[k*100+s.H] = t
			r.mu.Unlock()
			r.api("ret", "gost", fn, fmt.Sprint(t != nil), r.jobIDOrNil(t))
		case "si":
			fn := r.newFn()
			cb := s.A
			r.api("call", "gosi", fn, fmt.Sprint(s.D))
			i := r.loop.SetInterval(func(vm *goja.Runtime) { r.callback(vm, cb, "interval", fn) }, time.Duration(s.D)*time.Millisecond)
			r.mu.Lock()
			r.goI[k*100+s.H] = i
			r.mu.Unlock()
			r.api("ret", "gosi", fn, fmt.Sprint(i != nil), r.jobIDOrNilI(i))
		case "ct":
			r.mu.Lock()
			t := r.goT[k*100+s.A]
			r.mu.Unlock()
			if t != nil {
				fn := r.newFn()
				r.api("call", "goct", fn, r.jobIDOrNil(t))
				r.loop.ClearTimeout(t)
				r.api("ret", "goct", fn)
			}
		case "ci":
			r.mu.Lock()
			i := r.goI[k*100+s.A]
			r.mu.Unlock()
			if i != nil {
				fn := r.newFn()
				r.api("call", "goci", fn, r.jobIDOrNilI(i))
				r.loop.ClearInterval(i)
				r.api("ret", "goci", fn)
			}
		case "snw":
			r.api("call", "snw")
			r.loop.StopNoWait()
			r.api("ret", "snw")
		}
		r.yield("between.calls")
	}
}

// waitSpawn spins (the caller stays "running" for the scheduler) until every started goroutine has registered
func (r *run) waitSpawn() {
	for i := 0; i < 2000000; i++ {
		r.mu.Lock()
		n := r.spawns
		ab := r.aborted
		r.mu.Unlock()
		if n == 0 || ab {
			return
		}
		runtime.Gosched()
	}
}

func (r *run) isAborted() bool {
	r.mu.Lock()
	defer r.mu.Unlock()
	return r.aborted
}

func (r *run) jobIDOrNil(t *eventloop.Timer) string {
	if t == nil {
		return "-"
	}
	r.mu.Lock()
	defer r.mu.Unlock()
	return r.jobID(t)
}
func (r *run) jobIDOrNilI(i *eventloop.Interval) string {
	if i == nil {
		return "-"
	}
	r.mu.Lock()
	defer r.mu.Unlock()
	return r.jobID(i)
}

func (r *run) controller(steps []step) {
	r.register("C")
	r.yield("thread.start")
	fgDone := make(chan struct{}, 8)
	fgActive := false
	waitFg := func() {
		if fgActive {
			<-fgDone
			fgActive = false
		}
	}
	for _, s := range steps {
		if r.isAborted() {
			return
		}
		switch s.K {
		case "start":
			waitFg()
			r.api("call", "start")
			r.mu.Lock()
			r.spawns++ // Start() spawns the loop goroutine
			r.mu.Unlock()
			r.loop.Start()
			r.waitSpawn() // the loop goroutine has reached run.enter (the controller counts as running until then)
			r.api("ret", "start")
		case "startfg", "run":
			waitFg()
			kind, cb := s.K, s.A
			r.started = make(chan struct{}, 1)
			fgActive = true
			r.mu.Lock()
			r.spawns++
			r.mu.Unlock()
			go func() {
				r.register("F")
				r.api("call", kind)
				if kind == "run" {
					r.loop.Run(func(vm *goja.Runtime) {
						r.callback(vm, cb, "runfn", "-")
					})
				} else {
					r.loop.StartInForeground()
				}
				r.api("ret", kind)
				fgDone <- struct{}{}
			}()
			r.waitSpawn()
			<-r.started // the start call has passed setRunning (legal order: Stop only after that)
		case "stop":
			r.api("call", "stop")
			n := r.loop.Stop()
			r.api("ret", "stop", fmt.Sprint(n))
			waitFg()
		case "snw":
			r.api("call", "snw")
			r.loop.StopNoWait()
			r.api("ret", "snw")
		case "term":
			r.api("call", "term")
			r.loop.Terminate()
			r.api("ret", "term")
			waitFg()
		case "waitrun": // wait for a Run() to return by itself (quiescence)
			waitFg()
		}
		r.yield("between.calls")
	}
}

func execScenario(sc scenario) (line string) {
	r := &run{sc: sc, gs: map[int64]*gstate{}, t0: time.Now(), rng: hx.NewRng(sc.Seed), jobIDs: map[interface{}]int{},
		jsH: map[int]goja.Value{}, goT: map[int]*eventloop.Timer{}, goI: map[int]*eventloop.Interval{}}
	r.loop = eventloop.NewEventLoop(eventloop.EnableConsole(false))
	for i := 0; i < 3; i++ {
		r.pctChange = append(r.pctChange, r.rng.Intn(120))
	}
	cur = r
	var wg sync.WaitGroup
	wg.Add(1 + len(sc.Submitters))
	go func() { defer wg.Done(); r.controller(sc.Controller) }()
	for k, s := range sc.Submitters {
		k, s := k, s
		go func() { defer wg.Done(); r.submitter(k+1, s) }()
	}
	done := make(chan struct{})
	go func() { wg.Wait(); close(done) }()
	// wait for the harness threads to register
	for {
		r.mu.Lock()
		n := len(r.gs)
		r.mu.Unlock()
		if n >= 1+len(sc.Submitters) {
			break
		}
		time.Sleep(10 * time.Microsecond)
	}
	idleRounds := 0
	for r.steps < maxSteps {
		parked, _ := r.settle()
		if len(r.errors) > 0 {
			break // the system did not settle (a goroutine keeps running without reaching a yield point)
		}
		select {
		case <-done:
			// harness threads are finished; let the remaining loop goroutines run to their end
			if len(parked) == 0 {
				goto finished
			}
		default:
		}
		if len(parked) == 0 {
			// nobody can be released: either timers are still pending in real time, or the system is stuck
			idleRounds++
			if idleRounds > 400 { // 400 * 50us of real time without any goroutine becoming schedulable: 20 ms
				r.stuck = true
				break
			}
			time.Sleep(50 * time.Microsecond)
			continue
		}
		idleRounds = 0
		g := r.pick(parked)
		r.mu.Lock()
		g.parked = false
		r.lastReleased = g
		r.events = append(r.events, "R,"+g.role+","+g.point)
		r.mu.Unlock()
		r.steps++
		g.ch <- struct{}{}
	}
finished:
	if r.stuck {
		// report who is where
		n := runtime.Stack(stackBuf, true)
		var where []string
		status := map[int64]string{}
		for _, m := range statusRe.FindAllSubmatch(stackBuf[:n], -1) {
			id, _ := strconv.ParseInt(string(m[1]), 10, 64)
			status[id] = string(m[2])
		}
		r.mu.Lock()
		for id, g := range r.gs {
			where = append(where, g.role+":"+strings.ReplaceAll(status[id], " ", "_"))
		}
		r.events = append(r.events, "STUCK,"+strings.Join(where, "|"))
		r.mu.Unlock()
	}
	if r.steps >= maxSteps {
		r.events = append(r.events, "STEPLIMIT")
	}
	// goroutine leak snapshot: goroutines created by this loop (timer, interval and loop goroutines) that are still
	// alive after the controller's final Terminate() returned and everything schedulable has run
	aborted := r.stuck || r.steps >= maxSteps || len(r.errors) > 0
	leaks := 0
	if !aborted {
		time.Sleep(300 * time.Microsecond)
		n := runtime.Stack(stackBuf, true)
		alive := map[int64]bool{}
		for _, m := range statusRe.FindAllSubmatch(stackBuf[:n], -1) {
			id, _ := strconv.ParseInt(string(m[1]), 10, 64)
			alive[id] = true
		}
		r.mu.Lock()
		for id, g := range r.gs {
			if alive[id] && (g.role[0] == 'T' || g.role[0] == 'I' || g.role[0] == 'L' || g.role[0] == 'F') {
				leaks++
				r.events = append(r.events, "LEAK,"+g.role+","+g.point)
			}
		}
		r.mu.Unlock()
	}
	r.events = append(r.events, fmt.Sprintf("END,leaks=%d,%s", leaks, r.snapshot()))
	for _, e := range r.errors {
		r.events = append(r.events, "ERR,"+e)
	}
	cur = nil
	// the trace ends here: what the goroutines of an aborted scenario do once they are released below runs
	// unscheduled and is not part of it
	r.mu.Lock()
	evs := append([]string(nil), r.events...)
	r.mu.Unlock()
	// release anything still parked so that goroutines of this scenario can end
	r.mu.Lock()
	r.aborted = true
	for _, g := range r.gs {
		if g.parked {
			g.parked = false
			select {
			case g.ch <- struct{}{}:
			default:
			}
		}
	}
	r.mu.Unlock()
	if aborted {
		// get rid of what the aborted scenario left running (hooks are off now, so this runs freely)
		old := r.loop
		go func() {
			defer func() { recover() }()
			time.Sleep(2 * time.Millisecond)
			old.StopNoWait() // thread-safe; whatever is blocked stays blocked (no CPU)
		}()
	}
	return "EL " + strings.Join(evs, " ")
}

// ------------------------------------------------------------------------------------------ flood scenarios
//
// The stepwise scheduler cannot afford batches of hundreds of functions (two yield points per submission).  A flood
// scenario runs the real loop freely (hooks off): several goroutines submit bursts of up to 700 functions while a
// function blocks the loop for a moment so that the queue builds up; functions submit further functions from the
// loop; the loop is stopped and started again in between.  The line lists, per submitter, what it submitted in its
// order (with the value RunOnLoop returned) and, in execution order, what ran; the Lean driver evaluates C04's
// clauses on it (exactly once, never a refused one, each submitter's order kept).
// execStaged: a deterministic flood.  A function blocks the loop while n1 functions are queued behind it, one of
// which (at a position just beyond a power of two) blocks again while n2 more are queued; then everything runs.
// Batches are far longer than any bound an implementation might put on one round of the queue, and the second
// burst arrives while the remainder of the first is being executed.
func execStaged(seed uint64) string {
	cur = nil
	rng := hx.NewRng(seed)
	loop := eventloop.NewEventLoop(eventloop.EnableConsole(false))
	var mu sync.Mutex
	var executed []string
	var subs []string
	k := 0
	submit := func(f func()) {
		k++
		id := fmt.Sprintf("W0:%d", k)
		ok := loop.RunOnLoop(func(*goja.Runtime) {
			mu.Lock()
			executed = append(executed, id)
			mu.Unlock()
			if f != nil {
				f()
			}
		})
		subs = append(subs, fmt.Sprintf("%d:%v", k, ok))
	}
	c1, c2 := make(chan struct{}), make(chan struct{})
	s1, s2 := make(chan struct{}), make(chan struct{})
	loop.Start()
	fin := make(chan string, 1)
	go func() {
		submit(func() { close(s1); <-c1 })
		<-s1 // the loop is inside the first function
		p2 := []int{33, 65, 129, 257, 258, 300, 513}[rng.Intn(7)] + rng.Intn(3)
		n1 := p2 + 1 + rng.Intn(300)
		for i := 1; i <= n1; i++ {
			if i == p2 {
				submit(func() { close(s2); <-c2 })
			} else {
				submit(nil)
			}
		}
		close(c1)
		<-s2 // the loop is inside the second blocker, somewhere in the first burst
		n2 := 200 + rng.Intn(900)
		for i := 0; i < n2; i++ {
			submit(nil)
		}
		close(c2)
		drained := make(chan struct{})
		if loop.RunOnLoop(func(*goja.Runtime) { close(drained) }) {
			<-drained
		}
		if rng.Bool() {
			loop.Stop()
		}
		loop.Terminate()
		fin <- "ok"
	}()
	select {
	case <-fin:
	case <-time.After(30 * time.Second):
		return fmt.Sprintf("ELF %d HANG", seed)
	}
	mu.Lock()
	defer mu.Unlock()
	return fmt.Sprintf("ELF %d S W0 %s X %s", seed, strings.Join(subs, ","), strings.Join(executed, " "))
}

func execFlood(seed uint64) string {
	if seed%2 == 0 {
		return execStaged(seed)
	}
	cur = nil
	rng := hx.NewRng(seed)
	loop := eventloop.NewEventLoop(eventloop.EnableConsole(false))
	var mu sync.Mutex
	var executed []string
	subs := map[string][]string{} // submitter -> "k:ok" in submission order
	var loopK int
	var mk func(id string, depth int) func(*goja.Runtime)
	mk = func(id string, depth int) func(*goja.Runtime) {
		block := rng.Chance(3)
		nest := 0
		if depth < 2 && rng.Chance(6) {
			nest = 1 + rng.Intn(3)
		}
		return func(*goja.Runtime) {
			mu.Lock()
			executed = append(executed, id)
			mu.Unlock()
			if block {
				time.Sleep(time.Duration(200+len(id)*50) * time.Microsecond)
			}
			for i := 0; i < nest; i++ {
				mu.Lock()
				loopK++
				myK := loopK
				f := mk(fmt.Sprintf("L:%d", myK), depth+1)
				mu.Unlock()
				ok := loop.RunOnLoop(f)
				mu.Lock()
				subs["L"] = append(subs["L"], fmt.Sprintf("%d:%v", myK, ok))
				mu.Unlock()
			}
		}
	}
	nw := 1 + rng.Intn(4)
	var wg sync.WaitGroup
	loop.Start()
	for w := 0; w < nw; w++ {
		w := w
		wr := hx.NewRng(seed*131 + uint64(w) + 7)
		bursts := 1 + wr.Intn(5)
		wg.Add(1)
		go func() {
			defer wg.Done()
			k := 0
			name := fmt.Sprintf("W%d", w)
			for b := 0; b < bursts; b++ {
				n := 1 + wr.Intn(40)
				if wr.Chance(40) {
					n = 200 + wr.Intn(500)
				}
				for i := 0; i < n; i++ {
					k++
					id := fmt.Sprintf("%s:%d", name, k)
					mu.Lock()
					f := mk(id, 0)
					mu.Unlock()
					ok := loop.RunOnLoop(f)
					mu.Lock()
					subs[name] = append(subs[name], fmt.Sprintf("%d:%v", k, ok))
					mu.Unlock()
				}
				if wr.Chance(50) {
					time.Sleep(time.Duration(wr.Intn(800)) * time.Microsecond)
				}
			}
		}()
	}
	done := make(chan struct{})
	go func() {
		defer close(done)
		for c := rng.Intn(3); c > 0; c-- {
			time.Sleep(time.Duration(100+rng.Intn(1500)) * time.Microsecond)
			loop.Stop()
			time.Sleep(time.Duration(rng.Intn(500)) * time.Microsecond)
			loop.Start()
		}
		wg.Wait()
		// whatever is still queued runs when the loop drains: wait until the queue has been seen empty
		for i := 0; i < 2000; i++ {
			drained := make(chan struct{})
			if !loop.RunOnLoop(func(*goja.Runtime) { close(drained) }) {
				break
			}
			<-drained
			mu.Lock()
			n := len(executed)
			mu.Unlock()
			time.Sleep(100 * time.Microsecond)
			mu.Lock()
			same := n == len(executed)
			mu.Unlock()
			if same {
				break
			}
		}
		loop.Stop()
		loop.Terminate()
	}()
	select {
	case <-done:
	case <-time.After(30 * time.Second):
		return fmt.Sprintf("ELF %d HANG", seed)
	}
	mu.Lock()
	defer mu.Unlock()
	var names []string
	for n := range subs {
		names = append(names, n)
	}
	sort.Strings(names)
	var sb strings.Builder
	fmt.Fprintf(&sb, "ELF %d", seed)
	for _, n := range names {
		fmt.Fprintf(&sb, " S %s %s", n, strings.Join(subs[n], ","))
	}
	sb.WriteString(" X")
	for _, id := range executed {
		sb.WriteString(" " + id)
	}
	return sb.String()
}

// ------------------------------------------------------------------------------------------ generator

type gen struct {
	r  *hx.Rng
	st *hx.Stats
}

func (g *gen) actions(ncb int, depth int) []action {
	r := g.r
	n := r.Intn(4)
	var out []action
	for i := 0; i < n; i++ {
		switch x := r.Intn(100); {
		// handle slots: 0-1 timeouts, 2-3 intervals, 4-5 immediates (a clear mostly hits a handle of its own kind)
		case x < 25:
			out = append(out, action{K: "st", A: r.Intn(ncb), D: r.Intn(4), H: r.Intn(2), X: g.exotic()})
		case x < 35:
			out = append(out, action{K: "si", A: r.Intn(ncb), D: r.Intn(3), H: 2 + r.Intn(2), X: g.exotic()})
		case x < 55:
			out = append(out, action{K: "im", A: r.Intn(ncb), H: 4 + r.Intn(2)})
		case x < 67:
			out = append(out, action{K: "ct", A: g.slot(0)})
		case x < 79:
			out = append(out, action{K: "ci", A: g.slot(2)})
		case x < 85:
			out = append(out, action{K: "cim", A: g.slot(4)})
		case x < 92:
			out = append(out, action{K: "rol", A: r.Intn(ncb)})
		case x < 95:
			out = append(out, action{K: "snw"})
		default:
			out = append(out, action{K: "throw"})
			return out
		}
	}
	return out
}

// exotic: one JavaScript delay in eight is not a small integer
func (g *gen) exotic() string {
	if !g.r.Chance(12) {
		return ""
	}
	// (numbers only: a delay given as the string "1e19" goes through goja's string-to-integer conversion, which
	// overflows to a negative number -- a quirk of the engine, and strings are not among the property's delays)
	xs := []string{"1e19", "1e300", "inf", "2p63", "1e13", "max", "-inf", "-1e19", "nan", "0.9", "throw", "sym"}
	x := xs[g.r.Intn(len(xs))]
	g.st.Hit("jsdelay:" + x)
	return x
}

// slot picks a handle slot of the given kind, sometimes a foreign or empty one
func (g *gen) slot(base int) int {
	if g.r.Chance(12) {
		return g.r.Intn(7)
	}
	return base + g.r.Intn(2)
}

func (g *gen) scenario(seed uint64) scenario {
	r := g.r
	var sc scenario
	sc.Seed = seed
	if r.Chance(40) {
		sc.Strategy = "pct"
	} else {
		sc.Strategy = "random"
	}
	ncb := 3 + r.Intn(4)
	for i := 0; i < ncb; i++ {
		// later callbacks are leaves more often, which bounds the work
		if i >= ncb-2 || r.Chance(30) {
			sc.Callbacks = append(sc.Callbacks, nil)
		} else {
			sc.Callbacks = append(sc.Callbacks, g.actions(ncb, 0))
		}
	}
	// intervals must be cleared by somebody or Stop/Terminate ends the run anyway: the controller always
	// finishes with Stop + Terminate
	cycles := 1 + r.Intn(3)
	for c := 0; c < cycles; c++ {
		switch r.Intn(3) {
		case 0:
			sc.Controller = append(sc.Controller, step{K: "start"})
		case 1:
			sc.Controller = append(sc.Controller, step{K: "startfg"})
		default:
			sc.Controller = append(sc.Controller, step{K: "run", A: r.Intn(ncb)})
		}
		if r.Chance(25) {
			sc.Controller = append(sc.Controller, step{K: "snw"})
		}
		if c < cycles-1 {
			if r.Chance(30) {
				sc.Controller = append(sc.Controller, step{K: "term"})
			} else {
				sc.Controller = append(sc.Controller, step{K: "stop"})
			}
		}
	}
	sc.Controller = append(sc.Controller, step{K: "stop"}, step{K: "term"})
	g.st.Hit(fmt.Sprintf("cycles:%d", cycles))
	nsub := r.Intn(4)
	for k := 0; k < nsub; k++ {
		var steps []step
		m := 1 + r.Intn(4)
		for i := 0; i < m; i++ {
			switch x := r.Intn(100); {
			case x < 45:
				steps = append(steps, step{K: "rol", A: r.Intn(ncb)})
			case x < 60:
				steps = append(steps, step{K: "st", A: r.Intn(ncb), D: r.Intn(4), H: r.Intn(2)})
			case x < 70:
				steps = append(steps, step{K: "si", A: r.Intn(ncb), D: r.Intn(3), H: r.Intn(2)})
			case x < 82:
				steps = append(steps, step{K: "ct", A: r.Intn(2)})
			case x < 94:
				steps = append(steps, step{K: "ci", A: r.Intn(2)})
			default:
				steps = append(steps, step{K: "snw"})
			}
		}
		sc.Submitters = append(sc.Submitters, steps)
	}
	g.st.Hit(fmt.Sprintf("submitters:%d", nsub))
	return sc
}

func main() {
	n := flag.Int("n", 100, "number of generated scenarios")
	seed := flag.Uint64("seed", hx.SeedFromEnv(), "PRNG seed")
	corpus := flag.String("corpus", "", "corpus file")
	statsPath := flag.String("stats", "", "stats JSON")
	prop := flag.String("prop", "", "(unused; all event-loop properties share the scenarios)")
	flag.Parse()
	_ = prop
	eventloop.VerifHook = hook
	w := bufio.NewWriterSize(os.Stdout, 1<<20)
	defer w.Flush()
	st := hx.NewStats()
	g := &gen{r: hx.NewRng(*seed), st: st}
	emit := func(sc scenario) {
		jb, _ := json.Marshal(sc)
		// the scenario is written out before it runs: if a Go panic in a loop goroutine kills the process,
		// the orchestrator still knows which scenario did it
		fmt.Fprintf(w, "#ELJSON %s\n", jb)
		w.Flush()
		line := execScenario(sc)
		fmt.Fprintf(w, "%s\n", line)
		w.Flush()
		if strings.Contains(line, " STUCK,") {
			st.Hit("outcome:stuck")
		}
	}
	if *corpus != "" {
		if fh, err := os.Open(*corpus); err == nil {
			s := bufio.NewScanner(fh)
			s.Buffer(make([]byte, 1<<20), 1<<26)
			for s.Scan() {
				line := strings.TrimSpace(s.Text())
				if strings.HasPrefix(line, "ELJSON ") {
					var sc scenario
					if json.Unmarshal([]byte(line[7:]), &sc) == nil {
						st.Hit("source:corpus")
						emit(sc)
					}
				}
			}
			fh.Close()
		}
	}
	for i := 0; i < *n; i++ {
		emit(g.scenario(*seed*1000003 + uint64(i)))
	}
	// flood scenarios (uncontrolled, large batches): a few per process
	for i := 0; i < *n/12; i++ {
		fs := *seed*7919 + uint64(i)
		fmt.Fprintf(w, "#ELFLOOD %d\n", fs)
		w.Flush()
		fmt.Fprintf(w, "%s\n", execFlood(fs))
		w.Flush()
		st.Hit("scenario:flood")
	}
	cur = nil
	if *statsPath != "" {
		st.WriteJSON(*statsPath, map[string]interface{}{"seed": *seed})
	}
}
