// corr-misc: correspondence harness for util.format / console (C19) and process.env (C20).
package main

import (
	"bufio"
	"encoding/hex"
	"encoding/json"
	"flag"
	"fmt"
	"os"
	"os/exec"
	"sort"
	"strings"

	"github.com/dop251/goja"
	"github.com/dop251/goja_nodejs/console"
	"github.com/dop251/goja_nodejs/process"
	"github.com/dop251/goja_nodejs/require"
	_ "github.com/dop251/goja_nodejs/util"

	"verifharness/internal/hx"
)

func hs(s string) string { return hx.Hex([]byte(s)) }

// ------------------------------------------------------------------------------------------ C19

type recPrinter struct{ msgs [][2]string }

func (r *recPrinter) Log(s string)   { r.msgs = append(r.msgs, [2]string{"Log", s}) }
func (r *recPrinter) Warn(s string)  { r.msgs = append(r.msgs, [2]string{"Warn", s}) }
func (r *recPrinter) Error(s string) { r.msgs = append(r.msgs, [2]string{"Error", s}) }

type c19env struct {
	vm        *goja.Runtime
	format    goja.Callable
	utilObj   goja.Value
	cons      *goja.Object
	rec       *recPrinter
	stringify goja.Callable
	jsonObj   goja.Value
	pool      []goja.Value
	poolSrc   []string
	rng       *hx.Rng
	st        *hx.Stats
}

// the first nSafeArgs entries convert without throwing
const nSafeArgs = 25

var argSources = []string{
	`"abc"`, `""`, `"%s"`, `"é€😀"`, `"with space"`, `"100%"`, `1`, `-0`, `NaN`, `1e21`, `1.5`, `-Infinity`, `42`,
	`true`, `false`, `null`, `undefined`, `[1,2]`, `[]`, `({"a":1})`, `({a:[1,{b:"x"}]})`, `"5"`, `" 7 "`, `[3]`, `({})`,
	// conversions that throw: a call that needs one of them throws, and the next call must not be affected
	`(function(){var o={};o.self=o;return o})()`, `Symbol("s")`, `({toString:function(){throw new Error("ts")}})`, `10n`,
	`({toJSON:function(){throw new Error("tj")}, toString:function(){return "obj"}})`,
}

func newC19(seed uint64) *c19env {
	vm := goja.New()
	reg := new(require.Registry)
	rec := &recPrinter{}
	reg.RegisterNativeModule("console", console.RequireWithPrinter(rec))
	reg.Enable(vm)
	e := &c19env{vm: vm, rec: rec, rng: hx.NewRng(seed), st: hx.NewStats()}
	u := require.Require(vm, "util").ToObject(vm)
	e.utilObj = u
	e.format, _ = goja.AssertFunction(u.Get("format"))
	e.cons = require.Require(vm, "console").ToObject(vm)
	j := vm.Get("JSON").ToObject(vm)
	e.jsonObj = j
	e.stringify, _ = goja.AssertFunction(j.Get("stringify"))
	for _, src := range argSources {
		v, err := vm.RunString("(" + src + ")")
		if err != nil {
			panic(err)
		}
		e.pool = append(e.pool, v)
		e.poolSrc = append(e.poolSrc, src)
	}
	return e
}

// renderings computed by calling goja directly (not through the library); "!" = this conversion throws
func (e *c19env) renderings(v goja.Value) (s, d, j string) {
	try := func(f func() string) (out string) {
		defer func() {
			if r := recover(); r != nil {
				out = "!"
			}
		}()
		return hs(f())
	}
	s = try(func() string { return v.String() })
	d = try(func() string { return v.ToNumber().String() })
	j = try(func() string {
		r, err := e.stringify(e.jsonObj, v)
		if err != nil {
			panic(err)
		}
		return r.String()
	})
	return
}

var fmtAlphabet = []string{"%", "%", "%", "%", "s", "d", "j", "x", "i", "o", "a", " ", "é", "€", "😀", "%%", "%s", "%d", "%j", "z"}

func (e *c19env) genFormat() string {
	n := e.rng.Intn(9)
	var sb strings.Builder
	for i := 0; i < n; i++ {
		sb.WriteString(fmtAlphabet[e.rng.Intn(len(fmtAlphabet))])
	}
	if e.rng.Chance(25) {
		sb.WriteString("%")
	}
	return sb.String()
}

func (e *c19env) genArgs(max int) []int {
	k := e.rng.Intn(max + 1)
	out := make([]int, k)
	for i := range out {
		out[i] = e.rng.Intn(len(e.pool))
	}
	return out
}

func (e *c19env) argToks(idx []int) []string {
	var t []string
	for _, i := range idx {
		s, d, j := e.renderings(e.pool[i])
		t = append(t, s, d, j)
	}
	return t
}

func (e *c19env) caseFMT(w *bufio.Writer) {
	hasFmt := !e.rng.Chance(5)
	f := e.genFormat()
	idx := e.genArgs(5)
	var vals []goja.Value
	toks := []string{"C19", "FMT"}
	if hasFmt {
		toks = append(toks, hs(f))
		vals = append(vals, e.vm.ToValue(f))
	} else {
		toks = append(toks, "U")
		if len(idx) > 0 || e.rng.Bool() {
			vals = append(vals, goja.Undefined())
		}
	}
	toks = append(toks, fmt.Sprint(len(idx)))
	toks = append(toks, e.argToks(idx)...)
	for _, i := range idx {
		vals = append(vals, e.pool[i])
	}
	if strings.HasSuffix(f, "%") && hasFmt {
		e.st.Hit("fmt:trailing-percent")
	}
	e.st.Hit(fmt.Sprintf("fmt:args=%d", len(idx)))
	out := func() (out string) {
		defer func() {
			if r := recover(); r != nil {
				out = "PANIC"
			}
		}()
		r, err := e.format(e.utilObj, vals...)
		if err != nil {
			return "THROW"
		}
		return hs(r.String())
	}()
	// replayable source form
	srcs := []interface{}{}
	if hasFmt {
		srcs = append(srcs, fmt.Sprintf("%q", f))
	} else {
		srcs = append(srcs, nil)
	}
	for _, i := range idx {
		srcs = append(srcs, e.poolSrc[i])
	}
	if !hasFmt && len(vals) == 0 {
		srcs = []interface{}{}
	}
	jb, _ := json.Marshal(srcs)
	fmt.Fprintf(w, "#C19JS %s\n", jb)
	fmt.Fprintf(w, "%s => %s\n", strings.Join(toks, " "), out)
}

var consoleMethods = []string{"log", "error", "warn", "info", "debug"}

// one console call: method + JS sources of its arguments (nil = undefined)
type conCall struct {
	method string
	srcs   []*string
}

func (e *c19env) genCON() []conCall {
	n := 1 + e.rng.Intn(5)
	var calls []conCall
	for c := 0; c < n; c++ {
		m := consoleMethods[e.rng.Intn(len(consoleMethods))]
		cc := conCall{method: m}
		str := func(s string) *string { return &s }
		switch {
		case e.rng.Chance(8): // no arguments at all
		case e.rng.Chance(8):
			cc.srcs = append(cc.srcs, nil)
		default:
			if e.rng.Chance(70) {
				cc.srcs = append(cc.srcs, str(fmt.Sprintf("%q", e.genFormat())))
			} else {
				cc.srcs = append(cc.srcs, str(argSources[e.rng.Intn(nSafeArgs)]))
			}
		}
		if len(cc.srcs) > 0 {
			// console histories use the values whose conversions cannot throw
			for _, i := range e.genArgs(3) {
				cc.srcs = append(cc.srcs, str(argSources[i%nSafeArgs]))
			}
		}
		calls = append(calls, cc)
	}
	return calls
}

func (e *c19env) runCON(w *bufio.Writer, calls []conCall) {
	toks := []string{"C19", "CON", fmt.Sprint(len(calls))}
	e.rec.msgs = nil
	bad := ""
	var js [][]interface{}
	for _, cc := range calls {
		e.st.Hit("console:" + cc.method)
		var vals []goja.Value
		row := []interface{}{cc.method}
		for _, s := range cc.srcs {
			var v goja.Value = goja.Undefined()
			if s != nil {
				r, err := e.vm.RunString("(" + *s + ")")
				if err != nil {
					return
				}
				v = r
				row = append(row, *s)
			} else {
				row = append(row, nil)
			}
			vals = append(vals, v)
		}
		js = append(js, row)
		ftok := "U"
		if len(vals) > 0 && !goja.IsUndefined(vals[0]) {
			ftok = hs(vals[0].String())
		}
		nargs := 0
		if len(vals) > 1 {
			nargs = len(vals) - 1
		}
		toks = append(toks, cc.method, ftok, fmt.Sprint(nargs))
		for _, v := range vals[min(1, len(vals)):] {
			s, d, j := e.renderings(v)
			toks = append(toks, s, d, j)
		}
		fn, ok := goja.AssertFunction(e.cons.Get(cc.method))
		if !ok {
			bad = "NOFUNC"
			continue
		}
		func() {
			defer func() {
				if r := recover(); r != nil {
					bad = "PANIC"
				}
			}()
			if _, err := fn(e.cons, vals...); err != nil {
				bad = "THROW"
			}
		}()
	}
	out := []string{fmt.Sprint(len(e.rec.msgs))}
	for _, m := range e.rec.msgs {
		out = append(out, m[0], hs(m[1]))
	}
	if bad != "" {
		out = []string{bad}
	}
	jb, _ := json.Marshal(js)
	fmt.Fprintf(w, "#C19CON %s\n", jb)
	fmt.Fprintf(w, "%s => %s\n", strings.Join(toks, " "), strings.Join(out, " "))
}

func min(a, b int) int {
	if a < b {
		return a
	}
	return b
}

func (e *c19env) caseCON(w *bufio.Writer) { e.runCON(w, e.genCON()) }

// rerun a corpus line "C19 FMT <fmt|U> <k> s d j ..." is not possible from renderings alone (the JS values are
// gone), so corpus lines for C19 carry JS: "C19JS <json array: [fmtSrc|null, argSrc...]>"
func (e *c19env) corpusLine(w *bufio.Writer, line string) {
	if strings.HasPrefix(line, "C19CON ") {
		var rows [][]*string
		if err := json.Unmarshal([]byte(line[7:]), &rows); err != nil {
			return
		}
		var calls []conCall
		for _, r := range rows {
			if len(r) == 0 || r[0] == nil {
				return
			}
			calls = append(calls, conCall{method: *r[0], srcs: r[1:]})
		}
		e.st.Hit("source:corpus")
		e.runCON(w, calls)
		return
	}
	if !strings.HasPrefix(line, "C19JS ") {
		return
	}
	var srcs []*string
	if err := json.Unmarshal([]byte(line[6:]), &srcs); err != nil {
		return
	}
	if len(srcs) == 0 {
		e.st.Hit("source:corpus")
		r, err := e.format(e.utilObj)
		out := "THROW"
		if err == nil {
			out = hs(r.String())
		}
		fmt.Fprintf(w, "C19 FMT U 0 => %s\n", out)
		return
	}
	var vals []goja.Value
	toks := []string{"C19", "FMT"}
	for i, s := range srcs {
		var v goja.Value = goja.Undefined()
		if s != nil {
			r, err := e.vm.RunString("(" + *s + ")")
			if err != nil {
				return
			}
			v = r
		}
		vals = append(vals, v)
		if i == 0 {
			if goja.IsUndefined(v) {
				toks = append(toks, "U")
			} else {
				toks = append(toks, hs(v.String()))
			}
			toks = append(toks, fmt.Sprint(len(srcs)-1))
		} else {
			s, d, j := e.renderings(v)
			toks = append(toks, s, d, j)
		}
	}
	e.st.Hit("source:corpus")
	r, err := e.format(e.utilObj, vals...)
	out := "THROW"
	if err == nil {
		out = hs(r.String())
	}
	fmt.Fprintf(w, "%s => %s\n", strings.Join(toks, " "), out)
}

// ------------------------------------------------------------------------------------------ C20

type c20spec struct {
	Env  []string   `json:"env"` // hex entries
	NRT  int        `json:"nrt"`
	Ops  [][]string `json:"ops"` // [rt, "S", khex, vhex] | [rt, "D", khex]
	Line string     `json:"line"`
}

var nameAlphabet = []string{"A", "B", "Z", "a", "b", "x", "0", "9", "_", ".", "-", " ", "é", "ü", "€", "PATH", "HOME", "GO", "x"}
var valAlphabet = []string{"a", "b", "=", "=", " ", "/", ":", "é", "€", "😀", "1", "\t", "\"", "'", "$", "%", "\\", "\n", "x=y"}

func genWord(r *hx.Rng, alpha []string, minLen, maxLen int) string {
	n := minLen + r.Intn(maxLen-minLen+1)
	var sb strings.Builder
	for i := 0; i < n; i++ {
		sb.WriteString(alpha[r.Intn(len(alpha))])
	}
	return sb.String()
}

func genC20(r *hx.Rng, st *hx.Stats) c20spec {
	var sp c20spec
	n := r.Intn(12)
	if r.Chance(15) {
		n = 20 + r.Intn(21)
	}
	seen := map[string]bool{}
	var names []string
	var toks []string
	for i := 0; i < n; i++ {
		if r.Chance(6) { // an entry that is not NAME=value
			e := genWord(r, nameAlphabet[:10], 1, 4)
			if seen[e] {
				continue
			}
			seen[e] = true
			st.Hit("env:no-equals")
			sp.Env = append(sp.Env, hs(e))
			continue
		}
		k := genWord(r, nameAlphabet, 1, 5)
		if r.Chance(12) {
			// names that are members of Object.prototype: process.env must hold them like any other name
			k = []string{"__proto__", "constructor", "toString", "hasOwnProperty", "valueOf", "__defineGetter__", "length"}[r.Intn(7)]
			st.Hit("env:object-member-name")
		}
		if seen[k] {
			continue
		}
		seen[k] = true
		names = append(names, k)
		v := ""
		switch {
		case r.Chance(20):
			st.Hit("env:empty-value")
		case r.Chance(30):
			v = genWord(r, valAlphabet, 1, 3) + "=" + genWord(r, valAlphabet, 0, 3)
			st.Hit("env:value-with-equals")
		default:
			v = genWord(r, valAlphabet, 1, 8)
			st.Hit("env:plain")
		}
		sp.Env = append(sp.Env, hs(k+"="+v))
	}
	sp.NRT = 1 + r.Intn(3)
	nops := r.Intn(9)
	nrt := sp.NRT
	pickName := func() string {
		if len(names) > 0 && r.Chance(60) {
			return names[r.Intn(len(names))]
		}
		return genWord(r, nameAlphabet, 1, 4)
	}
	for i := 0; i < nops; i++ {
		switch x := r.Intn(100); {
		case x < 14:
			// the host changes its own environment: overwrite an existing variable (the number of entries stays
			// the same), add one, or remove one
			k := pickName()
			for strings.Contains(k, "=") || k == "" {
				k = genWord(r, nameAlphabet, 1, 4)
			}
			sp.Ops = append(sp.Ops, []string{"H", "S", hs(k), hs(genWord(r, valAlphabet, 0, 4))})
			st.Hit("op:host-setenv")
		case x < 22:
			sp.Ops = append(sp.Ops, []string{"H", "D", hs(pickName())})
			st.Hit("op:host-unsetenv")
		case x < 36:
			sp.Ops = append(sp.Ops, []string{"N"})
			nrt++
			st.Hit("op:new-runtime")
		case x < 74:
			k := pickName()
			for k == "__proto__" {
				// Assigning to __proto__ from JavaScript is outside the claim: when no such variable exists the
				// assignment reaches Object.prototype's accessor instead of creating one (the property speaks
				// about which variables are shown and about isolation, not about this).
				k = genWord(r, nameAlphabet, 1, 4)
			}
			sp.Ops = append(sp.Ops, []string{fmt.Sprint(r.Intn(nrt)), "S", hs(k), hs(genWord(r, valAlphabet, 0, 4))})
			st.Hit("op:set")
		default:
			sp.Ops = append(sp.Ops, []string{fmt.Sprint(r.Intn(nrt)), "D", hs(pickName())})
			st.Hit("op:delete")
		}
	}
	toks = append(toks, "C20", fmt.Sprint(len(sp.Env)))
	toks = append(toks, sp.Env...)
	toks = append(toks, fmt.Sprint(sp.NRT), fmt.Sprint(len(sp.Ops)))
	for _, o := range sp.Ops {
		toks = append(toks, o...)
	}
	sp.Line = strings.Join(toks, " ")
	return sp
}

func unhex(s string) string {
	if s == "-" {
		return ""
	}
	b, _ := hex.DecodeString(s)
	return string(b)
}

// child: runs in a process whose environment is the generated one
func c20child(specPath string) {
	raw, err := os.ReadFile(specPath)
	if err != nil {
		fmt.Println("CHILD-ERROR " + err.Error())
		return
	}
	var sp c20spec
	json.Unmarshal(raw, &sp)
	defer func() {
		if r := recover(); r != nil {
			fmt.Printf("PANIC\n")
		}
	}()
	reg := new(require.Registry)
	var vms []*goja.Runtime
	for i := 0; i < sp.NRT; i++ {
		vm := goja.New()
		reg.Enable(vm)
		process.Enable(vm)
		vms = append(vms, vm)
	}
	for _, o := range sp.Ops {
		switch {
		case o[0] == "N":
			vm := goja.New()
			reg.Enable(vm)
			process.Enable(vm)
			vms = append(vms, vm)
			continue
		case o[0] == "H" && o[1] == "S":
			if err := os.Setenv(unhex(o[2]), unhex(o[3])); err != nil {
				fmt.Println("CHILD-ERROR setenv " + err.Error())
				return
			}
			continue
		case o[0] == "H":
			os.Unsetenv(unhex(o[2]))
			continue
		}
		var rt int
		fmt.Sscan(o[0], &rt)
		vm := vms[rt]
		vm.Set("__k", unhex(o[2]))
		if o[1] == "S" {
			vm.Set("__v", unhex(o[3]))
			if _, err := vm.RunString(`process.env[__k] = __v`); err != nil {
				fmt.Println("THROW " + err.Error())
				return
			}
		} else {
			if _, err := vm.RunString(`delete process.env[__k]`); err != nil {
				fmt.Println("THROW " + err.Error())
				return
			}
		}
	}
	var out []string
	for _, vm := range vms {
		v, err := vm.RunString(`Object.entries(process.env)`)
		if err != nil {
			fmt.Println("THROW " + err.Error())
			return
		}
		var ents [][]string
		vm.ExportTo(v, &ents)
		sort.Slice(ents, func(i, j int) bool { return ents[i][0] < ents[j][0] })
		out = append(out, "R", fmt.Sprint(len(ents)))
		for _, e := range ents {
			out = append(out, hs(e[0]), hs(e[1]))
		}
	}
	host := os.Environ()
	sort.Strings(host)
	out = append(out, "H", fmt.Sprint(len(host)))
	for _, e := range host {
		out = append(out, hs(e))
	}
	fmt.Println(strings.Join(out, " "))
}

func runC20(sp c20spec, w *bufio.Writer, tmpdir string, k int) {
	path := fmt.Sprintf("%s/c20-%d.json", tmpdir, k)
	b, _ := json.Marshal(sp)
	os.WriteFile(path, b, 0o644)
	defer os.Remove(path)
	cmd := exec.Command(os.Args[0], "-child", path)
	cmd.Env = []string{}
	for _, e := range sp.Env {
		cmd.Env = append(cmd.Env, unhex(e))
	}
	outb, err := cmd.Output()
	out := strings.TrimSpace(string(outb))
	if i := strings.LastIndex(out, "\n"); i >= 0 {
		out = out[i+1:]
	}
	if err != nil && out == "" {
		out = "PANIC child-exit " + strings.ReplaceAll(err.Error(), " ", "_")
	}
	fmt.Fprintf(w, "%s => %s\n", sp.Line, out)
}

func main() {
	prop := flag.String("prop", "C19", "C19 | C20")
	n := flag.Int("n", 1000, "number of generated cases")
	seed := flag.Uint64("seed", hx.SeedFromEnv(), "PRNG seed")
	corpus := flag.String("corpus", "", "corpus file")
	statsPath := flag.String("stats", "", "stats JSON")
	child := flag.String("child", "", "(internal) C20 child mode")
	flag.Parse()
	if *child != "" {
		c20child(*child)
		return
	}
	w := bufio.NewWriterSize(os.Stdout, 1<<20)
	defer w.Flush()
	var st *hx.Stats
	switch *prop {
	case "C19":
		e := newC19(*seed)
		st = e.st
		if *corpus != "" {
			if f, err := os.Open(*corpus); err == nil {
				sc := bufio.NewScanner(f)
				sc.Buffer(make([]byte, 1<<20), 1<<24)
				for sc.Scan() {
					e.corpusLine(w, strings.TrimSpace(sc.Text()))
				}
				f.Close()
			}
		}
		for i := 0; i < *n; i++ {
			if i%4 == 3 {
				e.caseCON(w)
			} else {
				e.caseFMT(w)
			}
		}
	case "C20":
		st = hx.NewStats()
		r := hx.NewRng(*seed)
		tmp, err := os.MkdirTemp("", "c20")
		if err != nil {
			panic(err)
		}
		defer os.RemoveAll(tmp)
		k := 0
		if *corpus != "" {
			if f, err := os.Open(*corpus); err == nil {
				sc := bufio.NewScanner(f)
				sc.Buffer(make([]byte, 1<<20), 1<<24)
				for sc.Scan() {
					line := strings.TrimSpace(sc.Text())
					if i := strings.Index(line, " =>"); i >= 0 {
						line = line[:i]
					}
					t := strings.Fields(line)
					if len(t) < 4 || t[0] != "C20" {
						continue
					}
					var ne int
					fmt.Sscan(t[1], &ne)
					if len(t) < 2+ne+2 {
						continue
					}
					sp := c20spec{Line: line}
					sp.Env = t[2 : 2+ne]
					fmt.Sscan(t[2+ne], &sp.NRT)
					rest := t[2+ne+2:]
					for len(rest) >= 3 {
						if rest[1] == "S" && len(rest) >= 4 {
							sp.Ops = append(sp.Ops, rest[:4])
							rest = rest[4:]
						} else if rest[1] == "D" {
							sp.Ops = append(sp.Ops, rest[:3])
							rest = rest[3:]
						} else {
							break
						}
					}
					st.Hit("source:corpus")
					runC20(sp, w, tmp, k)
					k++
				}
				f.Close()
			}
		}
		for i := 0; i < *n; i++ {
			runC20(genC20(r, st), w, tmp, k)
			k++
		}
	default:
		fmt.Fprintln(os.Stderr, "unknown -prop")
		os.Exit(2)
	}
	if *statsPath != "" && st != nil {
		st.WriteJSON(*statsPath, map[string]interface{}{"seed": *seed})
	}
}
