package main

import "bufio"

func runC11(e *env, w *bufio.Writer, n int, corpus string) {}
