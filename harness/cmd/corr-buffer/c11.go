package main

import (
	"bufio"
	"fmt"
	"math"
	"strings"
	"unicode/utf16"

	"github.com/dop251/goja"
	"github.com/dop251/goja_nodejs/buffer"

	"verifharness/internal/hx"
)

// UTF-16 code units as 4 hex digits each
func u16(units []uint16) string {
	if len(units) == 0 {
		return "-"
	}
	var sb strings.Builder
	for _, u := range units {
		fmt.Fprintf(&sb, "%04x", u)
	}
	return sb.String()
}

func jsUnits(v goja.Value) []uint16 {
	// goja strings: ASCII or UTF-16; go through the exported Go string unless it holds lone surrogates
	if s, ok := v.(goja.String); ok {
		n := s.Length()
		out := make([]uint16, n)
		for i := 0; i < n; i++ {
			out[i] = s.CharAt(i)
		}
		return out
	}
	return utf16.Encode([]rune(v.String()))
}

type c11 struct {
	*env
	fromUnits goja.Callable // String.fromCharCode.apply
}

func (e *c11) str(units []uint16) goja.Value {
	args := make([]goja.Value, len(units))
	for i, u := range units {
		args[i] = e.vm.ToValue(int(u))
	}
	v, err := e.fromUnits(goja.Undefined(), args...)
	if err != nil {
		panic(err)
	}
	return v
}

func (e *c11) bufOf(b []byte) *goja.Object {
	ab := e.vm.NewArrayBuffer(append([]byte(nil), b...))
	f, _ := goja.AssertFunction(e.vm.Get("Buffer").ToObject(e.vm).Get("from"))
	v, err := f(e.vm.Get("Buffer"), e.vm.ToValue(ab))
	if err != nil {
		panic(err)
	}
	return v.ToObject(e.vm)
}

func (e *c11) bytesOf(v goja.Value) []byte {
	var out []byte
	o := v.ToObject(e.vm)
	n := int(o.Get("length").ToInteger())
	for i := 0; i < n; i++ {
		out = append(out, byte(o.Get(fmt.Sprint(i)).ToInteger()))
	}
	return out
}

// call runs f and canonicalises the outcome: value, or throw:<Class>, or PANIC
func (e *c11) call(f func() (string, error)) (out string) {
	defer func() {
		if r := recover(); r != nil {
			if ex, ok := r.(*goja.Exception); ok {
				out = "throw:" + className(e.vm, ex.Value())
				return
			}
			if o, ok := r.(*goja.Object); ok {
				out = "throw:" + className(e.vm, o)
				return
			}
			out = "PANIC"
		}
	}()
	s, err := f()
	if err != nil {
		if ex, ok := err.(*goja.Exception); ok {
			return "throw:" + className(e.vm, ex.Value())
		}
		return "throw:GoError"
	}
	return s
}

func className(vm *goja.Runtime, v goja.Value) string {
	if o, ok := v.(*goja.Object); ok {
		for _, c := range []string{"RangeError", "TypeError", "SyntaxError", "Error"} {
			if ctor := vm.Get(c); ctor != nil && vm.InstanceOf(o, ctor.ToObject(vm)) {
				return c
			}
		}
	}
	return "Thrown"
}

var encNames = []string{"hex", "base64", "base64url", "utf8", "utf-8", "base64Url", "~", "~", "latin1", "HEX", "ucs2"}

var hexPieces = []string{"00", "ff", "7f", "0a", "AB", "cd", "1", "g", "zz", " ", "é", "0", "f"}
var b64Pieces = []string{"QUJD", "QQ==", "QUI=", "QUI", "QQ", "Q", "-_-_", "+/+/", "\n", "\r\n", "=", "==", "!", " ", "AAAA", "////", "____", "YWJj", "é", "A"}

func (e *c11) genString(enc string) []uint16 {
	r := e.rng
	var sb strings.Builder
	switch {
	case strings.EqualFold(enc, "hex") && r.Chance(85):
		n := r.Intn(10)
		for i := 0; i < n; i++ {
			if r.Chance(80) {
				fmt.Fprintf(&sb, "%02x", r.Intn(256))
			} else {
				sb.WriteString(hexPieces[r.Intn(len(hexPieces))])
			}
		}
	case strings.HasPrefix(strings.ToLower(enc), "base64") && r.Chance(85):
		n := r.Intn(8)
		// line breaks are ignored wherever they stand: long runs of them in front of and between the characters push
		// the characters that matter far beyond any estimate computed from the byte count
		if r.Chance(15) {
			for k := r.Intn(30); k >= 0; k-- {
				sb.WriteString([]string{"\r\n", "\n", "\r\n\r\n"}[r.Intn(3)])
			}
			e.st.Hit("b64:leading-breaks")
		}
		between := r.Chance(12)
		for i := 0; i < n; i++ {
			sb.WriteString(b64Pieces[r.Intn(len(b64Pieces))])
			if between {
				for k := r.Intn(6); k > 0; k-- {
					sb.WriteString("\r\n")
				}
			}
		}
	default:
		// text: BMP, astral, and lone surrogates
		n := r.Intn(8)
		var units []uint16
		for i := 0; i < n; i++ {
			switch r.Intn(8) {
			case 0:
				units = append(units, uint16(0xD800+r.Intn(0x400))) // lone high surrogate
			case 1:
				units = append(units, uint16(0xDC00+r.Intn(0x400))) // lone low surrogate
			case 2:
				units = append(units, utf16.Encode([]rune{rune(0x10000 + r.Intn(0x100000))})...)
			case 3:
				units = append(units, uint16(0x80+r.Intn(0x780)))
			case 4:
				units = append(units, uint16(0x800+r.Intn(0xD000)))
			default:
				units = append(units, uint16(0x20+r.Intn(0x5f)))
			}
		}
		return units
	}
	return utf16.Encode([]rune(sb.String()))
}

func (e *c11) encVal(enc string) goja.Value {
	if enc == "~" {
		return goja.Undefined()
	}
	return e.vm.ToValue(enc)
}

func (e *c11) genBytes() []byte {
	r := e.rng
	n := r.Intn(12)
	switch r.Intn(5) {
	case 0: // well-formed UTF-8
		var rs []rune
		for i := 0; i < n/2+1; i++ {
			rs = append(rs, []rune{'a', 'é', '€', '😀', 0x7ff, 0x800, 0xffff, 0x10000}[r.Intn(8)])
		}
		return []byte(string(rs))
	case 1: // ill-formed UTF-8 of several kinds
		pieces := [][]byte{{0xc3}, {0xe2, 0x82}, {0xf0, 0x9f, 0x98}, {0x80}, {0xc0, 0xaf}, {0xed, 0xa0, 0x80}, {0xf4, 0x90, 0x80, 0x80}, {0xff}, {0x61}, {0xe2, 0x82, 0xac}}
		var out []byte
		for i := 0; i < 1+r.Intn(4); i++ {
			out = append(out, pieces[r.Intn(len(pieces))]...)
		}
		return out
	}
	return r.Bytes(n)
}

func runC11(env0 *env, w *bufio.Writer, n int, corpus string) {
	e := &c11{env: env0}
	f, err := e.vm.RunString(`(function(){ return String.fromCharCode.apply(null, arguments); })`)
	if err != nil {
		panic(err)
	}
	e.fromUnits, _ = goja.AssertFunction(f)
	bufCtor := e.vm.Get("Buffer").ToObject(e.vm)
	from, _ := goja.AssertFunction(bufCtor.Get("from"))
	alloc, _ := goja.AssertFunction(bufCtor.Get("alloc"))
	r := e.rng
	// exhaustive small byte strings for the round trips
	for _, enc := range []string{"hex", "base64", "base64url", "utf8"} {
		for a := 0; a < 256; a++ {
			e.emitRT(w, enc, []byte{byte(a)})
		}
		e.emitRT(w, enc, nil)
	}
	for i := 0; i < n; i++ {
		enc := encNames[r.Intn(len(encNames))]
		switch k := r.Intn(100); {
		case k < 18: // Buffer.from(string, enc)
			s := e.genString(enc)
			e.st.Hit("kind:FROM")
			out := e.call(func() (string, error) {
				v, err := from(bufCtor, e.str(s), e.encVal(enc))
				if err != nil {
					return "", err
				}
				return hx.Hex(e.bytesOf(v)), nil
			})
			fmt.Fprintf(w, "C11 FROM %s %s => %s\n", enc, u16(s), out)
		case k < 26: // DecodeBytes (Go helper)
			s := e.genString(enc)
			e.st.Hit("kind:DECB")
			out := e.call(func() (string, error) {
				return hx.Hex(buffer.DecodeBytes(e.vm, e.str(s), e.encVal(enc))), nil
			})
			fmt.Fprintf(w, "C11 DECB %s %s => %s\n", enc, u16(s), out)
		case k < 38: // alloc fill
			s := e.genString(enc)
			size := r.Intn(12)
			e.st.Hit("kind:FILL")
			out := e.call(func() (string, error) {
				v, err := alloc(bufCtor, e.vm.ToValue(size), e.str(s), e.encVal(enc))
				if err != nil {
					return "", err
				}
				return hx.Hex(e.bytesOf(v)), nil
			})
			fmt.Fprintf(w, "C11 FILL %s %d %s => %s\n", enc, size, u16(s), out)
		case k < 55: // write
			s := e.genString(enc)
			b := r.Bytes(r.Intn(10))
			off := 0
			if len(b) > 0 {
				off = r.Intn(len(b) + 1)
			}
			lenTok := "~"
			var lenVal goja.Value = goja.Undefined()
			if r.Chance(60) {
				l := r.Intn(12)
				lenTok = fmt.Sprint(l)
				lenVal = e.vm.ToValue(l)
			}
			e.st.Hit("kind:WRITE")
			out := e.call(func() (string, error) {
				bo := e.bufOf(b)
				wr, _ := goja.AssertFunction(bo.Get("write"))
				v, err := wr(bo, e.str(s), e.vm.ToValue(off), lenVal, e.encVal(enc))
				if err != nil {
					return "", err
				}
				return fmt.Sprintf("%d %s", v.ToInteger(), hx.Hex(e.bytesOf(bo))), nil
			})
			fmt.Fprintf(w, "C11 WRITE %s %s %s %d %s => %s\n", enc, hx.Hex(b), u16(s), off, lenTok, out)
		case k < 72: // toString range
			b := e.genBytes()
			pool := []float64{0, 1, 2, 3, -1, -5, float64(len(b)), float64(len(b)) - 1, float64(len(b)) + 1, 1e30, -1e30, 2.7, 0.5}
			arg := func() (string, goja.Value) {
				switch r.Intn(10) {
				case 0:
					return "U", goja.Undefined()
				case 1:
					return "X", e.vm.ToValue("1")
				default:
					f := pool[r.Intn(len(pool))]
					return "N:" + hx.F64Bits(f), e.vm.ToValue(f)
				}
			}
			st, sv := arg()
			en, ev := arg()
			e.st.Hit("kind:TOSTR")
			out := e.call(func() (string, error) {
				bo := e.bufOf(b)
				ts, _ := goja.AssertFunction(bo.Get("toString"))
				v, err := ts(bo, e.encVal(enc), sv, ev)
				if err != nil {
					return "", err
				}
				return u16(jsUnits(v)), nil
			})
			fmt.Fprintf(w, "C11 TOSTR %s %s %s %s => %s\n", enc, hx.Hex(b), st, en, out)
		case k < 78: // EncodeBytes
			b := e.genBytes()
			encName := []string{"hex", "base64", "base64url", "utf8", "nope"}[r.Intn(5)]
			e.st.Hit("kind:ENCB")
			out := e.call(func() (string, error) {
				v := buffer.EncodeBytes(e.vm, b, e.vm.ToValue(encName))
				if goja.IsString(v) {
					return u16(jsUnits(v)), nil
				}
				return "buffer", nil
			})
			fmt.Fprintf(w, "C11 ENCB %s %s => %s\n", encName, hx.Hex(b), out)
		case k < 88: // round trip
			e.emitRT(w, []string{"hex", "base64", "base64url", "utf8"}[r.Intn(4)], e.genBytes())
		case k < 94: // array-like
			m := r.Intn(6)
			toks := []string{}
			arr := e.vm.NewObject()
			arr.Set("length", m)
			for i := 0; i < m; i++ {
				if r.Chance(10) {
					toks = append(toks, "U")
					continue
				}
				f := []float64{0, 1, 255, 256, 257, -1, -256, 1e3, 65535.9, -0.5, 4294967296, 300.7,
					9223372036854775808, 18446744073709551616, 1e20, 1e300, math.Inf(1), math.Inf(-1), math.NaN(), -9223372036854775808,
					9007199254740994, -1e20, 9223372036854775808 + 4096, 4611686018427387904 + 1024 + 512}[r.Intn(24)]
				toks = append(toks, "N:"+hx.F64Bits(f))
				arr.Set(fmt.Sprint(i), f)
			}
			e.st.Hit("kind:ALIKE")
			out := e.call(func() (string, error) {
				v, err := from(bufCtor, arr)
				if err != nil {
					return "", err
				}
				return hx.Hex(e.bytesOf(v)), nil
			})
			fmt.Fprintf(w, "C11 ALIKE %d %s => %s\n", m, strings.Join(toks, " "), out)
		case k < 97: // equals
			a := e.genBytes()
			b := a
			if r.Bool() {
				b = e.genBytes()
			}
			e.st.Hit("kind:EQ")
			// one time in three the two buffers are views of one ArrayBuffer (same start and different lengths,
			// overlapping, or identical): equality is about bytes, not about where they live
			shared := r.Chance(33)
			var base []byte
			offA, offB := 0, 0
			if shared {
				base = r.Bytes(2 + r.Intn(10))
				offA = r.Intn(len(base))
				la := r.Intn(len(base) - offA + 1)
				offB = offA
				if r.Chance(40) {
					offB = r.Intn(len(base))
				}
				lb := r.Intn(len(base) - offB + 1)
				if r.Chance(25) {
					lb = la
					if offB+lb > len(base) {
						lb = len(base) - offB
					}
				}
				a, b = base[offA:offA+la], base[offB:offB+lb]
				e.st.Hit("kind:EQ-shared-views")
			}
			out := e.call(func() (string, error) {
				bo := e.bufOf(a)
				bo2 := e.bufOf(b)
				if shared {
					ab := e.vm.ToValue(e.vm.NewArrayBuffer(append([]byte{}, base...)))
					v1, err := from(bufCtor, ab, e.vm.ToValue(offA), e.vm.ToValue(len(a)))
					if err != nil {
						return "", err
					}
					v2, err := from(bufCtor, ab, e.vm.ToValue(offB), e.vm.ToValue(len(b)))
					if err != nil {
						return "", err
					}
					bo, bo2 = v1.ToObject(e.vm), v2.ToObject(e.vm)
				}
				eq, _ := goja.AssertFunction(bo.Get("equals"))
				v, err := eq(bo, bo2)
				if err != nil {
					return "", err
				}
				if v.ToBoolean() {
					return "t", nil
				}
				return "f", nil
			})
			fmt.Fprintf(w, "C11 EQ %s %s => %s\n", hx.Hex(a), hx.Hex(b), out)
		default: // copy vs share
			kind := []string{"buffer", "typedarray", "arraybuffer"}[r.Intn(3)]
			e.st.Hit("kind:COPY")
			out := e.call(func() (string, error) {
				e.vm.Set("__kind", kind)
				v, err := e.vm.RunString(`(function(){
					var src = new Uint8Array([1,2,3,4]);
					var arg = __kind === "arraybuffer" ? src.buffer : (__kind === "buffer" ? Buffer.from(src.buffer) : src);
					var b = Buffer.from(arg);
					src[0] = 9;
					return b[0] === 9 ? "shared" : "copied";
				})()`)
				if err != nil {
					return "", err
				}
				// a Buffer made from src.buffer shares with src; a Buffer made from that Buffer must copy
				return v.String(), nil
			})
			fmt.Fprintf(w, "C11 COPY %s => %s\n", kind, out)
		}
	}
}

func (e *c11) emitRT(w *bufio.Writer, enc string, b []byte) {
	e.st.Hit("kind:RT:" + enc)
	bufCtor := e.vm.Get("Buffer").ToObject(e.vm)
	from, _ := goja.AssertFunction(bufCtor.Get("from"))
	out := e.call(func() (string, error) {
		bo := e.bufOf(b)
		ts, _ := goja.AssertFunction(bo.Get("toString"))
		s, err := ts(bo, e.vm.ToValue(enc))
		if err != nil {
			return "", err
		}
		v, err := from(bufCtor, s, e.vm.ToValue(enc))
		if err != nil {
			return "", err
		}
		return hx.Hex(e.bytesOf(v)), nil
	})
	fmt.Fprintf(w, "C11 RT %s %s => %s\n", enc, hx.Hex(b), out)
}
