// corr-buffer: correspondence harness for the Buffer properties (C10 numeric methods; C11 codecs).
//
// It calls the real library in-process, one case per line, and appends the canonical observable
// result.  The same lines are then judged by the Lean driver (model and specification).
package main

import (
	"bufio"
	"flag"
	"fmt"
	"math"
	"math/big"
	"os"
	"sort"
	"strings"

	"github.com/dop251/goja"
	"github.com/dop251/goja_nodejs/buffer"
	"github.com/dop251/goja_nodejs/require"

	"verifharness/internal/hx"
)

type jarg struct {
	tok string     // line-protocol token
	val goja.Value // the JS value
}

type env struct {
	vm      *goja.Runtime
	run     goja.Callable
	methods []string
	st      *hx.Stats
	rng     *hx.Rng
	sym     goja.Value
}

const prelude = `
(function(name, bytes, a0, a1, a2, nargs) {
  var b = Buffer.from(new Uint8Array(bytes).buffer);
  var res = {cls: "ok", ret: undefined};
  try {
    if (nargs === 0) res.ret = b[name]();
    else if (nargs === 1) res.ret = b[name](a0);
    else if (nargs === 2) res.ret = b[name](a0, a1);
    else res.ret = b[name](a0, a1, a2);
  } catch (e) {
    if (e instanceof RangeError) res.cls = "RangeError";
    else if (e instanceof TypeError) res.cls = "TypeError";
    else if (e instanceof SyntaxError) res.cls = "SyntaxError";
    else if (e instanceof Error) res.cls = "Error";
    else res.cls = "Thrown";
  }
  res.bytes = Array.prototype.slice.call(new Uint8Array(b.buffer, b.byteOffset, b.length));
  return res;
})`

func newEnv(seed uint64) *env {
	vm := goja.New()
	new(require.Registry).Enable(vm)
	buffer.Enable(vm)
	f, err := vm.RunString(prelude)
	if err != nil {
		panic(err)
	}
	run, _ := goja.AssertFunction(f)
	e := &env{vm: vm, run: run, st: hx.NewStats(), rng: hx.NewRng(seed)}
	names, err := vm.RunString(`Object.getOwnPropertyNames(Buffer.prototype).filter(function(n){return /^(read|write)./.test(n)}).sort()`)
	if err != nil {
		panic(err)
	}
	vm.ExportTo(names, &e.methods)
	e.sym, _ = vm.RunString(`Symbol("s")`)
	return e
}

// num: a JS Number.  NaN is always handed over in its canonical form: JavaScript has one NaN, the payload of a NaN is
// not observable by a script and not preserved by the engine, so the model makes no statement about it.
func num(vm *goja.Runtime, f float64) jarg {
	if f != f {
		f = math.NaN()
	}
	return jarg{"N:" + hx.F64Bits(f), vm.ToValue(f)}
}

func (e *env) other() jarg {
	switch e.rng.Intn(6) {
	case 0:
		return jarg{"X", goja.Null()}
	case 1:
		return jarg{"X", e.vm.ToValue(true)}
	case 2:
		return jarg{"X", e.vm.NewObject()}
	case 3:
		return jarg{"S", e.vm.ToValue("1")}
	case 4:
		return jarg{"X", e.sym}
	default:
		return jarg{"S", e.vm.ToValue("")}
	}
}

func (e *env) bigArg(n *big.Int) jarg {
	return jarg{"B:" + n.String(), e.vm.ToValue(n)}
}

var undef = jarg{"U", goja.Undefined()}

// boundary pool of integers for width w bytes
func (e *env) intValue(w int) float64 {
	r := e.rng
	bits := uint(8 * w)
	if bits > 62 {
		bits = 62
	}
	switch r.Intn(12) {
	case 0:
		return 0
	case 1:
		return 1
	case 2:
		return -1
	case 3: // signed max +- 1
		return math.Ldexp(1, int(8*w-1)) - 1 + float64(r.Intn(3)-1)
	case 4: // signed min +- 1
		return -math.Ldexp(1, int(8*w-1)) + float64(r.Intn(3)-1)
	case 5: // unsigned max +- 1
		return math.Ldexp(1, int(8*w)) - 1 + float64(r.Intn(3)-1)
	case 6: // a power of two boundary of some other width
		k := 1 + r.Intn(8)
		return math.Ldexp(1, 8*k-r.Intn(2)) + float64(r.Intn(3)-1)
	case 7:
		k := 1 + r.Intn(8)
		return -math.Ldexp(1, 8*k-r.Intn(2)) + float64(r.Intn(3)-1)
	case 8, 9: // random in signed range
		m := int64(r.U64() % (uint64(1) << (bits - 1)))
		if r.Bool() {
			m = -m
		}
		return float64(m)
	default: // random in unsigned range
		return float64(r.U64() % (uint64(1) << bits))
	}
}

func (e *env) weirdNumber() float64 {
	switch e.rng.Intn(10) {
	case 0:
		return math.NaN()
	case 1:
		return math.Inf(1)
	case 2:
		return math.Inf(-1)
	case 3:
		return math.Copysign(0, -1)
	case 4:
		return 1e30
	case 5:
		return 0.5
	case 6:
		return -1.5
	case 7:
		return math.Ldexp(1, 63)
	case 8:
		return math.Ldexp(1, 53) + 2
	default:
		return float64(e.rng.Intn(1000)) + 0.25
	}
}

func (e *env) offsetArg(blen, w int, fixed bool) jarg {
	r := e.rng
	vm := e.vm
	c := r.Intn(100)
	switch {
	case c < 55: // valid
		e.st.Hit("offset:valid")
		if blen-w < 0 {
			return num(vm, 0)
		}
		if fixed && r.Chance(15) {
			return undef
		}
		return num(vm, float64(r.Intn(blen-w+1)))
	case c < 75: // around the end
		e.st.Hit("offset:edge")
		return num(vm, float64(blen-w+r.Intn(4)-1))
	case c < 82:
		e.st.Hit("offset:negative")
		return num(vm, -float64(1+r.Intn(3)))
	case c < 90:
		e.st.Hit("offset:huge")
		xs := []float64{math.Ldexp(1, 31), math.Ldexp(1, 32), math.Ldexp(1, 53), math.Ldexp(1, 63), math.Ldexp(1, 63) - 1024, 9223372036854775807, -math.Ldexp(1, 63), 1e30, -1e30, math.Ldexp(1, 64)}
		return num(vm, xs[r.Intn(len(xs))])
	case c < 94:
		e.st.Hit("offset:weird")
		return num(vm, e.weirdNumber())
	case c < 97:
		e.st.Hit("offset:undefined")
		return undef
	default:
		e.st.Hit("offset:wrongtype")
		return e.other()
	}
}

func (e *env) byteLenArg() (jarg, int) {
	r := e.rng
	c := r.Intn(100)
	switch {
	case c < 75:
		w := 1 + r.Intn(6)
		return num(e.vm, float64(w)), w
	case c < 88:
		xs := []float64{0, 7, 8, -1, 6.5, 1e30, math.NaN(), math.Inf(1)}
		return num(e.vm, xs[r.Intn(len(xs))]), 1
	case c < 94:
		return undef, 1
	default:
		return e.other(), 1
	}
}

func widthOfName(n string) (w int, variable bool) {
	switch {
	case strings.Contains(n, "64"), strings.Contains(n, "Double"):
		return 8, false
	case strings.Contains(n, "32"), strings.Contains(n, "Float"):
		return 4, false
	case strings.Contains(n, "16"):
		return 2, false
	case strings.Contains(n, "8"):
		return 1, false
	}
	return 0, true
}

func (e *env) floatValue() float64 {
	r := e.rng
	switch r.Intn(14) {
	case 0:
		return 0
	case 1:
		return math.Copysign(0, -1)
	case 2:
		return math.NaN()
	case 3:
		return math.Inf(1)
	case 4:
		return math.Inf(-1)
	case 5:
		return math.MaxFloat32
	case 6:
		return -math.MaxFloat32
	case 7: // just above MaxFloat32
		return math.Nextafter(math.MaxFloat32, math.Inf(1))
	case 8: // float32 denormal range
		return math.Ldexp(float64(1+r.Intn(1<<20)), -149-r.Intn(4)+r.Intn(3))
	case 9: // float64 denormal
		return math.Float64frombits(r.U64() & 0x000fffffffffffff)
	case 10: // halfway cases for float32 rounding
		f := float64(math.Float32frombits(uint32(r.U64()) & 0x7f7fffff))
		return f + math.Abs(f)*math.Ldexp(1, -24)
	case 11:
		return float64(math.Float32frombits(uint32(r.U64())))
	case 12:
		return float64(r.Intn(2000)-1000) / 8
	default:
		f := math.Float64frombits(r.U64())
		return f
	}
}

func (e *env) bigValue() *big.Int {
	r := e.rng
	one := big.NewInt(1)
	p := func(k uint) *big.Int { return new(big.Int).Lsh(one, k) }
	var v *big.Int
	switch r.Intn(10) {
	case 0:
		v = big.NewInt(0)
	case 1:
		v = big.NewInt(int64(r.Intn(3) - 1))
	case 2:
		v = new(big.Int).Add(p(63), big.NewInt(int64(r.Intn(3)-2)))
	case 3:
		v = new(big.Int).Neg(new(big.Int).Add(p(63), big.NewInt(int64(r.Intn(3)-1))))
	case 4:
		v = new(big.Int).Add(p(64), big.NewInt(int64(r.Intn(3)-2)))
	case 5:
		v = new(big.Int).Neg(p(64))
	case 6:
		v = new(big.Int).Add(p(100), big.NewInt(int64(r.Intn(100))))
	case 7:
		v = new(big.Int).SetUint64(r.U64())
	case 8:
		v = big.NewInt(int64(r.U64()))
	default:
		v = big.NewInt(int64(r.Intn(1 << 20)))
	}
	return v
}

// genC10 produces one case: method, buffer bytes, args
func (e *env) genC10() (name string, buf []byte, args []jarg) {
	r := e.rng
	name = e.methods[r.Intn(len(e.methods))]
	blen := r.Intn(25)
	if r.Chance(10) {
		blen = r.Intn(3)
	}
	buf = r.Bytes(blen)
	if r.Chance(15) { // sign-bit patterns
		for i := range buf {
			buf[i] = []byte{0x00, 0x7f, 0x80, 0xff}[r.Intn(4)]
		}
	}
	w, variable := widthOfName(name)
	isWrite := strings.HasPrefix(name, "write")
	var bl jarg
	if variable {
		bl, w = e.byteLenArg()
	}
	if isWrite {
		var v jarg
		c := r.Intn(100)
		switch {
		case strings.Contains(name, "Big"):
			switch {
			case c < 85:
				v = e.bigArg(e.bigValue())
			case c < 92:
				v = num(e.vm, float64(r.Intn(100)))
			case c < 96:
				v = undef
			default:
				v = e.other()
			}
		case strings.Contains(name, "Float") || strings.Contains(name, "Double"):
			switch {
			case c < 88:
				v = num(e.vm, e.floatValue())
			case c < 92:
				v = undef
			case c < 96:
				v = e.bigArg(big.NewInt(5))
			default:
				v = e.other()
			}
		default:
			switch {
			case c < 80:
				v = num(e.vm, e.intValue(w))
			case c < 88:
				v = num(e.vm, e.weirdNumber())
			case c < 92:
				v = undef
			case c < 95:
				v = e.bigArg(big.NewInt(int64(r.Intn(10))))
			default:
				v = e.other()
			}
		}
		args = append(args, v)
	}
	args = append(args, e.offsetArg(blen, w, !variable))
	if variable {
		args = append(args, bl)
	}
	// drop trailing undefined arguments sometimes (missing vs explicit undefined)
	for len(args) > 0 && args[len(args)-1].tok == "U" && r.Bool() {
		args = args[:len(args)-1]
	}
	return
}

func fmtRet(v goja.Value) string {
	if v == nil || goja.IsUndefined(v) {
		return "undef"
	}
	if goja.IsBigInt(v) {
		if b, ok := v.Export().(*big.Int); ok {
			return "b:" + b.String()
		}
	}
	if goja.IsNumber(v) {
		f := v.ToFloat()
		if math.IsNaN(f) {
			return "nan"
		}
		return "f:" + hx.F64Bits(f)
	}
	return "other"
}

func (e *env) execC10(name string, buf []byte, args []jarg) (out string) {
	defer func() {
		if r := recover(); r != nil {
			e.st.Hit("outcome:PANIC")
			out = "panic " + hx.Hex(buf)
		}
	}()
	arr := make([]interface{}, len(buf))
	for i, b := range buf {
		arr[i] = int(b)
	}
	a := []goja.Value{goja.Undefined(), goja.Undefined(), goja.Undefined()}
	for i := range args {
		a[i] = args[i].val
	}
	res, err := e.run(goja.Undefined(), e.vm.ToValue(name), e.vm.ToValue(arr), a[0], a[1], a[2], e.vm.ToValue(len(args)))
	if err != nil {
		return "harness-error " + err.Error()
	}
	o := res.ToObject(e.vm)
	cls := o.Get("cls").String()
	var after []byte
	var ints []int64
	e.vm.ExportTo(o.Get("bytes"), &ints)
	for _, x := range ints {
		after = append(after, byte(x))
	}
	e.st.Hit("outcome:" + cls)
	if cls == "ok" {
		return "ok " + fmtRet(o.Get("ret")) + " " + hx.Hex(after)
	}
	return "throw " + cls + " " + hx.Hex(after)
}

func caseLineC10(name string, buf []byte, args []jarg) string {
	toks := []string{"C10", name, hx.Hex(buf)}
	for _, a := range args {
		toks = append(toks, a.tok)
	}
	return strings.Join(toks, " ")
}

// parseArgTok rebuilds a JS value from a protocol token (for corpus / replay lines)
func (e *env) parseArgTok(t string) (jarg, bool) {
	switch {
	case t == "U":
		return undef, true
	case t == "S":
		return jarg{"S", e.vm.ToValue("1")}, true
	case t == "X":
		return jarg{"X", goja.Null()}, true
	case strings.HasPrefix(t, "N:"):
		var bits uint64
		if _, err := fmt.Sscanf(t[2:], "%x", &bits); err != nil {
			return jarg{}, false
		}
		return num(e.vm, math.Float64frombits(bits)), true
	case strings.HasPrefix(t, "B:"):
		n, ok := new(big.Int).SetString(t[2:], 10)
		if !ok {
			return jarg{}, false
		}
		return jarg{t, e.vm.ToValue(n)}, true
	}
	return jarg{}, false
}

func parseHex(s string) ([]byte, bool) {
	if s == "-" {
		return nil, true
	}
	var out []byte
	if len(s)%2 != 0 {
		return nil, false
	}
	for i := 0; i < len(s); i += 2 {
		var b byte
		if _, err := fmt.Sscanf(s[i:i+2], "%02x", &b); err != nil {
			return nil, false
		}
		out = append(out, b)
	}
	return out, true
}

func main() {
	prop := flag.String("prop", "C10", "property: C10 | C11")
	n := flag.Int("n", 1000, "number of generated cases")
	seed := flag.Uint64("seed", hx.SeedFromEnv(), "PRNG seed")
	corpus := flag.String("corpus", "", "file of case lines (without results) to run first")
	statsPath := flag.String("stats", "", "write generator/outcome distribution JSON here")
	flag.Parse()
	w := bufio.NewWriterSize(os.Stdout, 1<<20)
	defer w.Flush()
	e := newEnv(*seed)
	switch *prop {
	case "C10":
		if *corpus != "" {
			if f, err := os.Open(*corpus); err == nil {
				sc := bufio.NewScanner(f)
				for sc.Scan() {
					line := strings.TrimSpace(sc.Text())
					if line == "" || strings.HasPrefix(line, "#") {
						continue
					}
					if i := strings.Index(line, " =>"); i >= 0 {
						line = line[:i]
					}
					toks := strings.Fields(line)
					if len(toks) < 3 || toks[0] != "C10" {
						continue
					}
					buf, ok := parseHex(toks[2])
					if !ok {
						continue
					}
					var args []jarg
					good := true
					for _, t := range toks[3:] {
						a, ok := e.parseArgTok(t)
						if !ok {
							good = false
							break
						}
						args = append(args, a)
					}
					if !good {
						continue
					}
					e.st.Hit("source:corpus")
					fmt.Fprintf(w, "%s => %s\n", caseLineC10(toks[1], buf, args), e.execC10(toks[1], buf, args))
				}
				f.Close()
			}
		}
		for i := 0; i < *n; i++ {
			name, buf, args := e.genC10()
			e.st.Hit("method:" + name)
			fmt.Fprintf(w, "%s => %s\n", caseLineC10(name, buf, args), e.execC10(name, buf, args))
		}
	case "C11":
		runC11(e, w, *n, *corpus)
	default:
		fmt.Fprintln(os.Stderr, "unknown -prop")
		os.Exit(2)
	}
	if *statsPath != "" {
		ms := append([]string(nil), e.methods...)
		sort.Strings(ms)
		e.st.WriteJSON(*statsPath, map[string]interface{}{"seed": *seed, "methods": ms})
	}
}
