// jsprobe: run JS snippets (one per argument) against the real library; for exploration and replays.
package main

import (
	"fmt"
	"os"

	"github.com/dop251/goja"
	"github.com/dop251/goja_nodejs/buffer"
	"github.com/dop251/goja_nodejs/console"
	"github.com/dop251/goja_nodejs/process"
	"github.com/dop251/goja_nodejs/require"
	"github.com/dop251/goja_nodejs/url"
)

func run(vm *goja.Runtime, src string) (out string) {
	defer func() {
		if r := recover(); r != nil {
			out = fmt.Sprintf("PANIC %v", r)
		}
	}()
	v, err := vm.RunString(src)
	if err != nil {
		if ex, ok := err.(*goja.Exception); ok {
			return "throw " + ex.Value().String()
		}
		return "error " + err.Error()
	}
	if v == nil {
		return "ok <nil>"
	}
	return "ok " + v.String()
}

func main() {
	vm := goja.New()
	new(require.Registry).Enable(vm)
	console.Enable(vm)
	buffer.Enable(vm)
	url.Enable(vm)
	process.Enable(vm)
	for _, a := range os.Args[1:] {
		fmt.Printf("%s\n  => %s\n", a, run(vm, a))
	}
}
