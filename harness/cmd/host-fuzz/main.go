// host-fuzz: C09 — every function, method, constructor and accessor the library installs, called with hostile
// arguments and receivers, returns or throws a catchable JS exception; no Go panic escapes, nothing hangs.
//
// The targets are discovered by walking the objects the library installs (so a newly added method is fuzzed without
// touching this harness); values come from a pool of hostile value factories.  One line per call:
//
//	#C09JSON {"t":"Buffer.prototype.readInt8","mode":"call","this":12,"args":[3,40]}
//	C09 <target> <mode> <this> <args,…> => ok | throw:<ErrorName> | PANIC <text> | GOERROR <text> | HANG
package main

import (
	"bufio"
	"encoding/json"
	"flag"
	"fmt"
	"os"
	"runtime/debug"
	"strings"
	"time"

	"github.com/dop251/goja"
	"github.com/dop251/goja_nodejs/buffer"
	"github.com/dop251/goja_nodejs/console"
	"github.com/dop251/goja_nodejs/eventloop"
	"github.com/dop251/goja_nodejs/process"
	"github.com/dop251/goja_nodejs/require"
	"github.com/dop251/goja_nodejs/url"
	_ "github.com/dop251/goja_nodejs/util"

	"verifharness/internal/hx"
)

const prelude = `
var __util = require("util"), __bufmod = require("buffer"), __urlmod = require("url"), __proc = require("process");
var __live = [];   // timer handles created by value factories, cleared after each case
var __slots = [];  // objects of the current session: receivers and results of earlier steps
var __stale = [];  // timer handles that are kept across cases and across Terminate()/Start() of the loop by the host
function __resetSlots(adv) {
  var p = new URLSearchParams("a=1&b=2&a=3&c=4");
  var u = new URL("http://u:p@a.b:81/c/d?e=f&g=h&e=i#j");
  var it1 = p.entries(), it2 = p.keys(), it3 = u.searchParams.values();
  // iterators in the middle of their walk
  for (var i = 0; i < adv % 6; i++) it1.next();
  for (var j = 0; j < (adv + 2) % 5; j++) it2.next();
  for (var k = 0; k < (adv + 1) % 4; k++) it3.next();
  __slots = [Buffer.from([1, 2, 3, 4, 5, 6, 7, 8, 9, 250, 251, 252, 253, 254, 255, 0]), u, p, it1, u.searchParams, it2, it3];
}
// what a hostile conversion or callback does to the objects under operation
function __shrink() {
  __slots.forEach(function (s) {
    try {
      if (s instanceof URLSearchParams) Array.from(s.keys()).forEach(function (k) { s.delete(k); });
      else if (s instanceof URL) { s.search = ""; }
    } catch (e) {}
  });
}
function __grow() {
  __slots.forEach(function (s) {
    // bounded: a callback that appends on every call of a live iteration would otherwise (legitimately) never end
    try { if (s instanceof URLSearchParams && s.size < 400) for (var i = 0; i < 40; i++) s.append("k" + i, "v"); } catch (e) {}
  });
}
var __vals = [
  function () { return undefined; }, function () { return null; }, function () { return true; }, function () { return false; },
  function () { return 0; }, function () { return -0; }, function () { return NaN; }, function () { return Infinity; },
  function () { return -Infinity; }, function () { return 0.5; }, function () { return -1.5; }, function () { return 1; },
  function () { return 127; }, function () { return 128; }, function () { return 255; }, function () { return 256; },
  function () { return 32767; }, function () { return 65535; }, function () { return 65536; }, function () { return 2147483647 - 2147483000; },
  function () { return 2147483648; }, function () { return 4294967296; }, function () { return 9007199254740992; },
  function () { return 9223372036854775807; }, function () { return 18446744073709551616; }, function () { return 1e30; },
  function () { return -1; }, function () { return -2147483649; }, function () { return -1e30; }, function () { return 3; },
  function () { return 10n; }, function () { return -(2n ** 63n); }, function () { return 2n ** 64n; }, function () { return -1n; },
  function () { return ""; }, function () { return "a"; }, function () { return "abc"; }, function () { return "x".repeat(70000); },
  function () { return "\ud800"; }, function () { return "%"; }, function () { return "hex"; }, function () { return "utf8"; },
  function () { return "base64"; }, function () { return "latin1"; }, function () { return "6162zz"; }, function () { return "YWJj"; },
  function () { return "http://a/b?c=d#e"; }, function () { return "./m.js"; }, function () { return "node:buffer"; },
  function () { return "%s %d %j %%"; }, function () { return "é😀"; }, function () { return "b"; }, function () { return "c"; },
  function () { return "e"; }, function () { return "g"; }, function () { return "x=1&y=2"; }, function () { return "?"; }, function () { return "-1"; }, function () { return "1e3"; },
  function () { return Symbol("s"); }, function () { return Symbol.iterator; },
  function () { return {}; }, function () { return []; }, function () { return [1, 2, 3]; }, function () { return [[1, 2], [3, 4]]; },
  function () { return [["a", "b"], ["c"]]; }, function () { return { length: -1 }; }, function () { return { length: 1e30 }; },
  function () { return { length: 3, 0: 1, 1: 300, 2: -1 }; }, function () { return { length: 4294967296 }; },
  function () { return { length: NaN }; }, function () { return { length: "2", 0: "7" }; },
  function () { return { valueOf: function () { throw new Error("valueOf") } }; },
  function () { return { toString: function () { throw new Error("toString") } }; },
  function () { var o = {}; o[Symbol.toPrimitive] = function () { return {}; }; return o; },
  function () { return { valueOf: function () { return "abc"; } }; },
  function () { return { valueOf: function () { return 2; }, toString: function () { return "two"; } }; },
  function () { var o = {}; o[Symbol.iterator] = function () { throw new Error("iter"); }; return o; },
  function () { var o = {}; o[Symbol.iterator] = function () { return { next: function () { return {}; } }; }; return o; },
  function () { return { type: "Buffer", data: [1, 2, 3] }; }, function () { return { type: "Buffer", data: { length: -5 } }; },
  function () { return Object.create(null); },
  function () { var o = { a: 1 }; o["\ud800"] = "x"; o["b\udfff"] = "\ud800"; return o; },
  function () { return [["\ud800", "\udc00"], ["a", "b"]]; },
  function () { return new Uint8Array(4); }, function () { return new Uint8Array(0); }, function () { return new ArrayBuffer(8); },
  function () { return new Float64Array(2); }, function () { return new DataView(new ArrayBuffer(4)); },
  function () { return new Uint16Array([1, 2, 3]).subarray(1); }, function () { return new Int8Array(new ArrayBuffer(16), 4, 8); },
  function () { return Buffer.alloc(4); }, function () { return Buffer.from("abc"); }, function () { return Buffer.alloc(0); },
  function () { return Buffer.from([1, 2, 3, 4, 5, 6, 7, 8, 9]); },
  function () { return new URL("http://u:p@a:81/b?c=d#e"); }, function () { return new URLSearchParams("a=1&b=2"); },
  function () { return new URLSearchParams("a=1").keys(); }, function () { return new URL("http://a/?x=1").searchParams; },
  function () { return function () {}; }, function () { return function () { throw new Error("cb"); }; },
  function () { return function () { return __vals; }; },
  function () { var h = setTimeout(function () {}, 1e9); __live.push([clearTimeout, h]); return h; },
  function () { var h = setInterval(function () {}, 1e9); __live.push([clearInterval, h]); return h; },
  function () { var h = setImmediate(function () {}); __live.push([clearImmediate, h]); return h; },
  function () { return new Proxy({}, { get: function () { throw new Error("trap"); } }); },
  function () { return new Proxy([], {}); },
  function () { return new Date(0); }, function () { return /re/g; }, function () { return Promise.resolve(1); },
  function () { return new Error("e"); }, function () { return new Map([[1, 2]]); }, function () { return new Set([1]); },
  function () { return Buffer; }, function () { return URL; }, function () { return Buffer.prototype; },
  function () { return URLSearchParams.prototype; }, function () { return process.env; }, function () { return console; },
  function () { return arguments; }, function () { return globalThis; },
  // handles that outlive the case that made them (and, now and then, a Terminate()/Start() of the loop by the host)
  function () { if (__stale.length < 8) __stale.push(setInterval(function () {}, 1e9)); return __stale[__stale.length - 1]; },
  function () { if (__stale.length < 8) __stale.push(setTimeout(function () {}, 1e9)); return __stale[0]; },
  function () { return __stale.length ? __stale[(__stale.length * 7) % __stale.length] : undefined; },
  function () { return __stale.length > 1 ? __stale[1] : undefined; },
  // violations of the iterator protocol
  function () { var o = {}; o[Symbol.iterator] = function () { return {}; }; return o; },
  function () { var o = {}; o[Symbol.iterator] = function () { return { next: 1 }; }; return o; },
  function () { var o = {}; o[Symbol.iterator] = function () { return { next: console.log }; }; return o; },
  function () { var o = {}; o[Symbol.iterator] = function () { return 7; }; return o; },
  function () { var t = {}; t[Symbol.iterator] = function () { return {}; }; return [t, ["a", "b"]]; },
  // native functions as callbacks / foreign objects that are expensive to copy
  function () { return Array.prototype.push; }, function () { return Object.prototype.toString; },
  function () { return JSON.stringify; }, function () { return clearTimeout; }, function () { return Buffer.from; },
  // re-entrant: conversions and callbacks that change the objects under operation
  function () { return { toString: function () { __shrink(); return "a"; } }; },
  function () { return { toString: function () { __grow(); return "a"; } }; },
  function () { return { valueOf: function () { __shrink(); return 1; } }; },
  function () { return function () { __shrink(); }; },
  function () { return function () { __grow(); }; },
  function () { var o = {}; o[Symbol.toPrimitive] = function () { __shrink(); return "1"; }; return o; }
];
var __targets = {};
function __add(name, kind, fn, owner) { if (typeof fn === "function") __targets[name + "#" + kind] = { kind: kind, fn: fn, owner: owner }; }
function __walk(name, obj, depth) {
  if (obj === null || (typeof obj !== "object" && typeof obj !== "function")) return;
  var keys = Object.getOwnPropertyNames(obj).concat(Object.getOwnPropertySymbols(obj));
  keys.forEach(function (k) {
    var d;
    try { d = Object.getOwnPropertyDescriptor(obj, k); } catch (e) { return; }
    if (!d) return;
    var kn = name + "." + (typeof k === "symbol" ? "@@" + String(k.description) : k);
    if (k === "constructor" || k === "caller" || k === "callee" || k === "arguments") return;
    if (d.get) __add(kn, "get", d.get, obj);
    if (d.set) __add(kn, "set", d.set, obj);
    if (typeof d.value === "function") {
      __add(kn, "call", d.value, obj);
      if (d.value.prototype && depth > 0) { __add(kn, "new", d.value, obj); __walk(kn + ".prototype", d.value.prototype, depth - 1); }
      if (depth > 0) __walk(kn, d.value, depth - 1);
    } else if (d.value && typeof d.value === "object" && depth > 0 && !Array.isArray(d.value)) {
      __walk(kn, d.value, depth - 1);
    }
  });
}
(function () {
  __add("Buffer", "call", Buffer); __add("Buffer", "new", Buffer); __walk("Buffer", Buffer, 2); __walk("Buffer.prototype", Buffer.prototype, 1);
  __add("URL", "call", URL); __add("URL", "new", URL); __walk("URL", URL, 1); __walk("URL.prototype", URL.prototype, 1);
  __add("URLSearchParams", "call", URLSearchParams); __add("URLSearchParams", "new", URLSearchParams);
  __walk("URLSearchParams", URLSearchParams, 1); __walk("URLSearchParams.prototype", URLSearchParams.prototype, 1);
  __walk("URLSearchParamsIterator.prototype", Object.getPrototypeOf(new URLSearchParams("a=1").keys()), 1);
  __walk("util", __util, 1); __walk("buffer", __bufmod, 1); __walk("url", __urlmod, 1); __walk("process", __proc, 1);
  __walk("console", console, 1);
  ["setTimeout", "setInterval", "setImmediate", "clearTimeout", "clearInterval", "clearImmediate", "require"].forEach(function (n) {
    __add(n, "call", globalThis[n]);
  });
  __walk("require", require, 1);
  // process.env is an exotic object: its traps are exercised through these wrappers
  __add("process.env.[[Get]]", "call", function (k) { return process.env[k]; });
  __add("process.env.[[Set]]", "call", function (k, v) { process.env[k] = v; return process.env[k]; });
  __add("process.env.[[Delete]]", "call", function (k) { return delete process.env[k]; });
  __add("process.env.[[Has]]", "call", function (k) { return k in process.env; });
  __add("process.env.[[OwnKeys]]", "call", function () { return Object.keys(process.env).length + JSON.stringify(process.env).length; });
  __add("process.env.[[DefineOwnProperty]]", "call", function (k, v) { return Object.defineProperty(process.env, k, { value: v, configurable: true, enumerable: true, writable: true }); });
  // an array that is expensive to copy or walk (length 2^32-1): only handed to functions that must not look inside
  // foreign objects (a function that legitimately walks its argument would take time proportional to that length)
  __add("hugeArray.clear", "call", function () {
    var a = []; a.length = 4294967295;
    clearTimeout(a); clearInterval(a); clearImmediate(a); return 1;
  });
  // a script may replace what the library looks up at call time: the library must survive that (restored afterwards)
  __add("tamper.util.format", "call", function (v, a, b) {
    var old = __util.format; __util.format = v;
    try { console.log(a, b); console.error("%s", a); console.warn(); } finally { __util.format = old; }
  });
  __add("tamper.Object.entries", "call", function (v, rec) {
    var old = Object.entries; Object.entries = v;
    try { return new URLSearchParams(rec === undefined ? { a: 1, b: 2 } : rec).toString(); } finally { Object.entries = old; }
  });
  __add("tamper.JSON.stringify", "call", function (v, a) {
    var old = JSON.stringify; JSON.stringify = v;
    try { return __util.format("%j %j", a, { x: 1 }); } finally { JSON.stringify = old; }
  });
  __add("tamper.Buffer.prototype.toString", "call", function (v) {
    var old = Buffer.prototype.toString; Buffer.prototype.toString = v;
    try { var b = Buffer.from("abc"); return String(b) + b.equals(b) + __util.format("%s", b); } finally { Buffer.prototype.toString = old; }
  });
})();
function __proper(tname, t) {
  if (tname.indexOf("Buffer.prototype.") >= 0) return Buffer.from([1, 2, 3, 4, 5, 6, 7, 8, 9, 250, 251, 252, 253, 254, 255, 0]);
  if (tname.indexOf("URL.prototype.") >= 0) return new URL("http://u:p@a.b:81/c/d?e=f&g=h#i");
  if (tname.indexOf("URLSearchParams.prototype.") >= 0) return new URLSearchParams("a=1&b=2&a=3");
  if (tname.indexOf("URLSearchParamsIterator.prototype.") >= 0) return new URLSearchParams("a=1&b=2").entries();
  return t.owner;
}
function __targetNames() { return Object.keys(__targets).sort(); }
function __classes() {
  var c = { num: [], str: [], bin: [], other: [] };
  __vals.forEach(function (f, i) {
    var v = f(), t = typeof v;
    if (t === "number" || t === "bigint") c.num.push(i);
    else if (t === "string") c.str.push(i);
    else if (v && t === "object" && (ArrayBuffer.isView(v) || v instanceof ArrayBuffer)) c.bin.push(i);
    else c.other.push(i);
  });
  while (__live.length) { var l = __live.pop(); try { l[0](l[1]); } catch (e4) {} }
  return c;
}
function __properSlot(tname, t) {
  var want = tname.indexOf("Buffer.prototype.") >= 0 ? Buffer : tname.indexOf("URL.prototype.") >= 0 ? URL :
             tname.indexOf("URLSearchParams.prototype.") >= 0 ? URLSearchParams : null;
  if (tname.indexOf("URLSearchParamsIterator.prototype.") >= 0) {
    for (var i = __slots.length - 1; i >= 0; i--) { var s = __slots[i]; if (s && typeof s.next === "function") return s; }
  }
  if (want) for (var j = __slots.length - 1; j >= 0; j--) if (__slots[j] instanceof want) return __slots[j];
  return __proper(tname, t);
}
function __session(steps, adv) {
  __resetSlots(adv);
  var out = [];
  for (var i = 0; i < steps.length; i++) out.push(__run(steps[i].t, steps[i].this, steps[i].args));
  __slots = [];
  return out.join(" ");
}
// a grid over the codec entry points of Buffer: every (entry point, size, hostile string, encoding name) once per
// process -- random sessions reach a particular triple like (5, "zz", "hex") far too rarely
var __gridSizes = [0, 1, 2, 5];
var __gridStrs = ["", "a", "zz", "6162zz", "!", "=", "==", "\r\n", "\r\n\r\n\r\n\r\nAQID", "YQ==", "YQ", "Y", "_-8", "\u00e9", "\ud800", "%", "abc", "0", "00", "0g",
                  "a\u20ac\u20ac", "\ud83d\ude00"];
var __gridEncs = [undefined, "hex", "base64", "base64url", "utf8", "utf-8", "latin1", "binary", "ascii", "ucs2", "utf16le", "HEX", "nope", "", null, 7];
var __gridFns = [
  function (n, s, e) { return Buffer.alloc(n, s, e); },
  function (n, s, e) { return Buffer.from(s, e); },
  function (n, s, e) { return Buffer.alloc(n + 2).write(s, 0, n, e); },
  function (n, s, e) { return Buffer.alloc(n).write(s, e); },
  function (n, s, e) { return Buffer.from(s).toString(e, 0, n); },
  function (n, s, e) { return __bufmod.Buffer.from(Buffer.from(s, e)).toString(e); },
  function (n, s, e) { return Buffer.alloc(n + 1).write(s, n, e); }
];
function __gridCount() { return __gridFns.length * __gridSizes.length * __gridStrs.length * __gridEncs.length; }
function __gridRun(k) {
  var f = __gridFns[k % __gridFns.length]; k = Math.floor(k / __gridFns.length);
  var n = __gridSizes[k % __gridSizes.length]; k = Math.floor(k / __gridSizes.length);
  var s = __gridStrs[k % __gridStrs.length]; k = Math.floor(k / __gridStrs.length);
  var e = __gridEncs[k % __gridEncs.length];
  try { var r = f(n, s, e); if (r && typeof r === "object") String(r); return "ok"; }
  catch (ex) {
    var msg = ex && ex.message !== undefined ? String(ex.message) : String(ex);
    if (/runtime error|nil pointer|index out of range|slice bounds|makeslice|close of|invalid memory/.test(msg)) return "GOERROR " + msg.replace(/\s+/g, "_");
    return "throw:" + ((ex instanceof Error) ? (String(ex.name).replace(/[^A-Za-z0-9_\[\]]/g, "_") || "Error") : "nonError");
  }
}
function __run(tname, thisIdx, argIdx) {
  if (tname === "grid.codec") return __gridRun(thisIdx);
  var t = __targets[tname];
  if (!t) return "notarget";
  var res;
  try {
    var thisV = thisIdx === -1 ? t.owner : thisIdx === -2 ? __proper(tname, t) : thisIdx === -3 ? __properSlot(tname, t) :
                thisIdx <= -10 ? __slots[(-10 - thisIdx) % __slots.length] : __vals[thisIdx]();
    var args = argIdx.map(function (i) { return __vals[i](); });
    var r;
    if (t.kind === "new") r = Reflect.construct(t.fn, args);
    else r = t.fn.apply(thisV, args);
    // results are kept for later steps of the session and touched: iterators advanced, strings built
    if (r && (typeof r === "object" || typeof r === "function") && __slots.length < 24) __slots.push(r);
    if (r && typeof r === "object" && typeof r.next === "function") { for (var i = 0; i < 2; i++) r.next(); }
    if (r && typeof r === "object" && typeof r.toString === "function") { try { String(r); } catch (e2) { if (!(e2 instanceof Error)) throw e2; } }
    res = "ok";
  } catch (e) {
    var n = "nonError";
    try {
      if (e instanceof Error) n = String(e.name).replace(/[^A-Za-z0-9_\[\]]/g, "_") || "Error";
      var msg = e && e.message !== undefined ? String(e.message) : String(e);
      if (/runtime error|nil pointer|index out of range|slice bounds|makeslice|close of|invalid memory/.test(msg)) res = "GOERROR " + msg.replace(/\s+/g, "_");
    } catch (e3) {}
    if (!res) res = "throw:" + n;
  }
  while (__live.length) { var l = __live.pop(); try { l[0](l[1]); } catch (e4) {} }
  return res;
}
`

type step struct {
	T    string `json:"t"`
	This int    `json:"this"`
	Args []int  `json:"args"`
}

// ccase: a session of 1-4 calls sharing the session's objects (receivers, results of earlier calls)
type ccase struct {
	Steps []step `json:"steps"`
	Adv   int    `json:"adv"` // how far the session's iterators have been advanced before the first call
}

type fuzzer struct {
	loop    *eventloop.EventLoop
	run     goja.Callable
	names   []string
	nvals   int
	classes map[string][]int
	good    map[string][]step // per target: calls that returned or threw something other than a TypeError
	goodT   []string
	st      *hx.Stats
	rng     *hx.Rng
	w       *bufio.Writer
	timeout time.Duration
}

func newLoop() (*eventloop.EventLoop, goja.Callable, []string, int, map[string][]int) {
	reg := require.NewRegistry(require.WithLoader(func(path string) ([]byte, error) {
		switch path {
		case "m.js", "/m.js":
			return []byte("exports.x = 1;"), nil
		case "bad.js":
			return []byte("{{{"), nil
		case "j.json":
			return []byte(`{"a":1}`), nil
		}
		return nil, require.ModuleFileDoesNotExistError
	}))
	reg.RegisterNativeModule("console", console.RequireWithPrinter(nullPrinter{}))
	loop := eventloop.NewEventLoop(eventloop.WithRegistry(reg))
	loop.Start()
	var run goja.Callable
	var names []string
	var nvals int
	classes := map[string][]int{}
	done := make(chan struct{})
	loop.RunOnLoop(func(vm *goja.Runtime) {
		defer close(done)
		buffer.Enable(vm)
		url.Enable(vm)
		process.Enable(vm)
		if _, err := vm.RunString(hxPrelude + prelude); err != nil {
			fmt.Fprintln(os.Stderr, "prelude:", err)
			os.Exit(2)
		}
		run, _ = goja.AssertFunction(vm.Get("__session"))
		v, _ := vm.RunString("__targetNames()")
		vm.ExportTo(v, &names)
		nvals = int(vm.Get("__vals").ToObject(vm).Get("length").ToInteger())
		cv, _ := vm.RunString("__classes()")
		vm.ExportTo(cv, &classes)
	})
	<-done
	return loop, run, names, nvals, classes
}

// pickVal: half of the arguments are numbers (offsets, sizes, delays), the rest strings, binary values and everything else
func (f *fuzzer) pickVal() int {
	var cl []int
	switch x := f.rng.Intn(100); {
	case x < 45:
		cl = f.classes["num"]
	case x < 62:
		cl = f.classes["str"]
	case x < 72:
		cl = f.classes["bin"]
	default:
		return f.rng.Intn(f.nvals)
	}
	if len(cl) == 0 {
		return f.rng.Intn(f.nvals)
	}
	return cl[f.rng.Intn(len(cl))]
}

const hxPrelude = ``

// console output of the fuzzed calls is discarded (stdout carries the line protocol)
type nullPrinter struct{}

func (nullPrinter) Log(string)   {}
func (nullPrinter) Warn(string)  {}
func (nullPrinter) Error(string) {}

func (f *fuzzer) exec(c ccase) string {
	resCh := make(chan string, 1)
	ok := f.loop.RunOnLoop(func(vm *goja.Runtime) {
		defer func() {
			if r := recover(); r != nil {
				// where it happened goes to stderr (the check quotes the harness's stderr in its report)
				fmt.Fprintf(os.Stderr, "panic: %v\n%s\n", r, debug.Stack())
				resCh <- "PANIC " + strings.ReplaceAll(fmt.Sprint(r), "\n", " ")
			}
		}()
		steps := make([]interface{}, len(c.Steps))
		for i, st := range c.Steps {
			steps[i] = map[string]interface{}{"t": st.T, "this": st.This, "args": st.Args}
		}
		res, err := f.run(goja.Undefined(), vm.ToValue(steps), vm.ToValue(c.Adv))
		if err != nil {
			resCh <- "UNCAUGHT " + strings.ReplaceAll(err.Error(), "\n", " ")
			return
		}
		resCh <- res.String()
	})
	if !ok {
		return "LOOPDEAD"
	}
	select {
	case r := <-resCh:
		return r
	case <-time.After(f.timeout):
		return "HANG"
	}
}

func (f *fuzzer) emit(c ccase) string {
	jb, _ := json.Marshal(c)
	fmt.Fprintf(f.w, "#C09JSON %s\n", jb)
	f.w.Flush() // announced before it runs: a crash of the process is attributed to this case
	res := f.exec(c)
	var desc []string
	for _, st := range c.Steps {
		args := make([]string, len(st.Args))
		for i, a := range st.Args {
			args[i] = fmt.Sprint(a)
		}
		as := strings.Join(args, ",")
		if as == "" {
			as = "-"
		}
		desc = append(desc, fmt.Sprintf("%s:%d:%s", strings.ReplaceAll(st.T, " ", "_"), st.This, as))
	}
	fmt.Fprintf(f.w, "C09 %s => %s\n", strings.Join(desc, ";"), res)
	for _, r := range strings.Split(res, " ") {
		if strings.HasPrefix(r, "ok") || strings.HasPrefix(r, "throw:") {
			f.st.Hit("result:" + r)
		}
	}
	if res == "HANG" || strings.HasPrefix(res, "PANIC") || res == "LOOPDEAD" {
		// the loop goroutine is gone or stuck: nothing more can be run in this process
		f.w.Flush()
		os.Exit(3)
	}
	return res
}

var families = []string{"Buffer", "URLSearchParams", "URL.", "Timeout|Interval|Immediate", "util|console|process|require|tamper"}

func inFamily(name, fam string) bool {
	for _, p := range strings.Split(fam, "|") {
		if strings.Contains(name, p) {
			return true
		}
	}
	return false
}

func (f *fuzzer) hostRestart() {
	fmt.Fprintf(f.w, "#C09JSON {\"steps\":[{\"t\":\"host.Terminate+Start\",\"this\":-1,\"args\":[]}],\"adv\":0}\n")
	f.w.Flush()
	done := make(chan struct{})
	go func() { f.loop.Terminate(); f.loop.Start(); close(done) }()
	res := "ok"
	select {
	case <-done:
	case <-time.After(f.timeout):
		res = "HANG"
	}
	fmt.Fprintf(f.w, "C09 host.Terminate+Start:-1:- => %s\n", res)
	f.st.Hit("host:terminate+start")
	if res != "ok" {
		f.w.Flush()
		os.Exit(3)
	}
}

// genStep: a fresh random call; most calls of a session stay within one family of targets
func (f *fuzzer) genStep(fam string) step {
	t := f.names[f.rng.Intn(len(f.names))]
	if fam != "" && f.rng.Chance(80) {
		for k := 0; k < 20 && !inFamily(t, fam); k++ {
			t = f.names[f.rng.Intn(len(f.names))]
		}
	}
	st := step{T: t, This: -3, Args: []int{}}
	switch x := f.rng.Intn(100); {
	case x < 12:
		st.This = f.rng.Intn(f.nvals)
	case x < 20:
		st.This = -10 - f.rng.Intn(24) // any object of the session
	case x < 24:
		st.This = -1
	}
	na := f.rng.Intn(6)
	for j := 0; j < na; j++ {
		st.Args = append(st.Args, f.pickVal())
	}
	return st
}

// mutate: a call that got past the argument checks before, with one position changed
func (f *fuzzer) mutate(s step) step {
	m := step{T: s.T, This: s.This, Args: append([]int{}, s.Args...)}
	switch x := f.rng.Intn(100); {
	case x < 60 && len(m.Args) > 0:
		m.Args[f.rng.Intn(len(m.Args))] = f.pickVal()
	case x < 75 && len(m.Args) < 6:
		m.Args = append(m.Args, f.pickVal())
	case x < 85 && len(m.Args) > 0:
		m.Args = m.Args[:len(m.Args)-1]
	case x < 93:
		m.This = -10 - f.rng.Intn(24)
	default:
		if len(m.Args) > 1 {
			i, j := f.rng.Intn(len(m.Args)), f.rng.Intn(len(m.Args))
			m.Args[i], m.Args[j] = m.Args[j], m.Args[i]
		} else {
			m.Args = append(m.Args, f.pickVal())
		}
	}
	return m
}

func main() {
	n := flag.Int("n", 1000, "number of generated cases")
	seed := flag.Uint64("seed", hx.SeedFromEnv(), "PRNG seed")
	corpus := flag.String("corpus", "", "corpus file")
	statsPath := flag.String("stats", "", "stats JSON")
	list := flag.Bool("list", false, "print the discovered targets and exit")
	showVal := flag.Int("showval", -1, "print the source of value factory N and exit")
	timeout := flag.Duration("timeout", 20*time.Second, "per-call watchdog")
	flag.Parse()
	loop, run, names, nvals, classes := newLoop()
	f := &fuzzer{loop: loop, run: run, names: names, nvals: nvals, classes: classes, st: hx.NewStats(), rng: hx.NewRng(*seed),
		w: bufio.NewWriterSize(os.Stdout, 1<<20), timeout: *timeout}
	defer f.w.Flush()
	if *showVal >= 0 {
		done := make(chan struct{})
		loop.RunOnLoop(func(vm *goja.Runtime) {
			v, _ := vm.RunString(fmt.Sprintf("String(__vals[%d])", *showVal))
			fmt.Println(v)
			close(done)
		})
		<-done
		return
	}
	if *list {
		for _, n := range names {
			fmt.Fprintln(f.w, n)
		}
		return
	}
	if *corpus != "" {
		if fh, err := os.Open(*corpus); err == nil {
			sc := bufio.NewScanner(fh)
			sc.Buffer(make([]byte, 1<<20), 1<<26)
			for sc.Scan() {
				line := strings.TrimSpace(sc.Text())
				if strings.HasPrefix(line, "C09JSON ") {
					var c ccase
					if json.Unmarshal([]byte(line[8:]), &c) == nil && len(c.Steps) > 0 {
						f.st.Hit("source:corpus")
						f.emit(c)
					}
				}
			}
			fh.Close()
		}
	}
	// first: every target once with a proper receiver and no arguments; then sessions of 1-4 calls.  Half of the
	// calls are mutations of calls that got past the argument checks earlier in this run (returned, or threw
	// something other than a TypeError), so that the code behind the checks is reached often.
	f.good = map[string][]step{}
	remember := func(c ccase, res string) {
		rs := strings.Split(res, " ")
		for i, st := range c.Steps {
			if i < len(rs) && (rs[i] == "ok" || (strings.HasPrefix(rs[i], "throw:") && rs[i] != "throw:TypeError")) {
				if _, seen := f.good[st.T]; !seen {
					f.goodT = append(f.goodT, st.T)
				}
				if g := f.good[st.T]; len(g) < 24 {
					f.good[st.T] = append(g, st)
				} else {
					g[f.rng.Intn(len(g))] = st
				}
			}
		}
	}
	i := 0
	for ; i < len(names) && i < *n; i++ {
		c := ccase{Steps: []step{{T: names[i], This: -2, Args: []int{}}}}
		remember(c, f.emit(c))
	}
	// then the codec grid (see the prelude): cheap, and the same in every process
	if *n > len(names) {
		var ng int
		gd := make(chan struct{})
		loop.RunOnLoop(func(vm *goja.Runtime) {
			v, _ := vm.RunString("__gridCount()")
			ng = int(v.ToInteger())
			close(gd)
		})
		<-gd
		for k := 0; k < ng; k++ {
			f.emit(ccase{Steps: []step{{T: "grid.codec", This: k, Args: []int{}}}})
			f.st.Hit("gen:grid")
		}
	}
	for ; i < *n; i++ {
		var c ccase
		c.Adv = f.rng.Intn(30)
		ns := 1 + f.rng.Intn(4)
		fam := ""
		if f.rng.Chance(75) {
			fam = families[f.rng.Intn(len(families))]
		}
		for k := 0; k < ns; k++ {
			if len(f.goodT) > 0 && f.rng.Chance(55) {
				t := f.goodT[f.rng.Intn(len(f.goodT))]
				for q := 0; q < 20 && fam != "" && !inFamily(t, fam); q++ {
					t = f.goodT[f.rng.Intn(len(f.goodT))]
				}
				g := f.good[t]
				c.Steps = append(c.Steps, f.mutate(g[f.rng.Intn(len(g))]))
				f.st.Hit("gen:mutated")
			} else {
				c.Steps = append(c.Steps, f.genStep(fam))
				f.st.Hit("gen:fresh")
			}
		}
		f.st.Hit(fmt.Sprintf("session-length:%d", ns))
		remember(c, f.emit(c))
		if f.rng.Chance(1) && f.rng.Chance(40) {
			// the embedding program terminates the loop and starts it again; scripts keep their old handles
			f.hostRestart()
		}
	}
	if *statsPath != "" {
		f.st.WriteJSON(*statsPath, map[string]interface{}{"seed": *seed, "targets": len(names), "values": nvals})
	}
	done := make(chan struct{})
	go func() { loop.Terminate(); close(done) }()
	select {
	case <-done:
	case <-time.After(10 * time.Second):
		fmt.Fprintln(f.w, "C09 Terminate:-1:- => HANG")
		f.w.Flush()
		os.Exit(3)
	}
}
