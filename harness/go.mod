module verifharness

go 1.20

require (
	github.com/dop251/goja v0.0.0-20250309171923-bcd7cc6bf64c
	github.com/dop251/goja_nodejs v0.0.0
)

require (
	github.com/dlclark/regexp2 v1.11.4 // indirect
	github.com/dop251/base64dec v0.0.0-20231022112746-c6c9f9a96217 // indirect
	github.com/go-sourcemap/sourcemap v2.1.4+incompatible // indirect
	github.com/google/pprof v0.0.0-20240727154555-813a5fbdbec8 // indirect
	golang.org/x/net v0.27.0 // indirect
	golang.org/x/text v0.16.0 // indirect
)

replace github.com/dop251/goja_nodejs => /repo
