// Package hx: shared helpers for the correspondence harnesses (PRNG, hex, canonical formatting, stats).
package hx

import (
	"encoding/hex"
	"encoding/json"
	"fmt"
	"math"
	"os"
	"sort"
	"strconv"
)

// Rng is splitmix64: every random choice of a run derives from one seed, so a disagreement replays exactly.
type Rng struct{ s uint64 }

// NewRng scrambles the seed first: the generator's state advances by a fixed increment, so nearby raw seeds would
// give the same stream shifted by a few draws.
func NewRng(seed uint64) *Rng {
	z := seed + 0x1234567
	z = (z ^ (z >> 30)) * 0xBF58476D1CE4E5B9
	z = (z ^ (z >> 27)) * 0x94D049BB133111EB
	z ^= z >> 31
	z *= 0xD6E8FEB86659FD93
	z ^= z >> 32
	return &Rng{s: z}
}

func (r *Rng) U64() uint64 {
	r.s += 0x9E3779B97F4A7C15
	z := r.s
	z = (z ^ (z >> 30)) * 0xBF58476D1CE4E5B9
	z = (z ^ (z >> 27)) * 0x94D049BB133111EB
	return z ^ (z >> 31)
}
func (r *Rng) Intn(n int) int {
	if n <= 0 {
		return 0
	}
	return int(r.U64() % uint64(n))
}
func (r *Rng) Bool() bool        { return r.U64()&1 == 1 }
func (r *Rng) Chance(p int) bool { return r.Intn(100) < p }
func (r *Rng) Bytes(n int) []byte {
	b := make([]byte, n)
	for i := range b {
		b[i] = byte(r.U64())
	}
	return b
}

func SeedFromEnv() uint64 {
	if s := os.Getenv("VERIF_SEED"); s != "" {
		if n, err := strconv.ParseUint(s, 10, 64); err == nil {
			return n
		}
	}
	return 1
}

func Hex(b []byte) string {
	if len(b) == 0 {
		return "-"
	}
	return hex.EncodeToString(b)
}

func F64Bits(f float64) string { return fmt.Sprintf("%016x", math.Float64bits(f)) }

// Stats counts how often each labelled branch of a generator / outcome kind was hit.
type Stats struct{ m map[string]int }

func NewStats() *Stats           { return &Stats{m: map[string]int{}} }
func (s *Stats) Hit(k string)    { s.m[k]++ }
func (s *Stats) Map() map[string]int { return s.m }
func (s *Stats) WriteJSON(path string, extra map[string]interface{}) {
	keys := make([]string, 0, len(s.m))
	for k := range s.m {
		keys = append(keys, k)
	}
	sort.Strings(keys)
	out := map[string]interface{}{"distribution": s.m}
	for k, v := range extra {
		out[k] = v
	}
	b, _ := json.MarshalIndent(out, "", " ")
	os.WriteFile(path, b, 0o644)
}
