import GN.Basic
import GN.Generated.Misc

/-!
# util.format and console — model (B) and specification (A)   [C19]

Model: the single pass of `(*Util).Format` with its pending-percent flag and argument cursor
(util/module.go), after the fix that flushes a pending `%` at the end.
Specification: tokenise the format string, then render the tokens against the argument list.
The three renderings of an argument (`String(x)`, `String(Number(x))`, `JSON.stringify(x)`) are goja's
business, not the library's: they are *parameters* (computed by the harness by calling goja directly),
and every theorem holds for all values of them.
-/

namespace GN.Util
open GN

/-- the three renderings of one argument -/
structure Rendered where
  s : List Char
  d : List Char
  j : List Char
  deriving Repr, DecidableEq, Inhabited

/-- `(*Util).format`: what directive letter `f` writes for `val`; the Bool says whether the argument was consumed -/
def fmtDirective (f : Char) (val : Rendered) : List Char × Bool :=
  if f == 's' then (val.s, true)
  else if f == 'd' then (val.d, true)
  else if f == 'j' then (val.j, true)
  else if f == '%' then (['%'], false)
  else (['%', f], false)

/-- the loop of `(*Util).Format`: `pct` is the pending-percent flag, `args` the arguments not yet used.
    Returns the text written and the unused arguments. -/
def fmtLoop : List Char → Bool → List Rendered → List Char × List Rendered
  | [], pct, args => (if pct then ['%'] else [], args)
  | c :: cs, true, [] =>
      let (out, rest) := fmtLoop cs false []
      ('%' :: c :: out, rest)
  | c :: cs, true, a :: as =>
      let (w, used) := fmtDirective c a
      let (out, rest) := fmtLoop cs false (if used then as else a :: as)
      (w ++ out, rest)
  | c :: cs, false, args =>
      if c == '%' then fmtLoop cs true args
      else
        let (out, rest) := fmtLoop cs false args
        (c :: out, rest)

/-- surplus arguments: each preceded by one space, rendered with `String(x)` -/
def surplus (args : List Rendered) : List Char := args.flatMap fun a => ' ' :: a.s

/-- `util.format(f, ...args)` -/
def format (f : List Char) (args : List Rendered) : List Char :=
  let (out, rest) := fmtLoop f false args
  out ++ surplus rest

/-! ## specification -/

inductive Tok where
  | lit (c : Char)          -- an ordinary character
  | dirS | dirD | dirJ      -- %s %d %j
  | pctpct                  -- %%
  | pctOther (c : Char)     -- % followed by a letter that is no directive
  | pctEnd                  -- % as the very last character
  deriving Repr, DecidableEq, Inhabited

def tokenize : List Char → List Tok
  | [] => []
  | ['%'] => [.pctEnd]
  | '%' :: c :: cs =>
      (if c == 's' then Tok.dirS else if c == 'd' then .dirD else if c == 'j' then .dirJ
       else if c == '%' then .pctpct else .pctOther c) :: tokenize cs
  | c :: cs => .lit c :: tokenize cs

/-- the text of a token as it stands in the format string -/
def Tok.source : Tok → List Char
  | .lit c => [c]
  | .dirS => ['%', 's'] | .dirD => ['%', 'd'] | .dirJ => ['%', 'j']
  | .pctpct => ['%', '%']
  | .pctOther c => ['%', c]
  | .pctEnd => ['%']

/-- positional rendering: a directive takes the next unused argument; with no argument left every `%`-token is
    left as it stands; `%%` becomes `%` while arguments remain -/
def render : List Tok → List Rendered → List Char × List Rendered
  | [], args => ([], args)
  | t :: ts, [] =>
      let (out, rest) := render ts []
      (t.source ++ out, rest)
  | t :: ts, a :: as =>
      match t with
      | .lit c => let (out, rest) := render ts (a :: as); (c :: out, rest)
      | .dirS => let (out, rest) := render ts as; (a.s ++ out, rest)
      | .dirD => let (out, rest) := render ts as; (a.d ++ out, rest)
      | .dirJ => let (out, rest) := render ts as; (a.j ++ out, rest)
      | .pctpct => let (out, rest) := render ts (a :: as); ('%' :: out, rest)
      | .pctOther c => let (out, rest) := render ts (a :: as); ('%' :: c :: out, rest)
      | .pctEnd => let (out, rest) := render ts (a :: as); ('%' :: out, rest)

def formatSpec (f : List Char) (args : List Rendered) : List Char :=
  let (out, rest) := render (tokenize f) args
  out ++ surplus rest

/-! ## console -/

/-- which Printer sink a console method writes to — from the *generated* registration table -/
def sinkOf (method : String) : Option String :=
  (Generated.consoleSinks.find? (·.1 == method)).map (·.2)

/-- the sink the property prescribes -/
def sinkSpec (method : String) : Option String :=
  if method == "log" || method == "info" || method == "debug" then some "Log"
  else if method == "warn" then some "Warn"
  else if method == "error" then some "Error"
  else none

/-- one console call: first argument (if any and not undefined) is the format -/
structure ConsoleCall where
  method : String
  fmt : Option (List Char)        -- none: no argument or `undefined`
  args : List Rendered
  deriving Repr, Inhabited

def consoleModel (calls : List ConsoleCall) : List (String × List Char) :=
  calls.filterMap fun c => (sinkOf c.method).map fun s => (s, format (c.fmt.getD []) c.args)

def consoleSpec (calls : List ConsoleCall) : List (String × List Char) :=
  calls.filterMap fun c => (sinkSpec c.method).map fun s => (s, formatSpec (c.fmt.getD []) c.args)

end GN.Util
