import GN.Require.Ideal
import GN.Require.CacheLemmas

/-!
# C01 — require(): one evaluation and one exports identity per module per runtime

Theorems about the reference semantics `GN.Require.Ideal` (what the property demands), to which the model of
the code (`GN.Require.Eval`, with its caches) is tied by the cache-transparency theorem
(`GN/Require/CacheLemmas.lean`, when present) and, on every run, by comparing the real require() with both.
-/

namespace GN.Props.C01
open GN GN.Require

theorem alookup_aerase_self {β} (m : List (Path × β)) (k : Path) : alookup (aerase m k) k = none := by
  unfold alookup aerase
  induction m with
  | nil => rfl
  | cons p m ih =>
    simp only [List.filter_cons]
    by_cases h : (p.1 == k) = true
    · simpa [h] using ih
    · simpa [h] using ih

theorem alookup_ainsert_self {β} (m : List (Path × β)) (k : Path) (v : β) : alookup (ainsert m k v) k = some v := by
  simp [alookup, ainsert]

/-- **Identity, at most one evaluation, cycles**: a file that is being evaluated or has been evaluated
successfully is never entered again — any request that selects it gets the same module, and nothing is logged
or changed (in particular no second `enter`). The requirer of a module that is still in progress therefore
sees the exports it has populated so far. -/
theorem cached_file_not_reentered (t : Tree) (fuel : Nat) (st : ISt) (path : Path) (id : Nat)
    (h : alookup st.mods path = some id) : idealLoad t (fuel + 1) st path = (st, .found id) := by
  simp [idealLoad, h]

/-- the module is registered *before* its body runs (that is what makes a dependency cycle terminate), under
the identity its requirers will see -/
theorem registered_before_body (t : Tree) (fuel : Nat) (st : ISt) (path : Path) (body : List Act)
    (hm : alookup st.mods path = none) (hl : path ∉ t.loadErr)
    (hf : alookup t.file path = some (.js body)) :
    ∃ st0, alookup st0.mods path = some st.next ∧ st0.log = st.log ++ [.enter path st.next] ∧
      idealLoad t (fuel + 1) st path =
        match idealBody t fuel st0 (dir path) st.next body with
        | (st', none) => (st', .found st.next)
        | (st', some e) => ({ st' with mods := aerase st'.mods path }, .err e) := by
  refine ⟨({ st with next := st.next + 1, mods := ainsert st.mods path st.next,
                      fileOf := ainsert st.fileOf st.next path }).emit (.enter path st.next), ?_, ?_, ?_⟩
  · simp [ISt.emit, alookup_ainsert_self]
  · simp [ISt.emit]
  · simp [idealLoad, hm, hl, hf]
    rfl

/-- **A failed module does not stay cached**: whatever error ends the load of a file that was not cached, the
file is not cached afterwards, so a later request evaluates it afresh. -/
theorem failed_module_not_cached (t : Tree) (fuel : Nat) (st st' : ISt) (path : Path) (e : ErrTok)
    (hm : alookup st.mods path = none)
    (h : idealLoad t (fuel + 1) st path = (st', .err e)) : alookup st'.mods path = none := by
  simp only [idealLoad, hm] at h
  split at h
  · simp at h; obtain ⟨rfl, _⟩ := h; exact hm
  · split at h
    · simp at h
    · simp at h; obtain ⟨rfl, _⟩ := h; exact hm
    · simp at h; obtain ⟨rfl, _⟩ := h; exact hm
    · simp at h
    · next body hf =>
      split at h
      · simp at h
      · next st2 e2 hb =>
        simp at h
        obtain ⟨rfl, _⟩ := h
        exact alookup_aerase_self _ _

/-- **The very same thrown value reaches the requirer**: a `throw` ends the body with exactly that value, and an
uncaught failure of a nested require ends the requiring body with exactly the value the nested load produced. -/
theorem thrown_value_is_delivered (t : Tree) (fuel : Nat) (st : ISt) (d : Path) (self : Nat) (tok : String)
    (rest : List Act) : idealBody t (fuel + 1) st d self (.throw tok :: rest) = (st, some (.thrown tok)) := by
  simp [idealBody]

theorem uncaught_error_propagates_unchanged (t : Tree) (fuel : Nat) (st st' : ISt) (d : Path) (self : Nat)
    (spelling : String) (rest : List Act) (e : ErrTok)
    (h : idealResolve t fuel st d spelling = (st', .err e)) :
    idealBody t (fuel + 1) st d self (.req spelling false :: rest) = (st', some e) := by
  simp [idealBody, h]

/-- **Cache transparency — the code behaves like the reference semantics.** For every tree, every registration
set and every history of top-level calls (from scripts anywhere and from Go), the model of the code with its four
caches (files by path, native/core by name with `node:` aliases, requests by resolved path, node_modules
lookups by (directory, name); forget-on-failure) produces exactly the observable log of the cache-free reference
semantics, loader calls aside. Hence every theorem above (identity, at most one evaluation, cycles, failure not
cached, thrown value delivered), C02's selection and C15's lookup hold of the code model after any history.
The only side condition is about evaluation fuel (the reference run must not have exhausted its depth bound). -/
theorem code_equals_reference (t : Tree) (calls : List TopCall)
    (hfuel : NoFuelErr (idealHistory t calls).log) :
    (runHistory t calls).log.filter (fun e => !e.isLoad) = (idealHistory t calls).log :=
  cache_transparent t calls hfuel

/-- non-vacuity: a body that throws fails with exactly the thrown value and is not cached afterwards -/
example :
    let t : Tree := { file := [("/x.js", .js [.set "t1", .throw "boom"])],
                      loadErr := [], pkgMain := [], globalFolders := [], regNative := [], globNative := [], core := [] }
    (idealLoad t 3 {} "/x.js").2 = .err (.thrown "boom") ∧ alookup (idealLoad t 3 {} "/x.js").1.mods "/x.js" = none := by
  decide +kernel

end GN.Props.C01
