import GN.EventLoop.Queue

/-! # C03 — callbacks never overlap and never start while the loop is stopped -/

namespace GN.Props.C03
open GN.EventLoop.Queue

/-- **One executor.** The system has a single program counter for "whoever executes loop work": the loop goroutine
between `run.enter` and its exit, or the controller inside Terminate's drain — and that executor exists exactly
while `running` is set or Terminate drains: `lpc ∈ {idle, tswap, texec} ↔ running = false`. -/
theorem executor_exists_iff_running {s : St} (h : Reach s) :
    (s.lpc = .idle ∨ s.lpc = .tswap ∨ s.lpc = .texec) ↔ s.running = false := (reach_inv h).2.2.2.1.1

/-- **Nothing starts while the loop is stopped**: a step that executes a function is taken by the running loop
or by Terminate's drain, never in a stopped, non-terminating state. -/
theorem executes_only_while_running_or_in_terminate {s t : St} (hr : Reach s) (h : Step s t)
    (hx : t.executed ≠ s.executed) : s.running = true ∨ s.lpc = .texec :=
  executes_only_running_or_terminate hr h hx

/-- a function submitted while the loop is stopped is queued, not run: the enqueue step leaves `executed` alone -/
theorem submission_while_stopped_only_queues (s t : St) (f : Nat) (h : stepQ s (.enqueue f) = some t) :
    t.executed = s.executed ∧ t.aux = s.aux ++ [f] := by
  simp only [stepQ] at h; split at h <;> simp at h; subst h; simp

/-- a second start while running is impossible (setRunning panics): the start step needs `running = false` -/
theorem no_double_start (s : St) (h : s.running = true) : stepQ s .start = none := by
  simp [stepQ, h]

/-- while Stop has not returned control to a new start, the batch is empty unless somebody is executing it -/
theorem batch_only_while_executing {s : St} (h : Reach s) (hb : s.batch ≠ []) :
    (∃ k, s.lpc = .exec k) ∨ s.lpc = .texec := (reach_inv h).2.1 hb

example : stepQ init .execOne = none ∧ stepQ init .termExecOne = none := by decide

end GN.Props.C03

/-! ## The coupled system

Proved in `GN/EventLoop/Combined.lean` (audited with this property): coupled system (GN/EventLoop/Combined.lean: Queue x Ledger with the guards of run()'s loop): a timer/interval delivery runs only at the select of a running loop with live work, or in Terminate's drain; while such a callback runs no queued function, immediate or other delivery can start, and vice versa; every run of the coupled system projects to runs of Queue and of Ledger, so all their invariants transfer.
Theorems: `GN.EventLoop.Combined.job_callback_excludes_runAux`, `GN.EventLoop.Combined.delivery_and_exec_never_both_enabled`, `GN.EventLoop.Combined.delivery_only_at_select_or_in_drain`, `GN.EventLoop.Combined.reach_queue`, `GN.EventLoop.Combined.reach_ledger`. -/
