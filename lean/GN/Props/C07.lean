import GN.EventLoop.Queue

/-! # C07 — Stop() always returns and loses nothing; a restart resumes all pending work -/

namespace GN.Props.C07
open GN.EventLoop.Queue

/-- **Stop handshake.** While Stop waits on the condition, `canRun` is 0 and the loop is provably on its way out:
the token is in the channel, or the loop is between consuming it and the `canRun` check, or it is exiting. -/
theorem stop_waits_for_a_served_loop {s : St} (h : Reach s) (hw : s.cpc = .waiting) :
    s.canRun = false ∧ (s.token = true ∨ s.lpc = .swap true ∨ s.lpc = .exec true ∨ s.lpc = .chk ∨ s.lpc = .exit) :=
  stop_is_served h hw

/-- from each of those states the loop's own steps lead to the exit without passing the select again:
swap → exec → … → chk → exit (canRun = 0), and the exit wakes Stop -/
theorem chk_leads_out (s t : St) (hc : s.canRun = false) (h : stepQ s .chk = some t) : t.lpc = .exit := by
  simp only [stepQ] at h; split at h <;> simp at h; subst h; simp [hc]

theorem exit_wakes_stop (s t : St) (hw : s.cpc = .waiting) (h : stepQ s .exit = some t) :
    t.cpc = .out ∧ t.running = false := by
  simp only [stepQ] at h; split at h <;> simp at h; subst h; simp [hw]

/-- **No effect on a loop that is not running**: the stop-request steps are not enabled then -/
theorem stop_on_stopped_loop_is_noop (s : St) (h : s.running = false) :
    stepQ s .stopStore = none ∧ stepQ s .snwStore = none := by
  simp [stepQ, h]

/-- **StopNoWait returns without waiting**: it is two non-blocking steps (store, owed token send), enabled whenever
the loop runs — including from a callback (`lpc = exec _`) -/
theorem stopNoWait_from_callback (s : St) (k : Bool) (hr : s.running = true) (hl : s.lpc = .exec k) (hc : s.cpc = .out) :
    ∃ t, stepQ s .snwStore = some t ∧ t.lpc = .exec k ∧ t.canRun = false ∧ t.pend = s.pend + 1 := by
  simp [stepQ, hr, hc, hl]

/-- **Stopping loses nothing**: see `GN.Props.C04.controller_steps_keep_queue`; here: in every reachable state the
accepted functions are still exactly executed ++ batch ++ queue, whatever Stop/Start cycles happened -/
theorem nothing_lost {s : St} (h : Reach s) : s.accepted = s.executed ++ s.batch ++ s.aux := (reach_inv h).1

/-- a restart is enabled as soon as the loop has exited and Stop has returned -/
theorem restart_enabled (s : St) (h1 : s.running = false) (h2 : s.cpc = .out) (h3 : s.lpc = .idle) :
    ∃ t, stepQ s .start = some t ∧ t.running = true ∧ t.canRun = true ∧ t.aux = s.aux := by
  simp [stepQ, h1, h2, h3]

example : ∃ t, runLabels init [.start, .swap, .execDone, .stopStore, .stopWake, .takeToken, .swap, .execDone, .chk, .exit] = some t ∧
    t.running = false ∧ t.cpc = .out := by decide

end GN.Props.C07

/-! ## Progress clauses

Proved in `GN/EventLoop/Progress.lean` (audited with this property): progress: Stop() returns after a bounded number of loop steps whatever the other goroutines do: every loop step strictly decreases a measure, other threads' steps raise it by at most one per accepted submission (each accepted function must still be run: no bound independent of submissions exists, proved), and 7 control steps of the loop suffice regardless of submissions; the loop is never stuck while Stop waits.
Theorems: `GN.EventLoop.Progress.loop_step_decreases_measure`, `GN.EventLoop.Progress.other_step_bounded`, `GN.EventLoop.Progress.stop_returns_after_bounded_loop_steps`, `GN.EventLoop.Progress.stop_returns_after_seven_control_steps`, `GN.EventLoop.Progress.stop_needs_at_least`, `GN.EventLoop.Progress.loop_not_stuck_while_stop_waits`, `GN.EventLoop.Progress.stop_can_return`, `GN.EventLoop.Progress.no_bound_independent_of_submissions`. -/
