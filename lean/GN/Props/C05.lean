import GN.EventLoop.Ledger
import GN.Generated.EventLoopKernels

/-! # C05 — timers: never early, at most once, never after being cleared -/

namespace GN.Props.C05
open GN GN.EventLoop.Ledger

/-- **At most once**: in every reachable state of the job ledger a timeout or immediate has fired at most once. -/
theorem fires_at_most_once {s : St} (h : Reach s) :
    ∀ j ∈ s.jobs, j.kind = .timeout ∨ j.kind = .immediate → j.fired ≤ 1 := timeout_fires_at_most_once h

/-- **Never after being cleared**: a job cleared (by clear*, Go-side Clear*, or Terminate) before its callback ever
began has not fired — in every reachable state, hence also after any later history (stop/start, terminate/restart). -/
theorem cleared_job_never_fires {s : St} (h : Reach s) : ∀ j ∈ s.jobs, j.cleared0 = true → j.fired = 0 :=
  cleared_never_fires h

theorem cleared_job_never_fires_later {s t : St} (hr : Reach s) (h : Steps s t) {i : Nat} {j : Job}
    (hs : s.jobs[i]? = some j) (hc : j.cleared0 = true) :
    ∃ j', t.jobs[i]? = some j' ∧ j'.cleared0 = true ∧ j'.fired = 0 := cleared_never_fires_later hr h hs hc

/-- **Delivery re-checks the flag on the loop**: a step that makes a job fire needs the job to be live -/
theorem firing_needs_a_live_job {s t : St} (h : Step s t) {i : Nat} {j j' : Job} (hs : s.jobs[i]? = some j)
    (ht : t.jobs[i]? = some j') (hf : j.fired < j'.fired) : j.cancelled = false := fire_requires_live h hs ht hf

/-- **Clearing twice / clearing a fired job is harmless**: `clear` on a cancelled job is not enabled; what is
enabled is the no-op, which changes nothing -/
theorem clear_is_idempotent (s : St) (i : Nat) (j : Job) (hj : s.jobs[i]? = some j) (hc : j.cancelled = true) :
    stepL s (.clear i) = none ∧ stepL s (.clearNoop i) = some s := by
  simp [stepL, hj, hc]

/-- **The delay arithmetic** (regenerated from `msToDuration` in eventloop.go): milliseconds to nanoseconds never
wraps — a non-negative delay never becomes shorter than asked (it saturates at MaxInt64 ns), a negative one
never becomes positive. This is the arithmetic half of "never early" (the other half is Go's timers). -/
theorem delay_conversion_never_shortens (ms : I64) :
    (0 ≤ ms.toInt → ms.toInt * 1000000 ≤ (Generated.msToDuration ms).toInt ∨
                      (Generated.msToDuration ms).toInt = 2 ^ 63 - 1) ∧
    (ms.toInt < 0 → (Generated.msToDuration ms).toInt ≤ 0) := by
  have h1 := BitVec.toInt_lt (x := ms); have h2 := BitVec.le_toInt (x := ms)
  have hm : -9223372036854 ≤ ms.toInt → ms.toInt ≤ 9223372036854 → (ms * 1000000#64).toInt = ms.toInt * 1000000 := by
    intro a b; rw [BitVec.toInt_mul]; apply Int.bmod_eq_of_le <;> simp (config := {decide := true}) <;> omega
  unfold Generated.msToDuration
  simp (config := {decide := true}) [BitVec.slt]
  constructor
  · intro hnn
    split
    · right; rfl
    · split
      · omega
      · left; rw [hm (by omega) (by omega)]; omega
  · intro hneg
    split
    · omega
    · split
      · decide
      · rw [hm (by omega) (by omega)]; omega

/-- non-vacuity: a cleared, unexpired timer is gone at once; an expired one is delivered dead -/
example : runLabels init [.setTimeout, .clear 0, .expire 0] = none ∧
    (runLabels init [.setTimeout, .expire 0, .clear 0, .deliverDead 0]).map (·.jobCount) = some 0 := by
  decide +kernel

end GN.Props.C05

/-! ## Progress clauses

Proved in `GN/EventLoop/Progress.lean` (audited with this property): progress: a timeout or immediate that is not cleared fires exactly once - its firing path (at most two own steps) is always enabled, no step other than clear of that very job can take it away, and after it has fired once it stays at one.
Theorems: `GN.EventLoop.Progress.uncleared_oneshot_fires_exactly_once`, `GN.EventLoop.Progress.other_steps_cannot_stop_it`, `GN.EventLoop.Progress.uncleared_oneshot_fires_within_two_own_steps`. -/
