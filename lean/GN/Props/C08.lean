import GN.EventLoop.Queue
import GN.EventLoop.Ledger

/-! # C08 — Terminate() leaves nothing behind, refuses work until restart, allows restart
(the goroutine/timer half is in `GN.EventLoop.Ledger`; see Audit/C08) -/

namespace GN.Props.C08
open GN.EventLoop.Queue

/-- **Refuse until restart**: while the terminated flag is set every submission is refused (not queued) … -/
theorem refused_while_terminated (s : St) (f : Nat) (h : s.terminated = true) : stepQ s (.enqueue f) = none := by
  simp [stepQ, h]

/-- … the flag stays set until the next start, which clears it … -/
theorem terminated_until_start (s t : St) (l : Lbl) (h : stepQ s l = some t) (ht : s.terminated = true) (hl : l ≠ .start) :
    t.terminated = true := by
  cases l <;> simp only [stepQ] at h <;> (try split at h) <;> simp at h <;> (try subst h) <;> simp_all

theorem start_clears_terminated (s t : St) (h : stepQ s .start = some t) : t.terminated = false ∧ t.running = true := by
  simp only [stepQ] at h; split at h <;> simp at h; subst h; simp

/-- … and in every reachable state: terminated ⇒ not running, and (after Terminate's swap) the queue is empty -/
theorem terminated_state {s : St} (h : Reach s) (ht : s.terminated = true) :
    s.running = false ∧ (s.lpc = .tswap ∨ s.aux = []) := (reach_inv h).2.2.2.2.2 ht

/-- **Terminate drains**: everything accepted before the flag was set has run when Terminate is done -/
theorem terminate_has_run_everything {s : St} (h : Reach s) (ht : s.terminated = true) (hl : s.lpc = .idle) :
    s.executed = s.accepted := terminate_drains h ht hl

/-- **Fresh after restart**: after Terminate, a start yields a running loop with an empty queue and batch -/
theorem fresh_after_restart {s t : St} (h : Reach s) (ht : s.terminated = true) (hl : s.lpc = .idle)
    (hs : stepQ s .start = some t) : t.aux = [] ∧ t.batch = [] ∧ t.terminated = false := by
  have hq := (terminated_state h ht).2
  have hb := (reach_inv h).2.1
  simp only [stepQ] at hs; split at hs <;> simp at hs; subst hs
  refine ⟨?_, ?_, rfl⟩
  · rcases hq with h1 | h1
    · rw [hl] at h1; cases h1
    · simpa using h1
  · apply Classical.byContradiction
    intro hne
    rcases hb (by simpa using hne) with ⟨k, hk⟩ | hk <;> rw [hl] at hk <;> cases hk

/-- **Nothing is left behind** (job ledger): the registry holds exactly the jobs whose goroutine / runtime timer
has not finished, so once Terminate's drain has seen every goroutine finish (each interval goroutine ends by
sending its own removal) and has cancelled every job, no job is registered and the live-job count is 0. -/
theorem registry_is_exactly_unfinished_goroutines {s : GN.EventLoop.Ledger.St} (h : GN.EventLoop.Ledger.Reach s) :
    ∀ j ∈ s.jobs,
      (j.kind = .timeout → (j.inJobs = true ↔ j.g = .armed ∨ j.g = .sending)) ∧
      (j.kind = .interval → (j.inJobs = true ↔ j.g = .iwait ∨ j.g = .itick ∨ j.g = .iremove)) ∧
      (j.kind = .immediate → j.inJobs = false) := GN.EventLoop.Ledger.registry_matches_goroutines h

/-- **Cancelled work stays silent, also after a restart**: a job Terminate cancelled before its callback ever began
never fires in any later state -/
theorem cancelled_work_stays_silent {s t : GN.EventLoop.Ledger.St} (hr : GN.EventLoop.Ledger.Reach s)
    (h : GN.EventLoop.Ledger.Steps s t) {i : Nat} {j : GN.EventLoop.Ledger.Job}
    (hs : s.jobs[i]? = some j) (hc : j.cleared0 = true) :
    ∃ j', t.jobs[i]? = some j' ∧ j'.cleared0 = true ∧ j'.fired = 0 :=
  GN.EventLoop.Ledger.cleared_never_fires_later hr h hs hc

example : ∃ t, runLabels init [.enqueue 7, .wake, .termFlag, .refuse 8, .termSwap, .termExecOne, .termExecDone, .start] = some t ∧
    t.executed = [7] ∧ t.refused = [8] ∧ t.terminated = false := by decide

end GN.Props.C08

/-! ## The coupled system

Proved in `GN/EventLoop/Combined.lean` (audited with this property): coupled system: in Terminate's drain a received delivery runs no callback; the terminated flags of both components agree.
Theorems: `GN.EventLoop.Combined.drain_runs_no_callback`, `GN.EventLoop.Combined.terminated_flags_agree`. -/
