import GN.EventLoop.JsOrderLemmas
import GN.EventLoop.Queue

/-! # C18 — callback order seen by JS: microtasks first, immediates FIFO, throws isolated -/

namespace GN.Props.C18
open GN.EventLoop.JsOrder

/-- **The model satisfies the partial order**: for every program and every fuel that did not cut a drain loop short,
the log produced by the exact semantics (synchronous block to its end; promise reactions drained FIFO, transitively,
when the outermost call returns; immediates through the FIFO aux queue, cleared ones skipped; a throw ends only
its own body) is accepted by the program-independent oracle: no callback begins before the current block has
ended, no immediate begins while reactions are pending, immediates begin in request order, a cleared callback
never runs, nothing runs twice, and at the end everything scheduled and not cleared has run. -/
theorem model_meets_partial_order (p : Prog) (fuel : Nat) (hc : Complete p fuel) :
    oracle (runProgram p fuel) = .ok () := model_meets_oracle p fuel hc

/-- the completeness condition is about fuel only: more fuel changes nothing -/
theorem more_fuel_same_log (p : Prog) (fuel n : Nat) (hc : Complete p fuel) :
    Complete p (fuel + n) ∧ runProgram p (fuel + n) = runProgram p fuel := Complete.fuel_mono hc n

/-- **Immediates are FIFO in the loop itself** (the aux queue): what has been executed is a prefix of what was
accepted — all interleavings (see C04) -/
theorem immediates_fifo_in_the_queue {s : GN.EventLoop.Queue.St} (h : GN.EventLoop.Queue.Reach s) :
    s.executed <+: s.accepted := GN.EventLoop.Queue.executed_prefix h

/-- **A throwing callback does not prevent later callbacks**: in the model a `throw` ends the body and the
instance still ends; the queues are untouched -/
theorem throw_ends_only_its_body (p : Prog) (me : Nat) (rest : List Act) (s : St) :
    runBody p me (.throw :: rest) s = s.emit (.x me) := rfl

/-- non-vacuity: a program whose run is complete (a reaction queued by an immediate, a throw, two immediates) -/
example : completeB [[.imm 1 0, .imm 2 1, .thenDo 3], [.thenDo 3, .throw], [.log], [.log]] 100 = true := by decide +kernel

example : oracle (runProgram [[.imm 1 0, .imm 2 1, .thenDo 3], [.thenDo 3, .throw], [.log], [.log]] 100) = .ok () :=
  model_meets_partial_order _ _ ((completeB_iff _ _).mp (by decide +kernel))

end GN.Props.C18
