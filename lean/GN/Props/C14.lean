import GN.Url.PathSpec
import GN.Url.PathLemmas

/-! # C14 — new URL(reference, base) denotes the URL RFC 3986 §5.2 / WHATWG resolution prescribes

Three layers, tied together as follows.
* `GN.Url.Rfc` (Rfc3986.lean): the specification — Appendix B splitting, §5.2.2 transform, §5.2.3 merge, §5.2.4
  remove_dot_segments written from the RFC text, and the WHATWG refinements.  The driver evaluates it on every generated
  (reference, base) pair of the grammar and compares it, component by component, with what the real constructor returns.
* `GN.Url.Net` + `GN.Url.Obj`: a transcription of the code path (`url.Parse`, `ResolveReference`/`resolvePath`, `path.Clean`,
  url.go's `cleanPath`, `normalizeURL`); the driver compares *every getter* of the real object with it on every case.
* The theorems below relate the two for every path of the grammar, every base and every reference — with no bound on
  the number or length of segments: the code's three path algorithms all compute §5.2.4 / §5.2.3+§5.2.4.
The statements are in PathSpec.lean, the proofs in PathLemmas.lean. -/

namespace GN.Props.C14
open GN GN.Url GN.Url.Net GN.Url.Rfc

/-- §5.2.4 (the RFC's buffer algorithm) computes the reference normaliser on segments -/
theorem remove_dot_segments_is_the_normaliser : RemoveDotsIsNorm := removeDotsIsNorm

/-- **dot segments removed**: no `.` or `..` segment is left, for every path -/
theorem no_dot_segments_left : NoDotSegmentsLeft := noDotSegmentsLeft

/-- **a trailing slash is preserved** (and a path ending in `/.` or `/..` gets one) -/
theorem trailing_slash_kept : TrailingSlashKept := trailingSlashKept

/-- normalisation is idempotent: the normalisation pass after resolution cannot change a resolved path -/
theorem normalisation_idempotent : NormIdempotent := normIdempotent

/-- url.go's `cleanPath` (`path.Clean` + the trailing-slash repair) is §5.2.4 on every absolute path, any scheme -/
theorem cleanPath_is_rfc : CleanPathIsRfc := cleanPathIsRfc

/-- **a relative reference path is merged with the base path (§5.2.3) and cleaned (§5.2.4)** — what the code
computes through net/url's `resolvePath` is exactly that, for every base and reference -/
theorem relative_path_resolution_is_rfc : GoResolveRelativeIsRfc := goResolveRelativeIsRfc

/-- an absolute reference path replaces the base path -/
theorem absolute_path_resolution_is_rfc : GoResolveAbsoluteIsRfc := goResolveAbsoluteIsRfc

/-- an empty reference path keeps the base path -/
theorem empty_path_keeps_base : GoResolveEmptyIsBase := goResolveEmptyIsBase

/-- **the same choice of scheme, authority, path and query as §5.2.2** for a reference without a scheme -/
theorem component_choice_is_rfc : ResolveChoice := resolveChoice

/-- **`new URL(s)` rejects strings that have no scheme; the scheme of every result is lower case** -/
theorem scheme_required_and_lower_case : SchemeRequiredAndLower := schemeRequiredAndLower

/-- **the fragment is the reference's**, never inherited from the base -/
theorem fragment_is_the_references : FragmentIsReferences := fragmentIsReferences

/-! non-vacuity: the RFC's own example base and a reference of each kind satisfy the hypotheses -/
example : SegsOK [[98], [99], [100, 59, 112]] ∧ SegsOK [[46, 46], [103]] := by
  refine ⟨⟨by decide, ?_, ?_⟩, ⟨by decide, ?_, ?_⟩⟩ <;> decide
example : removeDotSegments (merge true (render [[98], [99], [100, 59, 112]]) (renderRel [[46, 46], [103]])) = render [[98], [103]] := by
  decide +kernel

end GN.Props.C14
