/- Written by tools/pin_sources.py after a review of the listed declarations (never at check time). -/
import GN.Generated.SourcePins
namespace GN.Props.Pins.C10
open GN.Generated.Pin

/-- the Go declarations of /repo the hand-written model and harness protocol of C10 were transcribed from:
(name, digest regenerated from the current tree, digest when the transcription was last read against the source) -/
def transcribedFrom : List (String × Nat × Nat) := [
  ("buffer_Bytes", buffer_Bytes, 0x064a0bc85657e65),
  ("buffer_Buffer_readBigInt64BE", buffer_Buffer_readBigInt64BE, 0xc54f39434a0b9bb),
  ("buffer_Buffer_readBigInt64LE", buffer_Buffer_readBigInt64LE, 0xacd3eccc01fc103),
  ("buffer_Buffer_readBigUInt64BE", buffer_Buffer_readBigUInt64BE, 0x69ff43311e4cb7a),
  ("buffer_Buffer_readBigUInt64LE", buffer_Buffer_readBigUInt64LE, 0x7e94ff7c2161c42),
  ("buffer_Buffer_readDoubleBE", buffer_Buffer_readDoubleBE, 0x4bf0a9e9690c3d0),
  ("buffer_Buffer_readDoubleLE", buffer_Buffer_readDoubleLE, 0x47dcb978c83c77f),
  ("buffer_Buffer_readFloatBE", buffer_Buffer_readFloatBE, 0xf3db83a024b49fd),
  ("buffer_Buffer_readFloatLE", buffer_Buffer_readFloatLE, 0xe057999d704b0e3),
  ("buffer_Buffer_readInt8", buffer_Buffer_readInt8, 0x12a9d04e308d7e6),
  ("buffer_Buffer_readInt16BE", buffer_Buffer_readInt16BE, 0xebbee79e924b9fd),
  ("buffer_Buffer_readInt16LE", buffer_Buffer_readInt16LE, 0x166216a831f71d9),
  ("buffer_Buffer_readInt32BE", buffer_Buffer_readInt32BE, 0xcb54a855b4bf1d8),
  ("buffer_Buffer_readInt32LE", buffer_Buffer_readInt32LE, 0x9a75a1f54791f2e),
  ("buffer_Buffer_readIntBE", buffer_Buffer_readIntBE, 0x73573b630ed0cac),
  ("buffer_Buffer_readIntLE", buffer_Buffer_readIntLE, 0xebc31480d7ff3cc),
  ("buffer_Buffer_readUInt8", buffer_Buffer_readUInt8, 0xd452fac545f414f),
  ("buffer_Buffer_readUInt16BE", buffer_Buffer_readUInt16BE, 0xc949e76ab26a63f),
  ("buffer_Buffer_readUInt16LE", buffer_Buffer_readUInt16LE, 0x74f8c4b807903da),
  ("buffer_Buffer_readUInt32BE", buffer_Buffer_readUInt32BE, 0x2858610ee2def62),
  ("buffer_Buffer_readUInt32LE", buffer_Buffer_readUInt32LE, 0x5a08fad795abdca),
  ("buffer_Buffer_readUIntBE", buffer_Buffer_readUIntBE, 0x92ec62a1f6efa15),
  ("buffer_Buffer_readUIntLE", buffer_Buffer_readUIntLE, 0xb7ac5902d73000a),
  ("buffer_Buffer_writeBigInt64BE", buffer_Buffer_writeBigInt64BE, 0xbf50b6a0afc43fd),
  ("buffer_Buffer_writeBigInt64LE", buffer_Buffer_writeBigInt64LE, 0x41df665e278cbe2),
  ("buffer_Buffer_writeBigUInt64BE", buffer_Buffer_writeBigUInt64BE, 0xd99b7ceba7713d1),
  ("buffer_Buffer_writeBigUInt64LE", buffer_Buffer_writeBigUInt64LE, 0x1d79e5816e95e12),
  ("buffer_Buffer_writeDoubleBE", buffer_Buffer_writeDoubleBE, 0x0c9c6f0f4fbac93),
  ("buffer_Buffer_writeDoubleLE", buffer_Buffer_writeDoubleLE, 0x266713c631f9592),
  ("buffer_Buffer_writeFloatBE", buffer_Buffer_writeFloatBE, 0x340e4b9bc6f38a8),
  ("buffer_Buffer_writeFloatLE", buffer_Buffer_writeFloatLE, 0xcf128ede8580880),
  ("buffer_Buffer_writeInt8", buffer_Buffer_writeInt8, 0x7ab46a01ab9c409),
  ("buffer_Buffer_writeInt16BE", buffer_Buffer_writeInt16BE, 0xbf5bfd0d28f1ab2),
  ("buffer_Buffer_writeInt16LE", buffer_Buffer_writeInt16LE, 0x20731fa8325a6b7),
  ("buffer_Buffer_writeInt32BE", buffer_Buffer_writeInt32BE, 0x4c82c2d2a1e80a5),
  ("buffer_Buffer_writeInt32LE", buffer_Buffer_writeInt32LE, 0x4b925a3623c2159),
  ("buffer_Buffer_writeIntBE", buffer_Buffer_writeIntBE, 0x8070f35ab131dcb),
  ("buffer_Buffer_writeIntLE", buffer_Buffer_writeIntLE, 0x517dc2eb851ea1e),
  ("buffer_Buffer_writeUInt8", buffer_Buffer_writeUInt8, 0xc3b74fdd6a0d741),
  ("buffer_Buffer_writeUInt16BE", buffer_Buffer_writeUInt16BE, 0x0cec03a670e8a70),
  ("buffer_Buffer_writeUInt16LE", buffer_Buffer_writeUInt16LE, 0x397b24a81f07c26),
  ("buffer_Buffer_writeUInt32BE", buffer_Buffer_writeUInt32BE, 0x5d7848b807df59e),
  ("buffer_Buffer_writeUInt32LE", buffer_Buffer_writeUInt32LE, 0x03fb3b4cae2691c),
  ("buffer_Buffer_writeUIntBE", buffer_Buffer_writeUIntBE, 0x514a9878fcf543d),
  ("buffer_Buffer_writeUIntLE", buffer_Buffer_writeUIntLE, 0x916d7bba597af0a),
  ("buffer_Buffer_getOffsetArgument", buffer_Buffer_getOffsetArgument, 0xca112d253a5ea0e),
  ("buffer_Buffer_getVariableLengthReadArguments", buffer_Buffer_getVariableLengthReadArguments, 0xcc5e2f2b53565e5),
  ("buffer_Buffer_getVariableLengthWriteArguments", buffer_Buffer_getVariableLengthWriteArguments, 0xe118a6109ebf73d),
  ("buffer_Buffer_getVariableLengthArguments", buffer_Buffer_getVariableLengthArguments, 0x48bd82a802497d5),
  ("buffer_Buffer_ensureWithinFloat32Range", buffer_Buffer_ensureWithinFloat32Range, 0x353dc49be9ec666),
  ("buffer_Buffer_ensureWithinInt16Range", buffer_Buffer_ensureWithinInt16Range, 0x7064aa130be6065),
  ("buffer_Buffer_ensureWithinInt32Range", buffer_Buffer_ensureWithinInt32Range, 0xaf7ef27f554bfef),
  ("buffer_Buffer_ensureWithinIntRange", buffer_Buffer_ensureWithinIntRange, 0xaaf60c9daf39eb8),
  ("buffer_Buffer_ensureWithinUInt16Range", buffer_Buffer_ensureWithinUInt16Range, 0x99ba4e56860d1e9),
  ("buffer_Buffer_ensureWithinUInt32Range", buffer_Buffer_ensureWithinUInt32Range, 0x4f654f980c10a0e),
  ("buffer_Buffer_ensureWithinUIntRange", buffer_Buffer_ensureWithinUIntRange, 0x2e43393b66a1158),
  ("buffer_signExtend", buffer_signExtend, 0xedd71877a99a5bf),
  ("buffer_Require", buffer_Require, 0xf46cd1027883426),
  ("goutil_RequiredIntegerArgument", goutil_RequiredIntegerArgument, 0x5b42d92ca5fa07e),
  ("goutil_RequiredFloatArgument", goutil_RequiredFloatArgument, 0xd0ba7278b24bdb1),
  ("goutil_CoercedIntegerArgument", goutil_CoercedIntegerArgument, 0x01d888dd607d48e),
  ("goutil_OptionalIntegerArgument", goutil_OptionalIntegerArgument, 0xf26602d6754ba93),
  ("goutil_RequiredBigIntArgument", goutil_RequiredBigIntArgument, 0x1c859765f619802),
  ("goutil_RequiredStringArgument", goutil_RequiredStringArgument, 0x605ca43e4fd8f10)]

/-- **Transcription pin.**  Every declaration the C10 model was transcribed from still reads (comments and layout
aside) as it did when the transcription was made: the left values are regenerated by verif-extract on every run. -/
theorem sources_as_transcribed : transcribedFrom.all (fun e => e.2.1 == e.2.2) = true := by decide

end GN.Props.Pins.C10
