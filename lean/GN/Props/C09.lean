import GN.Props.C09Sites
import GN.Generated.PanicSites
import GN.Props.C10
import GN.Props.C11
import GN.Props.C05
import GN.Url.UrlObj

/-! # C09 — no JavaScript input can crash or hang the host

What a theorem can carry here: (1) the inventory of expressions that *can* raise a Go run-time panic in the anchored
files is recomputed from the source on every run and must equal the reviewed table (`inventory_pinned`), and every
function in that table has a covering argument (`every_site_has_argument`); (2) the covering arguments that are
arithmetic are proved below for all int64 / all lists: the slices taken by the numeric Buffer methods, `toString`,
`write` and `alloc` lie inside the buffer whenever the (regenerated) guard lets the call through, port numbers stay in
range, delays do not overflow.  What a theorem cannot carry — that goja and the Go runtime turn every other failure
into a catchable exception, and that nothing spins — is exercised by the hostile-argument harness (`host-fuzz`) on
every function the library installs; that part is search, not proof, and is labelled so in the evidence. -/

namespace GN.Props.C09
open GN GN.Buffer GN.Buffer.Codec

/-- **the inventory of potential panic sites is the reviewed one** (the left side is regenerated from /repo) -/
theorem inventory_pinned : Generated.panicSites = expectedPanicSites := by decide +kernel

/-- every function with a potential panic site has a covering argument in the reviewed table -/
theorem every_site_has_argument :
    expectedPanicSites.all (fun e => (coverage.find? (fun c => c.1 == e.1)).isSome) = true := by decide +kernel

/-- **fixed-width reads and writes stay inside the buffer**: whenever the guard of `getOffsetArgument` (as it is in
buffer.go now) lets a call through, `bb[offset : offset+numBytes]` is in range — for every int64 offset, no wrap-around -/
theorem fixed_width_access_in_bounds (n off len : I64) (hn : 0 ≤ n.toInt ∧ n.toInt ≤ 8) (hl : 0 ≤ len.toInt)
    (h : Generated.getOffsetArgument_guard n off len = true) :
    0 ≤ off.toInt ∧ off.toInt + n.toInt ≤ len.toInt := by
  have := (GN.Props.C10.offset_guard_exact n off len hn hl).1 h
  unfold InRange at this
  omega

/-- **variable-width reads and writes stay inside the buffer**, and the width is 1..6 -/
theorem var_width_access_in_bounds (off bl len : I64) (hl : 0 ≤ len.toInt)
    (h : Generated.getVariableLengthArguments_guard off bl len = true) :
    (1 ≤ bl.toInt ∧ bl.toInt ≤ 6) ∧ 0 ≤ off.toInt ∧ off.toInt + bl.toInt ≤ len.toInt := by
  have := (GN.Props.C10.var_guard_exact off bl len hl).1 h
  unfold InRange at this
  omega

/-- `toString(enc, start, end)`: the sub-range it slices is inside the buffer, for every start and end -/
theorem toString_slice_in_bounds (b : Bytes) (start stop : Int)
    (h : ¬ (max start 0 ≥ b.length ∨ stop < 0 ∨ max start 0 ≥ stop)) :
    (max start 0).toNat + (min stop b.length - max start 0).toNat ≤ b.length :=
  GN.Props.C11.toString_range_in_bounds b start stop h

/-- `buf.write`: the number of bytes copied fits behind the offset and into what was decoded -/
theorem write_copy_in_bounds (e : Enc) (buf : Bytes) (s : List UInt16) (offset length : Nat) (ho : offset ≤ buf.length) :
    (write e buf s offset length).1 ≤ buf.length - offset ∧ (write e buf s offset length).2.length = buf.length := by
  have h := GN.Props.C11.write_is_prefix_of_decode e buf s offset length ho
  exact ⟨h.1, h.2.2.1⟩

/-- `Buffer.alloc(size, fill)`: the filled buffer has exactly the requested size -/
theorem fill_has_requested_size (e : Enc) (size : Nat) (s : List UInt16) : (fill e size s).length = size :=
  (GN.Props.C11.fill_repeats_pattern e size s).1

/-- the `port` setter: whatever is assigned, the number that reaches `strconv.Itoa` is -1 (ignored) or 0..65535 -/
theorem port_value_in_range (v : GN.Url.Obj.PortArg) :
    -1 ≤ (GN.Url.Obj.valueToURLPort v).1 ∧ (GN.Url.Obj.valueToURLPort v).1 ≤ 65535 := by
  have hd : ∀ (s : GN.Url.Bytes) (acc : Int), -1 ≤ acc → acc ≤ 65535 →
      -1 ≤ GN.Url.Obj.portDigits s acc ∧ GN.Url.Obj.portDigits s acc ≤ 65535 := by
    intro s
    induction s with
    | nil => intro acc h1 h2; simp [GN.Url.Obj.portDigits]; omega
    | cons c rest ih =>
      intro acc h1 h2
      unfold GN.Url.Obj.portDigits
      split
      · generalize hacc' : (if acc == -1 then 0 else acc) * 10 + ((c.toNat - 48 : Nat) : Int) = acc'
        have h0 : 0 ≤ acc' := by
          subst hacc'
          split
          · omega
          · rename_i hne
            have : acc ≠ -1 := by simpa using hne
            omega
        simp only []
        split
        · omega
        · apply ih <;> omega
      · omega
  cases v with
  | int n =>
    simp only [GN.Url.Obj.valueToURLPort]
    split
    · simp
    · split <;> simp <;> omega
  | str s =>
    simp only [GN.Url.Obj.valueToURLPort]
    split
    · simp
    · split
      · simp
      · split
        · simp
        · exact hd s (-1) (by omega) (by omega)

/-- timer delays: the conversion to nanoseconds never wraps around (regenerated `msToDuration`) -/
theorem delay_conversion_never_wraps (ms : I64) :
    (0 ≤ ms.toInt → ms.toInt * 1000000 ≤ (Generated.msToDuration ms).toInt ∨
                      (Generated.msToDuration ms).toInt = 2 ^ 63 - 1) ∧
    (ms.toInt < 0 → (Generated.msToDuration ms).toInt ≤ 0) :=
  GN.Props.C05.delay_conversion_never_shortens ms

/-! non-vacuity -/
example : Generated.panicSites.length > 50 := by decide +kernel
example : Generated.getOffsetArgument_guard 4#64 3#64 8#64 = true := by decide +kernel

end GN.Props.C09
