import GN.Buffer.Codec
import GN.Buffer.CodecLemmas

/-! # C11 — Buffer codecs: lossless round trips, lenient decoding, clamped ranges, whole-character writes

The definitions are in `GN/Buffer/Codec.lean` (the executable model the driver runs against the real
`Buffer`); the proofs in `GN/Buffer/CodecLemmas.lean`.  This file only states the property theorems. -/

namespace GN.Props.C11
open GN GN.Buffer.Codec

/-- hex: `Buffer.from(b.toString('hex'), 'hex')` has the bytes of `b`, for every byte sequence -/
theorem hex_roundtrip (b : Bytes) : hexDec (hexEnc b) = b := GN.Buffer.Codec.hex_roundtrip b

/-- base64 (padded, standard alphabet) -/
theorem base64_roundtrip (b : Bytes) : b64Dec (b64Enc b) = b := GN.Buffer.Codec.b64_roundtrip b

/-- base64url (unpadded, URL alphabet) is decoded by the *same* lenient decoder: both alphabets are accepted -/
theorem base64url_roundtrip (b : Bytes) : b64Dec (b64UrlEnc b) = b := GN.Buffer.Codec.b64url_roundtrip b

/-- line breaks inside base64 text are skipped -/
theorem base64_skips_line_breaks (post : Bytes) (c : UInt8) (q : List UInt8) (h : isNL c = true) :
    b64DecGo (c :: post) q = b64DecGo post q := GN.Buffer.Codec.b64Dec_skips_newlines post c q h

/-- utf8: for every well-formed byte sequence, `Buffer.from(b.toString('utf8'), 'utf8')` has the bytes of `b` -/
theorem utf8_roundtrip (b : Bytes) (h : validUtf8 b = true) : decode .utf8 (encode .utf8 b) = b :=
  GN.Buffer.Codec.utf8_roundtrip_valid b h

/-- the hypothesis of `utf8_roundtrip` is exactly "is the UTF-8 encoding of some list of scalar values" -/
theorem utf8_wellformed_iff (b : Bytes) :
    validUtf8 b = true ↔ ∃ cs : List Char, b = (String.ofList cs).toUTF8.toList := GN.Buffer.Codec.validUtf8_iff b

/-- JS strings (UTF-16 code units) and scalar values: no loss in either direction -/
theorem utf16_roundtrip (cs : List Char) : utf16ToScalars (scalarsToUtf16 cs) = cs := GN.Buffer.Codec.utf16_roundtrip cs

/-- `toString(enc, start, end)` is the encoding of the clamped sub-range, for every start and end
(negative, reversed, huge) -/
theorem toString_range (e : Enc) (b : Bytes) (start stop : Int) :
    toStringRange e b start stop =
      let s := max start 0
      let t := min stop b.length
      if s ≥ b.length ∨ stop < 0 ∨ s ≥ stop then [] else encode e ((b.drop s.toNat).take (t - s).toNat) :=
  GN.Buffer.Codec.toStringRange_eq e b start stop

/-- … and the sub-range it encodes lies inside the buffer -/
theorem toString_range_in_bounds (b : Bytes) (start stop : Int)
    (h : ¬ (max start 0 ≥ b.length ∨ stop < 0 ∨ max start 0 ≥ stop)) :
    (max start 0).toNat + (min stop b.length - max start 0).toNat ≤ b.length :=
  GN.Buffer.Codec.toStringRange_in_bounds b start stop h

/-- `buf.write(str, offset, length, enc)`: writes a prefix of what `Buffer.from(str, enc)` would hold, never more than
fits or than asked, and leaves every other byte alone -/
theorem write_is_prefix_of_decode (e : Enc) (buf : Bytes) (s : List UInt16) (offset length : Nat)
    (ho : offset ≤ buf.length) :
    let r := write e buf s offset length
    r.1 ≤ buf.length - offset ∧ r.1 ≤ length ∧ r.2.length = buf.length ∧
    (r.2.drop offset).take r.1 = (decode e s).take r.1 ∧
    r.2.take offset = buf.take offset ∧ r.2.drop (offset + r.1) = buf.drop (offset + r.1) :=
  GN.Buffer.Codec.write_spec e buf s offset length ho

/-- a utf8 write stores whole characters only: what is written is the encoding of a prefix of the string's characters -/
theorem write_whole_characters (buf : Bytes) (s : List UInt16) (offset length : Nat) :
    ∃ k, (decode .utf8 s).take (write .utf8 buf s offset length).1 =
      (String.ofList ((utf16ToScalars s).take k)).toUTF8.toList :=
  GN.Buffer.Codec.write_utf8_whole_chars buf s offset length

/-- the cut `write` chooses is a character boundary of any well-formed text -/
theorem trim_is_char_boundary (cs : List Char) (n : Nat) :
    ∃ k, ((String.ofList cs).toUTF8.toList).take (trimToBoundary (String.ofList cs).toUTF8.toList n) =
      (String.ofList (cs.take k)).toUTF8.toList := GN.Buffer.Codec.trim_is_char_boundary cs n

/-- `Buffer.alloc(size, fill, enc)`: the decoded pattern repeated; an empty or undecodable pattern gives zeros -/
theorem fill_repeats_pattern (e : Enc) (size : Nat) (s : List UInt16) :
    (fill e size s).length = size ∧
    ∀ i, i < size → (fill e size s)[i]? =
      some (if (decode e s).isEmpty then 0 else (decode e s).getD (i % (decode e s).length) 0) :=
  GN.Buffer.Codec.fill_spec e size s

/-- `Buffer.from(arrayLike)` stores each element modulo 256 -/
theorem from_array_like_mod_256 (vals : List Int) (i : Nat) (v : Int) (h : vals[i]? = some v) :
    ((fromArrayLike vals)[i]?).map (·.toNat) = some (v % 256).toNat := GN.Buffer.Codec.fromArrayLike_spec vals i v h

/-! non-vacuity: concrete instances of the hypotheses -/
example : validUtf8 [0xE2, 0x82, 0xAC, 0x41] = true := by decide +kernel
example : hexDec (hexEnc [0, 255, 16]) = [0, 255, 16] := by decide +kernel
example : ¬ (max (-3 : Int) 0 ≥ ([1,2,3] : Bytes).length ∨ (2:Int) < 0 ∨ max (-3 : Int) 0 ≥ 2) := by decide

end GN.Props.C11
