import GN.Util.Format

/-! # C19 — util.format keeps literals, is positional; console sends one message per call -/

namespace GN.Props.C19
open GN GN.Util

theorem fmtLoop_pending (c : Char) (cs : List Char) (args : List Rendered) :
    fmtLoop ('%' :: c :: cs) false args = fmtLoop (c :: cs) true args := by
  simp [fmtLoop]

/-- the single pass (pending-percent flag, argument cursor) computes the token-wise rendering -/
theorem loop_eq_render (f : List Char) : ∀ args, fmtLoop f false args = render (tokenize f) args := by
  induction f using tokenize.induct with
  | case1 => intro args; cases args <;> simp [fmtLoop, tokenize, render]
  | case2 => intro args; cases args <;> simp [fmtLoop, tokenize, render, Tok.source]
  | case3 c cs ih =>
    intro args
    rw [fmtLoop_pending]
    cases args with
    | nil =>
      simp only [fmtLoop, tokenize, render, ih []]
      split <;> (try split) <;> (try split) <;> (try split) <;> simp_all [Tok.source]
    | cons a as =>
      simp only [fmtLoop, fmtDirective, tokenize]
      split
      · simp_all [render, ih]
      · split
        · simp_all [render, ih]
        · split
          · simp_all [render, ih]
          · split
            · simp_all [render, ih]
            · simp_all [render, ih]
  | case4 c cs h1 h2 ih =>
    intro args
    have hc : (c == '%') = false := by
      cases cs with
      | nil => simp; intro h; subst h; exact h1 rfl rfl
      | cons d ds => simp; intro h; subst h; exact h2 d ds rfl rfl
    cases args with
    | nil => simp [fmtLoop, hc, tokenize, render, ih, Tok.source]
    | cons a as => simp [fmtLoop, hc, tokenize, render, ih]

/-- **util.format = positional rendering of the tokenised format string**, for every format string and
every argument list (and every rendering of the arguments). -/
theorem format_eq_spec (f : List Char) (args : List Rendered) : format f args = formatSpec f args := by
  unfold format formatSpec; rw [loop_eq_render]

/-- with no argument left, rendering reproduces the source text of the tokens … -/
theorem render_nil (ts : List Tok) : render ts [] = (ts.flatMap Tok.source, []) := by
  induction ts with
  | nil => simp [render]
  | cons t ts ih => simp [render, ih]

/-- … and the source text of the tokens is the format string: tokenising loses nothing -/
theorem tokenize_source (f : List Char) : (tokenize f).flatMap Tok.source = f := by
  induction f using tokenize.induct with
  | case1 => simp [tokenize]
  | case2 => simp [tokenize, Tok.source]
  | case3 c cs ih =>
    simp only [tokenize, List.flatMap_cons, ih]
    split <;> (try split) <;> (try split) <;> (try split) <;> simp_all [Tok.source]
  | case4 c cs h1 h2 ih =>
    rw [tokenize]
    · simp [Tok.source, ih]
    · exact h1
    · exact h2

/-- **No arguments: identity.** `util.format(f)` is `f`, every `%`, `%%`, `%x` and a final `%` included. -/
theorem no_args_identity (f : List Char) : format f [] = f := by
  rw [format_eq_spec]; unfold formatSpec
  rw [render_nil]; simp [surplus, tokenize_source]

/-- **Literals are preserved / a final `%` is kept**, whatever the arguments are. -/
theorem trailing_percent_kept (f : List Char) (args : List Rendered) (h : ∀ c ∈ f, c ≠ '%') :
    format (f ++ ['%']) args = f ++ ['%'] ++ surplus args := by
  induction f with
  | nil => cases args <;> simp [format, fmtLoop, surplus]
  | cons c cs ih =>
    have hc : (c == '%') = false := by simp; exact h c (by simp)
    have hr := ih (fun d hd => h d (by simp [hd]))
    simp only [format, List.cons_append, fmtLoop, hc] at hr ⊢
    cases args <;> simp_all

/-- a format string without `%` is copied unchanged and every argument is appended after a single space -/
theorem surplus_appended (f : List Char) (args : List Rendered) (h : ∀ c ∈ f, c ≠ '%') :
    format f args = f ++ surplus args := by
  induction f with
  | nil => cases args <;> simp [format, fmtLoop, surplus]
  | cons c cs ih =>
    have hc : (c == '%') = false := by simp; exact h c (by simp)
    have := ih (fun d hd => h d (by simp [hd]))
    simp only [format] at this ⊢
    cases args <;> simp_all [fmtLoop]

/-- **Positional.** `%s`, `%d`, `%j` take the next unused argument's `String`, `Number`, `JSON` rendering. -/
theorem directive_takes_next (a : Rendered) (as : List Rendered) (cs : List Char) :
    format ('%' :: 's' :: cs) (a :: as) = a.s ++ format cs as ∧
    format ('%' :: 'd' :: cs) (a :: as) = a.d ++ format cs as ∧
    format ('%' :: 'j' :: cs) (a :: as) = a.j ++ format cs as := by
  simp [format, fmtLoop, fmtDirective]

/-- `%%` is `%` while an argument is still unused and does not consume it; an unknown letter keeps its `%` -/
theorem pctpct_and_unknown (a : Rendered) (as : List Rendered) (cs : List Char) (x : Char)
    (hx : x ≠ 's' ∧ x ≠ 'd' ∧ x ≠ 'j' ∧ x ≠ '%') :
    format ('%' :: '%' :: cs) (a :: as) = '%' :: format cs (a :: as) ∧
    format ('%' :: x :: cs) (a :: as) = '%' :: x :: format cs (a :: as) := by
  obtain ⟨h1, h2, h3, h4⟩ := hx
  simp [format, fmtLoop, fmtDirective, h1, h2, h3, h4]

/-- a directive with no argument left stays as it is -/
theorem missing_arg_kept (c : Char) (cs : List Char) :
    format ('%' :: c :: cs) [] = '%' :: c :: format cs [] := by
  simp [format, fmtLoop]

/-- **console sinks**: log/info/debug → Log, warn → Warn, error → Error — about the *generated* table -/
theorem console_sinks_match :
    ∀ m ∈ ["log", "info", "debug", "warn", "error"], sinkOf m = sinkSpec m := by decide +kernel

theorem console_methods_exactly :
    Generated.consoleSinks.map (·.1) = ["log", "error", "warn", "info", "debug"] := by decide +kernel

/-- **console = one message per call, equal to util.format of the arguments, in call order** -/
theorem console_eq_spec (calls : List ConsoleCall)
    (h : ∀ c ∈ calls, c.method ∈ ["log", "info", "debug", "warn", "error"]) :
    consoleModel calls = consoleSpec calls := by
  induction calls with
  | nil => rfl
  | cons c cs ih =>
    have hc := console_sinks_match c.method (h c (by simp))
    have := ih (fun d hd => h d (by simp [hd]))
    simp only [consoleModel, consoleSpec, List.filterMap_cons] at this ⊢
    rw [hc, this]
    simp [format_eq_spec]

/-- non-vacuity -/
example : format "100%".toList [] = "100%".toList ∧
    format "a%s%%%x%".toList [⟨['S'], ['D'], ['J']⟩, ⟨['T'], [], []⟩] = "aS%%x% T".toList := by decide

end GN.Props.C19
