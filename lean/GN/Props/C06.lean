import GN.EventLoop.Ledger
import GN.EventLoop.Queue

/-! # C06 — Run() returns exactly at quiescence; the live-job count is exact over every history -/

namespace GN.Props.C06
open GN.EventLoop.Ledger

/-- **The count is exact**: in every reachable state of the ledger — after any history of set/clear calls from
JavaScript and from Go, expirations, ticks, deliveries (live or dead), Terminate's cancel loop, terminate/restart —
`jobCount` is the number of jobs that were set and have neither fired (timeouts, immediates) nor been cleared. -/
theorem count_is_exact {s : St} (h : Reach s) :
    s.jobCount = ((s.jobs.countP fun j => !j.cancelled : Nat) : Int) := count_exact h

/-- **Quiescence**: the count is 0 exactly when no live job is left — every timeout has fired or been cleared,
every immediate has run or been cleared, every interval has been cleared. (The loop's condition is `jobCount > 0`.) -/
theorem zero_iff_no_live_job {s : St} (h : Reach s) : s.jobCount = 0 ↔ ∀ j ∈ s.jobs, j.cancelled = true :=
  quiescent_iff h

/-- the count is never negative -/
theorem count_nonneg {s : St} (h : Reach s) : 0 ≤ s.jobCount := by rw [count_exact h]; omega

/-- **The single decrement is guarded by the flag**: `clear` decrements the count by one and is enabled only on a
job that is still live; on a fired or already cleared job only the no-op is enabled, which changes nothing -/
theorem clear_needs_a_live_job (s t : St) (i : Nat) (h : stepL s (.clear i) = some t) :
    ∃ j : Job, s.jobs[i]? = some j ∧ j.cancelled = false ∧ t.jobCount = s.jobCount - 1 := by
  simp only [stepL] at h
  split at h
  · next j hj =>
    split at h
    · next hc => simp at h; subst h; exact ⟨j, hj, hc, rfl⟩
    · simp at h
  · simp at h

theorem clear_noop_changes_nothing (s t : St) (i : Nat) (h : stepL s (.clearNoop i) = some t) : t = s := by
  simp only [stepL] at h
  split at h
  · split at h <;> simp at h; exact h.symm
  · simp at h

/-- **Terminate with timers still armed leaves a fresh loop**: when every job is cancelled and every goroutine has
finished, nothing is registered and the count is 0 — so the next Run() returns as soon as its own work is done -/
theorem fresh_after_terminate {s : St} (h : Reach s) (hc : ∀ j ∈ s.jobs, j.cancelled = true)
    (ht : ∀ j ∈ s.jobs, j.kind = .timeout → j.g = .done) (hi : ∀ j ∈ s.jobs, j.kind = .interval → j.g = .idone) :
    (∀ j ∈ s.jobs, j.inJobs = false) ∧ s.jobCount = 0 := terminate_leaves_nothing h hc ht hi

/-- a setImmediate refused by a terminated loop is not counted -/
theorem refused_immediate_not_counted (s t : St) (h : stepL s .setImmediateRefused = some t) : t = s := by
  simp only [stepL] at h; split at h <;> simp at h; exact h.symm

example : (runLabels init [.setTimeout, .setInterval, .setImmediate, .clear 1, .runImmediateLive 2, .expire 0,
    .deliverLive 0, .istop 1, .deliverRemove 1]).map (·.jobCount) = some 0 := by decide +kernel

end GN.Props.C06

/-! ## Progress clauses

Proved in `GN/EventLoop/Progress.lean` (audited with this property): progress: at quiescence (live count 0) no live step is enabled and nothing fires any more while the loop's exit is enabled and never blocked; with a non-zero count some live job has an enabled step.
Theorems: `GN.EventLoop.Progress.quiescent_nothing_fires`, `GN.EventLoop.Progress.quiescent_disables_live_steps`, `GN.EventLoop.Progress.live_work_is_enabled`, `GN.EventLoop.Progress.run_exit_never_blocked`, `GN.EventLoop.Progress.run_returns_at_quiescence`. -/

/-! ## The coupled system

Proved in `GN/EventLoop/Combined.lean` (audited with this property): coupled system: the loop's exit because nothing is left (quiesce) is enabled exactly when the loop is at its select, in foreground mode, and every job is cancelled or finished - never earlier (a live job disables it) and always then (it is enabled, not blocked, and no loop-goroutine step of the ledger is enabled); while the loop is parked only deliveries change the count; a live timer always has an enabled step.
Theorems: `GN.EventLoop.Combined.run_returns_never_earlier`, `GN.EventLoop.Combined.run_does_not_return_while_a_job_is_live`, `GN.EventLoop.Combined.run_returns_always_then`, `GN.EventLoop.Combined.quiesce_enabled_iff`, `GN.EventLoop.Combined.count_stable_at_select`, `GN.EventLoop.Combined.live_timer_has_enabled_step_at_select`. -/
