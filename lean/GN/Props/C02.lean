import GN.Require.ResolveLemmas
import GN.Require.Eval
import GN.Generated.Misc

/-! # C02 — require() selects the file the Node.js CommonJS resolution algorithm selects -/

namespace GN.Props.C02
open GN GN.Require

/-- **Candidate order** for a path request: the exact file, then `.js`, then `.json`, then the directory:
`package.json` "main" as file (exact, .js, .json), then as directory (index.js, index.json); without a usable
main: index.js, then index.json. -/
theorem candidate_order (env : Env) (p : Path) :
    fodCands env p =
      [p, p ++ ".js", p ++ ".json"] ++
      (match env.pkgMain (env.join p "package.json") with
       | none => [env.join p "index.js", env.join p "index.json"]
       | some main =>
         let m := env.join p main
         [m, m ++ ".js", m ++ ".json", env.join m "index.js", env.join m "index.json"]) := by
  unfold fodCands fileCands dirCands indexCands
  cases env.pkgMain (env.join p "package.json") <;> simp [fileCands]

/-- **The code's probing functions are "first hit in the candidate list"**, whatever the module loader does
(evaluate bodies, consult caches, log): for every state, path, tree and path functions. -/
theorem file_request_is_first_candidate {σ ε : Type} (env : Env) (load : σ → Path → σ × Res ε) (st : σ) (p : Path) :
    loadAsFileOrDirectory env load st p = tryList load st (fodCands env p) :=
  loadAsFileOrDirectory_eq env load st p

/-- **Bare names**: global folders first (as the project's tests pin), then one `node_modules` per directory level
from the requiring directory up to the root, nearest first; in each, the same file-or-directory candidates. -/
theorem bare_request_is_first_candidate {σ ε : Type} (env : Env) (load : σ → Path → σ × Res ε)
    (fuel : Nat) (st : σ) (modpath start : Path) :
    loadNodeModules env load fuel st modpath start = tryList load st (nmCands env fuel modpath start) :=
  loadNodeModules_eq env load fuel st modpath start

/-- the walk: `start/node_modules` (or `start` itself when it already is a `node_modules` directory — not doubled),
then the same from the parent, until the root (`Dir(start) = start`) or `..` -/
theorem node_modules_walk (env : Env) (fuel : Nat) (start : Path) :
    nmDirs env (fuel + 1) start =
      let p := if env.base start ≠ "node_modules" then env.join start "node_modules" else start
      if start = ".." ∨ env.dir start = start then [p] else p :: nmDirs env fuel (env.dir start) := by
  simp only [nmDirs]
  by_cases h1 : start = ".." <;> by_cases h2 : env.dir start = start <;> simp [h1, h2]

/-- a bare name is never tried as a relative file: every candidate lies in a global folder or a `node_modules`
directory of the walk -/
theorem bare_never_relative (env : Env) (fuel : Nat) (modpath start : Path) :
    ∀ c ∈ nmCands env fuel modpath start,
      ∃ d ∈ env.globalFolders ++ nmDirs env fuel start, c ∈ fodCands env (env.join d modpath) := by
  intro c hc
  simp only [nmCands, List.mem_flatMap] at hc
  exact hc

/-- **Pure reading** (a loader that only reports what the tree contains): the selected file is the first candidate
that exists; a candidate whose loader error is not "does not exist" ends the search with that error; when no
candidate exists the result is "none", which `resolve` turns into `InvalidModuleError`. -/
theorem selection_is_first_existing (probe : Path → Probe) (cands : List Path) :
    tryList (probeLoad probe) () cands = ((), specSelect probe cands) := tryList_probe probe cands

theorem no_candidate_means_invalid (probe : Path → Probe) (cands : List Path)
    (h : ∀ c ∈ cands, probe c = .missing) : specSelect probe cands = .none := by
  induction cands with
  | nil => rfl
  | cons c cs ih => simp [specSelect, h c (by simp), ih (fun d hd => h d (by simp [hd]))]

theorem loader_error_propagates (probe : Path → Probe) (pre post : List Path) (c : Path)
    (hpre : ∀ d ∈ pre, probe d = .missing) (hc : probe c = .failure) :
    specSelect probe (pre ++ c :: post) = .err () := by
  induction pre with
  | nil => simp [specSelect, hc]
  | cons d ds ih => simp [specSelect, hpre d (by simp), ih (fun e he => hpre e (by simp [he]))]

theorem first_existing_wins (probe : Path → Probe) (pre post : List Path) (c : Path) (id : Nat)
    (hpre : ∀ d ∈ pre, probe d = .missing) (hc : probe c = .file id) :
    specSelect probe (pre ++ c :: post) = .found id := by
  induction pre with
  | nil => simp [specSelect, hc]
  | cons d ds ih => simp [specSelect, hpre d (by simp), ih (fun e he => hpre e (by simp [he]))]

/-- in the model of the code, `resolve` turns "no candidate" into `InvalidModuleError`, never into success -/
theorem path_classifier :
    isFileOrDirectoryPath "." = true ∧ isFileOrDirectoryPath ".." = true ∧ isFileOrDirectoryPath "./a" = true ∧
    isFileOrDirectoryPath "../a" = true ∧ isFileOrDirectoryPath "/a" = true ∧
    isFileOrDirectoryPath "a" = false ∧ isFileOrDirectoryPath "a/b" = false ∧ isFileOrDirectoryPath ".a" = false ∧
    isFileOrDirectoryPath "..a" = false := by decide +kernel

/-- non-vacuity: a tree in which file, `.js`, `.json` and directory all exist selects the exact file; a package
whose main names a directory selects that directory's index -/
example :
    let env : Env := { join := fun a b => a ++ "/" ++ b, dir := id, base := id, globalFolders := [],
                       pkgMain := fun p => if p == "/app/p/package.json" then some "sub" else none }
    let probe : Path → Probe := fun p =>
      if p == "/app/x" then .file 1 else if p == "/app/x.js" then .file 2 else if p == "/app/x/index.js" then .file 3
      else if p == "/app/p/sub/index.js" then .file 4 else if p == "/app/p/index.js" then .file 5 else .missing
    specSelect probe (fodCands env "/app/x") = .found 1 ∧ specSelect probe (fodCands env "/app/p") = .found 4 := by
  decide +kernel

/-- **the candidate names are the ones in require/resolve.go now** (string literals of loadAsFile, loadIndex,
loadAsDirectory, loadNodeModules re-extracted on every run, in source order): `.js` before `.json`, `index.js` before
`index.json`, `package.json` (and the one key read from it, spelled exactly `main`; the `""` is the reset of a
non-string value), `node_modules` — the constants the candidate-order theorems above are stated with -/
theorem resolve_literals_match :
    Generated.resolveLiterals =
      [("loadAsFile", [".js", ".json"]), ("loadIndex", ["index.js", "index.json"]),
       ("loadAsDirectory", ["package.json", "main", ""]), ("loadNodeModules", ["node_modules", "node_modules", ".."])] := by decide

end GN.Props.C02
