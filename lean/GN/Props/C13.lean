import GN.Url.ObjSpec

/-! # C13 — a URL object stays one coherent URL under every setter and searchParams history (statements: ObjSpec.lean) -/
namespace GN.Props.C13
end GN.Props.C13
