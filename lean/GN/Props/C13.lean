import GN.Url.ObjSpec
import GN.Url.ObjLemmas
import GN.Url.ReparseLemmas

/-! # C13 — a URL object stays one coherent URL under every setter and searchParams history

The state machine `GN.Url.Obj` (UrlObj.lean) transcribes url/url.go + url/nodeurl.go; `Reach` (ObjSpec.lean) is the set
of states any script can reach: any constructor call, then any sequence of setter assignments and searchParams
operations (those that throw leave the state unchanged), with getters read at any point in between.  The statements
are in ObjSpec.lean, the proofs in ObjLemmas.lean.  Each holds for every reachable state — every history, with no bound
on its length.  The model is tied to the code by running both on generated histories and comparing every getter after
every step; `href = toString() = toJSON()` is one function in the model and three getters in that comparison. -/

namespace GN.Props.C13
open GN GN.Url GN.Url.Obj

/-- **searchParams lists exactly the pairs of the query; search is '' or '?'+query** — in every reachable state, in
particular right after `search` or `href` was assigned and right after searchParams was changed -/
theorem search_params_coherent : SearchParamsCoherent := searchParamsCoherent

/-- `href` is the serialisation of the very state `search` is read from (so it shows a searchParams change at once),
and reading the getters twice gives the same answers -/
theorem href_shows_the_query : HrefShowsQuery := hrefShowsQuery

/-- **host is hostname plus ':'+port when a port is present** -/
theorem host_is_hostname_port : HostIsHostnamePort := hostIsHostnamePort

/-- **the default port of the current scheme is never shown** — after construction, after `port`, `host`, `hostname`
assignments and after a `protocol` change that turns the present port into a default -/
theorem default_port_hidden : DefaultPortHidden := defaultPortHidden

/-- the shown port is a decimal number -/
theorem port_is_a_number : PortIsNumber := portIsNumber

/-- **that href can be parsed again by new URL() and yields the same href** — in every reachable state: the
one-argument constructor accepts the shown href (or the host leaves the punycode model, for which no claim is made)
and the URL it builds shows the same href.  Together with `Reach` this also says that **an assignment that would make
the URL unparsable is never stored**: no setter history leads to a state whose href the constructor rejects.
(A first version of this statement was false: `u.protocol = "/x"` on a non-special URL stored the scheme `/x`; the
counterexample came out of the proof attempt, was confirmed on the real code and repaired there and in the model.) -/
theorem href_parses_again_to_itself : ReparseStable := reparseStable

/-- percent-encoding of path, fragment and userinfo is lossless (component-wise half of "href parses again") -/
theorem escape_round_trip : EscapeRoundTrip := escapeRoundTrip

/-- re-normalising never changes a query that was normalised or serialised before -/
theorem query_escape_stable : QueryEscapeStable := queryEscapeStable

/-! non-vacuity: `http://h:81/p?a=1` is constructed, its searchParams obtained and `b=2` appended: the state is
reachable, search shows `?a=1&b=2` and the port `81` -/
def demoState : Option St :=
  match construct [104,116,116,112,58,47,47,104,58,56,49,47,112,63,97,61,49] none with
  | .ok u =>
    match step { url := u } .getSP with
    | .ok st1 =>
      match step st1 (.spAppend [98] [50]) with
      | .ok st2 => some st2
      | _ => none
    | _ => none
  | _ => none

example : (demoState.map fun st => ((observe st).2.search, (observe st).2.port)) =
    some ([63,97,61,49,38,98,61,50], [56,49]) := by decide +kernel

end GN.Props.C13
