import GN.Process.Env

/-! # C20 — process.env is a faithful snapshot of the host environment, private per runtime -/

namespace GN.Props.C20
open GN GN.Process

/-- **Split at the first `=` only**: a name without `=` and *any* value (empty, with several `=`, any bytes) -/
theorem split_first_eq (k v : Bytes) (hk : (61 : UInt8) ∉ k) : splitEnv (k ++ 61 :: v) = some (k, v) := by
  induction k with
  | nil => simp [splitEnv]
  | cons c cs ih =>
    have hc : c ≠ 61 := fun h => hk (by simp [h])
    have := ih (fun h => hk (by simp [h]))
    simp [splitEnv, hc, this]

/-- an entry without `=` is not a variable (and must not crash the loader) -/
theorem split_none_iff (e : Bytes) : splitEnv e = none ↔ (61 : UInt8) ∉ e := by
  induction e with
  | nil => simp [splitEnv]
  | cons c cs ih =>
    by_cases hc : c = 61
    · simp [splitEnv, hc]
    · simp only [splitEnv, hc, if_false]
      cases h : splitEnv cs with
      | none => simp [ih.mp h]; exact fun a => hc a.symm
      | some p =>
        obtain ⟨k, v⟩ := p
        simp
        intro _
        apply Classical.byContradiction
        intro hn; rw [ih.mpr hn] at h; cases h

theorem lookup_erase_ne (m : EnvMap) (k k' : Bytes) (h : k' ≠ k) : lookup (erase m k) k' = lookup m k' := by
  induction m with
  | nil => rfl
  | cons p m ih =>
    obtain ⟨a, b⟩ := p
    by_cases ha : a = k
    · subst ha
      simp only [erase, List.filter, ne_eq, not_true_eq_false, decide_false] at *
      simp only [lookup]
      rw [if_neg (fun e => h e.symm)]
      exact ih
    · simp only [erase, List.filter, ne_eq, ha, not_false_eq_true, decide_true] at *
      simp only [lookup]
      split
      · rfl
      · exact ih

theorem lookup_erase_self (m : EnvMap) (k : Bytes) : lookup (erase m k) k = none := by
  induction m with
  | nil => rfl
  | cons p m ih =>
    obtain ⟨a, b⟩ := p
    by_cases ha : a = k
    · simp only [erase, List.filter, ne_eq, ha, not_true_eq_false, decide_false] at *; exact ih
    · simp only [erase, List.filter, ne_eq, ha, not_false_eq_true, decide_true, lookup, if_false] at *; exact ih

theorem lookup_put (m : EnvMap) (k v k' : Bytes) :
    lookup (put m k v) k' = if k = k' then some v else lookup m k' := by
  unfold put
  simp only [lookup]
  split
  · rfl
  · next h => exact lookup_erase_ne m k k' (fun e => h e.symm)

/-- every name occurs once in the map (Go map) -/
def Distinct (m : EnvMap) : Prop := (m.map (·.1)).Nodup

theorem erase_distinct (m : EnvMap) (k : Bytes) (h : Distinct m) : Distinct (erase m k) := by
  unfold Distinct erase at *
  exact List.Nodup.sublist (List.Sublist.map _ List.filter_sublist) h

theorem not_mem_erase (m : EnvMap) (k : Bytes) : k ∉ (erase m k).map (·.1) := by
  simp [erase]

theorem put_distinct (m : EnvMap) (k v : Bytes) (h : Distinct m) : Distinct (put m k v) := by
  unfold Distinct put
  simp only [List.map_cons, List.nodup_cons]
  exact ⟨not_mem_erase m k, erase_distinct m k h⟩

/-- **Snapshot is exact**: for every host environment, the value JavaScript sees under a name is the value
of that variable in the host environment, and names that are not variables of the host are absent. -/
theorem snapshot_exact (env : List Bytes) (k : Bytes) : lookup (snapshot env) k = hostValue env k := by
  unfold snapshot hostValue
  suffices h : ∀ (m : EnvMap) (acc : Option Bytes), lookup m k = acc →
      lookup (env.foldl (fun m e => match splitEnv e with | some (k, v) => put m k v | none => m) m) k =
      env.foldl (fun acc e => match splitEnv e with | some (k', v) => if k' = k then some v else acc | none => acc) acc by
    exact h [] none rfl
  induction env with
  | nil => intro m acc h; simpa using h
  | cons e es ih =>
    intro m acc h
    simp only [List.foldl_cons]
    apply ih
    cases hs : splitEnv e with
    | none => simpa using h
    | some p =>
      obtain ⟨k', v⟩ := p
      simp only [lookup_put]
      split <;> simp_all

/-- every name once -/
theorem snapshot_distinct (env : List Bytes) : Distinct (snapshot env) := by
  unfold snapshot
  suffices h : ∀ m : EnvMap, Distinct m →
      Distinct (env.foldl (fun m e => match splitEnv e with | some (k, v) => put m k v | none => m) m) by
    exact h [] (by simp [Distinct])
  induction env with
  | nil => intro m h; simpa using h
  | cons e es ih =>
    intro m h
    simp only [List.foldl_cons]
    apply ih
    cases hs : splitEnv e with
    | none => simpa using h
    | some p => obtain ⟨k', v⟩ := p; exact put_distinct m k' v h

/-- with distinct names in the host environment, an entry `k=v` is seen as exactly `v` -/
theorem snapshot_entry (pre post : List Bytes) (k v : Bytes) (hk : (61 : UInt8) ∉ k)
    (hpost : ∀ e ∈ post, ∀ k' v', splitEnv e = some (k', v') → k' ≠ k) :
    lookup (snapshot (pre ++ (k ++ 61 :: v) :: post)) k = some v := by
  rw [snapshot_exact]; unfold hostValue
  rw [List.foldl_append, List.foldl_cons, split_first_eq k v hk]
  simp only [if_true]
  induction post generalizing v with
  | nil => rfl
  | cons e es ih =>
    simp only [List.foldl_cons]
    cases hs : splitEnv e with
    | none => exact ih v (fun e' he' => hpost e' (by simp [he']))
    | some p =>
      obtain ⟨k', v'⟩ := p
      have := hpost e (by simp) k' v' hs
      simp only [this, if_false]
      exact ih v (fun e' he' => hpost e' (by simp [he']))

/-- **Isolation**: a write or delete in runtime `i` changes neither any other runtime's map nor the host environment. -/
theorem step_isolated (w : World) (i j : Nat) (op : Op) (h : i ≠ j) :
    (w.step i op).rts[j]? = w.rts[j]? ∧ (w.step i op).host = w.host := by
  simp [World.step, h]

theorem run_host_unchanged (w : World) (ops : List (Nat × Op)) : (w.run ops).host = w.host := by
  unfold World.run
  induction ops generalizing w with
  | nil => rfl
  | cons o os ih => obtain ⟨i, op⟩ := o; simp only [List.foldl_cons]; rw [ih]; rfl

/-- after any history of operations that never address runtime `j`, runtime `j` still sees the snapshot -/
theorem run_isolated (host : List Bytes) (n j : Nat) (ops : List (Nat × Op)) (hj : j < n)
    (h : ∀ o ∈ ops, o.1 ≠ j) : ((World.init host n).run ops).rts[j]? = some (snapshot host) := by
  have key : ∀ w : World, w.rts[j]? = some (snapshot host) → (w.run ops).rts[j]? = some (snapshot host) := by
    unfold World.run
    induction ops with
    | nil => intro w hw; simpa using hw
    | cons o os ih =>
      intro w hw
      obtain ⟨i, op⟩ := o
      simp only [List.foldl_cons]
      apply ih (fun o ho => h o (by simp [ho]))
      rw [(step_isolated w i j op (h (i, op) (by simp))).1]; exact hw
  apply key
  simp [World.init, hj]

/-- **the snapshot is taken when the module is first required in that runtime**: a runtime created later sees the
host environment as it is *then* (every name with the host's current value), and creating it changes no other runtime -/
theorem new_runtime_sees_the_current_host (w : World) (k : Bytes) :
    (w.stepW .newRuntime).rts.length = w.rts.length + 1 ∧
    (∀ m, (w.stepW .newRuntime).rts[w.rts.length]? = some m → lookup m k = hostValue w.host k) ∧
    (∀ j, j < w.rts.length → (w.stepW .newRuntime).rts[j]? = w.rts[j]?) ∧
    (w.stepW .newRuntime).host = w.host := by
  refine ⟨by simp [World.stepW], ?_, ?_, rfl⟩
  · intro m hm
    have : m = snapshot w.host := by simpa [World.stepW] using hm.symm
    rw [this]; exact snapshot_exact w.host k
  · intro j hj; simp [World.stepW, List.getElem?_append_left hj]

/-- **later changes of the host's environment reach no existing runtime** (and JavaScript writes never reach the host:
`step_isolated`) -/
theorem host_changes_reach_no_runtime (w : World) (k v : Bytes) :
    (w.stepW (.hostSet k v)).rts = w.rts ∧ (w.stepW (.hostDel k)).rts = w.rts := ⟨rfl, rfl⟩

/-- a JavaScript write or delete, in the extended world, still touches only its own runtime and not the host -/
theorem js_step_isolated (w : World) (i j : Nat) (op : Op) (h : i ≠ j) :
    (w.stepW (.js i op)).rts[j]? = w.rts[j]? ∧ (w.stepW (.js i op)).host = w.host :=
  step_isolated w i j op h

/-- non-vacuity: a value with several `=`, an empty value, an entry without `=` -/
example : snapshot ["A=b=c".toUTF8.toList, "E=".toUTF8.toList, "NOEQ".toUTF8.toList] =
    [("E".toUTF8.toList, []), ("A".toUTF8.toList, "b=c".toUTF8.toList)] := by decide +kernel

end GN.Props.C20
