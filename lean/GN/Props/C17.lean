import GN.EventLoop.Confinement
import GN.Props.C07

/-! # C17 — thread-safe APIs and a shared Registry: no data race, no cross-runtime leak

What a theorem can carry: the *lockset / confinement argument*.  The table of all accesses to the loop's fields
(function, write?, atomic?, locks held) is recomputed from eventloop.go on every run; with the reviewed assignment of
functions to goroutine roles, every pair of conflicting accesses that can overlap in time is shown to be ordered by a
common mutex, by sync/atomic on both sides, or by the Stop protocol (one listed exception, ordered by a C07 theorem).
For the Registry: `getCompiledSource` holds the registry mutex for its whole body (regenerated fact), so requests of any
runtimes in any interleaving are a sequence of atomic steps, for which "a file that compiles is fetched at most once" is
proved for every sequence; module instance caches are fields of the per-runtime RequireModule, not of the Registry.
What it cannot carry — that the Go memory model, channels, sync.Cond and time.Timer behave as assumed, and deadlock
freedom of the real schedule — is exercised by the race-detector stress harness (`race-stress`, built with -race): that
part is search, not proof.  Deadlock freedom of the loop/Stop/Terminate protocol at the model level is C03/C07. -/

namespace GN.Props.C17
open GN GN.Generated GN.EventLoop.Confinement

/-- every function of eventloop.go that touches a field of the loop has a reviewed goroutine role (a new function
breaks this theorem until it is classified) -/
theorem every_function_has_a_role : elAccesses.all (fun a => (roleOf a.fn).isSome) = true := by decide +kernel

/-- **no data race on the loop's fields**: any two accesses to the same field, one of them a write, by functions
whose roles can overlap in time, hold a common mutex, or are both atomic, or are ordered by the Stop protocol -/
theorem race_free : raceFree elAccesses = true := by decide +kernel

/-- the same for the fields of the job objects (Timer, Interval, Immediate): they are touched on the loop goroutine
only, except `ticker`, which the interval's own goroutine reads after the `go` statement that follows the write -/
theorem race_free_jobs :
    jobAccesses.all (fun a => (jobRoleOf a.fn).isSome) = true ∧ jobRaceFree jobAccesses = true := by
  constructor <;> decide +kernel

/-- the only access ordered by protocol rather than by a lock is Stop()'s final read of jobCount … -/
theorem protocol_exceptions : protocolOrdered = [("EventLoop.Stop", "jobCount")] := rfl

/-- … and it is ordered: Stop() returns only after the loop goroutine has left `run` -/
theorem stop_orders_the_exception {s : GN.EventLoop.Queue.St} (h : GN.EventLoop.Queue.Reach s)
    (hw : s.cpc = .waiting) :
    s.canRun = false ∧ (s.token = true ∨ s.lpc = .swap true ∨ s.lpc = .exec true ∨ s.lpc = .chk ∨ s.lpc = .exit) :=
  GN.Props.C07.stop_waits_for_a_served_loop h hw

/-- every field of the loop is either a synchronisation object or appears in the access table / is set at
construction only -/
theorem fields_accounted_for :
    eventLoopFields.all (fun f => ["auxJobsLock", "stopLock", "stopCond", "wakeupChan", "jobChan"].contains f
      || elAccesses.any (fun a => a.field == f)) = true := by decide +kernel

/-- `getCompiledSource` runs under the registry mutex from its first statement to its return -/
theorem compile_is_atomic : getCompiledSourceHoldsLock = true := by decide

/-- **each source file that compiles is fetched (and compiled) at most once per Registry** — for every sequence of
requests, i.e. every interleaving of any number of runtimes -/
theorem compiled_at_most_once (files : String → Src) (ps : List String) (q : String) (h : files q = .ok) :
    (runRequests files ps).loads.count q ≤ 1 :=
  runRequests_inv files q h ps {} (by simp)

/-- **module instances are per runtime**: the caches of loaded modules are fields of RequireModule (one per runtime),
the Registry holds only loaders, compiled programs (immutable) and configuration -/
theorem instances_are_per_runtime :
    (["modules", "nativeModules", "resolved", "nodeModules"].all fun f => requireModuleFields.contains f && !registryFields.contains f) = true
    ∧ registryFields = ["sync.Mutex", "native", "compiled", "srcLoader", "pathResolver", "globalFolders"] := by
  constructor <;> decide +kernel

/-! non-vacuity: the table is populated, and a conflicting, overlapping pair exists that the argument has to (and does) cover -/
example : elAccesses.length > 40 ∧
    (elAccesses.any fun a => elAccesses.any fun b => a.field == b.field && a.write && roleOf a.fn == some .loop
        && roleOf b.fn == some .any && protectedPair a b) = true := by decide +kernel
example : (runRequests (fun _ => .ok) ["a", "b", "a", "a", "b"]).loads = ["a", "b"] := by decide +kernel

end GN.Props.C17
