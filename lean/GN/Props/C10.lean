import GN.Buffer.Num
import GN.Buffer.KernelLemmas
import GN.Buffer.EncLemmas
import GN.Buffer.CallLemmas

/-!
# C10 — Buffer numeric read/write: exact encodings and range checks, no stray byte

Property theorems only (helper lemmas live in `GN/Buffer/*Lemmas.lean`).  Everything mentioning
`Generated.*` is re-proved against definitions re-emitted from `buffer/buffer.go` on every run.
-/

namespace GN.Props.C10
open GN GN.Buffer

/-- **Method table.** Every numeric method the library registers (all `Uint`/`UInt` aliases included)
is bound to an implementation whose width, signedness, byte order and kind — read off the Go source —
are the ones its *name* prescribes. -/
theorem method_table_matches_names :
    ∀ e ∈ Generated.bufferProtoSet, (descOfName e.1).isSome = true →
      (lookupFacts e.2).map descOfFacts = descOfName e.1 := by decide +kernel

/-- **Return value of a write.** Every write method returns the offset plus *its own width*: the constant the
Go source adds to the offset (regenerated) is the method's byte count, and the variable-width methods add the
`byteLength` they were given.  (A method that stored two bytes and returned offset+1 would keep every other
theorem true: the model takes the constant from the source.) -/
theorem write_returns_offset_plus_width :
    ∀ m ∈ Generated.bufferMethodFacts, m.dir = "write" →
      (m.numBytes ≠ 0 → m.retAdd = toString m.numBytes) ∧ (m.numBytes = 0 → m.retAdd = "byteLength") := by decide +kernel

/-- the `Uint` spelling of every method is registered and bound to the same implementation as `UInt` -/
theorem aliases_bound_to_twin :
    ∀ e ∈ Generated.bufferProtoSet, ∀ e' ∈ Generated.bufferProtoSet,
      normUint e.1.toList = e'.1.toList → e.2 = e'.2 := by decide +kernel

/-- non-vacuity: the table is populated (65 prototype entries, 44 distinct numeric implementations) -/
example : Generated.bufferProtoSet.length = 65 ∧ Generated.bufferMethodFacts.length = 44 := by decide +kernel

/-- **Offset guard (fixed width).** For *every* int64 offset — no wrap-around — the guard passes exactly
when `offset … offset+numBytes` lies inside the buffer. -/
theorem offset_guard_exact (n off len : I64) (hn : 0 ≤ n.toInt ∧ n.toInt ≤ 8) (hl : 0 ≤ len.toInt) :
    Generated.getOffsetArgument_guard n off len = true ↔ InRange off.toInt n.toInt len.toInt.toNat := by
  rw [getOffsetArgument_guard_spec n off len hn hl]; unfold InRange
  constructor <;> intro ⟨a, b⟩ <;> refine ⟨a, ?_⟩ <;> omega

/-- **Offset/byteLength guard (variable width).** -/
theorem var_guard_exact (off bl len : I64) (hl : 0 ≤ len.toInt) :
    Generated.getVariableLengthArguments_guard off bl len = true ↔
      ((1 ≤ bl.toInt ∧ bl.toInt ≤ 6) ∧ InRange off.toInt bl.toInt len.toInt.toNat) := by
  rw [getVariableLengthArguments_guard_spec off bl len hl]; unfold InRange
  constructor <;> intro ⟨a, b, c⟩ <;> refine ⟨a, b, ?_⟩ <;> omega

/-- **Range checks = representability**, for every int64 value and every width. -/
theorem range_checks_exact (v : I64) :
    (Generated.writeInt8_valueGuard v = true ↔ Representable true 1 v.toInt) ∧
    (Generated.writeUInt8_valueGuard v = true ↔ Representable false 1 v.toInt) ∧
    (Generated.ensureWithinInt16Range v = true ↔ Representable true 2 v.toInt) ∧
    (Generated.ensureWithinUInt16Range v = true ↔ Representable false 2 v.toInt) ∧
    (Generated.ensureWithinInt32Range v = true ↔ Representable true 4 v.toInt) ∧
    (Generated.ensureWithinUInt32Range v = true ↔ Representable false 4 v.toInt) ∧
    (∀ w : Fin 7, 1 ≤ w.val →
      (Generated.ensureWithinIntRange (BitVec.ofNat 64 w.val) v = true ↔ Representable true w.val v.toInt)) ∧
    (∀ w : Fin 7, 1 ≤ w.val →
      (Generated.ensureWithinUIntRange (BitVec.ofNat 64 w.val) v = true ↔ Representable false w.val v.toInt)) := by
  refine ⟨?_, ?_, ?_, ?_, ?_, ?_, ?_, ?_⟩
  · rw [writeInt8_valueGuard_spec]; simp [Representable]
  · rw [writeUInt8_valueGuard_spec]; simp [Representable]
  · rw [ensureWithinInt16Range_spec]; simp [Representable]
  · rw [ensureWithinUInt16Range_spec]; simp [Representable]
  · rw [ensureWithinInt32Range_spec]; simp [Representable]
  · rw [ensureWithinUInt32Range_spec]; simp [Representable]
  · intro w hw; rw [ensureWithinIntRange_spec v w hw]; simp [Representable]
  · intro w hw; rw [ensureWithinUIntRange_spec v w hw]; simp [Representable]

/-- **Stored bytes.** The bytes the code's shift loop / `binary.*Endian.Put*` produce for an int64 value
are exactly its two's-complement base-256 digits in the stated order — for every width and value. -/
theorem stored_bytes_are_twos_complement (w : Nat) (be : Bool) (v : I64) :
    intBytes w be v = enc w be v.toInt := intBytes_eq_enc w be v

/-- **Placement and frame.** Storing `bs` at an in-range offset changes positions `off … off+|bs|-1`
to `bs` and nothing else; the length is unchanged. -/
theorem store_places_exactly (buf : List UInt8) (off : Nat) (bs : List UInt8) (h : off + bs.length ≤ buf.length) :
    storeAt buf off bs = splice buf off bs ∧
    (storeAt buf off bs).length = buf.length ∧
    ((storeAt buf off bs).drop off).take bs.length = bs ∧
    (∀ i, (i < off ∨ off + bs.length ≤ i) → (storeAt buf off bs)[i]? = buf[i]?) := by
  rw [storeAt_eq_splice buf off bs h]
  exact ⟨rfl, splice_length buf off bs h, splice_window buf off bs h,
    fun i hi => splice_getElem?_outside buf off bs i h hi⟩

/-- **Sign extension** of 1–6 byte reads is two's-complement decoding. -/
theorem sign_extension_exact (v : I64) (w : Fin 7) (hw : 1 ≤ w.val) :
    (Generated.signExtend v (BitVec.ofNat 64 w.val)).toInt = Int.bmod v.toInt (2 ^ (8 * w.val)) :=
  signExtend_spec v w hw

/-- **Round trip.** What was written is what the matching decoder reads, for every width, order and
representable value (signed and unsigned). -/
theorem read_back_what_was_written (w : Nat) (hw : 1 ≤ w) (be : Bool) (x : Int) :
    (Representable true w x → decSigned be (enc w be x) = x) ∧
    (Representable false w x → (decUnsigned be (enc w be x) : Int) = x) :=
  ⟨decSigned_enc_of_repr w hw be x, decUnsigned_enc_of_repr w be x⟩

/-- non-vacuity of the round trip: -2 in three bytes big endian is fe ff ff reversed … and decodes back -/
example : enc 3 true (-2) = [0xff, 0xff, 0xfe] ∧ decSigned true [0xff, 0xff, 0xfe] = -2 ∧
    Representable true 3 (-2) := by decide +kernel

/-- a failing call leaves the buffer untouched: in the model every store comes after the last guard
(the correspondence check compares the buffer bytes after every failing call) -/
theorem failure_leaves_buffer_unchanged (m : Generated.MethodFacts) (buf : List UInt8) (args : List JArg)
    (c : ErrClass) (h : (writeModel m buf args).out = .throw c) : (writeModel m buf args).buf = buf := by
  unfold writeModel at *
  cases hc : writeCore m buf args <;> simp_all [finish]

/-- **End to end: the model refines the specification.** For every method name, every buffer, every argument
tuple in the property's claimed domain (integral values/offsets, BigInts, floats; undefined, missing or
wrong-typed arguments), the call as the code performs it — coercions in the code's order, generated guards,
generated range checks, the code's shifts and stores — produces exactly what the name-derived specification
prescribes: the same thrown/returned outcome (RangeError and TypeError being one class), the same returned
number, and the same buffer bytes afterwards; in particular it never panics and a failing call leaves the
buffer unchanged. -/
theorem model_refines_spec (jsName : String) (buf : List UInt8) (args : List JArg) (r : CallResult)
    (hlen : buf.length < 2 ^ 62) (h : specCall jsName buf args = some r) :
    ∃ r', callModel jsName buf args = some r' ∧ Agrees r' r :=
  callModel_refines_spec jsName buf args r hlen h

/-- every name the specification knows is a registered method with well-formed facts -/
theorem every_specified_name_is_registered (jsName : String) (d : Desc) (h : descOfName jsName = some d) :
    ∃ impl m, implOf jsName = some impl ∧ lookupFacts impl = some m ∧ WF m d = true :=
  facts_of_desc jsName d h

end GN.Props.C10
