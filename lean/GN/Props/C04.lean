import GN.EventLoop.Queue

/-!
# C04 — RunOnLoop: accepted functions run exactly once, in order, never left waiting

Theorems about every reachable state of the abstract transition system `GN.EventLoop.Queue` (all interleavings of
any number of submitters with the loop's drain/select cycle, Stop/StopNoWait/Start/Terminate). The recorded
traces of the real loop (controlled schedules, `-tags verif`) are mapped to labels of this system and replayed
through `stepQ` by the driver on every run; `stepQ_sound`/`runLabels_reach` show that whatever the driver
accepts is a path of the system, so these invariants hold in every state the real loop was observed in.
-/

namespace GN.Props.C04
open GN.EventLoop.Queue

/-- **Exactly once, in acceptance order** (per caller and across callers: the linearisation point of an accepted
call is its append under the lock, which lies inside the call): in every reachable state
`accepted = executed ++ batch ++ queue`. -/
theorem accepted_is_executed_then_batch_then_queue {s : St} (h : Reach s) :
    s.accepted = s.executed ++ s.batch ++ s.aux := (reach_inv h).1

theorem executed_is_a_prefix_of_accepted {s : St} (h : Reach s) : s.executed <+: s.accepted := executed_prefix h

/-- **A function for which RunOnLoop returned false is never executed.** -/
theorem refused_is_never_executed {s : St} (h : Reach s) : ∀ f ∈ s.refused, f ∉ s.executed := refused_never_executed h

/-- **Never left waiting (safety form).** If the loop is parked at its select while a function is queued, then a
wake-up token is in the channel or a submitter still owes its token send — no further submission is needed.
(That the loop then actually takes the wake arm needs fairness of Go's `select`; see DESIGN.md.) -/
theorem no_lost_wakeup_at_select {s : St} (h : Reach s) (hsel : s.lpc = .sel) (hq : s.aux ≠ []) :
    s.token = true ∨ 0 < s.pend := no_lost_wakeup h hsel hq

/-- **Terminate drains the queue**: once Terminate has set the flag and finished its drain, every accepted
function has been executed, in order. -/
theorem terminate_drains_queue {s : St} (h : Reach s) (ht : s.terminated = true) (hl : s.lpc = .idle) :
    s.executed = s.accepted := terminate_drains h ht hl

/-- Stop/Start keep the queue: no step of the controller changes `batch ++ queue` or what was executed. -/
theorem controller_steps_keep_queue (s : St) :
    (∀ t, stepQ s .stopStore = some t → t.aux = s.aux ∧ t.batch = s.batch ∧ t.executed = s.executed) ∧
    (∀ t, stepQ s .stopWake = some t → t.aux = s.aux ∧ t.batch = s.batch ∧ t.executed = s.executed) ∧
    (∀ t, stepQ s .snwStore = some t → t.aux = s.aux ∧ t.batch = s.batch ∧ t.executed = s.executed) ∧
    (∀ t, stepQ s .start = some t → t.aux = s.aux ∧ t.batch = s.batch ∧ t.executed = s.executed) ∧
    (∀ t, stepQ s .exit = some t → t.aux = s.aux ∧ t.batch = s.batch ∧ t.executed = s.executed) := by
  refine ⟨?_, ?_, ?_, ?_, ?_⟩ <;> intro t h <;> simp only [stepQ] at h <;> split at h <;> simp at h <;> subst h <;> simp

/-- what the driver replays is a path of the transition system -/
theorem replay_is_sound (s t : St) (ls : List Lbl) (hs : Reach s) (h : runLabels s ls = some t) : Reach t :=
  runLabels_reach s t ls hs h

/-- non-vacuity: two submissions racing with a start, a wake-up and a drain -/
example : ∃ t, runLabels init [.enqueue 1, .start, .enqueue 2, .wake, .swap, .execOne, .wake, .execOne, .execDone] = some t ∧
    t.executed = [1, 2] ∧ t.token = true := by decide

end GN.Props.C04

/-! ## Progress clauses

Proved in `GN/EventLoop/Progress.lean` (audited with this property): progress: while the loop is running (canRun, not exiting) an accepted function is executed by steps of the loop thread alone - plus, when the submitter still owes its wake-up, that one wake; no further submission is needed.
Theorems: `GN.EventLoop.Progress.accepted_function_is_executed_by_loop_alone`, `GN.EventLoop.Progress.loop_enabled_for_pending_function`, `GN.EventLoop.Progress.loop_step_enabled_for_pending_function`. -/
