import GN.Url.Params
import GN.Url.ParamsLemmas
import GN.Url.ParamsLemmas2

/-! # C12 — URLSearchParams is the WHATWG ordered pair list and serialisation round-trips -/

namespace GN.Props.C12
open GN GN.Url

/-- **delete** (by name; by name and value; an undefined value means by name): the code's in-place compaction
loop leaves exactly the pairs the WHATWG list operation keeps, in their order — for every list. -/
theorem delete_eq_spec (sp : Params) (name : Bytes) (value : Option Bytes) :
    delete sp name value = deleteSpec sp name value := by
  unfold delete deleteSpec
  rw [deleteWith_eq_filter]
  cases value with
  | none => congr 1
  | some v => congr 1

/-- the table `escape` consults is the one in url/escape.go *now* (regenerated), and it escapes every
character the parser treats specially: `%`, `+`, `&`, `=`, `?` -/
theorem table_escapes_specials : TableOK safeParam := by
  unfold TableOK safeParam; decide +kernel

/-- every byte ≥ 0x80 and every byte the table marks unsafe is written as `%XX` with upper-case hex, a blank as `+` -/
theorem escape_shape (c : UInt8) :
    escByte safeParam c =
      if c = 32 then [43]
      else if c > 127 || !safeParam c then [37, upperHexDigit (c >>> 4), upperHexDigit (c &&& 15)]
      else [c] := rfl

/-- **decode ∘ encode = id** for every byte string (names and values: empty, non-ASCII, reserved characters) -/
theorem unescape_escape_id (s : Bytes) : unescape (escape safeParam s) = s :=
  unescape_escape safeParam table_escapes_specials s

/-- parser clauses: `+` is a blank, a valid `%XX` is decoded, a malformed escape is kept literally -/
theorem unescape_clauses (a b : UInt8) (rest : Bytes) :
    unescape (43 :: rest) = 32 :: unescape rest ∧
    (isHex a = true → isHex b = true → unescape (37 :: a :: b :: rest) = (unhex a <<< 4 ||| unhex b) :: unescape rest) ∧
    ((isHex a && isHex b) = false → unescape (37 :: a :: b :: rest) = 37 :: unescape (a :: b :: rest)) ∧
    unescape [37] = [37] ∧ unescape [37, a] = 37 :: unescape [a] := by
  refine ⟨by simp [unescape], ?_, ?_, by simp [unescape], ?_⟩
  · intro ha hb; simp [unescape, ha, hb]
  · intro h; simp [unescape, h]
  · rw [unescape.eq_def]; simp

/-- an empty query string parses to the empty list; empty pairs are skipped; one leading `?` is dropped -/
theorem parse_clauses :
    parse [] = [] ∧ parse [38, 38] = [] ∧ parse [63, 97, 61, 49] = [⟨[97], [49]⟩] ∧
    parse [63, 63, 97] = [⟨[63, 97], []⟩] := by decide +kernel

/-- **getters** are the list operations -/
theorem getters (sp : Params) (k : Bytes) :
    get sp k = (sp.find? (·.name == k)).map (·.value) ∧
    getAll sp k = (sp.filter (·.name == k)).map (·.value) ∧
    has sp k none = sp.any (·.name == k) := ⟨rfl, rfl, rfl⟩

/-- **live iterators**: `next` yields the element at the iterator's index in the list as it is at that moment,
so pairs appended or removed after the iterator was created are seen / not seen accordingly -/
theorem iter_live (sp : Params) (idx : Nat) :
    (idx < sp.length → iterNext sp idx = (sp[idx]?, idx + 1)) ∧
    (sp.length ≤ idx → iterNext sp idx = (none, idx)) := by
  constructor
  · intro h; simp [iterNext, List.getElem?_eq_getElem h]
  · intro h; simp [iterNext, List.getElem?_eq_none h]

/-- **set**: the code's loop (found flag, in-place write, Go's range-copy semantics) is the WHATWG `set`:
the first pair with the name gets the value in place, later ones are removed, appended if there is none. -/
theorem set_eq_spec (sp : Params) (name value : Bytes) : set sp name value = setSpec sp name value :=
  set_eq_setSpec sp name value

/-- **sort** is sorted by name, a permutation, and stable (pairs with equal names keep their order) -/
theorem sort_spec (sp : Params) :
    SortedByName (sort sp) ∧ (sort sp).Perm sp ∧
    ∀ n : Bytes, (sort sp).filter (·.name == n) = sp.filter (·.name == n) :=
  ⟨sort_sorted sp, sort_perm sp, sort_stable sp⟩

/-- **toString then parse is the identity** on every list of pairs of byte strings (empty, non-ASCII, `+`, `%`,
`&`, `=`, `?` included) — stated about the escape table as it is in url/escape.go now. -/
theorem parse_serialize_id (l : Params) : parse (serialize l) = l :=
  parse_serialize table_escapes_specials l

theorem hex_kernels_fin : ∀ n : Fin 256,
    (Generated.ishex (UInt8.ofNat n.val) == isHex (UInt8.ofNat n.val) &&
     Generated.unhex (UInt8.ofNat n.val) == unhex (UInt8.ofNat n.val)) = true := by decide +kernel

/-- **the hex kernels are the source's**: `ishex` and `unhex` as regenerated from url/escape.go on this run (the
tagless switches translated to `UInt8` functions by verif-extract) agree with the model's on every byte, so
`unescape_clauses`, `unescape_escape_id` and `parse_serialize_id` speak about the digits the code accepts now. -/
theorem hex_kernels_as_in_source (c : UInt8) : Generated.ishex c = isHex c ∧ Generated.unhex c = unhex c := by
  have h := hex_kernels_fin ⟨c.toNat, c.toNat_lt⟩
  simpa [UInt8.ofNat_toNat] using h

/-- **the order `sort` uses is the URL standard's**: names are compared as sequences of UTF-16 code units, so a
character beyond U+FFFF (lead surrogate D800..DBFF) sorts before U+E000..U+FFFF although its code point is larger -/
theorem sort_order_is_code_units :
    ltName [0xF0, 0x90, 0x80, 0x80] [0xEF, 0xBF, 0xBF] = true ∧ ltBytes [0xF0, 0x90, 0x80, 0x80] [0xEF, 0xBF, 0xBF] = false ∧
    u16key [0xF0, 0x9F, 0x98, 0x80] = [0xD83D, 0xDE00] := by decide +kernel

/-- non-vacuity: a list with duplicates, empty and reserved names -/
example : delete [⟨[97], [49]⟩, ⟨[], [43]⟩, ⟨[97], [50]⟩] [97] (some [49]) = [⟨[], [43]⟩, ⟨[97], [50]⟩] ∧
    serialize [⟨[97, 43], [38, 61]⟩] = "a%2B=%26%3D".toUTF8.toList := by decide +kernel

end GN.Props.C12
