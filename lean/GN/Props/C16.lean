import GN.Require.JsonWrap

/-! # C16 — a .json module is data: the wrapper contains exactly one string literal whose value is the file's text -/

namespace GN.Props.C16
open GN GN.Require.Json

theorem hexVal_hexLower : ∀ d : Fin 16, hexVal (hexLower d.val) = some d.val := by decide +kernel

theorem hexVal_hexLower' (n : Nat) (h : n < 16) : hexVal (hexLower n) = some n :=
  hexVal_hexLower ⟨n, h⟩

theorem lex_uEscape (n : Nat) (hn : n < 65536) (tail : List Char) :
    lexBody (uEscape n ++ tail) = (lexBody tail).map fun (v, r) => (Char.ofNat n :: v, r) := by
  simp only [uEscape, List.cons_append, List.nil_append, lexBody]
  rw [hexVal_hexLower' _ (Nat.mod_lt _ (by decide)), hexVal_hexLower' _ (Nat.mod_lt _ (by decide)),
      hexVal_hexLower' _ (Nat.mod_lt _ (by decide)), hexVal_hexLower' _ (Nat.mod_lt _ (by decide))]
  have : n / 4096 % 16 * 4096 + n / 256 % 16 * 256 + n / 16 % 16 * 16 + n % 16 = n := by omega
  simp [this]

theorem lex_plain (c : Char) (tail : List Char) (h1 : c ≠ '"') (h2 : c ≠ '\\') (h3 : c ≠ '\n') (h4 : c ≠ '\r') :
    lexBody (c :: tail) = (lexBody tail).map fun (v, r) => (c :: v, r) := by
  rw [lexBody.eq_def]
  split
  · simp at *
  · next h => simp at h; exact absurd h.1 h1
  · next h => simp at h; exact absurd h.1 h2
  · next h => simp at h; exact absurd h.1 h2
  · next c' rest hne1 hne2 hne3 heq =>
    simp at heq
    obtain ⟨rfl, rfl⟩ := heq
    simp [h3, h4]

/-- one encoded code point lexes back to that code point -/
theorem lex_quoteChar (c : Char) (tail : List Char) :
    lexBody (quoteChar c ++ tail) = (lexBody tail).map fun (v, r) => (c :: v, r) := by
  unfold quoteChar
  split
  · next h => subst h; simp [lexBody]
  split
  · next h => subst h; simp [lexBody]
  split
  · next h => subst h; simp [lexBody]
  split
  · next h => subst h; simp [lexBody]
  split
  · next h => subst h; simp [lexBody]
  split
  · next h => subst h; simp [lexBody]
  split
  · next h => subst h; simp [lexBody]
  split
  · next hq hb _ _ hn hr _ hesc =>
    have hlt : c.toNat < 65536 := by
      simp only [Bool.or_eq_true, decide_eq_true_eq] at hesc
      rcases hesc with ((((h | h) | h) | h) | h) | h
      · omega
      · subst h; decide
      · subst h; decide
      · subst h; decide
      · omega
      · omega
    rw [lex_uEscape _ hlt]
    simp [Char.ofNat_toNat]
  · next hq hb _ _ hn hr _ hesc =>
    exact lex_plain c tail hq hb hn hr

/-- **The encoded text is exactly one string literal whose value is the text**: lexing the encoder's output
(followed by anything) consumes exactly the encoding and yields the original code points — for every text:
quotes, back-slashes, line terminators including U+2028/U+2029, control characters, non-BMP characters,
and text crafted to terminate the literal or the wrapper (`')`, `})`, `*/`, `</script>` …). -/
theorem json_literal_exact (s rest : List Char) : lexString (jsonQuote s ++ rest) = some (s, rest) := by
  simp only [jsonQuote, List.cons_append, lexString, List.append_assoc]
  induction s with
  | nil => simp [quoteBody, lexBody]
  | cons c cs ih =>
    simp only [quoteBody, List.flatMap_cons, List.append_assoc] at ih ⊢
    rw [lex_quoteChar, ih]; rfl

/-- **The wrapper's only content-dependent token is that literal**: after the fixed prefix
`(function(…){module.exports = JSON.parse(` comes one string literal whose value is the text, and then the
fixed suffix `)⏎})` — whatever the text is. So the only thing evaluated is `JSON.parse(text)`. -/
theorem wrapper_shape (text : List Char) :
    ∃ pre, wrapper text = pre ++ jsonQuote text ++ ")\n})".toList ∧
      pre = "(function(exports,require,module,__filename,__dirname){module.exports = JSON.parse(".toList ∧
      lexString (jsonQuote text ++ ")\n})".toList) = some (text, ")\n})".toList) :=
  ⟨_, rfl, rfl, json_literal_exact text _⟩

/-- non-vacuity: text assembled from the wrapper's own delimiters -/
example : lexString (jsonQuote "\"})();x='\\\n</script>\u2028".toList ++ ")".toList) =
    some ("\"})();x='\\\n</script>\u2028".toList, ")".toList) := by decide +kernel

end GN.Props.C16
