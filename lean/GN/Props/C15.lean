import GN.Require.Ideal

/-!
# C15 — native/core names resolve by registration only, stably; 'node:' means core

Theorems about the reference semantics: which loader a name denotes (`nativeOf`) is a function of the
registration tables and the name alone; instances are created at most once per loader and runtime.
The model of the code is tied to it by cache transparency and by the correspondence run.
-/

namespace GN.Props.C15
open GN GN.Require

/-- **Lookup order**: registry-level native, else global native, else core -/
theorem lookup_order (t : Tree) (name : String) :
    (t.regNative.contains name = true → nativeOf t name = .inl (some ("R", name))) ∧
    (t.regNative.contains name = false → t.globNative.contains name = true →
        nativeOf t name = .inl (some ("G", name))) ∧
    (t.regNative.contains name = false → t.globNative.contains name = false → t.core.contains name = true →
        nativeOf t name = .inl (some ("C", name))) := by
  refine ⟨?_, ?_, ?_⟩
  · intro h; simp only [nativeOf, h, ↓reduceIte]
  · intro h1 h2; simp only [nativeOf, h1, h2, Bool.false_eq_true, ↓reduceIte]
  · intro h1 h2 h3; simp only [nativeOf, h1, h2, h3, Bool.false_eq_true, ↓reduceIte]

/-- **`node:X` only ever means a core module**: a name that is not itself registered and starts with `node:`
denotes the core module with the prefix stripped, or fails with "No such built-in module" — never a native
module, never a file -/
theorem node_prefix_core_only (t : Tree) (name : String)
    (h1 : t.regNative.contains name = false) (h2 : t.globNative.contains name = false)
    (h3 : t.core.contains name = false) (hp : name.startsWith Generated.nodePrefix = true) :
    nativeOf t name = .inr () ∨
    ∃ bare, t.core.contains bare = true ∧ nativeOf t name = .inl (some ("C", bare)) := by
  simp only [nativeOf, h1, h2, h3, hp, Bool.false_eq_true, ↓reduceIte]
  split
  · next h => exact Or.inr ⟨_, h, rfl⟩
  · exact Or.inl rfl

/-- an unregistered, unprefixed name is not a native/core name at all: resolution falls through to node_modules -/
theorem unknown_name_falls_through (t : Tree) (name : String)
    (h1 : t.regNative.contains name = false) (h2 : t.globNative.contains name = false)
    (h3 : t.core.contains name = false) (hp : name.startsWith Generated.nodePrefix = false) :
    nativeOf t name = .inl none := by
  simp only [nativeOf, h1, h2, h3, hp, Bool.false_eq_true, ↓reduceIte]

/-- **History independence**: the loader a request yields is `nativeOf`, whatever has been required before
(the state only decides whether an instance already exists) -/
theorem choice_is_pure (t : Tree) (st : ISt) (name : String) :
    match nativeOf t name with
    | .inl (some l) => ∃ id, (idealNative t st name).2 = some (.found id) ∧
                             alookup (idealNative t st name).1.natives l = some id
    | .inl none => idealNative t st name = (st, none)
    | .inr () => idealNative t st name = (st, some (.err .noSuchBuiltin)) := by
  unfold idealNative
  cases h : nativeOf t name with
  | inr u => simp
  | inl o =>
    cases o with
    | none => simp
    | some l =>
      simp only
      cases hl : alookup st.natives l with
      | some id => exact ⟨id, rfl, hl⟩
      | none => exact ⟨st.next, rfl, by simp [ISt.emit, alookup, ainsert]⟩

/-- **Each loader runs at most once per runtime; repeated calls return the identical object**: once an instance
of the loader exists, any request that denotes that loader returns it and changes nothing (no loader event) -/
theorem loader_runs_once (t : Tree) (st : ISt) (name : String) (l : String × String) (id : Nat)
    (hn : nativeOf t name = .inl (some l)) (hi : alookup st.natives l = some id) :
    idealNative t st name = (st, some (.found id)) := by
  simp [idealNative, hn, hi]

/-- **`X` and `node:X` are one object** when `X` is a core module that is not overridden: both spellings denote
the same loader, hence (by `loader_runs_once`) the same instance -/
theorem prefixed_and_unprefixed_same_loader (t : Tree) (x px : String)
    (hx1 : t.regNative.contains x = false) (hx2 : t.globNative.contains x = false) (hx3 : t.core.contains x = true)
    (hp1 : t.regNative.contains px = false) (hp2 : t.globNative.contains px = false) (hp3 : t.core.contains px = false)
    (hpre : px.startsWith Generated.nodePrefix = true)
    (hstrip : (px.drop Generated.nodePrefix.length).toString = x) :
    nativeOf t px = nativeOf t x := by
  simp only [nativeOf, hx1, hx2, hx3, hp1, hp2, hp3, hpre, hstrip, Bool.false_eq_true, ↓reduceIte]

/-- the prefix is re-extracted from require/resolve.go -/
theorem node_prefix_value : Generated.nodePrefix = "node:" := by decide +kernel

/-- non-vacuity: overlapping registrations -/
example :
    let t : Tree := { file := [], loadErr := [], pkgMain := [], globalFolders := [],
                      regNative := ["cr", "util"], globNative := ["cg", "cgr"], core := ["cr", "cg", "cgr", "util", "fs", "node:test"] }
    nativeOf t "util" = .inl (some ("R", "util")) ∧ nativeOf t "cg" = .inl (some ("G", "cg")) ∧
    nativeOf t "fs" = .inl (some ("C", "fs")) ∧ nativeOf t "node:test" = .inl (some ("C", "node:test")) ∧
    nativeOf t "zzz" = .inl none := by decide +kernel

end GN.Props.C15
