import GN.Props.Pins.C05
#print axioms GN.Props.Pins.C05.sources_as_transcribed
