import GN.Props.C19
open GN.Props.C19
#print axioms format_eq_spec
#print axioms no_args_identity
#print axioms trailing_percent_kept
#print axioms surplus_appended
#print axioms directive_takes_next
#print axioms pctpct_and_unknown
#print axioms missing_arg_kept
#print axioms console_sinks_match
#print axioms console_methods_exactly
#print axioms console_eq_spec
