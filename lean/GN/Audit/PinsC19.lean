import GN.Props.Pins.C19
#print axioms GN.Props.Pins.C19.sources_as_transcribed
