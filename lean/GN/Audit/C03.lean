import GN.Props.C03
open GN.Props.C03
#print axioms executor_exists_iff_running
#print axioms executes_only_while_running_or_in_terminate
#print axioms submission_while_stopped_only_queues
#print axioms no_double_start
#print axioms batch_only_while_executing
