import GN.Props.C03
import GN.EventLoop.Combined
open GN.Props.C03
#print axioms executor_exists_iff_running
#print axioms executes_only_while_running_or_in_terminate
#print axioms submission_while_stopped_only_queues
#print axioms no_double_start
#print axioms batch_only_while_executing
#print axioms GN.EventLoop.Combined.job_callback_excludes_runAux
#print axioms GN.EventLoop.Combined.delivery_and_exec_never_both_enabled
#print axioms GN.EventLoop.Combined.delivery_only_at_select_or_in_drain
#print axioms GN.EventLoop.Combined.reach_queue
#print axioms GN.EventLoop.Combined.reach_ledger
