import GN.Props.Pins.C18
#print axioms GN.Props.Pins.C18.sources_as_transcribed
