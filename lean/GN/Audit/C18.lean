import GN.Props.C18
open GN.Props.C18
#print axioms model_meets_partial_order
#print axioms more_fuel_same_log
#print axioms immediates_fifo_in_the_queue
#print axioms throw_ends_only_its_body
