import GN.Props.C20
open GN.Props.C20
#print axioms split_first_eq
#print axioms split_none_iff
#print axioms snapshot_exact
#print axioms snapshot_distinct
#print axioms snapshot_entry
#print axioms step_isolated
#print axioms run_host_unchanged
#print axioms run_isolated
#print axioms new_runtime_sees_the_current_host
#print axioms host_changes_reach_no_runtime
#print axioms js_step_isolated
