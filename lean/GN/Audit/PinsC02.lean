import GN.Props.Pins.C02
#print axioms GN.Props.Pins.C02.sources_as_transcribed
