import GN.Props.Pins.C14
#print axioms GN.Props.Pins.C14.sources_as_transcribed
