import GN.Props.Pins.C08
#print axioms GN.Props.Pins.C08.sources_as_transcribed
