import GN.Props.C12
open GN.Props.C12
#print axioms delete_eq_spec
#print axioms table_escapes_specials
#print axioms escape_shape
#print axioms unescape_escape_id
#print axioms unescape_clauses
#print axioms parse_clauses
#print axioms getters
#print axioms iter_live
#print axioms set_eq_spec
#print axioms sort_spec
#print axioms parse_serialize_id
#print axioms hex_kernels_as_in_source
#print axioms sort_order_is_code_units
