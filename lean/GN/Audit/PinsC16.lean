import GN.Props.Pins.C16
#print axioms GN.Props.Pins.C16.sources_as_transcribed
