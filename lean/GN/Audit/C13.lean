import GN.Props.C13
