import GN.Props.C13
open GN.Props.C13
#print axioms search_params_coherent
#print axioms href_shows_the_query
#print axioms host_is_hostname_port
#print axioms default_port_hidden
#print axioms port_is_a_number
#print axioms escape_round_trip
#print axioms query_escape_stable
#print axioms href_parses_again_to_itself
