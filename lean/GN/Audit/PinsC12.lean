import GN.Props.Pins.C12
#print axioms GN.Props.Pins.C12.sources_as_transcribed
