import GN.Props.Pins.C06
#print axioms GN.Props.Pins.C06.sources_as_transcribed
