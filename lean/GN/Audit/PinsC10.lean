import GN.Props.Pins.C10
#print axioms GN.Props.Pins.C10.sources_as_transcribed
