import GN.Props.C05
open GN.Props.C05
#print axioms fires_at_most_once
#print axioms cleared_job_never_fires
#print axioms cleared_job_never_fires_later
#print axioms firing_needs_a_live_job
#print axioms clear_is_idempotent
#print axioms delay_conversion_never_shortens
