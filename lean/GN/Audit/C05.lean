import GN.Props.C05
import GN.EventLoop.Progress
open GN.Props.C05
#print axioms fires_at_most_once
#print axioms cleared_job_never_fires
#print axioms cleared_job_never_fires_later
#print axioms firing_needs_a_live_job
#print axioms clear_is_idempotent
#print axioms delay_conversion_never_shortens
#print axioms GN.EventLoop.Progress.uncleared_oneshot_fires_exactly_once
#print axioms GN.EventLoop.Progress.other_steps_cannot_stop_it
#print axioms GN.EventLoop.Progress.uncleared_oneshot_fires_within_two_own_steps
