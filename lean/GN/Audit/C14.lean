import GN.Props.C14
open GN.Props.C14
#print axioms remove_dot_segments_is_the_normaliser
#print axioms no_dot_segments_left
#print axioms trailing_slash_kept
#print axioms normalisation_idempotent
#print axioms cleanPath_is_rfc
#print axioms relative_path_resolution_is_rfc
#print axioms absolute_path_resolution_is_rfc
#print axioms empty_path_keeps_base
#print axioms component_choice_is_rfc
#print axioms scheme_required_and_lower_case
#print axioms fragment_is_the_references
