import GN.Props.Pins.C11
#print axioms GN.Props.Pins.C11.sources_as_transcribed
