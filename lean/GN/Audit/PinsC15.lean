import GN.Props.Pins.C15
#print axioms GN.Props.Pins.C15.sources_as_transcribed
