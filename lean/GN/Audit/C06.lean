import GN.Props.C06
import GN.EventLoop.Progress
open GN.Props.C06
#print axioms count_is_exact
#print axioms zero_iff_no_live_job
#print axioms count_nonneg
#print axioms clear_needs_a_live_job
#print axioms clear_noop_changes_nothing
#print axioms fresh_after_terminate
#print axioms refused_immediate_not_counted
#print axioms GN.EventLoop.Progress.quiescent_nothing_fires
#print axioms GN.EventLoop.Progress.quiescent_disables_live_steps
#print axioms GN.EventLoop.Progress.live_work_is_enabled
#print axioms GN.EventLoop.Progress.run_exit_never_blocked
#print axioms GN.EventLoop.Progress.run_returns_at_quiescence
