import GN.Props.C06
open GN.Props.C06
#print axioms count_is_exact
#print axioms zero_iff_no_live_job
#print axioms count_nonneg
#print axioms clear_needs_a_live_job
#print axioms clear_noop_changes_nothing
#print axioms fresh_after_terminate
#print axioms refused_immediate_not_counted
