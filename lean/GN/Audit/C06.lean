import GN.Props.C06
import GN.EventLoop.Progress
import GN.EventLoop.Combined
open GN.Props.C06
#print axioms count_is_exact
#print axioms zero_iff_no_live_job
#print axioms count_nonneg
#print axioms clear_needs_a_live_job
#print axioms clear_noop_changes_nothing
#print axioms fresh_after_terminate
#print axioms refused_immediate_not_counted
#print axioms GN.EventLoop.Progress.quiescent_nothing_fires
#print axioms GN.EventLoop.Progress.quiescent_disables_live_steps
#print axioms GN.EventLoop.Progress.live_work_is_enabled
#print axioms GN.EventLoop.Progress.run_exit_never_blocked
#print axioms GN.EventLoop.Progress.run_returns_at_quiescence
#print axioms GN.EventLoop.Combined.run_returns_never_earlier
#print axioms GN.EventLoop.Combined.run_does_not_return_while_a_job_is_live
#print axioms GN.EventLoop.Combined.run_returns_always_then
#print axioms GN.EventLoop.Combined.quiesce_enabled_iff
#print axioms GN.EventLoop.Combined.count_stable_at_select
#print axioms GN.EventLoop.Combined.live_timer_has_enabled_step_at_select
