import GN.Props.C08
import GN.EventLoop.Combined
open GN.Props.C08
#print axioms refused_while_terminated
#print axioms terminated_until_start
#print axioms start_clears_terminated
#print axioms terminated_state
#print axioms terminate_has_run_everything
#print axioms fresh_after_restart
#print axioms registry_is_exactly_unfinished_goroutines
#print axioms cancelled_work_stays_silent
#print axioms GN.EventLoop.Combined.drain_runs_no_callback
#print axioms GN.EventLoop.Combined.terminated_flags_agree
