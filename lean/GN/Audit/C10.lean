import GN.Props.C10
open GN.Props.C10
#print axioms method_table_matches_names
#print axioms aliases_bound_to_twin
#print axioms offset_guard_exact
#print axioms var_guard_exact
#print axioms range_checks_exact
#print axioms stored_bytes_are_twos_complement
#print axioms store_places_exactly
#print axioms sign_extension_exact
#print axioms read_back_what_was_written
#print axioms failure_leaves_buffer_unchanged
#print axioms model_refines_spec
#print axioms every_specified_name_is_registered
#print axioms write_returns_offset_plus_width
