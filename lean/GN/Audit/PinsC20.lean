import GN.Props.Pins.C20
#print axioms GN.Props.Pins.C20.sources_as_transcribed
