import GN.Props.Pins.C03
#print axioms GN.Props.Pins.C03.sources_as_transcribed
