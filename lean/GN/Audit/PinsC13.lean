import GN.Props.Pins.C13
#print axioms GN.Props.Pins.C13.sources_as_transcribed
