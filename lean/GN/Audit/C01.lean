import GN.Props.C01
open GN.Props.C01
#print axioms cached_file_not_reentered
#print axioms registered_before_body
#print axioms failed_module_not_cached
#print axioms thrown_value_is_delivered
#print axioms uncaught_error_propagates_unchanged
#print axioms code_equals_reference
