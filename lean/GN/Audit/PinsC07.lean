import GN.Props.Pins.C07
#print axioms GN.Props.Pins.C07.sources_as_transcribed
