import GN.Props.C04
import GN.EventLoop.Progress
open GN.Props.C04
#print axioms accepted_is_executed_then_batch_then_queue
#print axioms executed_is_a_prefix_of_accepted
#print axioms refused_is_never_executed
#print axioms no_lost_wakeup_at_select
#print axioms terminate_drains_queue
#print axioms controller_steps_keep_queue
#print axioms replay_is_sound
#print axioms GN.EventLoop.Progress.accepted_function_is_executed_by_loop_alone
#print axioms GN.EventLoop.Progress.loop_enabled_for_pending_function
#print axioms GN.EventLoop.Progress.loop_step_enabled_for_pending_function
