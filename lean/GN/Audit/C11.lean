import GN.Props.C11
open GN.Props.C11
#print axioms hex_roundtrip
#print axioms base64_roundtrip
#print axioms base64url_roundtrip
#print axioms base64_skips_line_breaks
#print axioms utf8_roundtrip
#print axioms utf8_wellformed_iff
#print axioms utf16_roundtrip
#print axioms toString_range
#print axioms toString_range_in_bounds
#print axioms write_is_prefix_of_decode
#print axioms write_whole_characters
#print axioms trim_is_char_boundary
#print axioms fill_repeats_pattern
#print axioms from_array_like_mod_256
