import GN.Props.C16
open GN.Props.C16
#print axioms lex_quoteChar
#print axioms json_literal_exact
#print axioms wrapper_shape
