import GN.Props.C15
open GN.Props.C15
#print axioms lookup_order
#print axioms node_prefix_core_only
#print axioms unknown_name_falls_through
#print axioms choice_is_pure
#print axioms loader_runs_once
#print axioms prefixed_and_unprefixed_same_loader
#print axioms node_prefix_value
