import GN.Props.C17
open GN.Props.C17
#print axioms every_function_has_a_role
#print axioms race_free
#print axioms race_free_jobs
#print axioms protocol_exceptions
#print axioms stop_orders_the_exception
#print axioms fields_accounted_for
#print axioms compile_is_atomic
#print axioms compiled_at_most_once
#print axioms instances_are_per_runtime
