import GN.Props.C09
open GN.Props.C09
#print axioms inventory_pinned
#print axioms every_site_has_argument
#print axioms fixed_width_access_in_bounds
#print axioms var_width_access_in_bounds
#print axioms toString_slice_in_bounds
#print axioms write_copy_in_bounds
#print axioms fill_has_requested_size
#print axioms port_value_in_range
#print axioms delay_conversion_never_wraps
