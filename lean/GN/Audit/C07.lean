import GN.Props.C07
open GN.Props.C07
#print axioms stop_waits_for_a_served_loop
#print axioms chk_leads_out
#print axioms exit_wakes_stop
#print axioms stop_on_stopped_loop_is_noop
#print axioms stopNoWait_from_callback
#print axioms nothing_lost
#print axioms restart_enabled
