import GN.Props.C07
import GN.EventLoop.Progress
open GN.Props.C07
#print axioms stop_waits_for_a_served_loop
#print axioms chk_leads_out
#print axioms exit_wakes_stop
#print axioms stop_on_stopped_loop_is_noop
#print axioms stopNoWait_from_callback
#print axioms nothing_lost
#print axioms restart_enabled
#print axioms GN.EventLoop.Progress.loop_step_decreases_measure
#print axioms GN.EventLoop.Progress.other_step_bounded
#print axioms GN.EventLoop.Progress.stop_returns_after_bounded_loop_steps
#print axioms GN.EventLoop.Progress.stop_returns_after_seven_control_steps
#print axioms GN.EventLoop.Progress.stop_needs_at_least
#print axioms GN.EventLoop.Progress.loop_not_stuck_while_stop_waits
#print axioms GN.EventLoop.Progress.stop_can_return
#print axioms GN.EventLoop.Progress.no_bound_independent_of_submissions
