import GN.Props.Pins.C04
#print axioms GN.Props.Pins.C04.sources_as_transcribed
