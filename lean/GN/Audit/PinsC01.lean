import GN.Props.Pins.C01
#print axioms GN.Props.Pins.C01.sources_as_transcribed
