import GN.Props.C02
open GN.Props.C02
#print axioms candidate_order
#print axioms file_request_is_first_candidate
#print axioms bare_request_is_first_candidate
#print axioms node_modules_walk
#print axioms bare_never_relative
#print axioms selection_is_first_existing
#print axioms no_candidate_means_invalid
#print axioms loader_error_propagates
#print axioms first_existing_wins
#print axioms path_classifier
#print axioms resolve_literals_match
