import GN.Buffer.Num

/-! Encoding lemmas: the bytes the code's shifts produce are the base-256 digits; decoding inverts encoding;
    the store loop is a splice. -/

namespace GN.Buffer
open GN

theorem storeAt_length (buf : List UInt8) (off : Nat) (bs : List UInt8) :
    (storeAt buf off bs).length = buf.length := by
  induction bs generalizing buf off with
  | nil => simp [storeAt]
  | cons b bs ih => simp [storeAt, ih]

/-- the store loop changes exactly the positions off … off+|bs|-1 -/
theorem storeAt_eq_splice (buf : List UInt8) (off : Nat) (bs : List UInt8)
    (h : off + bs.length ≤ buf.length) : storeAt buf off bs = splice buf off bs := by
  induction bs generalizing buf off with
  | nil => simp [storeAt, splice]
  | cons b bs ih =>
    simp only [storeAt]
    have hl : (buf.set off b).length = buf.length := by simp
    rw [ih (buf.set off b) (off + 1) (by simp at h ⊢; omega)]
    simp only [splice, List.length_cons]
    have h1 : (buf.set off b).take (off + 1) = buf.take off ++ [b] := by
      rw [List.take_add_one, List.take_set_of_le (Nat.le_refl off)]
      simp at h
      have : off < buf.length := by omega
      simp [this]
    have h2 : (buf.set off b).drop (off + 1 + bs.length) = buf.drop (off + (bs.length + 1)) := by
      rw [List.drop_set_of_lt (by omega)]
      congr 1; omega
    rw [h1, h2]; simp

theorem splice_length (buf : List UInt8) (off : Nat) (bs : List UInt8) (h : off + bs.length ≤ buf.length) :
    (splice buf off bs).length = buf.length := by
  simp [splice]; omega

/-- frame: bytes outside the written window are unchanged -/
theorem splice_getElem?_outside (buf : List UInt8) (off : Nat) (bs : List UInt8) (i : Nat)
    (h : off + bs.length ≤ buf.length) (hi : i < off ∨ off + bs.length ≤ i) :
    (splice buf off bs)[i]? = buf[i]? := by
  simp only [splice]
  rcases hi with hi | hi
  · rw [List.append_assoc, List.getElem?_append_left (by simp; omega)]
    simp [hi]
  · rw [List.getElem?_append_right (by simp; omega)]
    simp
    congr 1; omega

/-- the written window holds exactly the encoded bytes -/
theorem splice_window (buf : List UInt8) (off : Nat) (bs : List UInt8) (h : off + bs.length ≤ buf.length) :
    ((splice buf off bs).drop off).take bs.length = bs := by
  simp only [splice]
  have : (buf.take off).length = off := by simp; omega
  rw [List.append_assoc, List.drop_append_of_le_length (by omega)]
  simp

theorem digitsLE_succ (w n : Nat) :
    digitsLE (w + 1) n = UInt8.ofNat (n % 256) :: digitsLE w (n / 256) := by
  simp only [digitsLE, List.range_succ_eq_map, List.map_cons, List.map_map]
  congr 1
  · simp
  · apply List.map_congr_left
    intro i _
    simp only [Function.comp]
    congr 2
    rw [Nat.div_div_eq_div_mul]
    congr 1
    rw [show 8 * (i + 1) = 8 + 8 * i by omega, Nat.pow_add]

theorem decLE_digitsLE (w n : Nat) : decLE (digitsLE w n) = n % 2 ^ (8 * w) := by
  induction w generalizing n with
  | zero => simp [digitsLE, decLE, Nat.mod_one]
  | succ w ih =>
    rw [digitsLE_succ, decLE, ih]
    have : (UInt8.ofNat (n % 256)).toNat = n % 256 := by
      simp [UInt8.toNat_ofNat']
    rw [this, show 8 * (w + 1) = 8 + 8 * w by omega, Nat.pow_add]
    rw [show (2:Nat) ^ 8 = 256 by rfl, Nat.mod_mul]

theorem digitsLE_length (w n : Nat) : (digitsLE w n).length = w := by simp [digitsLE]

theorem enc_length (w : Nat) (be : Bool) (x : Int) : (enc w be x).length = w := by
  unfold enc encLE; split <;> simp [digitsLE_length]

/-- decoding the encoding gives the value back modulo 2^(8w) -/
theorem decUnsigned_enc (w : Nat) (be : Bool) (x : Int) :
    (decUnsigned be (enc w be x) : Int) = x % 2 ^ (8 * w) := by
  have hpos : (0 : Int) < 2 ^ (8 * w) := Int.pow_pos (by decide)
  have hnn : 0 ≤ x % 2 ^ (8 * w) := Int.emod_nonneg _ (by omega)
  have hlt : x % 2 ^ (8 * w) < 2 ^ (8 * w) := Int.emod_lt_of_pos _ hpos
  have key : decLE (encLE w x) = (x % 2 ^ (8 * w)).toNat := by
    unfold encLE
    rw [decLE_digitsLE]
    apply Nat.mod_eq_of_lt
    have : ((x % 2 ^ (8 * w)).toNat : Int) < 2 ^ (8 * w) := by rw [Int.toNat_of_nonneg hnn]; exact hlt
    exact_mod_cast this
  unfold decUnsigned enc
  cases be <;> simp [key, Int.toNat_of_nonneg hnn]

theorem decUnsigned_enc_of_repr (w : Nat) (be : Bool) (x : Int) (h : Representable false w x) :
    (decUnsigned be (enc w be x) : Int) = x := by
  rw [decUnsigned_enc]
  unfold Representable at h; simp at h
  exact Int.emod_eq_of_lt h.1 h.2

/-- two's complement: a representable signed value is read back exactly -/
theorem decSigned_enc_of_repr (w : Nat) (hw : 1 ≤ w) (be : Bool) (x : Int) (h : Representable true w x) :
    decSigned be (enc w be x) = x := by
  unfold Representable at h; simp at h
  have hu := decUnsigned_enc w be x
  unfold decSigned
  simp only [enc_length]
  have hp : (2 : Int) ^ (8 * w) = 2 * 2 ^ (8 * w - 1) := by
    rw [show 8 * w = (8 * w - 1) + 1 by omega, Int.pow_succ]; simp; omega
  have hpn : (2 : Nat) ^ (8 * w) = 2 * 2 ^ (8 * w - 1) := by
    rw [show 8 * w = (8 * w - 1) + 1 by omega, Nat.pow_succ]; simp; omega
  generalize hP : (2 : Int) ^ (8 * w - 1) = P at *
  have hPpos : 0 < P := by rw [← hP]; exact Int.pow_pos (by decide)
  by_cases hx : 0 ≤ x
  · have : x % (2 * P) = x := Int.emod_eq_of_lt hx (by omega)
    rw [hp, this] at hu
    have hcast : ((2 ^ (8 * w) : Nat) : Int) = 2 * P := by rw [hpn]; push_cast; rw [hP]
    split
    · next hge =>
      have : (2 * (decUnsigned be (enc w be x)) : Int) ≥ ((2 ^ (8 * w) : Nat) : Int) := by exact_mod_cast hge
      omega
    · exact hu
  · have : x % (2 * P) = x + 2 * P := by
      have h1 : (x + 2 * P) % (2 * P) = x + 2 * P := Int.emod_eq_of_lt (by omega) (by omega)
      calc x % (2 * P) = (x + 2 * P) % (2 * P) := by rw [Int.add_emod_right]
        _ = x + 2 * P := h1
    rw [hp, this] at hu
    have hcast : ((2 ^ (8 * w) : Nat) : Int) = 2 * P := by rw [hpn]; push_cast; rw [hP]
    split
    · rw [hp]; omega
    · next hlt =>
      have : (2 * (decUnsigned be (enc w be x)) : Int) < ((2 ^ (8 * w) : Nat) : Int) := by
        have := Nat.lt_of_not_ge hlt
        exact_mod_cast this
      omega


theorem toNat_emod_div (x : Int) (i w : Nat) (h : i < w) :
    ((x % 2 ^ (8 * w)).toNat / 2 ^ (8 * i)) % 256 = ((x / 2 ^ (8 * i)) % 256).toNat := by
  have hpos : (0 : Int) < 2 ^ (8 * w) := Int.pow_pos (by decide)
  have hnn : 0 ≤ x % 2 ^ (8 * w) := Int.emod_nonneg _ (by omega)
  -- 2^(8w) = 2^(8i) * (256 * 2^(8(w-i-1)))
  have hsplit : (2 : Int) ^ (8 * w) = 2 ^ (8 * i) * (256 * 2 ^ (8 * (w - i - 1))) := by
    rw [show (256 : Int) = 2 ^ 8 by rfl, ← Int.pow_add, ← Int.pow_add]
    congr 1; omega
  generalize hA : (2 : Int) ^ (8 * i) = A at *
  generalize hD : (2 : Int) ^ (8 * (w - i - 1)) = D at *
  have hApos : 0 < A := by rw [← hA]; exact Int.pow_pos (by decide)
  have hy : x % 2 ^ (8 * w) = x - 2 ^ (8 * w) * (x / 2 ^ (8 * w)) := by
    exact Int.emod_def x (2 ^ (8 * w))
  generalize hq : x / 2 ^ (8 * w) = q at *
  -- (x - A*(256*D)*q) / A = x / A - 256*D*q
  have hdiv : (x % 2 ^ (8 * w)) / A = x / A - 256 * D * q := by
    rw [hy, hsplit]
    have : x - A * (256 * D) * q = x + (-(256 * D * q)) * A := by
      rw [Int.neg_mul]; rw [Int.mul_comm (256 * D * q) A, Int.mul_assoc]; omega
    rw [this, Int.add_mul_ediv_right _ _ (by omega)]; omega
  have hmod : ((x % 2 ^ (8 * w)) / A) % 256 = (x / A) % 256 := by
    rw [hdiv]
    have : x / A - 256 * D * q = x / A + 256 * (-(D * q)) := by
      rw [Int.mul_neg, Int.mul_assoc]; omega
    rw [this, Int.add_mul_emod_self_left]
  -- Nat side
  rw [← hmod]
  have h1 : ((x % 2 ^ (8 * w)).toNat : Int) = x % 2 ^ (8 * w) := Int.toNat_of_nonneg hnn
  have : (((x % 2 ^ (8 * w)).toNat / 2 ^ (8 * i) % 256 : Nat) : Int) = (x % 2 ^ (8 * w)) / A % 256 := by
    rw [Int.natCast_emod, Int.natCast_ediv, Int.natCast_pow, h1]
    show (x % 2 ^ (8 * w)) / ((2:Int) ^ (8 * i)) % 256 = _
    rw [hA]
  have hnn2 : 0 ≤ (x % 2 ^ (8 * w)) / A % 256 := Int.emod_nonneg _ (by omega)
  omega

theorem byteOfI64_eq (v : I64) (i w : Nat) (h : i < w) :
    byteOfI64 v (8 * i) = UInt8.ofNat (((v.toInt % 2 ^ (8 * w)).toNat / 2 ^ (8 * i)) % 256) := by
  unfold byteOfI64
  rw [BitVec.toInt_sshiftRight, Int.shiftRight_eq_div_pow, toNat_emod_div _ _ _ h]
  rfl

theorem map_rev_range {α} (w : Nat) (f : Nat → α) :
    (List.range w).map (fun i => f (w - 1 - i)) = ((List.range w).map f).reverse := by
  apply List.ext_getElem
  · simp
  · intro i h1 h2
    simp at h1
    simp [List.getElem_reverse]

/-- the bytes produced by the code's shifts are the two's-complement base-256 digits, in the stated order -/
theorem intBytes_eq_enc (w : Nat) (be : Bool) (v : I64) : intBytes w be v = enc w be v.toInt := by
  unfold intBytes enc encLE digitsLE
  cases be
  · simp only [Bool.false_eq_true, if_false]
    apply List.map_congr_left
    intro i hi
    exact byteOfI64_eq v i w (List.mem_range.mp hi)
  · simp only [if_true]
    rw [← map_rev_range]
    apply List.map_congr_left
    intro i hi
    have := List.mem_range.mp hi
    exact byteOfI64_eq v (w - 1 - i) w (by omega)

end GN.Buffer
