import GN.Basic
import GN.Generated.BufferKernels
import GN.Generated.BufferMethods

/-!
# Buffer numeric read/write — executable model (B) and specification (A)   [C10, C09]

The model follows `buffer/buffer.go` statement by statement: coerce the value, coerce the offset
(and byteLength), run the *generated* guards (`GN.Generated.*`, re-emitted from the Go source on
every run), run the *generated* range check, then store / load bytes with the code's own shifts.
Which guard, width, endianness and conversion a method uses is read from the *generated*
per-method facts (`GN.Generated.bufferMethodFacts`).

The specification is independent of the code: it is derived from the *name* of the method
(`readInt16BE` ↦ 2 bytes, signed, big endian) and speaks about two's-complement / IEEE-754 bytes
as plain integer arithmetic (`enc`, `dec`).
-/

namespace GN.Buffer
open GN

/-- A JavaScript argument as far as the numeric methods can tell values apart. -/
inductive JArg where
  | undef                    -- undefined or missing
  | num (f : F64)            -- a Number (goja `IsNumber`)
  | big (n : Int)            -- a BigInt
  | str                      -- a string
  | other                    -- null, boolean, symbol, object, …
  deriving Repr, Inhabited, DecidableEq

/-- value returned to JavaScript -/
inductive JRet where
  | int (n : Int)            -- an integral Number
  | big (n : Int)            -- a BigInt
  | flt (f : F64)            -- a Number given by its bits (NaN is canonicalised by the printer)
  deriving Repr, Inhabited, DecidableEq

inductive Kind where | int | bigint | f32 | f64
  deriving Repr, DecidableEq, Inhabited

/-- What a numeric method does. `width = 0` means "variable: 1–6, given by the byteLength argument". -/
structure Desc where
  write : Bool
  kind : Kind
  width : Nat
  signed : Bool
  bigEndian : Bool
  deriving Repr, DecidableEq, Inhabited

/-! ## goutil coercions -/

def i64OfInt (n : Int) : I64 := BitVec.ofInt 64 n

/-- `goutil.RequiredIntegerArgument` -/
def requiredInteger : JArg → Outcome I64
  | .num f => .ok (i64OfInt f.toIntegerClip)
  | _ => .throw .typeError

/-- `goutil.OptionalIntegerArgument` -/
def optionalInteger (dflt : I64) : JArg → Outcome I64
  | .num f => .ok (i64OfInt f.toIntegerClip)
  | .undef => .ok dflt
  | _ => .throw .typeError

/-- `goutil.RequiredBigIntArgument` -/
def requiredBigInt : JArg → Outcome Int
  | .big n => .ok n
  | _ => .throw .typeError

/-- `goutil.RequiredFloatArgument` -/
def requiredFloat : JArg → Outcome F64
  | .num f => .ok f
  | _ => .throw .typeError

/-! ## float32 <-> float64 on bit patterns (what Go's `float32(x)` / `float64(y)` do) -/

/-- widen IEEE binary32 bits to binary64 bits (exact) -/
def widen32 (b : UInt32) : F64 :=
  let s : UInt64 := (b >>> 31).toUInt64
  let e : Nat := ((b >>> 23) &&& 0xff).toNat
  let m : Nat := (b &&& 0x7fffff).toNat
  let mk (e m : Nat) : F64 := ⟨(s <<< 63) ||| (UInt64.ofNat e <<< 52) ||| UInt64.ofNat m⟩
  if e == 255 then mk 2047 (m * 2 ^ 29)
  else if e == 0 then
    if m == 0 then mk 0 0
    else
      let l := Nat.log2 m
      mk (1023 - 149 + l) ((m - 2 ^ l) * 2 ^ (52 - l))
  else mk (e + 896) (m * 2 ^ 29)

/-- round-to-nearest-even right shift -/
def rshiftRNE (m sh : Nat) : Nat :=
  let q := m / 2 ^ sh
  let r := m % 2 ^ sh
  let half := 2 ^ sh / 2
  if sh == 0 then m
  else if r > half || (r == half && q % 2 == 1) then q + 1 else q

/-- narrow binary64 bits to binary32 bits with round-to-nearest-even (Go's `float32(x)`) -/
def narrow32 (f : F64) : UInt32 :=
  let s : UInt32 := if f.sign then 0x80000000 else 0
  if f.isNaN then 0x7fc00000 ||| s    -- payload unspecified; the printer canonicalises NaN
  else if f.isInf then s ||| 0x7f800000
  else if f.expo == 0 then s          -- zero and binary64 subnormals are far below binary32's range
  else
    let m := f.mant + 2 ^ 52          -- 53-bit significand, value = m * 2^(expo-1075)
    let e : Int := (f.expo : Int) - 1023
    if e ≥ -126 then
      let q := rshiftRNE m 29         -- 24-bit significand (may carry to 2^24)
      let bits : Nat := ((e + 127).toNat - 1) * 2 ^ 23 + q
      if bits ≥ 0x7f800000 then s ||| 0x7f800000 else s ||| UInt32.ofNat bits
    else
      let sh := 29 + (-126 - e).toNat
      let q := if sh ≥ 64 then 0 else rshiftRNE m sh
      s ||| UInt32.ofNat q

/-! ## byte-level stores and loads, as the code performs them -/

/-- Go: `byte(value >> shift)` — arithmetic shift, then the low eight bits -/
def byteOfI64 (v : I64) (shift : Nat) : UInt8 :=
  UInt8.ofNat ((BitVec.sshiftRight v shift).toInt % 256).toNat

/-- the bytes `writeIntBE/LE`, `PutUint16/32/64` store for `v`, first byte first -/
def intBytes (w : Nat) (bigEndian : Bool) (v : I64) : List UInt8 :=
  (List.range w).map fun i => byteOfI64 v (8 * (if bigEndian then w - 1 - i else i))

/-- `for i … { bb[offset+i] = bs[i] }` -/
def storeAt : List UInt8 → Nat → List UInt8 → List UInt8
  | buf, _, [] => buf
  | buf, off, b :: bs => storeAt (buf.set off b) (off + 1) bs

/-- `value = (value << 8) | bb[offset+i]`, most significant byte first -/
def loadBE (bs : List UInt8) : I64 :=
  bs.foldl (fun acc b => (acc <<< 8) ||| BitVec.ofNat 64 b.toNat) 0

def loadBytes (bigEndian : Bool) (bs : List UInt8) : I64 :=
  loadBE (if bigEndian then bs else bs.reverse)

/-! ## generated facts → descriptor, guards -/

def kindOfConv (coerce conv : String) : Kind :=
  if conv == "f32" then .f32 else if conv == "f64" then .f64
  else if conv == "bigint64" || conv == "biguint64" || coerce == "BigInt" then .bigint
  else .int

def signedOfFacts (m : Generated.MethodFacts) : Bool :=
  if m.dir == "read" then
    m.conv == "signed:int8" || m.conv == "signed:int16" || m.conv == "signed:int32" ||
    m.conv == "signExtend" || m.conv == "bigint64"
  else
    m.conv == "bigint64" ||
    m.rangeFn == "ensureWithinInt16Range" || m.rangeFn == "ensureWithinInt32Range" ||
    m.rangeFn == "ensureWithinIntRange" || m.rangeFn == "writeInt8_valueGuard"

/-- the descriptor the *code* implements, read off the generated facts -/
def descOfFacts (m : Generated.MethodFacts) : Desc :=
  { write := m.dir == "write"
    kind := kindOfConv m.coerce m.conv
    width := if m.offKind == "var" then 0 else m.numBytes
    signed := signedOfFacts m
    bigEndian := m.endian != "LE" }

/-- the generated range guard a write method calls (true = value accepted) -/
def rangeGuard (name : String) (byteLength value : I64) : Bool :=
  if name == "ensureWithinInt16Range" then Generated.ensureWithinInt16Range value
  else if name == "ensureWithinInt32Range" then Generated.ensureWithinInt32Range value
  else if name == "ensureWithinUInt16Range" then Generated.ensureWithinUInt16Range value
  else if name == "ensureWithinUInt32Range" then Generated.ensureWithinUInt32Range value
  else if name == "ensureWithinIntRange" then Generated.ensureWithinIntRange byteLength value
  else if name == "ensureWithinUIntRange" then Generated.ensureWithinUIntRange byteLength value
  else if name == "writeInt8_valueGuard" then Generated.writeInt8_valueGuard value
  else if name == "writeUInt8_valueGuard" then Generated.writeUInt8_valueGuard value
  else true

def lookupFacts (goName : String) : Option Generated.MethodFacts :=
  Generated.bufferMethodFacts.find? (·.goName == goName)

/-- JS method name → Go implementation, from the generated `proto.Set` list -/
def implOf (jsName : String) : Option String :=
  (Generated.bufferProtoSet.find? (·.1 == jsName)).map (·.2)

/-! ## the model of one call -/

structure CallResult where
  out : Outcome JRet
  buf : List UInt8
  deriving Repr, Inhabited

def lenI64 (buf : List UInt8) : I64 := BitVec.ofNat 64 buf.length

/-- offset (and byteLength) coercion + guards, in the code's order.
    Returns (offset, width) as naturals once the guards have passed. -/
def offsetAndWidth (m : Generated.MethodFacts) (buf : List UInt8) (args : List JArg) :
    Outcome (I64 × I64) :=
  if m.offKind == "var" then do
    let offset ← requiredInteger (args.getD m.offIdx .undef)
    let byteLength ← requiredInteger (args.getD (m.offIdx + 1) .undef)
    if Generated.getVariableLengthArguments_guard offset byteLength (lenI64 buf) then
      pure (offset, byteLength)
    else .throw .rangeError
  else do
    let numBytes : I64 := BitVec.ofNat 64 m.numBytes
    let offset ← optionalInteger 0 (args.getD m.offIdx .undef)
    if Generated.getOffsetArgument_guard numBytes offset (lenI64 buf) then
      pure (offset, numBytes)
    else .throw .rangeError

/-- reading `w` bytes at `off`; a Go slice/index expression out of range is a *panic* -/
def sliceAt (buf : List UInt8) (off w : I64) : Outcome (List UInt8) :=
  let o := off.toInt
  let n := w.toInt
  if 0 ≤ o ∧ 0 ≤ n ∧ o + n ≤ buf.length then
    .ok ((buf.drop o.toNat).take n.toNat)
  else .panic "slice bounds out of range"

def signExtendTo (bits : Nat) (v : I64) : I64 :=
  -- Go: int8(x) / int16(x) / int32(x) conversions of the loaded unsigned value
  BitVec.signExtend 64 (BitVec.setWidth bits v)

def readModel (m : Generated.MethodFacts) (buf : List UInt8) (args : List JArg) : CallResult :=
  let d := descOfFacts m
  let out : Outcome JRet := do
    let (off, w) ← offsetAndWidth m buf args
    let bs ← sliceAt buf off w
    let raw := loadBytes d.bigEndian bs
    match d.kind with
    | .f64 => pure (.flt ⟨UInt64.ofNat raw.toNat⟩)
    | .f32 => pure (.flt (widen32 (UInt32.ofNat raw.toNat)))
    | .bigint => pure (.big (if d.signed then raw.toInt else raw.toNat))
    | .int =>
      if m.conv == "signExtend" then pure (.int (Generated.signExtend raw w).toInt)
      else if m.conv == "signed:int8" then pure (.int (signExtendTo 8 raw).toInt)
      else if m.conv == "signed:int16" then pure (.int (signExtendTo 16 raw).toInt)
      else if m.conv == "signed:int32" then pure (.int (signExtendTo 32 raw).toInt)
      else pure (.int raw.toNat)
  ⟨out, buf⟩

def writeCore (m : Generated.MethodFacts) (buf : List UInt8) (args : List JArg) :
    Outcome (JRet × List UInt8) :=
  let d := descOfFacts m
  do
    match d.kind with
    | .int =>
      let value ← requiredInteger (args.getD 0 .undef)
      let (off, w) ← offsetAndWidth m buf args
      if !rangeGuard m.rangeFn w value then .throw .rangeError else
      let _ ← sliceAt buf off w
      let bs := intBytes w.toNat d.bigEndian value
      pure (.int (off + w).toInt, storeAt buf off.toNat bs)
    | .bigint =>
      let value ← requiredBigInt (args.getD 0 .undef)
      let (off, w) ← offsetAndWidth m buf args
      -- big.Int.IsInt64 / IsUint64
      let fits := if d.signed then (-(2 ^ 63 : Int) ≤ value ∧ value < 2 ^ 63) else (0 ≤ value ∧ value < 2 ^ 64)
      if !fits then .throw .rangeError else
      let _ ← sliceAt buf off w
      let bs := intBytes 8 d.bigEndian (i64OfInt value)
      pure (.int (off + w).toInt, storeAt buf off.toNat bs)
    | .f64 =>
      let value ← requiredFloat (args.getD 0 .undef)
      let (off, w) ← offsetAndWidth m buf args
      let _ ← sliceAt buf off w
      let bs := intBytes 8 d.bigEndian (BitVec.ofNat 64 value.bits.toNat)
      pure (.int (off + w).toInt, storeAt buf off.toNat bs)
    | .f32 =>
      let value ← requiredFloat (args.getD 0 .undef)
      let (off, w) ← offsetAndWidth m buf args
      -- ensureWithinFloat32Range: |value| > MaxFloat32 (incl. ±Inf) is rejected, NaN passes
      let tooBig := !value.isNaN && (value.bits &&& 0x7fffffffffffffff) > 0x47efffffe0000000
      if tooBig then .throw .rangeError else
      let _ ← sliceAt buf off w
      let bs := intBytes 4 d.bigEndian (BitVec.ofNat 64 (narrow32 value).toNat)
      pure (.int (off + w).toInt, storeAt buf off.toNat bs)
/-- a call that throws (or panics) has not touched the buffer: every store comes after the last guard -/
def finish (buf : List UInt8) : Outcome (JRet × List UInt8) → CallResult
  | .ok (r, b) => ⟨.ok r, b⟩
  | .throw c => ⟨.throw c, buf⟩
  | .panic p => ⟨.panic p, buf⟩

def writeModel (m : Generated.MethodFacts) (buf : List UInt8) (args : List JArg) : CallResult :=
  finish buf (writeCore m buf args)

/-- the model of `buf[jsName](args…)` -/
def callModel (jsName : String) (buf : List UInt8) (args : List JArg) : Option CallResult := do
  let impl ← implOf jsName
  let m ← lookupFacts impl
  pure (if m.dir == "write" then writeModel m buf args else readModel m buf args)

/-! ## Specification, independent of the code -/

/-- strip a prefix (structural, so that the kernel can evaluate it) -/
def stripPrefix : List Char → List Char → Option (List Char)
  | [], cs => some cs
  | _ :: _, [] => none
  | p :: ps, c :: cs => if p == c then stripPrefix ps cs else none

/-- the alias spelling `Uint` is read as `UInt` -/
def normUint : List Char → List Char
  | 'U' :: 'i' :: 'n' :: 't' :: rest => 'U' :: 'I' :: 'n' :: 't' :: normUint rest
  | c :: rest => c :: normUint rest
  | [] => []

def descOfCore (write : Bool) (core : List Char) (be : Bool) : Option Desc :=
  if core == "Int16".toList then some ⟨write, .int, 2, true, be⟩
  else if core == "UInt16".toList then some ⟨write, .int, 2, false, be⟩
  else if core == "Int32".toList then some ⟨write, .int, 4, true, be⟩
  else if core == "UInt32".toList then some ⟨write, .int, 4, false, be⟩
  else if core == "Int".toList then some ⟨write, .int, 0, true, be⟩
  else if core == "UInt".toList then some ⟨write, .int, 0, false, be⟩
  else if core == "BigInt64".toList then some ⟨write, .bigint, 8, true, be⟩
  else if core == "BigUInt64".toList then some ⟨write, .bigint, 8, false, be⟩
  else if core == "Float".toList then some ⟨write, .f32, 4, false, be⟩
  else if core == "Double".toList then some ⟨write, .f64, 8, false, be⟩
  else none

def descOfRest (write : Bool) (rest : List Char) : Option Desc :=
  let rest := normUint rest
  if rest == "Int8".toList then some ⟨write, .int, 1, true, true⟩
  else if rest == "UInt8".toList then some ⟨write, .int, 1, false, true⟩
  else match rest.reverse with
    | 'E' :: 'B' :: core => descOfCore write core.reverse true
    | 'E' :: 'L' :: core => descOfCore write core.reverse false
    | _ => none

/-- descriptor prescribed by the *name* of the method (Node's documented meaning) -/
def descOfName (jsName : String) : Option Desc :=
  match stripPrefix "read".toList jsName.toList with
  | some r => descOfRest false r
  | none =>
    match stripPrefix "write".toList jsName.toList with
    | some r => descOfRest true r
    | none => none

/-- the `w` least significant base-256 digits of `n`, least significant first -/
def digitsLE (w : Nat) (n : Nat) : List UInt8 :=
  (List.range w).map fun i => UInt8.ofNat ((n / 2 ^ (8 * i)) % 256)

/-- base-256 digits of `x mod 2^(8w)` (two's complement for negative `x`), least significant first -/
def encLE (w : Nat) (x : Int) : List UInt8 :=
  digitsLE w (x % 2 ^ (8 * w)).toNat

def enc (w : Nat) (bigEndian : Bool) (x : Int) : List UInt8 :=
  if bigEndian then (encLE w x).reverse else encLE w x

/-- unsigned value of a little-endian byte string -/
def decLE : List UInt8 → Nat
  | [] => 0
  | b :: bs => b.toNat + 256 * decLE bs

def decUnsigned (bigEndian : Bool) (bs : List UInt8) : Nat :=
  decLE (if bigEndian then bs.reverse else bs)

/-- two's-complement value of a byte string -/
def decSigned (bigEndian : Bool) (bs : List UInt8) : Int :=
  let u := decUnsigned bigEndian bs
  if 2 * u ≥ 2 ^ (8 * bs.length) then (u : Int) - 2 ^ (8 * bs.length) else u

def Representable (signed : Bool) (w : Nat) (x : Int) : Prop :=
  if signed then -(2 ^ (8 * w - 1) : Int) ≤ x ∧ x < 2 ^ (8 * w - 1) else 0 ≤ x ∧ x < 2 ^ (8 * w)

instance (s w x) : Decidable (Representable s w x) := by unfold Representable; infer_instance

def InRange (off w : Int) (len : Nat) : Prop := 0 ≤ off ∧ off + w ≤ len

instance (o w l) : Decidable (InRange o w l) := by unfold InRange; infer_instance

/-- spec of the byte placement: exactly positions off … off+|bs|-1 change -/
def splice (buf : List UInt8) (off : Nat) (bs : List UInt8) : List UInt8 :=
  buf.take off ++ bs ++ buf.drop (off + bs.length)

/-- numeric argument as the property's claim sees it: an integral Number -/
def integralOf : JArg → Option Int
  | .num f => if f.isIntegral then some f.toIntegerClip else none
  | _ => none

/-- The specification of one call, on the claimed domain (`none` = outside the claim:
    fractional / NaN numbers as integer values or as offsets, non-finite offsets). -/
def specCall (jsName : String) (buf : List UInt8) (args : List JArg) : Option CallResult :=
  match descOfName jsName with
  | none => none
  | some d =>
    let offIdx := if d.write then 1 else 0
    -- the offset argument: undefined means 0 for fixed widths; must be an integral number otherwise
    let offArg := args.getD offIdx .undef
    let wArg := args.getD (offIdx + 1) .undef
    let throwT : CallResult := ⟨.throw .typeError, buf⟩   -- RangeError and TypeError are one class here
    -- value argument (writes)
    let valueOK : Option (Option (Int ⊕ F64)) :=          -- none = no claim; some none = must throw
      if !d.write then some (some (.inl 0)) else
      match d.kind, args.getD 0 .undef with
      | .int, .num f => if f.isIntegral then some (some (.inl f.toIntegerClip)) else none
      | .bigint, .big n => some (some (.inl n))
      | .f64, .num f => some (some (.inr f))
      | .f32, .num f =>
        -- magnitudes above the largest float32 are outside the claim
        if !f.isNaN && (f.bits &&& 0x7fffffffffffffff) > 0x47efffffe0000000 then none else some (some (.inr f))
      | _, _ => some none
    match valueOK with
    | none => none
    | some none => some throwT
    | some (some v) =>
      let off? : Option (Option Int) :=
        match offArg with
        | .undef => if d.width == 0 then some none else some (some 0)
        | .num f => if f.isIntegral then some (some f.toIntegerClip) else none
        | _ => some none
      let w? : Option (Option Int) :=
        if d.width != 0 then some (some d.width) else
        match wArg with
        | .num f => if f.isIntegral then some (some f.toIntegerClip) else none
        | _ => some none
      match off?, w? with
      | none, _ => none
      | _, none => none
      | some none, _ => some throwT
      | _, some none => some throwT
      | some (some off), some (some w) =>
        if d.width == 0 ∧ ¬ (1 ≤ w ∧ w ≤ 6) then some throwT
        else if ¬ InRange off w buf.length then some throwT
        else
          let o := off.toNat
          let n := w.toNat
          if d.write then
            match d.kind, v with
            | .int, .inl x =>
              if Representable d.signed n x then
                some ⟨.ok (.int (off + w)), splice buf o (enc n d.bigEndian x)⟩
              else some throwT
            | .bigint, .inl x =>
              if Representable d.signed 8 x then
                some ⟨.ok (.int (off + w)), splice buf o (enc 8 d.bigEndian x)⟩
              else some throwT
            | .f64, .inr f =>
              some ⟨.ok (.int (off + w)), splice buf o (enc 8 d.bigEndian f.bits.toNat)⟩
            | .f32, .inr f =>
              some ⟨.ok (.int (off + w)), splice buf o (enc 4 d.bigEndian (narrow32 f).toNat)⟩
            | _, _ => none
          else
            let bs := (buf.drop o).take n
            match d.kind with
            | .int => some ⟨.ok (.int (if d.signed then decSigned d.bigEndian bs else decUnsigned d.bigEndian bs)), buf⟩
            | .bigint => some ⟨.ok (.big (if d.signed then decSigned d.bigEndian bs else decUnsigned d.bigEndian bs)), buf⟩
            | .f64 => some ⟨.ok (.flt ⟨UInt64.ofNat (decUnsigned d.bigEndian bs)⟩), buf⟩
            | .f32 => some ⟨.ok (.flt (widen32 (UInt32.ofNat (decUnsigned d.bigEndian bs)))), buf⟩

end GN.Buffer
