import GN.Buffer.Codec

/-!
# Properties of the Buffer string codecs   [C11]

Round trips (hex, base64 in both alphabets, UTF-16, UTF-8), leniency of the base64 decoder, the range clamp of
`toString`, the window written by `write`, the cyclic pattern of `fill`, modulo-256 storage of array-likes, and
the character-boundary property of `trimToBoundary`.
-/

namespace GN.Buffer.Codec

/-! ## hex -/

def hexByteOK (x : UInt8) : Bool :=
  unhex? (hexDigitLower (x >>> 4)) == some (x >>> 4) &&
  unhex? (hexDigitLower (x &&& 15)) == some (x &&& 15) &&
  ((x >>> 4) <<< 4 ||| (x &&& 15)) == x

theorem hexByteOK_fin : ∀ n : Fin 256, hexByteOK (UInt8.ofNat n.val) = true := by decide +kernel

theorem hexByteOK_all (x : UInt8) : hexByteOK x = true := by
  have h := hexByteOK_fin ⟨x.toNat, x.toNat_lt⟩
  simpa [UInt8.ofNat_toNat] using h

/-- (1) -/
theorem hex_roundtrip (b : Bytes) : hexDec (hexEnc b) = b := by
  induction b with
  | nil => simp [hexEnc, hexDec]
  | cons x xs ih =>
    have h := hexByteOK_all x
    simp only [hexByteOK, Bool.and_eq_true, beq_iff_eq] at h
    obtain ⟨⟨h1, h2⟩, h3⟩ := h
    simp only [hexEnc, List.flatMap_cons, List.cons_append, List.nil_append, hexDec, h1, h2, h3]
    simpa [hexEnc] using ih

/-! ## base64 -/

def b64ByteOK (x : UInt8) : Bool :=
  -- sextets are in range
  (x >>> 2) >>> 6 == 0 && ((x &&& 3) <<< 4) >>> 6 == 0 && (x >>> 4) >>> 6 == 0 &&
  ((x &&& 15) <<< 2) >>> 6 == 0 && (x >>> 6) >>> 6 == 0 && (x &&& 63) >>> 6 == 0 &&
  -- recombination
  ((x &&& 3) <<< 4) >>> 4 == x &&& 3 && (x >>> 4) >>> 4 == 0 && ((x >>> 2) <<< 2 ||| x &&& 3) == x &&
  ((x &&& 3) <<< 4) <<< 4 == 0 && (x >>> 6) >>> 2 == 0 && ((x >>> 4) <<< 4 ||| ((x &&& 15) <<< 2) >>> 2) == x &&
  ((x &&& 15) <<< 2) <<< 6 == 0 && ((x >>> 6) <<< 6 ||| x &&& 63) == x &&
  -- characters
  (x >>> 6 != 0 || (sextet? (b64StdChar x) == some x && sextet? (b64UrlChar x) == some x))

theorem b64ByteOK_fin : ∀ n : Fin 256, b64ByteOK (UInt8.ofNat n.val) = true := by decide +kernel

theorem b64ByteOK_all (x : UInt8) : b64ByteOK x = true := by
  have h := b64ByteOK_fin ⟨x.toNat, x.toNat_lt⟩
  simpa [UInt8.ofNat_toNat] using h

/-- the two alphabets -/
def IsAlphabet (ch : UInt8 → UInt8) : Prop := ∀ n : UInt8, n >>> 6 = 0 → sextet? (ch n) = some n

theorem std_isAlphabet : IsAlphabet b64StdChar := by
  intro n hn
  have h := b64ByteOK_all n
  simp [b64ByteOK, hn] at h
  exact h.2.1

theorem url_isAlphabet : IsAlphabet b64UrlChar := by
  intro n hn
  have h := b64ByteOK_all n
  simp [b64ByteOK, hn] at h
  exact h.2.2

theorem sextets_small (a b : UInt8) :
    (a >>> 2) >>> 6 = 0 ∧ ((a &&& 3) <<< 4 ||| b >>> 4) >>> 6 = 0 ∧ ((a &&& 15) <<< 2 ||| b >>> 6) >>> 6 = 0 ∧
    (a &&& 63) >>> 6 = 0 ∧ ((a &&& 3) <<< 4) >>> 6 = 0 ∧ ((a &&& 15) <<< 2) >>> 6 = 0 := by
  have ha := b64ByteOK_all a
  have hb := b64ByteOK_all b
  simp only [b64ByteOK, Bool.and_eq_true, beq_iff_eq] at ha hb
  simp only [UInt8.shiftRight_or]
  simp [ha, hb]

theorem quantum4 (a b c : UInt8) :
    quantumBytes [a >>> 2, (a &&& 3) <<< 4 ||| b >>> 4, (b &&& 15) <<< 2 ||| c >>> 6, c &&& 63] = [a, b, c] := by
  have ha := b64ByteOK_all a
  have hb := b64ByteOK_all b
  have hc := b64ByteOK_all c
  simp only [b64ByteOK, Bool.and_eq_true, beq_iff_eq] at ha hb hc
  simp only [quantumBytes, UInt8.shiftRight_or, UInt8.shiftLeft_or]
  simp [ha, hb, hc]

theorem quantum3 (a b : UInt8) :
    quantumBytes [a >>> 2, (a &&& 3) <<< 4 ||| b >>> 4, (b &&& 15) <<< 2] = [a, b] := by
  have ha := b64ByteOK_all a
  have hb := b64ByteOK_all b
  simp only [b64ByteOK, Bool.and_eq_true, beq_iff_eq] at ha hb
  simp only [quantumBytes, UInt8.shiftRight_or, UInt8.shiftLeft_or]
  simp [ha, hb]

theorem quantum2 (a : UInt8) :
    quantumBytes [a >>> 2, (a &&& 3) <<< 4] = [a] := by
  have ha := b64ByteOK_all a
  simp only [b64ByteOK, Bool.and_eq_true, beq_iff_eq] at ha
  simp [quantumBytes, ha]

theorem sextet?_pad : sextet? 61 = none := by decide
theorem isNL_pad : isNL 61 = false := by decide

theorem b64_roundtrip_with (ch : UInt8 → UInt8) (hch : IsAlphabet ch) (pad : Bool) (b : Bytes) :
    b64Dec (b64EncWith ch pad b) = b := by
  unfold b64Dec
  fun_induction b64EncWith ch pad b with
  | case1 a b c rest ih =>
    have hs := sextets_small a b
    have hs' := sextets_small b c
    have hs'' := sextets_small c c
    simp only [b64DecGo, hch _ hs.1, hch _ hs.2.1, hch _ hs'.2.2.1, hch _ hs''.2.2.2.1, List.length_nil,
      List.length_cons, List.nil_append, List.cons_append, ih, quantum4]
    simp
  | case2 a b =>
    have hs := sextets_small a b
    have hs' := sextets_small b b
    cases pad <;>
    simp [b64DecGo, hch _ hs.1, hch _ hs.2.1, hch _ hs'.2.2.2.2.2, quantum3, sextet?_pad, isNL_pad]
  | case3 a =>
    have hs := sextets_small a a
    cases pad <;>
    simp [b64DecGo, hch _ hs.1, hch _ hs.2.2.2.2.1, quantum2, sextet?_pad, isNL_pad]
  | case4 => simp [b64DecGo, quantumBytes]

/-- (2) -/
theorem b64_roundtrip (b : Bytes) : b64Dec (b64Enc b) = b := b64_roundtrip_with _ std_isAlphabet _ b
/-- (3) -/
theorem b64url_roundtrip (b : Bytes) : b64Dec (b64UrlEnc b) = b := b64_roundtrip_with _ url_isAlphabet _ b

/-- (4) -/
theorem b64Dec_skips_newlines (post : Bytes) (c : UInt8) (q : List UInt8) (h : isNL c = true) :
    b64DecGo (c :: post) q = b64DecGo post q := by
  have hs : sextet? c = none := by
    simp only [isNL, Bool.or_eq_true, decide_eq_true_eq] at h
    rcases h with h | h <;> subst h <;> decide
  simp [b64DecGo, hs, h]


/-! ## UTF-16 -/

theorem char_range (c : Char) : c.toNat < 0xD800 ∨ (0xDFFF < c.toNat ∧ c.toNat < 0x110000) := by
  have hv := c.valid
  unfold UInt32.isValidChar Nat.isValidChar at hv
  exact hv

theorem char_ofNat_toNat (c : Char) : Char.ofNat c.toNat = c := by
  simp

theorem utf16ToScalars_single (c : Char) (h : c.toNat < 0x10000) (rest : List UInt16) :
    utf16ToScalars (UInt16.ofNat c.toNat :: rest) = c :: utf16ToScalars rest := by
  have hv := char_range c
  have hn : (UInt16.ofNat c.toNat).toNat = c.toNat := by
    simp only [UInt16.toNat_ofNat']; omega
  have h1 : ¬ ((0xD800 : UInt16) ≤ UInt16.ofNat c.toNat ∧ UInt16.ofNat c.toNat < 0xDC00) := by
    simp only [UInt16.le_iff_toNat_le, UInt16.lt_iff_toNat_lt, hn]
    simp
    omega
  have h2 : ¬ ((0xDC00 : UInt16) ≤ UInt16.ofNat c.toNat ∧ UInt16.ofNat c.toNat < 0xE000) := by
    simp only [UInt16.le_iff_toNat_le, UInt16.lt_iff_toNat_lt, hn]
    simp
    omega
  conv => lhs; rw [utf16ToScalars.eq_def]
  simp only [Bool.and_eq_true, decide_eq_true_eq, h1, h2, if_false, hn, char_ofNat_toNat]

theorem utf16ToScalars_pair (c : Char) (h : ¬ c.toNat < 0x10000) (rest : List UInt16) :
    utf16ToScalars (UInt16.ofNat (0xD800 + (c.toNat - 0x10000) / 0x400) ::
      UInt16.ofNat (0xDC00 + (c.toNat - 0x10000) % 0x400) :: rest) = c :: utf16ToScalars rest := by
  have hv := char_range c
  have hn1 : (UInt16.ofNat (0xD800 + (c.toNat - 0x10000) / 0x400)).toNat = 0xD800 + (c.toNat - 0x10000) / 0x400 := by
    simp only [UInt16.toNat_ofNat']; omega
  have hn2 : (UInt16.ofNat (0xDC00 + (c.toNat - 0x10000) % 0x400)).toNat = 0xDC00 + (c.toNat - 0x10000) % 0x400 := by
    simp only [UInt16.toNat_ofNat']; omega
  have h1 : ((0xD800 : UInt16) ≤ UInt16.ofNat (0xD800 + (c.toNat - 0x10000) / 0x400) ∧
      UInt16.ofNat (0xD800 + (c.toNat - 0x10000) / 0x400) < 0xDC00) := by
    simp only [UInt16.le_iff_toNat_le, UInt16.lt_iff_toNat_lt, hn1]
    simp
    omega
  have h2 : ((0xDC00 : UInt16) ≤ UInt16.ofNat (0xDC00 + (c.toNat - 0x10000) % 0x400) ∧
      UInt16.ofNat (0xDC00 + (c.toNat - 0x10000) % 0x400) < 0xE000) := by
    simp only [UInt16.le_iff_toNat_le, UInt16.lt_iff_toNat_lt, hn2]
    simp
    omega
  have h3 : 0x10000 + (0xD800 + (c.toNat - 0x10000) / 0x400 - 0xD800) * 0x400 +
      (0xDC00 + (c.toNat - 0x10000) % 0x400 - 0xDC00) = c.toNat := by omega
  conv => lhs; rw [utf16ToScalars.eq_def]
  simp only [Bool.and_eq_true, decide_eq_true_eq, h1, h2, and_self, if_true, hn1, hn2, h3, char_ofNat_toNat]

/-- (5) -/
theorem utf16_roundtrip (cs : List Char) : utf16ToScalars (scalarsToUtf16 cs) = cs := by
  induction cs with
  | nil => simp [scalarsToUtf16, utf16ToScalars]
  | cons c cs ih =>
    unfold scalarsToUtf16 at ih ⊢
    simp only [List.flatMap_cons]
    split
    · simp only [List.cons_append, List.nil_append]
      rw [utf16ToScalars_single c ‹_›, ih]
    · simp only [List.cons_append, List.nil_append]
      rw [utf16ToScalars_pair c ‹_›, ih]

/-! ## toString range -/

/-- (6) -/
theorem toStringRange_eq (e : Enc) (b : Bytes) (start stop : Int) :
    toStringRange e b start stop =
      let s := max start 0
      let t := min stop b.length
      if s ≥ b.length ∨ stop < 0 ∨ s ≥ stop then [] else encode e ((b.drop s.toNat).take (t - s).toNat) := by
  have hs : (if start < 0 then 0 else start) = max start 0 := by
    split <;> omega
  have ht : (if stop > b.length then (b.length : Int) else stop) = min stop b.length := by
    split <;> omega
  simp only [toStringRange, hs, ht, Bool.or_eq_true, decide_eq_true_eq]
  by_cases h1 : max start 0 ≥ (b.length : Int)
  · simp [h1]
  · by_cases h2 : stop < 0 ∨ max start 0 ≥ stop
    · simp [h1, h2]
    · simp [h1, h2]

/-- the range read by `toStringRange` lies inside the buffer -/
theorem toStringRange_in_bounds (b : Bytes) (start stop : Int)
    (h : ¬ (max start 0 ≥ b.length ∨ stop < 0 ∨ max start 0 ≥ stop)) :
    (max start 0).toNat + (min stop b.length - max start 0).toNat ≤ b.length := by
  omega

/-! ## write -/

theorem back_le (raw : Bytes) (k fuel : Nat) : trimToBoundary.back raw k fuel ≤ k := by
  induction fuel generalizing k with
  | zero => simp [trimToBoundary.back]
  | succ f ih =>
    unfold trimToBoundary.back
    split
    · have := ih (k - 1); omega
    · omega

theorem trimToBoundary_le (raw : Bytes) (n : Nat) : trimToBoundary raw n ≤ n ∧ trimToBoundary raw n ≤ raw.length := by
  unfold trimToBoundary
  split
  · omega
  · have := back_le raw n 4; omega

/-- (7) -/
theorem write_spec (e : Enc) (buf : Bytes) (s : List UInt16) (offset length : Nat) (ho : offset ≤ buf.length) :
    let r := write e buf s offset length
    r.1 ≤ buf.length - offset ∧ r.1 ≤ length ∧ r.2.length = buf.length ∧
    (r.2.drop offset).take r.1 = (decode e s).take r.1 ∧
    r.2.take offset = buf.take offset ∧ r.2.drop (offset + r.1) = buf.drop (offset + r.1) := by
  intro r
  generalize hraw : decode e s = raw
  generalize hlen : (if length > buf.length - offset then buf.length - offset else length) = len
  have hlen1 : len ≤ buf.length - offset := by subst hlen; split <;> omega
  have hlen2 : len ≤ length := by subst hlen; split <;> omega
  generalize hn : (if raw.length ≤ len then raw.length else if e == .utf8 then trimToBoundary raw len else len) = n
  have hn1 : n ≤ len ∧ n ≤ raw.length := by
    subst hn
    have := trimToBoundary_le raw len
    split
    · omega
    · split <;> omega
  have hr : r = (n, buf.take offset ++ raw.take n ++ buf.drop (offset + n)) := by
    simp only [r, write, hraw, hlen, hn]
  rw [hr]
  have htl : (List.take offset buf).length = offset := by simp; omega
  have hrl : (List.take n raw).length = n := by simp; omega
  refine ⟨by omega, by omega, ?_, ?_, ?_, ?_⟩
  · simp; omega
  · simp only [List.append_assoc]
    rw [List.drop_append_of_le_length (by omega), List.drop_of_length_le (by omega), List.nil_append,
      List.take_append_of_le_length (by omega), List.take_of_length_le (by omega)]
  · simp only [List.append_assoc]
    rw [List.take_append_of_le_length (by omega), List.take_of_length_le (by omega)]
  · rw [List.drop_append, List.drop_of_length_le (by simp; omega)]
    simp [htl, hrl]

/-! ## fill -/

/-- (8) -/
theorem fill_spec (e : Enc) (size : Nat) (s : List UInt16) :
    (fill e size s).length = size ∧
    ∀ i, i < size → (fill e size s)[i]? =
      some (if (decode e s).isEmpty then 0 else (decode e s).getD (i % (decode e s).length) 0) := by
  unfold fill
  generalize decode e s = pat
  by_cases hp : pat.isEmpty
  · simp only [hp, if_true, List.length_replicate, true_and]
    intro i hi
    simp [hi]
  · simp only [hp, Bool.false_eq_true, if_false, List.length_map, List.length_range, true_and]
    intro i hi
    simp [hi]

/-! ## array-like -/

/-- (9) -/
theorem fromArrayLike_spec (vals : List Int) (i : Nat) (v : Int) (h : vals[i]? = some v) :
    ((fromArrayLike vals)[i]?).map (·.toNat) = some (v % 256).toNat := by
  simp only [fromArrayLike, List.getElem?_map, h, Option.map_some, UInt8.toNat_ofNat']
  congr 1
  omega


/-! ## UTF-8 -/

theorem byteArray_toList_loop (bs : ByteArray) (i : Nat) (r : List UInt8) :
    ByteArray.toList.loop bs i r = r.reverse ++ bs.data.toList.drop i := by
  fun_induction ByteArray.toList.loop bs i r with
  | case1 i r h ih =>
    rw [ih]
    have hi : i < bs.data.toList.length := by simpa using h
    rw [List.drop_eq_getElem_cons hi]
    have : bs.get! i = bs.data.toList[i] := by
      cases bs with | mk d =>
      simp only [ByteArray.get!]
      have : i < d.size := by simpa using hi
      simp [this]
    simp [this]
  | case2 i r h =>
    have : bs.data.toList.length ≤ i := by
      have h2 : bs.size = bs.data.toList.length := by
        cases bs with | mk d => simp only [ByteArray.size, Array.length_toList]
      omega
    simp [List.drop_of_length_le this]

theorem byteArray_toList (bs : ByteArray) : bs.toList = bs.data.toList := by
  simp [ByteArray.toList, byteArray_toList_loop]

/-- the bytes of a string of scalar values, character by character -/
theorem utf8_bytes (cs : List Char) :
    (String.ofList cs).toUTF8.toList = cs.flatMap String.utf8EncodeChar := by
  simp [byteArray_toList, List.utf8Encode]


theorem dec1 (f : Nat) (b0 : UInt8) (rest : Bytes) (h : b0.toNat < 0x80) :
    utf8DecReplF (f + 1) (b0 :: rest) = Char.ofNat b0.toNat :: utf8DecReplF f rest := by
  have h0 : b0 < 0x80 := by simpa [UInt8.lt_iff_toNat_lt] using h
  simp [utf8DecReplF, h0]

theorem dec2 (f : Nat) (b0 b1 : UInt8) (rest : Bytes) (h0 : 0xC2 ≤ b0.toNat ∧ b0.toNat ≤ 0xDF)
    (h1 : 0x80 ≤ b1.toNat ∧ b1.toNat ≤ 0xBF) :
    utf8DecReplF (f + 1) (b0 :: b1 :: rest) =
      Char.ofNat ((b0.toNat - 0xC0) * 64 + (b1.toNat - 0x80)) :: utf8DecReplF f rest := by
  have e0 : ¬ b0 < 0x80 := by simp [UInt8.lt_iff_toNat_lt]; omega
  have e1 : (0xC2 : UInt8) ≤ b0 ∧ b0 ≤ 0xDF := by simpa [UInt8.le_iff_toNat_le] using h0
  have e2 : (0x80 : UInt8) ≤ b1 ∧ b1 ≤ 0xBF := by simpa [UInt8.le_iff_toNat_le] using h1
  simp [utf8DecReplF, e0, e1, e2]


theorem dec3 (f : Nat) (b0 b1 b2 : UInt8) (rest : Bytes) (h0 : 0xE0 ≤ b0.toNat ∧ b0.toNat ≤ 0xEF)
    (h1 : 0x80 ≤ b1.toNat ∧ b1.toNat ≤ 0xBF) (h1a : b0.toNat = 0xE0 → 0xA0 ≤ b1.toNat)
    (h1b : b0.toNat = 0xED → b1.toNat ≤ 0x9F) (h2 : 0x80 ≤ b2.toNat ∧ b2.toNat ≤ 0xBF) :
    utf8DecReplF (f + 1) (b0 :: b1 :: b2 :: rest) =
      Char.ofNat ((b0.toNat - 0xE0) * 4096 + (b1.toNat - 0x80) * 64 + (b2.toNat - 0x80)) ::
        utf8DecReplF f rest := by
  have e0 : ¬ b0 < 0x80 := by simp [UInt8.lt_iff_toNat_lt]; omega
  have e1 : ¬ ((0xC2 : UInt8) ≤ b0 ∧ b0 ≤ 0xDF) := by simp [UInt8.le_iff_toNat_le]; omega
  have e2 : (0xE0 : UInt8) ≤ b0 ∧ b0 ≤ 0xEF := by simpa [UInt8.le_iff_toNat_le] using h0
  have e3 : (if b0 = 0xE0 then (0xA0 : UInt8) else 0x80) ≤ b1 ∧ b1 ≤ (if b0 = 0xED then (0x9F : UInt8) else 0xBF) := by
    simp only [← UInt8.toNat_inj, UInt8.le_iff_toNat_le]
    constructor <;> split <;> simp_all <;> omega
  have e4 : (0x80 : UInt8) ≤ b2 ∧ b2 ≤ 0xBF := by simpa [UInt8.le_iff_toNat_le] using h2
  simp [utf8DecReplF, e0, e1, e2, e3, e4]

theorem dec4 (f : Nat) (b0 b1 b2 b3 : UInt8) (rest : Bytes) (h0 : 0xF0 ≤ b0.toNat ∧ b0.toNat ≤ 0xF4)
    (h1 : 0x80 ≤ b1.toNat ∧ b1.toNat ≤ 0xBF) (h1a : b0.toNat = 0xF0 → 0x90 ≤ b1.toNat)
    (h1b : b0.toNat = 0xF4 → b1.toNat ≤ 0x8F) (h2 : 0x80 ≤ b2.toNat ∧ b2.toNat ≤ 0xBF)
    (h3 : 0x80 ≤ b3.toNat ∧ b3.toNat ≤ 0xBF) :
    utf8DecReplF (f + 1) (b0 :: b1 :: b2 :: b3 :: rest) =
      Char.ofNat ((b0.toNat - 0xF0) * 262144 + (b1.toNat - 0x80) * 4096 + (b2.toNat - 0x80) * 64 +
        (b3.toNat - 0x80)) :: utf8DecReplF f rest := by
  have e0 : ¬ b0 < 0x80 := by simp [UInt8.lt_iff_toNat_lt]; omega
  have e1 : ¬ ((0xC2 : UInt8) ≤ b0 ∧ b0 ≤ 0xDF) := by simp [UInt8.le_iff_toNat_le]; omega
  have e1' : ¬ ((0xE0 : UInt8) ≤ b0 ∧ b0 ≤ 0xEF) := by simp [UInt8.le_iff_toNat_le]; omega
  have e2 : (0xF0 : UInt8) ≤ b0 ∧ b0 ≤ 0xF4 := by simpa [UInt8.le_iff_toNat_le] using h0
  have e3 : (if b0 = 0xF0 then (0x90 : UInt8) else 0x80) ≤ b1 ∧ b1 ≤ (if b0 = 0xF4 then (0x8F : UInt8) else 0xBF) := by
    simp only [← UInt8.toNat_inj, UInt8.le_iff_toNat_le]
    constructor <;> split <;> simp_all <;> omega
  have e4 : (0x80 : UInt8) ≤ b2 ∧ b2 ≤ 0xBF := by simpa [UInt8.le_iff_toNat_le] using h2
  have e5 : (0x80 : UInt8) ≤ b3 ∧ b3 ≤ 0xBF := by simpa [UInt8.le_iff_toNat_le] using h3
  simp [utf8DecReplF, e0, e1, e1', e2, e3, e4, e5]


theorem dec_enc_char (f : Nat) (c : Char) (rest : Bytes) :
    utf8DecReplF (f + 1) (String.utf8EncodeChar c ++ rest) = c :: utf8DecReplF f rest := by
  have hr := char_range c
  have hc := char_ofNat_toNat c
  unfold String.utf8EncodeChar
  have hn : c.val.toNat = c.toNat := rfl
  simp only [hn]
  generalize c.toNat = n at *
  split
  · rw [List.cons_append, List.nil_append, dec1 _ _ _ (by simp only [UInt8.toNat_ofNat']; omega)]
    simp only [UInt8.toNat_ofNat']
    rw [show n % 2 ^ 8 = n by omega, hc]
  · split
    · simp only [List.cons_append, List.nil_append]
      rw [dec2 _ _ _ _ (by simp only [UInt8.toNat_ofNat']; omega) (by simp only [UInt8.toNat_ofNat']; omega)]
      simp only [UInt8.toNat_ofNat']
      rw [show ((n / 64 % 32 + 192) % 2 ^ 8 - 192) * 64 + ((n % 64 + 128) % 2 ^ 8 - 128) = n by omega, hc]
    · split
      · simp only [List.cons_append, List.nil_append]
        rw [dec3 _ _ _ _ _ (by simp only [UInt8.toNat_ofNat']; omega) (by simp only [UInt8.toNat_ofNat']; omega)
          (by simp only [UInt8.toNat_ofNat']; omega) (by simp only [UInt8.toNat_ofNat']; omega)
          (by simp only [UInt8.toNat_ofNat']; omega)]
        simp only [UInt8.toNat_ofNat']
        rw [show ((n / 4096 % 16 + 224) % 2 ^ 8 - 224) * 4096 + ((n / 64 % 64 + 128) % 2 ^ 8 - 128) * 64 +
          ((n % 64 + 128) % 2 ^ 8 - 128) = n by omega, hc]
      · simp only [List.cons_append, List.nil_append]
        rw [dec4 _ _ _ _ _ _ (by simp only [UInt8.toNat_ofNat']; omega) (by simp only [UInt8.toNat_ofNat']; omega)
          (by simp only [UInt8.toNat_ofNat']; omega) (by simp only [UInt8.toNat_ofNat']; omega)
          (by simp only [UInt8.toNat_ofNat']; omega) (by simp only [UInt8.toNat_ofNat']; omega)]
        simp only [UInt8.toNat_ofNat']
        rw [show ((n / 262144 % 8 + 240) % 2 ^ 8 - 240) * 262144 + ((n / 4096 % 64 + 128) % 2 ^ 8 - 128) * 4096 +
          ((n / 64 % 64 + 128) % 2 ^ 8 - 128) * 64 + ((n % 64 + 128) % 2 ^ 8 - 128) = n by omega, hc]


theorem utf8DecReplF_enc (cs : List Char) :
    ∀ f, (cs.flatMap String.utf8EncodeChar).length < f →
      utf8DecReplF f (cs.flatMap String.utf8EncodeChar) = cs := by
  induction cs with
  | nil => intro f hf; cases f with
    | zero => simp at hf
    | succ f => simp [utf8DecReplF]
  | cons c cs ih =>
    intro f hf
    cases f with
    | zero => simp at hf
    | succ f =>
      simp only [List.flatMap_cons, List.length_append] at hf ⊢
      have hpos : 0 < (String.utf8EncodeChar c).length := by
        have := c.utf8Size_pos
        simpa using this
      rw [dec_enc_char, ih f (by omega)]

/-- (10) decoding the UTF-8 encoding of scalar values gives them back -/
theorem utf8_roundtrip_scalars (cs : List Char) : utf8DecRepl (String.ofList cs).toUTF8.toList = cs := by
  rw [utf8_bytes]
  exact utf8DecReplF_enc cs _ (Nat.lt_succ_self _)

/-- (10) hence `Buffer.from(b.toString('utf8'), 'utf8')` has the bytes of `b` for well-formed `b` -/
theorem utf8_roundtrip (cs : List Char) :
    utf8OfJs (scalarsToUtf16 (utf8DecRepl (String.ofList cs).toUTF8.toList)) = (String.ofList cs).toUTF8.toList := by
  rw [utf8_roundtrip_scalars, utf8OfJs, utf16_roundtrip]

/-! ## character boundaries -/

/-- is `b` a UTF-8 continuation byte (the test `trimToBoundary` uses) -/
def isCont (b : UInt8) : Bool := b &&& 0xC0 == 0x80

theorem isCont_fin : ∀ n : Fin 256, isCont (UInt8.ofNat n.val) = (decide (0x80 ≤ n.val) && decide (n.val ≤ 0xBF)) := by
  decide +kernel

theorem isCont_eq (b : UInt8) : isCont b = (decide (0x80 ≤ b.toNat) && decide (b.toNat ≤ 0xBF)) := by
  have h := isCont_fin ⟨b.toNat, b.toNat_lt⟩
  simpa [UInt8.ofNat_toNat] using h

theorem isCont_ofNat (x : Nat) (h : x < 256) : isCont (UInt8.ofNat x) = (decide (0x80 ≤ x) && decide (x ≤ 0xBF)) := by
  rw [isCont_eq, UInt8.toNat_ofNat', Nat.mod_eq_of_lt h]

theorem back_succ (raw : Bytes) (k fuel : Nat) :
    trimToBoundary.back raw k (fuel + 1) =
      if k > 0 ∧ isCont (raw.getD k 0) = true then trimToBoundary.back raw (k - 1) fuel else k := by
  rw [trimToBoundary.back]
  simp [isCont]

theorem trimToBoundary_lt (raw : Bytes) (n : Nat) (h : n < raw.length) :
    trimToBoundary raw n = trimToBoundary.back raw n 4 := by
  unfold trimToBoundary
  rw [if_neg (by omega)]

theorem trimToBoundary_ge (raw : Bytes) (n : Nat) (h : raw.length ≤ n) :
    trimToBoundary raw n = raw.length := by
  unfold trimToBoundary
  rw [if_pos h]

/-- the encoding of a scalar value: a non-continuation byte followed by at most three continuation bytes -/
theorem enc_shape (c : Char) :
    ∃ b0 tl, String.utf8EncodeChar c = b0 :: tl ∧ isCont b0 = false ∧ tl.length ≤ 3 ∧ ∀ b ∈ tl, isCont b = true := by
  have hr := char_range c
  unfold String.utf8EncodeChar
  have hn : c.val.toNat = c.toNat := rfl
  simp only [hn]
  generalize c.toNat = n at *
  split
  · refine ⟨_, _, rfl, ?_, by simp, by simp⟩
    rw [isCont_ofNat _ (by omega)]; simp <;> omega
  · split
    · refine ⟨_, _, rfl, ?_, by simp, ?_⟩
      · rw [isCont_ofNat _ (by omega)]; simp <;> omega
      · intro b hb
        simp only [List.mem_cons, List.not_mem_nil, or_false] at hb
        subst hb
        rw [isCont_ofNat _ (by omega)]; simp <;> omega
    · split
      · refine ⟨_, _, rfl, ?_, by simp, ?_⟩
        · rw [isCont_ofNat _ (by omega)]; simp <;> omega
        · intro b hb
          simp only [List.mem_cons, List.not_mem_nil, or_false] at hb
          rcases hb with hb | hb <;> subst hb <;> rw [isCont_ofNat _ (by omega)] <;> simp <;> omega
      · refine ⟨_, _, rfl, ?_, by simp, ?_⟩
        · rw [isCont_ofNat _ (by omega)]; simp <;> omega
        · intro b hb
          simp only [List.mem_cons, List.not_mem_nil, or_false] at hb
          rcases hb with hb | hb | hb <;> subst hb <;> rw [isCont_ofNat _ (by omega)] <;> simp <;> omega

theorem back_shift (pre rest : Bytes) (hrest : isCont (rest.getD 0 0) = false) (fuel : Nat) :
    ∀ k, pre.length ≤ k →
      trimToBoundary.back (pre ++ rest) k fuel = pre.length + trimToBoundary.back rest (k - pre.length) fuel := by
  induction fuel with
  | zero => intro k hk; simp [trimToBoundary.back]; omega
  | succ f ih =>
    intro k hk
    rw [back_succ, back_succ]
    have hg : (pre ++ rest).getD k 0 = rest.getD (k - pre.length) 0 := by
      simp only [List.getD_eq_getElem?_getD]
      rw [List.getElem?_append_right hk]
    rw [hg]
    by_cases hk' : k = pre.length
    · subst hk'
      rw [Nat.sub_self, hrest]
      simp
    · have h1 : k > 0 := by omega
      have h2 : k - pre.length > 0 := by omega
      simp only [h1, h2, true_and]
      split
      · rw [ih (k - 1) (by omega)]
        congr 2
        omega
      · omega

theorem back_zero (b0 : UInt8) (tl rest : Bytes) (htl : ∀ b ∈ tl, isCont b = true) (fuel : Nat) :
    ∀ k, k < fuel → k ≤ tl.length → trimToBoundary.back (b0 :: tl ++ rest) k fuel = 0 := by
  induction fuel with
  | zero => intro k hk; omega
  | succ f ih =>
    intro k hk hkl
    rw [back_succ]
    cases k with
    | zero => simp
    | succ k =>
      have hg : (b0 :: tl ++ rest).getD (k + 1) 0 = tl[k]'(by omega) := by
        simp only [List.getD_eq_getElem?_getD, List.cons_append, List.getElem?_cons_succ]
        rw [List.getElem?_append_left (by omega)]
        simp [List.getElem?_eq_getElem (show k < tl.length by omega)]
      rw [hg, htl _ (List.getElem_mem _)]
      simp only [Nat.add_sub_cancel, Nat.zero_lt_succ, and_self, if_true]
      exact ih k (by omega) (by omega)

theorem head_not_cont (cs : List Char) : isCont ((cs.flatMap String.utf8EncodeChar).getD 0 0) = false := by
  cases cs with
  | nil => simp [isCont]
  | cons c cs =>
    obtain ⟨b0, tl, he, h0, -, -⟩ := enc_shape c
    simp [List.flatMap_cons, he, h0]

theorem trim_flatMap (cs : List Char) : ∀ n, ∃ k,
    (cs.flatMap String.utf8EncodeChar).take (trimToBoundary (cs.flatMap String.utf8EncodeChar) n) =
      (cs.take k).flatMap String.utf8EncodeChar := by
  induction cs with
  | nil => intro n; exact ⟨0, by simp⟩
  | cons c cs ih =>
    intro n
    simp only [List.flatMap_cons]
    generalize hrest : cs.flatMap String.utf8EncodeChar = rest at ih
    by_cases hn : (String.utf8EncodeChar c ++ rest).length ≤ n
    · refine ⟨cs.length + 1, ?_⟩
      rw [trimToBoundary_ge _ _ hn, List.take_length]
      simp [List.flatMap_cons, hrest]
    · rw [trimToBoundary_lt _ _ (by omega)]
      obtain ⟨b0, tl, he, h0, hl, htl⟩ := enc_shape c
      by_cases hn' : n < (String.utf8EncodeChar c).length
      · refine ⟨0, ?_⟩
        rw [he] at hn' ⊢
        simp only [List.length_cons] at hn'
        rw [back_zero b0 tl rest htl 4 n (by omega) (by omega)]
        simp
      · have hrc : isCont (rest.getD 0 0) = false := by rw [← hrest]; exact head_not_cont cs
        rw [back_shift _ rest hrc 4 n (by omega)]
        obtain ⟨k, hk⟩ := ih (n - (String.utf8EncodeChar c).length)
        rw [trimToBoundary_lt _ _ (by simp only [List.length_append] at hn; omega)] at hk
        refine ⟨k + 1, ?_⟩
        rw [List.take_succ_cons, List.flatMap_cons, ← hk, List.take_length_add_append]

/-- (11) `buf.write` never stores part of a multi-byte sequence: the prefix kept by `trimToBoundary` of the UTF-8
encoding of scalar values is again the encoding of a prefix of them -/
theorem trim_is_char_boundary (cs : List Char) (n : Nat) :
    ∃ k, ((String.ofList cs).toUTF8.toList).take (trimToBoundary (String.ofList cs).toUTF8.toList n) =
      (String.ofList (cs.take k)).toUTF8.toList := by
  simp only [utf8_bytes]
  exact trim_flatMap cs n

/-- every well-formed UTF-8 byte string is the encoding of a list of scalar values -/
theorem validUtf8_iff (b : Bytes) : validUtf8 b = true ↔ ∃ cs : List Char, b = (String.ofList cs).toUTF8.toList := by
  unfold validUtf8 String.fromUTF8?
  constructor
  · intro h
    split at h
    · next hv =>
      obtain ⟨m, hm⟩ := hv
      refine ⟨m, ?_⟩
      rw [utf8_bytes]
      have := congrArg (fun x => x.data.toList) hm
      simpa [List.utf8Encode] using this
    · simp at h
  · rintro ⟨cs, rfl⟩
    have hv : (ByteArray.mk (String.ofList cs).toUTF8.toList.toArray).IsValidUTF8 := by
      refine ⟨cs, ?_⟩
      apply ByteArray.ext
      simp [byteArray_toList]
    rw [dif_pos hv]
    rfl

/-- `Buffer.from(b.toString('utf8'), 'utf8')` has the bytes of `b`, for every well-formed `b` -/
theorem utf8_roundtrip_valid (b : Bytes) (h : validUtf8 b = true) : decode .utf8 (encode .utf8 b) = b := by
  obtain ⟨cs, rfl⟩ := (validUtf8_iff b).1 h
  exact utf8_roundtrip cs

/-- `buf.write(str, offset, length, 'utf8')` stores whole characters only -/
theorem write_utf8_whole_chars (buf : Bytes) (s : List UInt16) (offset length : Nat) :
    ∃ k, (decode .utf8 s).take (write .utf8 buf s offset length).1 =
      (String.ofList ((utf16ToScalars s).take k)).toUTF8.toList := by
  simp only [write, decode, utf8OfJs, beq_self_eq_true, if_true]
  generalize (if length > buf.length - offset then buf.length - offset else length) = len
  split
  · exact ⟨(utf16ToScalars s).length, by rw [List.take_length, List.take_length]⟩
  · exact trim_is_char_boundary _ _

end GN.Buffer.Codec
