import GN.Basic
import GN.Generated.BufferMethods

/-!
# Buffer string codecs, decoding entry points, constructors   [C11]

Byte-level models of the codecs `buffer/buffer.go` uses (Go's `encoding/hex`, `encoding/base64`,
`dop251/base64dec`, `x/text` UTF-8 transcoding, goja's UTF-16 ↔ UTF-8 conversion — dependencies, modelled
concretely because the property is about the combined result and compared with the real ones on every run), and
of the entry points built on them: `Buffer.from(string, enc)`, `buf.toString(enc, start, end)`,
`buf.write(string, offset, length, enc)`, `Buffer.alloc(size, fill, enc)`, `DecodeBytes`, `EncodeBytes`,
`Buffer.from(arrayLike)`, `equals`.
-/

namespace GN.Buffer.Codec
open GN

abbrev Bytes := List UInt8

/-! ## hex -/

def hexDigitLower (n : UInt8) : UInt8 := if n < 10 then 48 + n else 87 + n

def hexEnc (b : Bytes) : Bytes := b.flatMap fun (x : UInt8) => [hexDigitLower (x >>> 4), hexDigitLower (x &&& 15)]

def unhex? (c : UInt8) : Option UInt8 :=
  if 48 ≤ c && c ≤ 57 then some (c - 48)
  else if 97 ≤ c && c ≤ 102 then some (c - 87)
  else if 65 ≤ c && c ≤ 70 then some (c - 55)
  else none

/-- Go's `hex.Decode`: pairs until the first invalid one; an odd tail is ignored -/
def hexDec : Bytes → Bytes
  | a :: b :: rest =>
    match unhex? a, unhex? b with
    | some x, some y => (x <<< 4 ||| y) :: hexDec rest
    | _, _ => []
  | _ => []

/-! ## base64 -/

def b64StdChar (n : UInt8) : UInt8 :=
  if n < 26 then 65 + n else if n < 52 then 71 + n else if n < 62 then n - 4 else if n = 62 then 43 else 47

def b64UrlChar (n : UInt8) : UInt8 :=
  if n < 26 then 65 + n else if n < 52 then 71 + n else if n < 62 then n - 4 else if n = 62 then 45 else 95

/-- standard / URL alphabet, with or without padding -/
def b64EncWith (ch : UInt8 → UInt8) (pad : Bool) : Bytes → Bytes
  | a :: b :: c :: rest =>
    ch (a >>> 2) :: ch ((a &&& 3) <<< 4 ||| b >>> 4) :: ch ((b &&& 15) <<< 2 ||| c >>> 6) :: ch (c &&& 63) ::
      b64EncWith ch pad rest
  | [a, b] => [ch (a >>> 2), ch ((a &&& 3) <<< 4 ||| b >>> 4), ch ((b &&& 15) <<< 2)] ++ (if pad then [61] else [])
  | [a] => [ch (a >>> 2), ch ((a &&& 3) <<< 4)] ++ (if pad then [61, 61] else [])
  | [] => []

/-- `base64.StdEncoding.EncodeToString` -/
def b64Enc : Bytes → Bytes := b64EncWith b64StdChar true
/-- `base64.RawURLEncoding.EncodeToString` -/
def b64UrlEnc : Bytes → Bytes := b64EncWith b64UrlChar false

/-- `decodeMap` of base64dec: both alphabets -/
def sextet? (c : UInt8) : Option UInt8 :=
  if 65 ≤ c && c ≤ 90 then some (c - 65)
  else if 97 ≤ c && c ≤ 122 then some (c - 71)
  else if 48 ≤ c && c ≤ 57 then some (c + 4)
  else if c = 43 || c = 45 then some 62
  else if c = 47 || c = 95 then some 63
  else none

def isNL (c : UInt8) : Bool := c = 10 || c = 13

/-- the bytes of a (possibly partial) quantum of `n` sextets: n = 4 → 3 bytes, 3 → 2, 2 → 1, else none -/
def quantumBytes (q : List UInt8) : Bytes :=
  match q with
  | [a, b, c, d] => [a <<< 2 ||| b >>> 4, b <<< 4 ||| c >>> 2, c <<< 6 ||| d]
  | [a, b, c] => [a <<< 2 ||| b >>> 4, b <<< 4 ||| c >>> 2]
  | [a, b] => [a <<< 2 ||| b >>> 4]
  | _ => []

/-- `base64dec.DecodeBase64` (the bytes it reports as decoded): sextets are collected four at a time, `\r`/`\n` are
skipped anywhere, both alphabets are accepted; padding, garbage or the end of the input close the current
quantum (a quantum of 2 or 3 sextets still yields 1 or 2 bytes) and end the decoding. `q` is the quantum so far. -/
def b64DecGo : Bytes → List UInt8 → Bytes
  | [], q => quantumBytes q
  | c :: rest, q =>
    match sextet? c with
    | some s => if q.length = 3 then quantumBytes (q ++ [s]) ++ b64DecGo rest [] else b64DecGo rest (q ++ [s])
    | none => if isNL c then b64DecGo rest q else quantumBytes q

def b64Dec (s : Bytes) : Bytes := b64DecGo s []

/-! ## UTF-16 / UTF-8 -/

/-- goja's conversion of a JavaScript string (UTF-16 code units) to a Go string, followed by x/text's UTF-8 encoder:
surrogate pairs combine, a lone surrogate becomes U+FFFD -/
def utf16ToScalars : List UInt16 → List Char
  | [] => []
  | u :: rest =>
    if 0xD800 ≤ u && u < 0xDC00 then
      match rest with
      | v :: rest' =>
        if 0xDC00 ≤ v && v < 0xE000 then
          Char.ofNat (0x10000 + (u.toNat - 0xD800) * 0x400 + (v.toNat - 0xDC00)) :: utf16ToScalars rest'
        else Char.ofNat 0xFFFD :: utf16ToScalars (v :: rest')
      | [] => [Char.ofNat 0xFFFD]
    else if 0xDC00 ≤ u && u < 0xE000 then Char.ofNat 0xFFFD :: utf16ToScalars rest
    else Char.ofNat u.toNat :: utf16ToScalars rest
termination_by l => l.length
decreasing_by all_goals simp_wf; all_goals omega

def scalarsToUtf16 (cs : List Char) : List UInt16 :=
  cs.flatMap fun c =>
    let n := c.toNat
    if n < 0x10000 then [UInt16.ofNat n]
    else [UInt16.ofNat (0xD800 + (n - 0x10000) / 0x400), UInt16.ofNat (0xDC00 + (n - 0x10000) % 0x400)]

/-- a JS string as the bytes the utf8 codec decodes it to -/
def utf8OfJs (s : List UInt16) : Bytes := (String.ofList (utf16ToScalars s)).toUTF8.toList

/-- ASCII-ish view used by the hex / base64 codecs: they decode the UTF-8 bytes of the string -/
def bytesOfJs (s : List UInt16) : Bytes := utf8OfJs s

/-- is this byte string well-formed UTF-8? -/
def validUtf8 (b : Bytes) : Bool := (String.fromUTF8? (ByteArray.mk b.toArray)).isSome

/-- x/text's UTF-8 decoder with replacement (one U+FFFD per maximal ill-formed subpart), as JS string -/
def utf8DecReplF : Nat → Bytes → List Char
  | 0, _ => []
  | _ + 1, [] => []
  | fuel + 1, b0 :: rest =>
    let utf8DecRepl := utf8DecReplF fuel
    let bad := Char.ofNat 0xFFFD
    let cont (b : UInt8) (lo hi : UInt8) : Bool := lo ≤ b && b ≤ hi
    if b0 < 0x80 then Char.ofNat b0.toNat :: utf8DecRepl rest
    else if 0xC2 ≤ b0 && b0 ≤ 0xDF then
      match rest with
      | b1 :: r1 => if cont b1 0x80 0xBF then Char.ofNat ((b0.toNat - 0xC0) * 64 + (b1.toNat - 0x80)) :: utf8DecRepl r1
                    else bad :: utf8DecRepl rest
      | [] => [bad]
    else if 0xE0 ≤ b0 && b0 ≤ 0xEF then
      let lo1 : UInt8 := if b0 = 0xE0 then 0xA0 else 0x80
      let hi1 : UInt8 := if b0 = 0xED then 0x9F else 0xBF
      match rest with
      | b1 :: r1 =>
        if cont b1 lo1 hi1 then
          match r1 with
          | b2 :: r2 =>
            if cont b2 0x80 0xBF then
              Char.ofNat ((b0.toNat - 0xE0) * 4096 + (b1.toNat - 0x80) * 64 + (b2.toNat - 0x80)) :: utf8DecRepl r2
            else bad :: utf8DecRepl r1
          | [] => [bad]
        else bad :: utf8DecRepl rest
      | [] => [bad]
    else if 0xF0 ≤ b0 && b0 ≤ 0xF4 then
      let lo1 : UInt8 := if b0 = 0xF0 then 0x90 else 0x80
      let hi1 : UInt8 := if b0 = 0xF4 then 0x8F else 0xBF
      match rest with
      | b1 :: r1 =>
        if cont b1 lo1 hi1 then
          match r1 with
          | b2 :: r2 =>
            if cont b2 0x80 0xBF then
              match r2 with
              | b3 :: r3 =>
                if cont b3 0x80 0xBF then
                  Char.ofNat ((b0.toNat - 0xF0) * 262144 + (b1.toNat - 0x80) * 4096 + (b2.toNat - 0x80) * 64 + (b3.toNat - 0x80)) :: utf8DecRepl r3
                else bad :: utf8DecRepl r2
              | [] => [bad]
            else bad :: utf8DecRepl r1
          | [] => [bad]
        else bad :: utf8DecRepl rest
      | [] => [bad]
    else bad :: utf8DecRepl rest

/-- (fuel: one unit per input byte is enough) -/
def utf8DecRepl (b : Bytes) : List Char := utf8DecReplF (b.length + 1) b

/-! ## the codec table and the entry points -/

inductive Enc where | hex | utf8 | base64 | base64url
  deriving DecidableEq, Repr, Inhabited

/-- encoding names → codec, from the *generated* `stringCodecs` map -/
def encOfName (name : String) : Option Enc :=
  match (Generated.stringCodecs.find? (·.1 == name)).map (·.2) with
  | some "hexCodec{}" => some .hex
  | some "utf8Codec" => some .utf8
  | some "base64Codec{}" => some .base64
  | some "base64UrlCodec{}" => some .base64url
  | _ => none

/-- `codec.DecodeAppend(s, nil)`: what every decoding entry point uses -/
def decode (e : Enc) (s : List UInt16) : Bytes :=
  match e with
  | .hex => hexDec (bytesOfJs s)
  | .utf8 => utf8OfJs s
  | .base64 | .base64url => b64Dec (bytesOfJs s)

/-- `codec.Encode(b)` as a JS string -/
def encode (e : Enc) (b : Bytes) : List UInt16 :=
  match e with
  | .hex => (hexEnc b).map fun x => UInt16.ofNat x.toNat
  | .utf8 => scalarsToUtf16 (utf8DecRepl b)
  | .base64 => (b64Enc b).map fun x => UInt16.ofNat x.toNat
  | .base64url => (b64UrlEnc b).map fun x => UInt16.ofNat x.toNat

/-- `Buffer.from(str, enc)`: an unknown or missing encoding name means utf8 -/
def fromString (encName : Option String) (s : List UInt16) : Bytes :=
  decode ((encName.bind encOfName).getD .utf8) s

/-- `buf.toString(enc, start, end)` after argument coercion: `start`/`end` as integers (missing end = length) -/
def toStringRange (e : Enc) (b : Bytes) (start stop : Int) : List UInt16 :=
  let s := if start < 0 then 0 else start
  if s ≥ b.length then []
  else if stop < 0 || s ≥ stop then []
  else
    let en := if stop > b.length then (b.length : Int) else stop
    encode e ((b.drop s.toNat).take (en - s).toNat)

/-- the longest prefix of well-formed UTF-8 `raw` of at most `n` bytes that ends on a character boundary -/
def trimToBoundary (raw : Bytes) (n : Nat) : Nat :=
  if n ≥ raw.length then raw.length
  else
    let rec back (k : Nat) (fuel : Nat) : Nat :=
      match fuel with
      | 0 => k
      | fuel + 1 => if k > 0 && (raw.getD k 0) &&& 0xC0 == 0x80 then back (k - 1) fuel else k
    back n 4

/-- `buf.write(str, offset, length, enc)` with in-range integer `offset` and non-negative `length`:
    returns the number of bytes written and the new contents -/
def write (e : Enc) (buf : Bytes) (s : List UInt16) (offset length : Nat) : Nat × Bytes :=
  let maxLen := buf.length - offset
  let len := if length > maxLen then maxLen else length
  let raw := decode e s
  let n := if raw.length ≤ len then raw.length else if e == .utf8 then trimToBoundary raw len else len
  (n, buf.take offset ++ raw.take n ++ buf.drop (offset + n))

/-- `Buffer.alloc(size, fill, enc)` with a string fill: the decoded pattern repeated, truncated to `size`;
    an empty pattern leaves zeros -/
def fill (e : Enc) (size : Nat) (s : List UInt16) : Bytes :=
  let pat := decode e s
  if pat.isEmpty then List.replicate size 0
  else (List.range size).map fun i => pat.getD (i % pat.length) 0

/-- `Buffer.from(arrayLike)`: element i is ToInteger(x_i) modulo 256 (`vals` are the ToInteger results) -/
def fromArrayLike (vals : List Int) : Bytes := vals.map fun v => UInt8.ofNat (v % 256).toNat

end GN.Buffer.Codec
