import GN.Buffer.Num

/-! Lemmas about the kernels *generated* from buffer.go (re-proved on every run against the current source). -/

namespace GN.Buffer
open GN

theorem ensureWithinInt16Range_spec (v : I64) :
    Generated.ensureWithinInt16Range v = true ↔ (-(2 ^ 15 : Int) ≤ v.toInt ∧ v.toInt < 2 ^ 15) := by
  simp only [Generated.ensureWithinInt16Range, BitVec.slt]
  simp (config := {decide := true}) <;> omega

theorem ensureWithinInt32Range_spec (v : I64) :
    Generated.ensureWithinInt32Range v = true ↔ (-(2 ^ 31 : Int) ≤ v.toInt ∧ v.toInt < 2 ^ 31) := by
  simp only [Generated.ensureWithinInt32Range, BitVec.slt]
  simp (config := {decide := true}) <;> omega

theorem ensureWithinUInt16Range_spec (v : I64) :
    Generated.ensureWithinUInt16Range v = true ↔ (0 ≤ v.toInt ∧ v.toInt < 2 ^ 16) := by
  simp only [Generated.ensureWithinUInt16Range, BitVec.slt]
  simp (config := {decide := true}) <;> omega

theorem ensureWithinUInt32Range_spec (v : I64) :
    Generated.ensureWithinUInt32Range v = true ↔ (0 ≤ v.toInt ∧ v.toInt < 2 ^ 32) := by
  simp only [Generated.ensureWithinUInt32Range, BitVec.slt]
  simp (config := {decide := true}) <;> omega

theorem writeInt8_valueGuard_spec (v : I64) :
    Generated.writeInt8_valueGuard v = true ↔ (-(2 ^ 7 : Int) ≤ v.toInt ∧ v.toInt < 2 ^ 7) := by
  simp only [Generated.writeInt8_valueGuard, BitVec.slt]
  simp (config := {decide := true}) <;> omega

theorem writeUInt8_valueGuard_spec (v : I64) :
    Generated.writeUInt8_valueGuard v = true ↔ (0 ≤ v.toInt ∧ v.toInt < 2 ^ 8) := by
  simp only [Generated.writeUInt8_valueGuard, BitVec.slt]
  simp (config := {decide := true}) <;> omega

theorem ensureWithinIntRange_spec (v : I64) (w : Fin 7) (hw : 1 ≤ w.val) :
    Generated.ensureWithinIntRange (BitVec.ofNat 64 w.val) v = true ↔
      (-(2 ^ (8 * w.val - 1) : Int) ≤ v.toInt ∧ v.toInt < 2 ^ (8 * w.val - 1)) := by
  have hv1 := BitVec.toInt_lt (x := v); have hv2 := BitVec.le_toInt (x := v)
  match w, hw with
  | ⟨1, _⟩, _ | ⟨2, _⟩, _ | ⟨3, _⟩, _ | ⟨4, _⟩, _ | ⟨5, _⟩, _ | ⟨6, _⟩, _ =>
    simp only [Generated.ensureWithinIntRange, BitVec.slt]
    simp (config := {decide := true}) <;> omega

theorem ensureWithinUIntRange_spec (v : I64) (w : Fin 7) (hw : 1 ≤ w.val) :
    Generated.ensureWithinUIntRange (BitVec.ofNat 64 w.val) v = true ↔
      (0 ≤ v.toInt ∧ v.toInt < 2 ^ (8 * w.val)) := by
  have hv1 := BitVec.toInt_lt (x := v); have hv2 := BitVec.le_toInt (x := v)
  match w, hw with
  | ⟨1, _⟩, _ | ⟨2, _⟩, _ | ⟨3, _⟩, _ | ⟨4, _⟩, _ | ⟨5, _⟩, _ | ⟨6, _⟩, _ =>
    simp only [Generated.ensureWithinUIntRange, BitVec.slt]
    simp (config := {decide := true}) <;> omega

/-- sign extension of the low `8w` bits = two's-complement reading -/
theorem signExtend_spec (v : I64) (w : Fin 7) (hw : 1 ≤ w.val) :
    (Generated.signExtend v (BitVec.ofNat 64 w.val)).toInt = Int.bmod v.toInt (2 ^ (8 * w.val)) := by
  match w, hw with
  | ⟨1, _⟩, _ | ⟨2, _⟩, _ | ⟨3, _⟩, _ | ⟨4, _⟩, _ | ⟨5, _⟩, _ | ⟨6, _⟩, _ =>
    simp only [Generated.signExtend]
    simp (config := {decide := true}) [BitVec.toInt_shiftLeft]
    have hv1 := BitVec.toInt_lt (x := v); have hv2 := BitVec.le_toInt (x := v)
    have hn := BitVec.toInt_eq_toNat_bmod v
    simp only [Int.shiftLeft_eq, Int.shiftRight_eq_div_pow, Int.bmod_def] at *
    simp only [Int.reducePow, Nat.reducePow, Nat.reduceSub] at *
    omega

/-- The fixed-width offset guard admits exactly the in-range offsets — for every offset in int64,
    with no wrap-around (this is the statement that is false of `offset+numBytes > len`). -/
theorem getOffsetArgument_guard_spec (n off len : I64)
    (hn : 0 ≤ n.toInt ∧ n.toInt ≤ 8) (hl : 0 ≤ len.toInt) :
    Generated.getOffsetArgument_guard n off len = true ↔ (0 ≤ off.toInt ∧ off.toInt + n.toInt ≤ len.toInt) := by
  have h1 := BitVec.toInt_lt (x := off); have h2 := BitVec.le_toInt (x := off)
  have h3 := BitVec.toInt_lt (x := len)
  have hsub : (len - n).toInt = len.toInt - n.toInt := by
    rw [BitVec.toInt_sub]; apply Int.bmod_eq_of_le <;> omega
  simp only [Generated.getOffsetArgument_guard, BitVec.slt, hsub]
  simp (config := {decide := true}) <;> omega

theorem getVariableLengthArguments_guard_spec (off bl len : I64) (hl : 0 ≤ len.toInt) :
    Generated.getVariableLengthArguments_guard off bl len = true ↔
      ((1 ≤ bl.toInt ∧ bl.toInt ≤ 6) ∧ 0 ≤ off.toInt ∧ off.toInt + bl.toInt ≤ len.toInt) := by
  have h1 := BitVec.toInt_lt (x := off); have h2 := BitVec.le_toInt (x := off)
  have h3 := BitVec.toInt_lt (x := len)
  have h4 := BitVec.toInt_lt (x := bl); have h5 := BitVec.le_toInt (x := bl)
  by_cases hb : (1 ≤ bl.toInt ∧ bl.toInt ≤ 6)
  · have hsub : (len - bl).toInt = len.toInt - bl.toInt := by
      rw [BitVec.toInt_sub]; apply Int.bmod_eq_of_le <;> omega
    simp only [Generated.getVariableLengthArguments_guard, BitVec.slt, hsub]
    simp (config := {decide := true}) <;> omega
  · simp only [Generated.getVariableLengthArguments_guard, BitVec.slt]
    simp (config := {decide := true})
    omega

end GN.Buffer
