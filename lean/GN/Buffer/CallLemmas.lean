import GN.Buffer.KernelLemmas
import GN.Buffer.EncLemmas

/-!
# End-to-end refinement: `callModel` computes what `specCall` prescribes   [C10]

Main result: `callModel_refines_spec` — for every method name, buffer (shorter than 2^62 bytes) and
argument list on which the name-derived specification `specCall` makes a claim, the executable model
`callModel` (driven by the *generated* method facts and guard kernels) is defined, leaves the same
buffer, and either returns the same value or throws where the specification throws (RangeError and
TypeError merged into one class).  In particular the model never panics on the claimed domain.

Structure:
* loads: `loadBytes_toNat_eq_decUnsigned`, `decSigned_eq_bmod`, `signExtendTo_toInt`;
* coercions: `toIntegerClip_bounds`, `i64OfInt_clip_toInt`, `lenI64_toInt`;
* `specD`: the body of `specCall` cut into named pieces (`specCall_eq` is `rfl`);
* `WF m d`: decidable well-formedness of a generated `MethodFacts` record for a descriptor;
  `candidates_wf` checks it (by kernel evaluation) for *every spelling* that `descOfName` accepts,
  `facts_of_desc` turns that into a statement about arbitrary strings;
* `oaw_*`: offset/byteLength coercion and guards vs. the spec's `offSpec`/`wSpec`;
* `write_ok_*`, `read_ok`: the success paths per kind; `refines_of_WF` assembles them.
-/

namespace GN.Buffer
open GN

/-! ## loads: the shift-or loop is base-256 decoding -/

theorem decLE_append (xs ys : List UInt8) :
    decLE (xs ++ ys) = decLE xs + 256 ^ xs.length * decLE ys := by
  induction xs with
  | nil => simp [decLE]
  | cons x xs ih => simp only [List.cons_append, decLE, ih, List.length_cons, Nat.pow_succ]; grind

theorem decLE_lt (bs : List UInt8) : decLE bs < 256 ^ bs.length := by
  induction bs with
  | nil => simp [decLE]
  | cons b bs ih =>
    simp only [decLE, List.length_cons, Nat.pow_succ]
    have := b.toNat_lt
    omega

theorem loadStep_toNat (acc : I64) (b : UInt8) (h : acc.toNat < 2 ^ 56) :
    ((acc <<< 8) ||| BitVec.ofNat 64 b.toNat).toNat = acc.toNat * 256 + b.toNat := by
  have hb := b.toNat_lt
  rw [BitVec.toNat_or, BitVec.toNat_shiftLeft, BitVec.toNat_ofNat]
  rw [Nat.mod_eq_of_lt (a := b.toNat) (by omega)]
  rw [Nat.shiftLeft_eq, Nat.mod_eq_of_lt (by omega)]
  rw [← Nat.shiftLeft_eq, ← Nat.shiftLeft_add_eq_or_of_lt (by omega), Nat.shiftLeft_eq]

theorem foldl_load_toNat (bs : List UInt8) : ∀ (acc : I64) (k : Nat), acc.toNat < 256 ^ k → k + bs.length ≤ 8 →
    (bs.foldl (fun (a : I64) (b : UInt8) => (a <<< 8) ||| BitVec.ofNat 64 b.toNat) acc).toNat
      = acc.toNat * 256 ^ bs.length + decLE bs.reverse := by
  induction bs with
  | nil => intro acc k _ _; simp [decLE]
  | cons b bs ih =>
    intro acc k hacc hk
    simp only [List.length_cons] at hk
    have hb := b.toNat_lt
    have hpow : (256:Nat) ^ k ≤ 256 ^ 7 := Nat.pow_le_pow_right (by decide) (by omega)
    have hstep := loadStep_toNat acc b (by simp at hpow ⊢; omega)
    rw [List.foldl_cons, ih _ (k + 1) (by rw [hstep, Nat.pow_succ]; omega) (by omega), hstep]
    simp only [List.reverse_cons, decLE_append, List.length_reverse, decLE, List.length_cons, Nat.pow_succ]
    grind

theorem loadBE_toNat (bs : List UInt8) (h : bs.length ≤ 8) : (loadBE bs).toNat = decLE bs.reverse := by
  have := foldl_load_toNat bs 0 0 (by simp) (by omega)
  simpa [loadBE] using this

/-- (a) the code's shift-or loop computes the unsigned base-256 value -/
theorem loadBytes_toNat_eq_decUnsigned (be : Bool) (bs : List UInt8) (h : bs.length ≤ 8) :
    (loadBytes be bs).toNat = decUnsigned be bs := by
  unfold loadBytes decUnsigned
  cases be
  · simp only [Bool.false_eq_true, if_false]
    rw [loadBE_toNat _ (by simpa using h), List.reverse_reverse]
  · simp only [if_true]
    exact loadBE_toNat bs h

theorem decUnsigned_lt (be : Bool) (bs : List UInt8) : decUnsigned be bs < 2 ^ (8 * bs.length) := by
  unfold decUnsigned
  have h := decLE_lt (if be = true then bs.reverse else bs)
  have hl : (if be = true then bs.reverse else bs).length = bs.length := by split <;> simp
  rw [hl] at h
  rwa [Nat.pow_mul]

/-- two's-complement reading = balanced residue of the unsigned reading -/
theorem decSigned_eq_bmod (be : Bool) (bs : List UInt8) (hn : 1 ≤ bs.length) :
    decSigned be bs = Int.bmod (decUnsigned be bs) (2 ^ (8 * bs.length)) := by
  have hlt := decUnsigned_lt be bs
  unfold decSigned
  generalize decUnsigned be bs = u at *
  have hpn : (2 : Nat) ^ (8 * bs.length) = 2 * 2 ^ (8 * bs.length - 1) := by
    rw [show 8 * bs.length = (8 * bs.length - 1) + 1 by omega, Nat.pow_succ]; simp; omega
  generalize (2 : Nat) ^ (8 * bs.length - 1) = P at *
  rw [Int.bmod_def, hpn]
  have : ((u : Int)) % ((2 * P : Nat) : Int) = u := by
    apply Int.emod_eq_of_lt <;> omega
  rw [this]
  simp only []
  have hc : ((2:Int) ^ (8 * bs.length)) = ((2 * P : Nat) : Int) := by
    rw [← hpn]; simp
  rw [hc]
  split <;> split <;> omega


/-! ## coercions -/

theorem toIntegerClip_bounds (f : F64) : -(2 ^ 63 : Int) ≤ f.toIntegerClip ∧ f.toIntegerClip < 2 ^ 63 := by
  unfold F64.toIntegerClip
  split
  · omega
  · split
    · split <;> omega
    · simp only []
      split
      · omega
      · split <;> omega

theorem i64OfInt_toInt (n : Int) (h1 : -(2 ^ 63 : Int) ≤ n) (h2 : n < 2 ^ 63) : (i64OfInt n).toInt = n := by
  unfold i64OfInt
  rw [BitVec.toInt_ofInt]
  apply Int.bmod_eq_of_le <;> omega

theorem i64OfInt_clip_toInt (f : F64) : (i64OfInt f.toIntegerClip).toInt = f.toIntegerClip :=
  i64OfInt_toInt _ (toIntegerClip_bounds f).1 (toIntegerClip_bounds f).2

theorem lenI64_toInt (buf : List UInt8) (h : buf.length < 2 ^ 62) : (lenI64 buf).toInt = buf.length := by
  unfold lenI64
  rw [BitVec.toInt_ofNat']
  apply Int.bmod_eq_of_le <;> omega

theorem ofNat_toInt_small (n : Nat) (h : n < 2 ^ 62) : (BitVec.ofNat 64 n).toInt = n := by
  rw [BitVec.toInt_ofNat']
  apply Int.bmod_eq_of_le <;> omega

theorem toNat_of_toInt_nonneg (x : I64) (h : 0 ≤ x.toInt) : x.toNat = x.toInt.toNat := by
  have h1 := BitVec.toInt_eq_toNat_cond x
  have h2 := x.isLt
  split at h1 <;> omega

/-- the spec's reading of the offset argument -/
def offSpec (width : Nat) (offArg : JArg) : Option (Option Int) :=
  match offArg with
  | .undef => if width == 0 then some none else some (some 0)
  | .num f => if f.isIntegral then some (some f.toIntegerClip) else none
  | _ => some none

def wSpec (width : Nat) (wArg : JArg) : Option (Option Int) :=
  if width != 0 then some (some width) else
  match wArg with
  | .num f => if f.isIntegral then some (some f.toIntegerClip) else none
  | _ => some none

def valSpec (d : Desc) (vArg : JArg) : Option (Option (Int ⊕ F64)) :=
  if !d.write then some (some (.inl 0)) else
  match d.kind, vArg with
  | .int, .num f => if f.isIntegral then some (some (.inl f.toIntegerClip)) else none
  | .bigint, .big n => some (some (.inl n))
  | .f64, .num f => some (some (.inr f))
  | .f32, .num f =>
    if !f.isNaN && (f.bits &&& 0x7fffffffffffffff) > 0x47efffffe0000000 then none else some (some (.inr f))
  | _, _ => some none

def specBody (d : Desc) (buf : List UInt8) (v : Int ⊕ F64) (off w : Int) : Option CallResult :=
  let throwT : CallResult := ⟨.throw .typeError, buf⟩
  if d.width == 0 ∧ ¬ (1 ≤ w ∧ w ≤ 6) then some throwT
  else if ¬ InRange off w buf.length then some throwT
  else
    let o := off.toNat
    let n := w.toNat
    if d.write then
      match d.kind, v with
      | .int, .inl x =>
        if Representable d.signed n x then
          some ⟨.ok (.int (off + w)), splice buf o (enc n d.bigEndian x)⟩
        else some throwT
      | .bigint, .inl x =>
        if Representable d.signed 8 x then
          some ⟨.ok (.int (off + w)), splice buf o (enc 8 d.bigEndian x)⟩
        else some throwT
      | .f64, .inr f =>
        some ⟨.ok (.int (off + w)), splice buf o (enc 8 d.bigEndian f.bits.toNat)⟩
      | .f32, .inr f =>
        some ⟨.ok (.int (off + w)), splice buf o (enc 4 d.bigEndian (narrow32 f).toNat)⟩
      | _, _ => none
    else
      let bs := (buf.drop o).take n
      match d.kind with
      | .int => some ⟨.ok (.int (if d.signed then decSigned d.bigEndian bs else decUnsigned d.bigEndian bs)), buf⟩
      | .bigint => some ⟨.ok (.big (if d.signed then decSigned d.bigEndian bs else decUnsigned d.bigEndian bs)), buf⟩
      | .f64 => some ⟨.ok (.flt ⟨UInt64.ofNat (decUnsigned d.bigEndian bs)⟩), buf⟩
      | .f32 => some ⟨.ok (.flt (widen32 (UInt32.ofNat (decUnsigned d.bigEndian bs)))), buf⟩

def specD (d : Desc) (buf : List UInt8) (vArg offArg wArg : JArg) : Option CallResult :=
  let throwT : CallResult := ⟨.throw .typeError, buf⟩
  match valSpec d vArg with
  | none => none
  | some none => some throwT
  | some (some v) =>
    match offSpec d.width offArg, wSpec d.width wArg with
    | none, _ => none
    | _, none => none
    | some none, _ => some throwT
    | _, some none => some throwT
    | some (some off), some (some w) => specBody d buf v off w

theorem specCall_eq (jsName : String) (buf : List UInt8) (args : List JArg) :
    specCall jsName buf args =
      match descOfName jsName with
      | none => none
      | some d => specD d buf (args.getD 0 .undef) (args.getD (if d.write then 1 else 0) .undef)
          (args.getD ((if d.write then 1 else 0) + 1) .undef) := by
  rfl


/-! ## well-formedness of generated facts w.r.t. a descriptor -/

def rangeOK (m : Generated.MethodFacts) (d : Desc) : Bool :=
  match d.width, d.signed with
  | 0, true => m.rangeFn == "ensureWithinIntRange"
  | 0, false => m.rangeFn == "ensureWithinUIntRange"
  | 1, true => m.rangeFn == "writeInt8_valueGuard"
  | 1, false => m.rangeFn == "writeUInt8_valueGuard"
  | 2, true => m.rangeFn == "ensureWithinInt16Range"
  | 2, false => m.rangeFn == "ensureWithinUInt16Range"
  | 4, true => m.rangeFn == "ensureWithinInt32Range"
  | 4, false => m.rangeFn == "ensureWithinUInt32Range"
  | _, _ => false

def convOK (m : Generated.MethodFacts) (d : Desc) : Bool :=
  match d.width, d.signed with
  | 0, true => m.conv == "signExtend"
  | 1, true => m.conv != "signExtend" && m.conv == "signed:int8"
  | 2, true => m.conv != "signExtend" && m.conv != "signed:int8" && m.conv == "signed:int16"
  | 4, true => m.conv != "signExtend" && m.conv != "signed:int8" && m.conv != "signed:int16" && m.conv == "signed:int32"
  | 0, false | 1, false | 2, false | 4, false =>
    m.conv != "signExtend" && m.conv != "signed:int8" && m.conv != "signed:int16" && m.conv != "signed:int32"
  | _, _ => false

def kindWidthOK (d : Desc) : Bool :=
  match d.kind with
  | .int => true
  | .bigint => d.width == 8
  | .f64 => d.width == 8
  | .f32 => d.width == 4

/-- everything `callModel` consults in the generated facts `m` is what descriptor `d` prescribes -/
def WF (m : Generated.MethodFacts) (d : Desc) : Bool :=
  descOfFacts m == d &&
  ((m.dir == "write") == d.write) &&
  ((m.offKind == "var") == (d.width == 0)) &&
  (m.offIdx == (if d.write then 1 else 0)) &&
  (d.width == 0 || m.numBytes == d.width) &&
  (d.width ≤ 8) &&
  kindWidthOK d &&
  (!(d.write && d.kind == .int) || rangeOK m d) &&
  (!(!d.write && d.kind == .int) || convOK m d)

/-- the check `callModel_refines_spec` needs of a method name -/
def nameOK (jsName : String) : Bool :=
  match descOfName jsName with
  | none => true
  | some d =>
    match (implOf jsName).bind lookupFacts with
    | none => false
    | some m => WF m d

theorem protoSet_wf : ∀ e ∈ Generated.bufferProtoSet, nameOK e.1 = true := by decide +kernel


theorem stripPrefix_some : ∀ (p cs r : List Char), stripPrefix p cs = some r → cs = p ++ r
  | [], cs, r, h => by simp [stripPrefix] at h; simp [h]
  | _ :: _, [], r, h => by simp [stripPrefix] at h
  | p :: ps, c :: cs, r, h => by
    simp only [stripPrefix] at h
    split at h
    · next hpc =>
      have := stripPrefix_some ps cs r h
      simp at hpc
      simp [hpc, this]
    · simp at h

/-- all spellings that `normUint` maps to `t` (a superset) -/
def unnorm : List Char → List (List Char)
  | [] => [[]]
  | c :: t => if c = 'I' then (unnorm t).flatMap (fun p => ['I' :: p, 'i' :: p]) else (unnorm t).map (c :: ·)

theorem mem_unnorm (r : List Char) : r ∈ unnorm (normUint r) := by
  induction r using normUint.induct with
  | case1 rest ih =>
    simp only [normUint, unnorm]
    simp
    exact ih
  | case2 c rest hne ih =>
    rw [normUint]
    · simp only [unnorm]
      split
      · next hc => subst hc; simp; exact ih
      · simp; exact ih
    · exact hne
  | case3 => simp [normUint, unnorm]

def cores : List (List Char) :=
  ["Int16".toList, "UInt16".toList, "Int32".toList, "UInt32".toList, "Int".toList, "UInt".toList,
   "BigInt64".toList, "BigUInt64".toList, "Float".toList, "Double".toList]

def validRests : List (List Char) :=
  ["Int8".toList, "UInt8".toList] ++ cores.map (· ++ ['B', 'E']) ++ cores.map (· ++ ['L', 'E'])

theorem descOfCore_some (w : Bool) (core : List Char) (be : Bool) (d : Desc)
    (h : descOfCore w core be = some d) : core ∈ cores := by
  unfold descOfCore at h
  simp only [beq_iff_eq] at h
  simp only [cores, List.mem_cons]
  repeat (split at h; · simp [*])
  simp at h

theorem descOfRest_some (w : Bool) (r : List Char) (d : Desc) (h : descOfRest w r = some d) :
    normUint r ∈ validRests := by
  unfold descOfRest at h
  simp only [beq_iff_eq] at h
  generalize normUint r = t at h
  split at h
  · next h1 => simp [validRests, h1]
  · split at h
    · next h1 => simp [validRests, h1]
    · split at h
      · next core hc =>
        have := descOfCore_some _ _ _ _ h
        have ht : t = core.reverse ++ ['B', 'E'] := by
          have := congrArg List.reverse hc; simpa using this
        simp only [validRests, List.mem_append, List.mem_map]
        exact Or.inl (Or.inr ⟨_, this, ht.symm⟩)
      · next core hc =>
        have := descOfCore_some _ _ _ _ h
        have ht : t = core.reverse ++ ['L', 'E'] := by
          have := congrArg List.reverse hc; simpa using this
        simp only [validRests, List.mem_append, List.mem_map]
        exact Or.inr ⟨_, this, ht.symm⟩
      · simp at h

theorem candidates_wf : ∀ t ∈ validRests, ∀ r ∈ unnorm t,
    nameOK (String.ofList ("read".toList ++ r)) = true ∧ nameOK (String.ofList ("write".toList ++ r)) = true := by
  decide +kernel

theorem nameOK_of_desc (jsName : String) (d : Desc) (h : descOfName jsName = some d) : nameOK jsName = true := by
  unfold descOfName at h
  split at h
  · next r hr =>
    have hcs := stripPrefix_some _ _ _ hr
    have := (candidates_wf _ (descOfRest_some _ _ _ h) _ (mem_unnorm r)).1
    rwa [← hcs, String.ofList_toList] at this
  · split at h
    · next r hr =>
      have hcs := stripPrefix_some _ _ _ hr
      have := (candidates_wf _ (descOfRest_some _ _ _ h) _ (mem_unnorm r)).2
      rwa [← hcs, String.ofList_toList] at this
    · simp at h

theorem facts_of_desc (jsName : String) (d : Desc) (h : descOfName jsName = some d) :
    ∃ impl m, implOf jsName = some impl ∧ lookupFacts impl = some m ∧ WF m d = true := by
  have := nameOK_of_desc jsName d h
  unfold nameOK at this
  rw [h] at this
  simp only [] at this
  cases hi : implOf jsName with
  | none => simp [hi] at this
  | some impl =>
    cases hm : lookupFacts impl with
    | none => simp [hi, hm] at this
    | some m => simp [hi, hm] at this; exact ⟨impl, m, rfl, hm, this⟩

/-! ## the refinement for well-formed facts -/

structure WFP (m : Generated.MethodFacts) (d : Desc) : Prop where
  desc : descOfFacts m = d
  dir : (m.dir == "write") = d.write
  offKind : (m.offKind == "var") = (d.width == 0)
  offIdx : m.offIdx = if d.write then 1 else 0
  numBytes : d.width ≠ 0 → m.numBytes = d.width
  w8 : d.width ≤ 8
  kw : kindWidthOK d = true
  range : d.write = true → d.kind = .int → rangeOK m d = true
  conv : d.write = false → d.kind = .int → convOK m d = true

theorem WFP.of_WF {m d} (h : WF m d = true) : WFP m d := by
  simp only [WF, Bool.and_eq_true, beq_iff_eq, Bool.or_eq_true, decide_eq_true_eq, Bool.not_eq_true',
    Bool.and_eq_false_imp] at h
  obtain ⟨⟨⟨⟨⟨⟨⟨⟨h1, h2⟩, h3⟩, h4⟩, h5⟩, h6⟩, h7⟩, h8⟩, h9⟩ := h
  refine ⟨h1, h2, h3, h4, ?_, h6, h7, ?_, ?_⟩
  · intro hne; rcases h5 with h5 | h5
    · exact absurd h5 hne
    · exact h5
  · intro hw hk; rcases h8 with h8 | h8
    · simp [hw, hk] at h8
    · exact h8
  · intro hw hk; rcases h9 with h9 | h9
    · simp [hw, hk] at h9
    · exact h9


section OAW
variable {m : Generated.MethodFacts} {d : Desc} (hwf : WFP m d) (buf : List UInt8) (args : List JArg)
include hwf

theorem oaw_throw_off (ho : offSpec d.width (args.getD m.offIdx .undef) = some none) :
    ∃ c, offsetAndWidth m buf args = .throw c := by
  unfold offsetAndWidth
  rw [hwf.offKind]
  generalize args.getD m.offIdx .undef = a at ho
  by_cases hz : d.width = 0
  · simp only [hz, beq_self_eq_true, if_true]
    cases a <;> simp [offSpec, hz, requiredInteger] at ho ⊢
  · have : (d.width == 0) = false := by simpa using hz
    simp only [this, Bool.false_eq_true, if_false]
    cases a <;> simp [offSpec, hz, optionalInteger] at ho ⊢


theorem oaw_throw_w (hw : wSpec d.width (args.getD (m.offIdx + 1) .undef) = some none) :
    ∃ c, offsetAndWidth m buf args = .throw c := by
  unfold offsetAndWidth
  rw [hwf.offKind]
  generalize args.getD m.offIdx .undef = a
  generalize args.getD (m.offIdx + 1) .undef = b at hw
  by_cases hz : d.width = 0
  · simp only [hz, beq_self_eq_true, if_true]
    cases a <;> cases b <;> simp [wSpec, hz, requiredInteger] at hw ⊢
  · simp [wSpec, hz] at hw

theorem oaw_some (hlen : buf.length < 2 ^ 62) (off w : Int)
    (ho : offSpec d.width (args.getD m.offIdx .undef) = some (some off))
    (hw : wSpec d.width (args.getD (m.offIdx + 1) .undef) = some (some w)) :
    (d.width ≠ 0 → w = d.width) ∧
    (((d.width = 0 → 1 ≤ w ∧ w ≤ 6) ∧ InRange off w buf.length) →
      ∃ o' w', offsetAndWidth m buf args = .ok (o', w') ∧ o'.toInt = off ∧ w'.toInt = w) ∧
    (¬ ((d.width = 0 → 1 ≤ w ∧ w ≤ 6) ∧ InRange off w buf.length) →
      offsetAndWidth m buf args = .throw .rangeError) := by
  have hl := lenI64_toInt buf hlen
  unfold offsetAndWidth
  rw [hwf.offKind]
  generalize args.getD m.offIdx .undef = a at ho
  generalize args.getD (m.offIdx + 1) .undef = b at hw
  unfold InRange
  by_cases hz : d.width = 0
  · simp only [hz, beq_self_eq_true, if_true]
    cases a <;> simp [offSpec, hz] at ho
    cases b <;> simp [wSpec, hz] at hw
    rename_i f g
    obtain ⟨_, rfl⟩ := ho
    obtain ⟨_, rfl⟩ := hw
    have hg := getVariableLengthArguments_guard_spec (i64OfInt f.toIntegerClip) (i64OfInt g.toIntegerClip)
      (lenI64 buf) (by omega)
    rw [i64OfInt_clip_toInt, i64OfInt_clip_toInt, hl] at hg
    refine ⟨by simp, ?_, ?_⟩
    · intro h
      refine ⟨_, _, ?_, i64OfInt_clip_toInt f, i64OfInt_clip_toInt g⟩
      have : Generated.getVariableLengthArguments_guard (i64OfInt f.toIntegerClip) (i64OfInt g.toIntegerClip)
          (lenI64 buf) = true := hg.mpr ⟨h.1 trivial, h.2⟩
      simp [requiredInteger, this]
    · intro h
      have : Generated.getVariableLengthArguments_guard (i64OfInt f.toIntegerClip) (i64OfInt g.toIntegerClip)
          (lenI64 buf) = false := by
        rw [Bool.eq_false_iff]; intro hc; exact h ⟨fun _ => (hg.mp hc).1, (hg.mp hc).2⟩
      simp [requiredInteger, this]
  · have hb : (d.width == 0) = false := by simpa using hz
    simp only [hb, Bool.false_eq_true, if_false]
    simp [wSpec, hz] at hw
    subst hw
    have hnb := hwf.numBytes hz
    have hw8 := hwf.w8
    have hn : (BitVec.ofNat 64 m.numBytes).toInt = d.width := by
      rw [hnb]; exact ofNat_toInt_small _ (by omega)
    have key : ∀ o : I64, Generated.getOffsetArgument_guard (BitVec.ofNat 64 m.numBytes) o (lenI64 buf) = true ↔
        (0 ≤ o.toInt ∧ o.toInt + d.width ≤ buf.length) := by
      intro o
      have := getOffsetArgument_guard_spec (BitVec.ofNat 64 m.numBytes) o (lenI64 buf) (by omega) (by omega)
      rwa [hn, hl] at this
    refine ⟨fun _ => rfl, ?_, ?_⟩
    · intro h
      cases a <;> simp [offSpec, hz] at ho
      · subst ho
        have := (key 0).mpr (by simpa using h.2)
        exact ⟨0, _, by simp [optionalInteger]; simpa using this, by simp, hn⟩
      · rename_i f
        obtain ⟨_, rfl⟩ := ho
        have := (key (i64OfInt f.toIntegerClip)).mpr (by rw [i64OfInt_clip_toInt]; exact h.2)
        exact ⟨_, _, by simp [optionalInteger, this], i64OfInt_clip_toInt f, hn⟩
    · intro h
      have h' : ¬ (0 ≤ off ∧ off + d.width ≤ buf.length) := fun hc => h ⟨fun hc' => absurd hc' hz, hc⟩
      cases a <;> simp [offSpec, hz] at ho
      · subst ho
        have : Generated.getOffsetArgument_guard (BitVec.ofNat 64 m.numBytes) 0 (lenI64 buf) = false := by
          rw [Bool.eq_false_iff]; intro hc; exact h' (by simpa using (key 0).mp hc)
        simp [optionalInteger]; simpa using this
      · rename_i f
        obtain ⟨_, rfl⟩ := ho
        have : Generated.getOffsetArgument_guard (BitVec.ofNat 64 m.numBytes) (i64OfInt f.toIntegerClip) (lenI64 buf) = false := by
          rw [Bool.eq_false_iff]; intro hc
          have := (key _).mp hc
          rw [i64OfInt_clip_toInt] at this
          exact h' this
        simp [optionalInteger, this]

end OAW

/-- results agree: same buffer afterwards; both succeed with the same value, or both throw -/
def Agrees (model spec : CallResult) : Prop :=
  model.buf = spec.buf ∧
  match model.out, spec.out with
  | .ok x, .ok y => x = y
  | .throw _, .throw _ => True
  | _, _ => False

theorem agrees_throw (r : CallResult) (buf : List UInt8) (c : ErrClass) (hb : r.buf = buf) (c' : ErrClass)
    (ho : r.out = .throw c') : Agrees r ⟨.throw c, buf⟩ := by
  simp [Agrees, hb, ho]

theorem sliceAt_ok (buf : List UInt8) (o w : I64) (h0 : 0 ≤ o.toInt) (h1 : 0 ≤ w.toInt)
    (h2 : o.toInt + w.toInt ≤ buf.length) :
    sliceAt buf o w = .ok ((buf.drop o.toInt.toNat).take w.toInt.toNat) := by
  simp [sliceAt, h0, h1, h2]

theorem readModel_throw_of_oaw (m : Generated.MethodFacts) (buf : List UInt8) (args : List JArg) (c : ErrClass)
    (h : offsetAndWidth m buf args = .throw c) :
    (readModel m buf args).buf = buf ∧ (readModel m buf args).out = .throw c := by
  simp [readModel, h]

theorem writeModel_throw_of_oaw (m : Generated.MethodFacts) (buf : List UInt8) (args : List JArg) (c : ErrClass)
    (h : offsetAndWidth m buf args = .throw c) :
    (writeModel m buf args).buf = buf ∧ ∃ c', (writeModel m buf args).out = .throw c' := by
  unfold writeModel writeCore
  generalize args.getD 0 .undef = v
  cases hk : (descOfFacts m).kind <;> cases v <;>
    simp [h, hk, finish, requiredInteger, requiredBigInt, requiredFloat]


theorem i64_eq_ofNat (x : I64) (n : Nat) (hn : n < 2 ^ 62) (h : x.toInt = n) : x = BitVec.ofNat 64 n := by
  apply BitVec.eq_of_toInt_eq
  rw [h, ofNat_toInt_small n hn]

theorem rangeGuard_exact {m : Generated.MethodFacts} {d : Desc} (hwf : WFP m d) (hwr : d.write = true)
    (hk : d.kind = .int) (w' v : I64) (w : Int) (hw' : w'.toInt = w)
    (hvar : d.width = 0 → 1 ≤ w ∧ w ≤ 6) (hfix : d.width ≠ 0 → w = d.width) :
    rangeGuard m.rangeFn w' v = true ↔ Representable d.signed w.toNat v.toInt := by
  have hr := hwf.range hwr hk
  unfold rangeOK at hr
  split at hr
  all_goals first
    | exact Bool.noConfusion hr
    | skip
  all_goals
    rename_i hwd hsg
    simp only [beq_iff_eq] at hr
    rw [hr, hsg]
  · -- IntRange
    obtain ⟨h1, h6⟩ := hvar hwd
    have : w' = BitVec.ofNat 64 w.toNat := i64_eq_ofNat _ _ (by omega) (by omega)
    rw [this]
    have hlt : w.toNat < 7 := by omega
    have := ensureWithinIntRange_spec v ⟨w.toNat, hlt⟩ (by simp; omega)
    simp only [rangeGuard]
    simpa [Representable] using this
  · obtain ⟨h1, h6⟩ := hvar hwd
    have : w' = BitVec.ofNat 64 w.toNat := i64_eq_ofNat _ _ (by omega) (by omega)
    rw [this]
    have hlt : w.toNat < 7 := by omega
    have := ensureWithinUIntRange_spec v ⟨w.toNat, hlt⟩ (by simp; omega)
    simp only [rangeGuard]
    simpa [Representable] using this
  all_goals
    have hww := hfix (by omega)
    rw [hwd] at hww
    subst hww
  · simpa [rangeGuard, Representable] using writeInt8_valueGuard_spec v
  · simpa [rangeGuard, Representable] using writeUInt8_valueGuard_spec v
  · simpa [rangeGuard, Representable] using ensureWithinInt16Range_spec v
  · simpa [rangeGuard, Representable] using ensureWithinUInt16Range_spec v
  · simpa [rangeGuard, Representable] using ensureWithinInt32Range_spec v
  · simpa [rangeGuard, Representable] using ensureWithinUInt32Range_spec v


theorem enc_congr (w : Nat) (be : Bool) (x y : Int) (h : x % 2 ^ (8 * w) = y % 2 ^ (8 * w)) :
    enc w be x = enc w be y := by
  unfold enc encLE; rw [h]

theorem store_eq (buf : List UInt8) (o' : I64) (off : Int) (k : Nat) (be : Bool) (V : I64) (X : Int)
    (ho' : o'.toInt = off) (h0 : 0 ≤ off) (hle : off + k ≤ buf.length)
    (hmod : V.toInt % 2 ^ (8 * k) = X % 2 ^ (8 * k)) :
    storeAt buf o'.toNat (intBytes k be V) = splice buf off.toNat (enc k be X) := by
  rw [intBytes_eq_enc, enc_congr k be _ _ hmod, toNat_of_toInt_nonneg o' (by omega), ho']
  apply storeAt_eq_splice
  rw [enc_length]; omega

theorem add_toInt (o' w' : I64) (off w : Int) (len : Nat) (hlen : len < 2 ^ 62) (ho' : o'.toInt = off) (hw' : w'.toInt = w)
    (h0 : 0 ≤ off) (hw0 : 0 ≤ w) (hle : off + w ≤ len) : (o' + w').toInt = off + w := by
  rw [BitVec.toInt_add, ho', hw']
  apply Int.bmod_eq_of_le <;> omega


theorem bmod64_emod (n : Int) (k : Nat) (hk : k ≤ 8) :
    (n.bmod (2 ^ 64)) % 2 ^ (8 * k) = n % 2 ^ (8 * k) := by
  have hd : (2 : Int) ^ (8 * k) ∣ ((2 ^ 64 : Nat) : Int) := by
    refine ⟨2 ^ (64 - 8 * k), ?_⟩
    rw [← Int.pow_add, show 8 * k + (64 - 8 * k) = 64 by omega]; rfl
  rw [← Int.emod_emod_of_dvd _ hd, Int.bmod_emod, Int.emod_emod_of_dvd _ hd]

theorem ofInt_toInt_emod (n : Int) (k : Nat) (hk : k ≤ 8) :
    (i64OfInt n).toInt % 2 ^ (8 * k) = n % 2 ^ (8 * k) := by
  unfold i64OfInt
  rw [BitVec.toInt_ofInt]; exact bmod64_emod n k hk

theorem ofNat_toInt_emod (n : Nat) (k : Nat) (hk : k ≤ 8) :
    (BitVec.ofNat 64 n).toInt % 2 ^ (8 * k) = (n : Int) % 2 ^ (8 * k) := by
  rw [BitVec.toInt_ofNat']; exact bmod64_emod n k hk

section WriteOK
variable {m : Generated.MethodFacts} {d : Desc} (hwf : WFP m d) (buf : List UInt8) (args : List JArg)
  (hlen : buf.length < 2 ^ 62) (hwr : d.write = true)
  (o' w' : I64) (off w : Int) (hoaw : offsetAndWidth m buf args = .ok (o', w'))
  (ho' : o'.toInt = off) (hw' : w'.toInt = w) (hr : InRange off w buf.length)
  (hvar : d.width = 0 → 1 ≤ w ∧ w ≤ 6) (hfix : d.width ≠ 0 → w = d.width)
include hwf hlen hwr hoaw ho' hw' hr hvar hfix

theorem write_ok_int (hk : d.kind = .int) (v : Int ⊕ F64) (hv : valSpec d (args.getD 0 .undef) = some (some v))
    (r : CallResult) (h : specBody d buf v off w = some r) : Agrees (writeModel m buf args) r := by
  have hw1 : 1 ≤ w := by
    by_cases hz : d.width = 0
    · exact (hvar hz).1
    · have := hfix hz; omega
  have hw8 := hwf.w8
  have hwle : w ≤ 8 := by
    by_cases hz : d.width = 0
    · have := (hvar hz).2; omega
    · have := hfix hz; omega
  obtain ⟨hr0, hr1⟩ := hr
  generalize hva : args.getD 0 .undef = vArg at hv
  cases vArg <;> simp [valSpec, hwr, hk] at hv
  rename_i f
  obtain ⟨hint, rfl⟩ := hv
  have hInR : InRange off w buf.length := ⟨hr0, hr1⟩
  have hnotbad : ¬ (d.width = 0 ∧ (1 ≤ w → 6 < w)) := by
    intro ⟨hz, hc⟩; have := hvar hz; omega
  simp [specBody, hwr, hk, hInR, hnotbad] at h
  have hrg := rangeGuard_exact hwf hwr hk w' (i64OfInt f.toIntegerClip) w hw' hvar hfix
  rw [i64OfInt_clip_toInt] at hrg
  have hsl := sliceAt_ok buf o' w' (by omega) (by omega) (by omega)
  unfold writeModel writeCore
  simp only [hwf.desc, hk, hva, requiredInteger, hoaw, Outcome.bind_ok]
  by_cases hrep : Representable d.signed w.toNat f.toIntegerClip
  · have hg : rangeGuard m.rangeFn w' (i64OfInt f.toIntegerClip) = true := hrg.mpr hrep
    simp only [hrep, if_true, Option.some.injEq] at h
    subst h
    simp only [hg, Bool.not_true, Bool.false_eq_true, if_false, hsl, Outcome.bind_ok, Outcome.pure_eq, finish]
    refine ⟨?_, ?_⟩
    · show storeAt _ _ _ = splice _ _ _
      have : w'.toNat = w.toNat := by rw [toNat_of_toInt_nonneg w' (by omega), hw']
      rw [this]
      apply store_eq buf o' off w.toNat _ _ _ ho' hr0 (by omega)
      rw [i64OfInt_clip_toInt]
    · show JRet.int _ = JRet.int _
      rw [add_toInt o' w' off w buf.length hlen ho' hw' hr0 (by omega) hr1]
  · have hg : rangeGuard m.rangeFn w' (i64OfInt f.toIntegerClip) = false := by
      rw [Bool.eq_false_iff]; exact fun hc => hrep (hrg.mp hc)
    simp only [hrep, if_false, Option.some.injEq] at h
    subst h
    simp [hg, finish, Agrees]


theorem write_ok_bigint (hk : d.kind = .bigint) (v : Int ⊕ F64) (hv : valSpec d (args.getD 0 .undef) = some (some v))
    (r : CallResult) (h : specBody d buf v off w = some r) : Agrees (writeModel m buf args) r := by
  have hkw := hwf.kw
  simp only [kindWidthOK, hk, beq_iff_eq] at hkw
  have hww : w = 8 := by have := hfix (by omega); omega
  subst hww
  obtain ⟨hr0, hr1⟩ := hr
  generalize hva : args.getD 0 .undef = vArg at hv
  cases vArg <;> simp [valSpec, hwr, hk] at hv
  rename_i n
  subst hv
  have hInR : InRange off 8 buf.length := ⟨hr0, hr1⟩
  simp [specBody, hwr, hk, hInR, hkw] at h
  have hsl := sliceAt_ok buf o' w' (by omega) (by omega) (by omega)
  unfold writeModel writeCore
  simp only [hwf.desc, hk, hva, requiredBigInt, hoaw, Outcome.bind_ok]
  have hfits : (if d.signed = true then -2 ^ 63 ≤ n ∧ n < 2 ^ 63 else 0 ≤ n ∧ n < 2 ^ 64) ↔
      Representable d.signed 8 n := by
    unfold Representable; cases d.signed <;> simp
  by_cases hrep : Representable d.signed 8 n
  · simp only [hrep, if_true, Option.some.injEq] at h
    subst h
    simp only [hfits, hrep, decide_true, Bool.not_true, Bool.false_eq_true, if_false, hsl, Outcome.bind_ok,
      Outcome.pure_eq, finish]
    refine ⟨?_, ?_⟩
    · show storeAt _ _ _ = splice _ _ _
      exact store_eq buf o' off 8 _ _ _ ho' hr0 (by omega) (ofInt_toInt_emod n 8 (by omega))
    · show JRet.int _ = JRet.int _
      rw [add_toInt o' w' off 8 buf.length hlen ho' hw' hr0 (by omega) hr1]
  · simp only [hrep, if_false, Option.some.injEq] at h
    subst h
    simp only [hfits, hrep, decide_false, Bool.not_false, if_true, finish]
    simp [Agrees]

theorem write_ok_f64 (hk : d.kind = .f64) (v : Int ⊕ F64) (hv : valSpec d (args.getD 0 .undef) = some (some v))
    (r : CallResult) (h : specBody d buf v off w = some r) : Agrees (writeModel m buf args) r := by
  have hkw := hwf.kw
  simp only [kindWidthOK, hk, beq_iff_eq] at hkw
  have hww : w = 8 := by have := hfix (by omega); omega
  subst hww
  obtain ⟨hr0, hr1⟩ := hr
  generalize hva : args.getD 0 .undef = vArg at hv
  cases vArg <;> simp [valSpec, hwr, hk] at hv
  rename_i f
  subst hv
  have hInR : InRange off 8 buf.length := ⟨hr0, hr1⟩
  simp [specBody, hwr, hk, hInR, hkw] at h
  subst h
  have hsl := sliceAt_ok buf o' w' (by omega) (by omega) (by omega)
  unfold writeModel writeCore
  simp only [hwf.desc, hk, hva, requiredFloat, hoaw, Outcome.bind_ok, hsl, Outcome.pure_eq, finish]
  refine ⟨?_, ?_⟩
  · show storeAt _ _ _ = splice _ _ _
    exact store_eq buf o' off 8 _ _ _ ho' hr0 (by omega) (ofNat_toInt_emod _ 8 (by omega))
  · show JRet.int _ = JRet.int _
    rw [add_toInt o' w' off 8 buf.length hlen ho' hw' hr0 (by omega) hr1]

theorem write_ok_f32 (hk : d.kind = .f32) (v : Int ⊕ F64) (hv : valSpec d (args.getD 0 .undef) = some (some v))
    (r : CallResult) (h : specBody d buf v off w = some r) : Agrees (writeModel m buf args) r := by
  have hkw := hwf.kw
  simp only [kindWidthOK, hk, beq_iff_eq] at hkw
  have hww : w = 4 := by have := hfix (by omega); omega
  subst hww
  obtain ⟨hr0, hr1⟩ := hr
  generalize hva : args.getD 0 .undef = vArg at hv
  cases vArg <;> simp [valSpec, hwr, hk] at hv
  rename_i f
  obtain ⟨hbig, rfl⟩ := hv
  have hInR : InRange off 4 buf.length := ⟨hr0, hr1⟩
  simp [specBody, hwr, hk, hInR, hkw] at h
  subst h
  have hsl := sliceAt_ok buf o' w' (by omega) (by omega) (by omega)
  unfold writeModel writeCore
  simp only [hwf.desc, hk, hva, requiredFloat, hoaw, Outcome.bind_ok]
  have htb : (!f.isNaN && decide (f.bits &&& 9223372036854775807 > 5183643170566569984)) = false := by
    cases hn : f.isNaN
    · simpa [hn] using hbig
    · simp
  simp only [htb, Bool.false_eq_true, if_false, hsl, Outcome.bind_ok, Outcome.pure_eq, finish]
  refine ⟨?_, ?_⟩
  · show storeAt _ _ _ = splice _ _ _
    exact store_eq buf o' off 4 _ _ _ ho' hr0 (by omega) (ofNat_toInt_emod _ 4 (by omega))
  · show JRet.int _ = JRet.int _
    rw [add_toInt o' w' off 4 buf.length hlen ho' hw' hr0 (by omega) hr1]

end WriteOK

theorem signExtendTo_toInt (k : Nat) (hk : k ≤ 64) (raw : I64) :
    (signExtendTo k raw).toInt = Int.bmod raw.toNat (2 ^ k) := by
  unfold signExtendTo
  rw [BitVec.toInt_signExtend_of_le hk, BitVec.toInt_setWidth]

section ReadOK
variable {m : Generated.MethodFacts} {d : Desc} (hwf : WFP m d) (buf : List UInt8) (args : List JArg)
  (hlen : buf.length < 2 ^ 62) (hwr : d.write = false)
  (o' w' : I64) (off w : Int) (hoaw : offsetAndWidth m buf args = .ok (o', w'))
  (ho' : o'.toInt = off) (hw' : w'.toInt = w) (hr : InRange off w buf.length)
  (hvar : d.width = 0 → 1 ≤ w ∧ w ≤ 6) (hfix : d.width ≠ 0 → w = d.width)
include hwf hlen hwr hoaw ho' hw' hr hvar hfix

theorem read_ok (v : Int ⊕ F64) (r : CallResult) (h : specBody d buf v off w = some r) :
    Agrees (readModel m buf args) r := by
  have hw1 : 1 ≤ w := by
    by_cases hz : d.width = 0
    · exact (hvar hz).1
    · have := hfix hz; omega
  have hw8 := hwf.w8
  have hwle : w ≤ 8 := by
    by_cases hz : d.width = 0
    · have := (hvar hz).2; omega
    · have := hfix hz; omega
  obtain ⟨hr0, hr1⟩ := hr
  have hInR : InRange off w buf.length := ⟨hr0, hr1⟩
  have hnotbad : ¬ (d.width = 0 ∧ (1 ≤ w → 6 < w)) := by
    intro ⟨hz, hc⟩; have := hvar hz; omega
  simp [specBody, hwr, hInR, hnotbad] at h
  have hsl := sliceAt_ok buf o' w' (by omega) (by omega) (by omega)
  rw [ho', hw'] at hsl
  unfold readModel
  simp only [hwf.desc, hoaw, Outcome.bind_ok, hsl]
  generalize hbs : List.take w.toNat (List.drop off.toNat buf) = bs at h ⊢
  have hbl : bs.length = w.toNat := by
    rw [← hbs, List.length_take, List.length_drop]; omega
  have hraw := loadBytes_toNat_eq_decUnsigned d.bigEndian bs (by omega)
  have hult := decUnsigned_lt d.bigEndian bs
  have hsg := decSigned_eq_bmod d.bigEndian bs (by omega)
  generalize loadBytes d.bigEndian bs = raw at hraw ⊢
  generalize decSigned d.bigEndian bs = sg at hsg h
  generalize decUnsigned d.bigEndian bs = u at hraw hult hsg h
  cases hk : d.kind <;> simp only [hk, Option.some.injEq] at h ⊢ <;> subst h
  · -- int
    have hc := hwf.conv hwr hk
    have hpow : (2:Nat) ^ (8 * bs.length) ≤ 2 ^ 48 ∨ d.width ≠ 0 := by
      by_cases hz : d.width = 0
      · left; apply Nat.pow_le_pow_right (by decide); have := (hvar hz).2; omega
      · right; exact hz
    unfold convOK at hc
    split at hc
    all_goals first
      | exact Bool.noConfusion hc
      | skip
    all_goals
      rename_i hwd hsgn
      simp only [Bool.and_eq_true, bne_iff_ne, ne_eq, beq_iff_eq] at hc
      refine ⟨rfl, ?_⟩
    · -- signExtend
      obtain ⟨h1, h6⟩ := hvar hwd
      have hweq : w' = BitVec.ofNat 64 w.toNat := i64_eq_ofNat _ _ (by omega) (by omega)
      have hlt : w.toNat < 7 := by omega
      have hse := signExtend_spec raw ⟨w.toNat, hlt⟩ (by simp; omega)
      simp only [] at hse
      have hpow' : (2:Nat) ^ (8 * bs.length) ≤ 2 ^ 48 := by rcases hpow with h | h; exact h; exact absurd hwd h
      have hrawI : raw.toInt = u := by
        have : raw.toNat < 2 ^ 48 := by rw [hraw]; exact Nat.lt_of_lt_of_le hult hpow'
        rw [BitVec.toInt_eq_toNat_of_lt (x := raw) (by omega), hraw]
      simp only [hc, hsgn, if_true, beq_self_eq_true, Outcome.pure_eq]
      show JRet.int _ = JRet.int _
      rw [hweq, hse, hrawI, hsg, hbl]
    · -- int8
      have hww := hfix (by omega); rw [hwd] at hww; subst hww
      simp only [hc, hsgn, if_true, beq_self_eq_true, Outcome.pure_eq]
      show JRet.int _ = JRet.int _
      rw [signExtendTo_toInt 8 (by omega), hraw, hsg, hbl]; rfl
    · -- int16
      have hww := hfix (by omega); rw [hwd] at hww; subst hww
      simp only [hc, hsgn, if_true, beq_self_eq_true, Outcome.pure_eq]
      simp (config := {decide := true}) only [if_false]
      show JRet.int _ = JRet.int _
      rw [signExtendTo_toInt 16 (by omega), hraw, hsg, hbl]; rfl
    · -- int32
      have hww := hfix (by omega); rw [hwd] at hww; subst hww
      simp only [hc, hsgn, if_true, beq_self_eq_true, Outcome.pure_eq]
      simp (config := {decide := true}) only [if_false]
      show JRet.int _ = JRet.int _
      rw [signExtendTo_toInt 32 (by omega), hraw, hsg, hbl]; rfl
    all_goals
      simp [hc, hsgn, hraw]
  · -- bigint
    have hkw := hwf.kw
    simp only [kindWidthOK, hk, beq_iff_eq] at hkw
    have hww : w = 8 := by have := hfix (by omega); omega
    subst hww
    refine ⟨rfl, ?_⟩
    show JRet.big _ = JRet.big _
    congr 1
    cases d.signed
    · simp [hraw]
    · simp only [if_true]
      rw [hsg, hbl, BitVec.toInt_eq_toNat_bmod, hraw]; rfl
  · exact ⟨rfl, by simp [hraw]⟩
  · exact ⟨rfl, by simp [hraw]⟩

end ReadOK

theorem writeModel_throw_of_val {m : Generated.MethodFacts} {d : Desc} (hwf : WFP m d) (buf : List UInt8)
    (args : List JArg) (hwr : d.write = true) (hv : valSpec d (args.getD 0 .undef) = some none) :
    (writeModel m buf args).buf = buf ∧ ∃ c', (writeModel m buf args).out = .throw c' := by
  unfold writeModel writeCore
  rw [hwf.desc]
  generalize args.getD 0 .undef = v at hv
  cases hk : d.kind <;> cases v <;>
    simp [valSpec, hwr, hk] at hv <;>
    simp [hk, finish, requiredInteger, requiredBigInt, requiredFloat]
  all_goals (split at hv <;> simp at hv)

/-- the refinement for arbitrary generated facts that are well-formed for the descriptor -/
theorem refines_of_WF {m : Generated.MethodFacts} {d : Desc} (hwf : WFP m d) (buf : List UInt8)
    (args : List JArg) (r : CallResult) (hlen : buf.length < 2 ^ 62)
    (h : specD d buf (args.getD 0 .undef) (args.getD (if d.write then 1 else 0) .undef)
      (args.getD ((if d.write then 1 else 0) + 1) .undef) = some r) :
    Agrees (if m.dir == "write" then writeModel m buf args else readModel m buf args) r := by
  rw [← hwf.offIdx] at h
  rw [hwf.dir]
  -- generic "the model throws" closing step
  have throws : (∃ c, offsetAndWidth m buf args = .throw c) →
      Agrees (if d.write = true then writeModel m buf args else readModel m buf args)
        ⟨.throw .typeError, buf⟩ := by
    intro ⟨c, hc⟩
    cases hwr : d.write
    · simp only [Bool.false_eq_true, if_false]
      obtain ⟨h1, h2⟩ := readModel_throw_of_oaw m buf args c hc
      exact agrees_throw _ _ _ h1 _ h2
    · simp only [if_true]
      obtain ⟨h1, c', h2⟩ := writeModel_throw_of_oaw m buf args c hc
      exact agrees_throw _ _ _ h1 _ h2
  unfold specD at h
  simp only [] at h
  cases hv : valSpec d (args.getD 0 .undef) with
  | none => simp only [hv, reduceCtorEq] at h
  | some vo =>
    cases vo with
    | none =>
      simp only [hv, Option.some.injEq] at h
      subst h
      have hwr : d.write = true := by
        cases hw : d.write
        · simp [valSpec, hw] at hv
        · rfl
      simp only [hwr, if_true]
      obtain ⟨h1, c', h2⟩ := writeModel_throw_of_val hwf buf args hwr hv
      exact agrees_throw _ _ _ h1 _ h2
    | some v =>
      simp only [hv] at h
      cases ho : offSpec d.width (args.getD m.offIdx .undef) with
      | none => simp only [ho, reduceCtorEq] at h
      | some oo =>
        cases hw : wSpec d.width (args.getD (m.offIdx + 1) .undef) with
        | none => simp only [ho, hw, reduceCtorEq] at h
        | some ww =>
          cases oo with
          | none =>
            simp only [ho, hw, Option.some.injEq] at h
            subst h
            exact throws (oaw_throw_off hwf buf args ho)
          | some off =>
            cases ww with
            | none =>
              simp only [ho, hw, Option.some.injEq] at h
              subst h
              exact throws (oaw_throw_w hwf buf args hw)
            | some w =>
              simp only [ho, hw] at h
              obtain ⟨hfix, hok, hbad⟩ := oaw_some hwf buf args hlen off w ho hw
              by_cases hgood : (d.width = 0 → 1 ≤ w ∧ w ≤ 6) ∧ InRange off w buf.length
              · obtain ⟨o', w', hoaw, ho', hw'⟩ := hok hgood
                cases hwr : d.write
                · simp only [Bool.false_eq_true, if_false]
                  exact read_ok hwf buf args hlen hwr o' w' off w hoaw ho' hw' hgood.2 hgood.1 hfix v r h
                · simp only [if_true]
                  cases hk : d.kind
                  · exact write_ok_int hwf buf args hlen hwr o' w' off w hoaw ho' hw' hgood.2 hgood.1 hfix hk v hv r h
                  · exact write_ok_bigint hwf buf args hlen hwr o' w' off w hoaw ho' hw' hgood.2 hgood.1 hfix hk v hv r h
                  · exact write_ok_f32 hwf buf args hlen hwr o' w' off w hoaw ho' hw' hgood.2 hgood.1 hfix hk v hv r h
                  · exact write_ok_f64 hwf buf args hlen hwr o' w' off w hoaw ho' hw' hgood.2 hgood.1 hfix hk v hv r h
              · have hthrow := hbad hgood
                have hr : r = ⟨.throw .typeError, buf⟩ := by
                  unfold specBody at h
                  by_cases hz : d.width = 0
                  · by_cases hw16 : 1 ≤ w ∧ w ≤ 6
                    · have hnr : ¬ InRange off w buf.length := fun hc => hgood ⟨fun _ => hw16, hc⟩
                      simp [hz, hw16, hnr] at h
                      exact h.symm
                    · simp [hz, hw16] at h
                      exact h.symm
                  · have hnr : ¬ InRange off w buf.length := fun hc => hgood ⟨fun hc' => absurd hc' hz, hc⟩
                    simp [hz, hnr] at h
                    exact h.symm
                subst hr
                exact throws ⟨_, hthrow⟩


/-- **End-to-end refinement.** On the specification's claimed domain the model computes exactly what the
specification prescribes (error classes merged): same buffer afterwards, same returned value, or both throw;
in particular the model never panics there. -/
theorem callModel_refines_spec (jsName : String) (buf : List UInt8) (args : List JArg) (r : CallResult)
    (hlen : buf.length < 2 ^ 62)
    (h : specCall jsName buf args = some r) :
    ∃ r', callModel jsName buf args = some r' ∧ Agrees r' r := by
  rw [specCall_eq] at h
  cases hd : descOfName jsName with
  | none => simp only [hd, reduceCtorEq] at h
  | some d =>
    simp only [hd] at h
    obtain ⟨impl, m, hi, hm, hwf⟩ := facts_of_desc jsName d hd
    refine ⟨if m.dir == "write" then writeModel m buf args else readModel m buf args, ?_, ?_⟩
    · simp [callModel, hi, hm]
    · exact refines_of_WF (WFP.of_WF hwf) buf args r hlen h

/-! non-vacuity: the specification does make claims (reads, variable width, writes), and the model meets one -/
example : (specCall "readUInt16BE" [1, 2] []).isSome = true := by decide +kernel
example : (specCall "readIntLE" [1, 2, 0xff] [.num (F64.ofSmallInt 0), .num (F64.ofSmallInt 3)]).isSome = true := by
  decide +kernel
example : (specCall "writeInt16BE" [0, 0, 0] [.num (F64.ofSmallInt (-2)), .num (F64.ofSmallInt 1)]).map (·.buf)
    = some [0, 0xff, 0xfe] := by decide +kernel
example : (callModel "writeInt16BE" [0, 0, 0] [.num (F64.ofSmallInt (-2)), .num (F64.ofSmallInt 1)]).map (·.buf)
    = some [0, 0xff, 0xfe] := by decide +kernel

end GN.Buffer
