/-!
# Event loop — the aux queue, the wake-up token, the Stop handshake, Terminate's drain   [C03, C04, C07, C08]

An abstract small-step transition system of the synchronisation skeleton of `eventloop/eventloop.go`:
any number of submitter threads (`addAuxJob` = *enqueue under the lock*, then *non-blocking token send*),
the loop goroutine (`run` / `runAux`: swap the queue, execute the batch, select, check `canRun`, exit),
a controller (`Start`/`Run`, `Stop`, `Terminate`) and `StopNoWait` from anywhere.
Every interleaving of these steps is a path of `Step`; the theorems are invariants of every reachable state.
The executable `stepQ` (a function of a label) is what the driver runs against recorded traces of the real
loop; `stepQ_sound` shows it only takes `Step`s.
-/

namespace GN.EventLoop.Queue

inductive LPc where
  | idle                     -- nobody executes the loop
  | swap (k : Bool)          -- about to swap the queue in runAux; k = true: came from the wake-up arm
  | exec (k : Bool)          -- executing the batch
  | sel                      -- at the select
  | chk                      -- after runAux in the wake-up arm: about to load canRun
  | exit                     -- left the for loop; about to clear `running`
  | tswap                    -- Terminate (controller): flag set, about to swap the queue
  | texec                    -- Terminate: executing the batch
  deriving DecidableEq, Repr

inductive CPc where
  | out                      -- controller not in Stop
  | stored                   -- Stop: stored canRun = 0, about to send the token
  | waiting                  -- Stop: in cond.Wait
  deriving DecidableEq, Repr

structure St where
  aux        : List Nat := []     -- auxJobs (function ids)
  batch      : List Nat := []     -- the slice runAux iterates over, remaining part
  executed   : List Nat := []     -- ghost
  accepted   : List Nat := []     -- ghost
  refused    : List Nat := []     -- ghost
  token      : Bool := false      -- wakeupChan holds a token
  pend       : Nat := 0           -- token sends owed (between append and wakeup(); between StopNoWait's store and wakeup())
  lpc        : LPc := .idle
  cpc        : CPc := .out
  canRun     : Bool := false
  running    : Bool := false
  terminated : Bool := false
  deriving Repr

inductive Step : St → St → Prop where
  | enqueue (s : St) (f : Nat) (ht : s.terminated = false) (hf : f ∉ s.accepted ∧ f ∉ s.refused) :
      Step s { s with aux := s.aux ++ [f], accepted := s.accepted ++ [f], pend := s.pend + 1 }
  | refuse (s : St) (f : Nat) (ht : s.terminated = true) (hf : f ∉ s.accepted ∧ f ∉ s.refused) :
      Step s { s with refused := s.refused ++ [f] }
  | wake (s : St) (h : 0 < s.pend) :
      Step s { s with token := true, pend := s.pend - 1 }
  | start (s : St) (h : s.running = false) (hc : s.cpc = .out) (hl : s.lpc = .idle) :
      Step s { s with running := true, canRun := true, terminated := false, lpc := .swap false }
  | swap (s : St) (k : Bool) (h : s.lpc = .swap k) :
      Step s { s with batch := s.aux, aux := [], lpc := .exec k }
  | execOne (s : St) (k : Bool) (f : Nat) (rest : List Nat) (h : s.lpc = .exec k) (hb : s.batch = f :: rest) :
      Step s { s with batch := rest, executed := s.executed ++ [f] }
  | execDone (s : St) (k : Bool) (h : s.lpc = .exec k) (hb : s.batch = []) :
      Step s { s with lpc := if k then .chk else .sel }
  | quiesce (s : St) (h : s.lpc = .sel) :        -- no live job left (the live-job count is the ledger's business, C06)
      Step s { s with lpc := .exit }
  | takeToken (s : St) (h : s.lpc = .sel) (ht : s.token = true) :
      Step s { s with token := false, lpc := .swap true }
  | chk (s : St) (h : s.lpc = .chk) :
      Step s { s with lpc := if s.canRun then .sel else .exit }
  | exit (s : St) (h : s.lpc = .exit) (hl : s.cpc ≠ .stored) :   -- needs stopLock, which Stop holds between its check and Wait
      Step s { s with lpc := .idle, running := false,
                      cpc := if s.cpc = .waiting then .out else s.cpc }
  | stopStore (s : St) (h : s.cpc = .out) (hr : s.running = true) :
      Step s { s with canRun := false, cpc := .stored }
  | stopWake (s : St) (h : s.cpc = .stored) :
      Step s { s with token := true, cpc := .waiting }
  | snwStore (s : St) (hr : s.running = true) (hc : s.cpc ≠ .stored) :  -- StopNoWait, from any thread (needs stopLock)
      Step s { s with canRun := false, pend := s.pend + 1 }
  | termFlag (s : St) (h : s.running = false) (hc : s.cpc = .out) (hl : s.lpc = .idle) :
      Step s { s with terminated := true, lpc := .tswap }
  | termSwap (s : St) (h : s.lpc = .tswap) :
      Step s { s with batch := s.aux, aux := [], lpc := .texec }
  | termExecOne (s : St) (f : Nat) (rest : List Nat) (h : s.lpc = .texec) (hb : s.batch = f :: rest) :
      Step s { s with batch := rest, executed := s.executed ++ [f] }
  | termExecDone (s : St) (h : s.lpc = .texec) (hb : s.batch = []) :
      Step s { s with lpc := .idle }

def init : St := {}

/-- labels of the steps, for the executable version -/
inductive Lbl where
  | enqueue (f : Nat) | refuse (f : Nat) | wake | start | swap | execOne | execDone | quiesce | takeToken
  | chk | exit | stopStore | stopWake | snwStore | termFlag | termSwap | termExecOne | termExecDone
  deriving Repr, DecidableEq

/-- the executable transition function: `none` when the step is not enabled -/
def stepQ (s : St) : Lbl → Option St
  | .enqueue f =>
    if s.terminated = false ∧ f ∉ s.accepted ∧ f ∉ s.refused then
      some { s with aux := s.aux ++ [f], accepted := s.accepted ++ [f], pend := s.pend + 1 } else none
  | .refuse f =>
    if s.terminated = true ∧ f ∉ s.accepted ∧ f ∉ s.refused then some { s with refused := s.refused ++ [f] } else none
  | .wake => if 0 < s.pend then some { s with token := true, pend := s.pend - 1 } else none
  | .start =>
    if s.running = false ∧ s.cpc = .out ∧ s.lpc = .idle then
      some { s with running := true, canRun := true, terminated := false, lpc := .swap false } else none
  | .swap =>
    match s.lpc with
    | .swap k => some { s with batch := s.aux, aux := [], lpc := .exec k }
    | _ => none
  | .execOne =>
    match s.lpc, s.batch with
    | .exec _, f :: rest => some { s with batch := rest, executed := s.executed ++ [f] }
    | _, _ => none
  | .execDone =>
    match s.lpc, s.batch with
    | .exec k, [] => some { s with lpc := if k then .chk else .sel }
    | _, _ => none
  | .quiesce => if s.lpc = .sel then some { s with lpc := .exit } else none
  | .takeToken => if s.lpc = .sel ∧ s.token = true then some { s with token := false, lpc := .swap true } else none
  | .chk => if s.lpc = .chk then some { s with lpc := if s.canRun then .sel else .exit } else none
  | .exit =>
    if s.lpc = .exit ∧ s.cpc ≠ .stored then
      some { s with lpc := .idle, running := false, cpc := if s.cpc = .waiting then .out else s.cpc } else none
  | .stopStore => if s.cpc = .out ∧ s.running = true then some { s with canRun := false, cpc := .stored } else none
  | .stopWake => if s.cpc = .stored then some { s with token := true, cpc := .waiting } else none
  | .snwStore => if s.running = true ∧ s.cpc ≠ .stored then some { s with canRun := false, pend := s.pend + 1 } else none
  | .termFlag =>
    if s.running = false ∧ s.cpc = .out ∧ s.lpc = .idle then some { s with terminated := true, lpc := .tswap } else none
  | .termSwap => if s.lpc = .tswap then some { s with batch := s.aux, aux := [], lpc := .texec } else none
  | .termExecOne =>
    match s.lpc, s.batch with
    | .texec, f :: rest => some { s with batch := rest, executed := s.executed ++ [f] }
    | _, _ => none
  | .termExecDone =>
    match s.lpc, s.batch with
    | .texec, [] => some { s with lpc := .idle }
    | _, _ => none

inductive Reach : St → Prop where
  | init : Reach init
  | step {s t} : Reach s → Step s t → Reach t

/-- FIFO / exactly-once refinement invariant: what was accepted is what was executed, then the batch, then the queue -/
def InvFifo (s : St) : Prop := s.accepted = s.executed ++ s.batch ++ s.aux

/-- the batch is non-empty only while somebody executes it -/
def InvBatch (s : St) : Prop := s.batch ≠ [] → (∃ k, s.lpc = .exec k) ∨ s.lpc = .texec

/-- no lost wake-up: a queued function always has a token, an owed token send, or a loop that is not parked -/
def InvWake (s : St) : Prop :=
  s.aux ≠ [] → (s.token = true ∨ 0 < s.pend ∨ s.lpc = .idle ∨ (∃ k, s.lpc = .swap k) ∨ s.lpc = .exit ∨ s.lpc = .tswap)

/-- Stop handshake -/
def InvStop (s : St) : Prop :=
  ((s.lpc = .idle ∨ s.lpc = .tswap ∨ s.lpc = .texec) ↔ s.running = false) ∧
  (s.cpc ≠ .out → s.canRun = false ∧ s.running = true) ∧
  (s.cpc = .waiting → s.running = true ∧
      (s.token = true ∨ s.lpc = .swap true ∨ s.lpc = .exec true ∨ s.lpc = .chk ∨ s.lpc = .exit))

/-- refused functions are never accepted; while terminated the queue stays empty once Terminate has swapped it -/
def InvTerm (s : St) : Prop :=
  (∀ f ∈ s.refused, f ∉ s.accepted) ∧
  (s.terminated = true → s.running = false ∧ (s.lpc = .tswap ∨ s.aux = []))

theorem fifo_step {s t} (h : Step s t) (hi : InvFifo s) (hb : InvBatch s) : InvFifo t := by
  unfold InvFifo InvBatch at *
  cases h <;> simp_all

theorem batch_step {s t} (h : Step s t) (hb : InvBatch s) : InvBatch t := by
  unfold InvBatch at *
  cases h <;> simp_all
  all_goals (try (intro hne; simp_all))
  all_goals (try (split <;> simp_all))

theorem wake_step {s t} (h : Step s t) (hw : InvWake s) : InvWake t := by
  unfold InvWake at *
  cases h <;> simp_all
  all_goals (try omega)
  all_goals (try (intro hne; have := hw hne; rcases this with h1 | h1 <;> simp_all <;> omega))

theorem stop_step {s t} (h : Step s t) (hs : InvStop s) : InvStop t := by
  unfold InvStop at *
  obtain ⟨h1, h2, h3⟩ := hs
  cases h <;> simp_all
  all_goals (try (split <;> simp_all))
  all_goals (try (cases hc : s.cpc <;> simp_all))

theorem term_step {s t} (h : Step s t) (ht : InvTerm s) (hs : InvStop s) : InvTerm t := by
  unfold InvTerm InvStop at *
  obtain ⟨t1, t2⟩ := ht
  obtain ⟨s1, s2, s3⟩ := hs
  cases h <;> simp_all
  all_goals (try (intro f hf hfe; subst hfe; simp_all))
  all_goals (try (intro f hf; rcases hf with hf | hf <;> simp_all))
  all_goals (try (split <;> simp_all))

/-- all invariants, for every reachable state -/
theorem reach_inv {s} (h : Reach s) : InvFifo s ∧ InvBatch s ∧ InvWake s ∧ InvStop s ∧ InvTerm s := by
  induction h with
  | init => simp [init, InvFifo, InvBatch, InvWake, InvStop, InvTerm]
  | step _ hst ih =>
    obtain ⟨a, b, c, d, e⟩ := ih
    exact ⟨fifo_step hst a b, batch_step hst b, wake_step hst c, stop_step hst d, term_step hst e d⟩

/-- exactly once, in acceptance order: what has been executed is a prefix of what was accepted -/
theorem executed_prefix {s} (h : Reach s) : s.executed <+: s.accepted := by
  have := (reach_inv h).1
  unfold InvFifo at this
  rw [this, List.append_assoc]; exact List.prefix_append _ _

/-- a refused function is never executed -/
theorem refused_never_executed {s} (h : Reach s) : ∀ f ∈ s.refused, f ∉ s.executed := by
  intro f hf hex
  have hp := executed_prefix h
  exact (reach_inv h).2.2.2.2.1 f hf (hp.subset hex)

/-- when Terminate has drained (flag set, nobody executing), every accepted function has been executed, in order -/
theorem terminate_drains {s} (h : Reach s) (ht : s.terminated = true) (hl : s.lpc = .idle) :
    s.executed = s.accepted := by
  obtain ⟨hf, hb, _, _, he⟩ := reach_inv h
  unfold InvFifo InvBatch InvTerm at *
  have haux : s.aux = [] := by
    rcases (he.2 ht).2 with h1 | h1
    · rw [hl] at h1; cases h1
    · exact h1
  have hbatch : s.batch = [] := by
    apply Classical.byContradiction
    intro hne
    rcases hb hne with ⟨k, hk⟩ | hk <;> rw [hl] at hk <;> cases hk
  rw [hf, haux, hbatch]; simp

/-- no lost wake-up: if the loop is parked at its select with a function queued, a token is present or owed -/
theorem no_lost_wakeup {s} (h : Reach s) (hsel : s.lpc = .sel) (hq : s.aux ≠ []) : s.token = true ∨ 0 < s.pend := by
  have hw := (reach_inv h).2.2.1 hq
  rcases hw with h1 | h1 | h1 | ⟨k, h1⟩ | h1 | h1 <;> simp_all

/-- while Stop waits, the loop is on its way out or will be woken: the token is there or the loop is already
    between consuming it and the exit -/
theorem stop_is_served {s} (h : Reach s) (hw : s.cpc = .waiting) :
    s.canRun = false ∧ (s.token = true ∨ s.lpc = .swap true ∨ s.lpc = .exec true ∨ s.lpc = .chk ∨ s.lpc = .exit) := by
  obtain ⟨_, _, _, hs, _⟩ := reach_inv h
  unfold InvStop at hs
  exact ⟨(hs.2.1 (by rw [hw]; decide)).1, (hs.2.2 hw).2⟩

/-- nothing runs while the loop is stopped: a function is executed only by the running loop or by Terminate -/
theorem executes_only_running_or_terminate {s t} (hr : Reach s) (h : Step s t) (hx : t.executed ≠ s.executed) :
    s.running = true ∨ s.lpc = .texec := by
  have hs := (reach_inv hr).2.2.2.1
  unfold InvStop at hs
  cases h <;> simp_all

/-- the executable function only takes steps of the transition system -/
theorem stepQ_sound (s t : St) (l : Lbl) (h : stepQ s l = some t) : Step s t := by
  cases l <;> simp only [stepQ] at h
  case enqueue f => split at h <;> simp at h; next hc => subst h; exact .enqueue s f hc.1 hc.2
  case refuse f => split at h <;> simp at h; next hc => subst h; exact .refuse s f hc.1 hc.2
  case wake => split at h <;> simp at h; next hc => subst h; exact .wake s hc
  case start => split at h <;> simp at h; next hc => subst h; exact .start s hc.1 hc.2.1 hc.2.2
  case swap => split at h <;> simp at h; next k hk => subst h; exact .swap s k hk
  case execOne => split at h <;> simp at h; next k f rest hl hb => subst h; exact .execOne s k f rest hl hb
  case execDone => split at h <;> simp at h; next k hl hb => subst h; exact .execDone s k hl hb
  case quiesce => split at h <;> simp at h; next hc => subst h; exact .quiesce s hc
  case takeToken => split at h <;> simp at h; next hc => subst h; exact .takeToken s hc.1 hc.2
  case chk => split at h <;> simp at h; next hc => subst h; exact .chk s hc
  case exit => split at h <;> simp at h; next hc => subst h; exact .exit s hc.1 hc.2
  case stopStore => split at h <;> simp at h; next hc => subst h; exact .stopStore s hc.1 hc.2
  case stopWake => split at h <;> simp at h; next hc => subst h; exact .stopWake s hc
  case snwStore => split at h <;> simp at h; next hc => subst h; exact .snwStore s hc.1 hc.2
  case termFlag => split at h <;> simp at h; next hc => subst h; exact .termFlag s hc.1 hc.2.1 hc.2.2
  case termSwap => split at h <;> simp at h; next hc => subst h; exact .termSwap s hc
  case termExecOne => split at h <;> simp at h; next f rest hl hb => subst h; exact .termExecOne s f rest hl hb
  case termExecDone => split at h <;> simp at h; next hl hb => subst h; exact .termExecDone s hl hb

/-- running a label sequence from the initial state only visits reachable states -/
def runLabels (s : St) : List Lbl → Option St
  | [] => some s
  | l :: ls => (stepQ s l).bind fun t => runLabels t ls

theorem runLabels_reach (s t : St) (ls : List Lbl) (hs : Reach s) (h : runLabels s ls = some t) : Reach t := by
  induction ls generalizing s with
  | nil => simp [runLabels] at h; subst h; exact hs
  | cons l ls ih =>
    simp only [runLabels] at h
    cases hq : stepQ s l with
    | none => simp [hq] at h
    | some u => simp [hq] at h; exact ih u (.step hs (stepQ_sound s u l hq)) h

end GN.EventLoop.Queue
