/-!
# Event loop — the job ledger: per-job state, the live-job counter, the registry, the goroutines   [C05, C06, C08]

The companion of `GN.EventLoop.Queue` for the jobs of `eventloop/eventloop.go`: timeouts, intervals and
immediates.  A state is the list of every job ever set (a job's index in the list is its identity; the list
only grows), the counter `loop.jobCount`, and the `terminated` flag.  Per job we keep

* `cancelled` — the Go field `job.cancelled`,
* `inJobs`    — the job is in the registry `loop.jobs` (`job.idx ≥ 0`),
* `g`         — where the job's goroutine / runtime timer is:
  timeout: `armed` (the `time.AfterFunc` timer is pending), `sending` (the timer expired, its goroutine is
  sending `doTimeout` on `jobChan`), `done` (stopped by `timer.Stop()`, or `doTimeout` was received);
  interval: `iwait` (`(*Interval).run` at its select), `itick` (sending `doInterval`), `iremove` (left the
  loop after `stopChan` was closed, sending the `removeJob` closure), `idone`;
  immediate: `queued` (`doImmediate` is in the aux queue), `ran`,
* ghosts `fired` (how many times the callback started) and `cleared0` (a clear hit the job before it ever fired).

Transitions (every interleaving of the loop, the timer goroutines and the interval goroutines is a path):
`schedule` / the closures of `SetTimeout`, `SetInterval` (`setTimeout`, `setInterval`), `setImmediate`
(accepted only while not terminated; a refused one is not counted), the runtime timer expiring (`expire`),
the loop or Terminate's drain receiving `doTimeout` (`deliverLive` / `deliverDead`: fires iff not cancelled),
`clearTimeout` / `clearInterval` / `clearImmediate` and one iteration of Terminate's cancel loop on a job that
is not yet cancelled (`clear`; all of them set `cancelled` and decrement `jobCount`; a timeout whose timer
could still be stopped is removed from the registry on the spot) or already cancelled (`clearNoop`), the ticker
(`tick`, `deliverTick`), the interval goroutine seeing `stopChan` closed (`istop`) and its `removeJob` closure
being received (`deliverRemove`), `doImmediate` (`runImmediateLive` / `runImmediateDead`), and the flag.
-/

namespace GN.EventLoop.Ledger

inductive JKind where | timeout | interval | immediate
  deriving DecidableEq, Repr

inductive GSt where
  | armed | sending | done                    -- timeout: runtime timer / its goroutine
  | iwait | itick | iremove | idone           -- interval goroutine
  | queued | ran                              -- immediate (lives in the aux queue)
  deriving DecidableEq, Repr

structure Job where
  kind      : JKind
  cancelled : Bool
  inJobs    : Bool      -- registered in loop.jobs
  g         : GSt
  fired     : Nat       -- ghost: number of times the callback began
  cleared0  : Bool      -- ghost: a clear executed while fired = 0
  deriving DecidableEq, Repr

structure St where
  jobs       : List Job := []
  jobCount   : Int := 0
  terminated : Bool := false
  deriving DecidableEq, Repr

/-- a job counts as live while it was set and is not cancelled (a timeout / immediate that fires is
    cancelled by its own delivery) -/
def live (j : Job) : Bool := !j.cancelled

def St.upd (s : St) (i : Nat) (f : Job → Job) : St := { s with jobs := s.jobs.modify i f }

/-- what `clearTimeout` / `clearInterval` / `clearImmediate` / Terminate's cancel loop do to a job that is not
    yet cancelled: set `cancelled`; a timeout whose timer is still pending is stopped (`timer.Stop()` = true)
    and removed from the registry at once; every other goroutine finishes on its own later.
    (The accompanying `jobCount--` is in the `clear` transition.) -/
def cancelJob (j : Job) : Job :=
  match j.kind, j.g with
  | .timeout, .armed =>
      { j with cancelled := true, g := .done, inJobs := false, cleared0 := j.cleared0 || j.fired == 0 }
  | _, _ => { j with cancelled := true, cleared0 := j.cleared0 || j.fired == 0 }

inductive Step : St → St → Prop where
  | setTimeout (s : St) :
      Step s { s with jobs := s.jobs ++ [⟨.timeout, false, true, .armed, 0, false⟩], jobCount := s.jobCount + 1 }
  | setInterval (s : St) :
      Step s { s with jobs := s.jobs ++ [⟨.interval, false, true, .iwait, 0, false⟩], jobCount := s.jobCount + 1 }
  | setImmediate (s : St) (h : s.terminated = false) :
      Step s { s with jobs := s.jobs ++ [⟨.immediate, false, false, .queued, 0, false⟩], jobCount := s.jobCount + 1 }
  | setImmediateRefused (s : St) (h : s.terminated = true) : Step s s
  | expire (s : St) (i : Nat) (j : Job) (h : s.jobs[i]? = some j) (hk : j.kind = .timeout) (hg : j.g = .armed) :
      Step s (s.upd i fun j => { j with g := .sending })
  | deliverLive (s : St) (i : Nat) (j : Job) (h : s.jobs[i]? = some j) (hk : j.kind = .timeout) (hg : j.g = .sending)
      (hc : j.cancelled = false) :
      Step s { (s.upd i fun j => { j with g := .done, inJobs := false, cancelled := true, fired := j.fired + 1 })
               with jobCount := s.jobCount - 1 }
  | deliverDead (s : St) (i : Nat) (j : Job) (h : s.jobs[i]? = some j) (hk : j.kind = .timeout) (hg : j.g = .sending)
      (hc : j.cancelled = true) :
      Step s (s.upd i fun j => { j with g := .done, inJobs := false })
  | clear (s : St) (i : Nat) (j : Job) (h : s.jobs[i]? = some j) (hc : j.cancelled = false) :
      Step s { (s.upd i cancelJob) with jobCount := s.jobCount - 1 }
  | clearNoop (s : St) (i : Nat) (j : Job) (h : s.jobs[i]? = some j) (hc : j.cancelled = true) : Step s s
  | tick (s : St) (i : Nat) (j : Job) (h : s.jobs[i]? = some j) (hk : j.kind = .interval) (hg : j.g = .iwait) :
      Step s (s.upd i fun j => { j with g := .itick })
  | deliverTick (s : St) (i : Nat) (j : Job) (h : s.jobs[i]? = some j) (hk : j.kind = .interval) (hg : j.g = .itick) :
      Step s (s.upd i fun j => { j with g := .iwait, fired := if j.cancelled then j.fired else j.fired + 1 })
  | istop (s : St) (i : Nat) (j : Job) (h : s.jobs[i]? = some j) (hk : j.kind = .interval) (hg : j.g = .iwait)
      (hc : j.cancelled = true) :
      Step s (s.upd i fun j => { j with g := .iremove })
  | deliverRemove (s : St) (i : Nat) (j : Job) (h : s.jobs[i]? = some j) (hk : j.kind = .interval) (hg : j.g = .iremove) :
      Step s (s.upd i fun j => { j with g := .idone, inJobs := false })
  | runImmediateLive (s : St) (i : Nat) (j : Job) (h : s.jobs[i]? = some j) (hk : j.kind = .immediate) (hg : j.g = .queued)
      (hc : j.cancelled = false) :
      Step s { (s.upd i fun j => { j with g := .ran, cancelled := true, fired := j.fired + 1 })
               with jobCount := s.jobCount - 1 }
  | runImmediateDead (s : St) (i : Nat) (j : Job) (h : s.jobs[i]? = some j) (hk : j.kind = .immediate) (hg : j.g = .queued)
      (hc : j.cancelled = true) :
      Step s (s.upd i fun j => { j with g := .ran })
  | setTerminated (s : St) (b : Bool) : Step s { s with terminated := b }

def init : St := {}

inductive Reach : St → Prop where
  | init : Reach init
  | step {s t} : Reach s → Step s t → Reach t

/-- per-job invariant -/
def JobOK (j : Job) : Prop :=
  -- registry: exactly the timers/intervals whose goroutine has not finished are in loop.jobs
  (j.kind = .timeout → (j.inJobs = true ↔ (j.g = .armed ∨ j.g = .sending)) ∧ (j.g = .armed ∨ j.g = .sending ∨ j.g = .done)) ∧
  (j.kind = .interval → (j.inJobs = true ↔ (j.g = .iwait ∨ j.g = .itick ∨ j.g = .iremove)) ∧
                        (j.g = .iwait ∨ j.g = .itick ∨ j.g = .iremove ∨ j.g = .idone) ∧
                        (j.g = .iremove ∨ j.g = .idone → j.cancelled = true)) ∧
  (j.kind = .immediate → j.inJobs = false ∧ (j.g = .queued ∨ j.g = .ran) ∧ (j.g = .ran → j.cancelled = true)) ∧
  -- a timeout or immediate fires at most once, and only by becoming cancelled
  (j.kind ≠ .interval → j.fired ≤ 1 ∧ (j.fired = 1 → j.cancelled = true)) ∧
  (j.kind = .timeout → j.g = .done → j.cancelled = true) ∧
  -- cleared before it ever fired ⇒ never fires
  (j.cleared0 = true → j.fired = 0 ∧ j.cancelled = true)

/-- the global invariant: every job is well-formed and `jobCount` is exactly the number of live jobs -/
def LInv (s : St) : Prop :=
  (∀ j ∈ s.jobs, JobOK j) ∧ s.jobCount = (s.jobs.countP live : Nat)

/-! ## The two list lemmas -/

theorem mem_modify (f : Job → Job) : ∀ (l : List Job) (i : Nat) (a : Job),
    a ∈ l.modify i f → a ∈ l ∨ ∃ b, l[i]? = some b ∧ a = f b := by
  intro l
  induction l with
  | nil => intro i a h; simp at h
  | cons x xs ih =>
    intro i a h
    cases i with
    | zero =>
      simp at h
      rcases h with h | h
      · exact .inr ⟨x, by simp, h⟩
      · exact .inl (by simp [h])
    | succ n =>
      simp at h
      rcases h with h | h
      · exact .inl (by simp [h])
      · rcases ih n a h with h' | ⟨b, hb, hab⟩
        · exact .inl (by simp [h'])
        · exact .inr ⟨b, by simpa using hb, hab⟩

theorem countP_modify (p : Job → Bool) (f : Job → Job) : ∀ (l : List Job) (i : Nat) (j : Job), l[i]? = some j →
    (l.modify i f).countP p + (p j).toNat = l.countP p + (p (f j)).toNat := by
  intro l
  induction l with
  | nil => intro i j h; simp at h
  | cons x xs ih =>
    intro i j h
    cases i with
    | zero =>
      simp at h; subst h
      simp [List.countP_cons]
      cases p x <;> cases p (f x) <;> simp <;> omega
    | succ n =>
      simp at h
      have := ih n j h
      simp [List.countP_cons]
      omega

/-- modifying one job without changing whether it is live keeps the invariant -/
theorem upd_inv_same {s : St} {i : Nat} {j : Job} (f : Job → Job) (hi : LInv s) (hget : s.jobs[i]? = some j)
    (hok : JobOK j → JobOK (f j)) (hl : live (f j) = live j) : LInv (s.upd i f) := by
  obtain ⟨h1, h2⟩ := hi
  have hj : j ∈ s.jobs := List.mem_of_getElem? hget
  refine ⟨?_, ?_⟩
  · intro a ha
    rcases mem_modify f _ _ _ ha with h | ⟨b, hb, hab⟩
    · exact h1 a h
    · rw [hget] at hb; cases hb; subst hab; exact hok (h1 j hj)
  · have := countP_modify live f s.jobs i j hget
    rw [hl] at this
    simp only [St.upd]
    omega

/-- a live job becoming not live, with `jobCount` decremented, keeps the invariant -/
theorem upd_inv_dec {s : St} {i : Nat} {j : Job} (f : Job → Job) (hi : LInv s) (hget : s.jobs[i]? = some j)
    (hok : JobOK j → JobOK (f j)) (hl : live j = true) (hl' : live (f j) = false) :
    LInv { (s.upd i f) with jobCount := s.jobCount - 1 } := by
  obtain ⟨h1, h2⟩ := hi
  have hj : j ∈ s.jobs := List.mem_of_getElem? hget
  refine ⟨?_, ?_⟩
  · intro a ha
    rcases mem_modify f _ _ _ ha with h | ⟨b, hb, hab⟩
    · exact h1 a h
    · rw [hget] at hb; cases hb; subst hab; exact hok (h1 j hj)
  · have := countP_modify live f s.jobs i j hget
    rw [hl, hl'] at this
    simp only [St.upd, Bool.toNat_true, Bool.toNat_false] at this ⊢
    omega

/-- appending a fresh live job, with `jobCount` incremented, keeps the invariant -/
theorem app_inv {s : St} (j : Job) (hi : LInv s) (hok : JobOK j) (hl : live j = true) :
    LInv { s with jobs := s.jobs ++ [j], jobCount := s.jobCount + 1 } := by
  obtain ⟨h1, h2⟩ := hi
  refine ⟨?_, ?_⟩
  · intro a ha
    simp at ha
    rcases ha with ha | ha
    · exact h1 a ha
    · subst ha; exact hok
  · simp [List.countP_append, hl]
    omega

theorem cancelJob_ok (j : Job) (hc : j.cancelled = false) (h : JobOK j) : JobOK (cancelJob j) := by
  unfold cancelJob
  split <;> simp_all [JobOK]
  all_goals (try omega)

theorem inv_step {s t} (h : Step s t) (hi : LInv s) : LInv t := by
  cases h with
  | setTimeout => exact app_inv _ hi (by simp [JobOK]) rfl
  | setInterval => exact app_inv _ hi (by simp [JobOK]) rfl
  | setImmediate => exact app_inv _ hi (by simp [JobOK]) rfl
  | setImmediateRefused => exact hi
  | expire i j hget hk hg => exact upd_inv_same _ hi hget (by intro h; simp_all [JobOK]) rfl
  | deliverLive i j hget hk hg hc =>
    exact upd_inv_dec _ hi hget (by intro h; simp_all [JobOK]; omega) (by simp [live, hc]) rfl
  | deliverDead i j hget hk hg hc => exact upd_inv_same _ hi hget (by intro h; simp_all [JobOK]) rfl
  | clear i j hget hc =>
    exact upd_inv_dec _ hi hget (cancelJob_ok j hc) (by simp [live, hc])
      (by unfold cancelJob; split <;> simp [live])
  | clearNoop => exact hi
  | tick i j hget hk hg => exact upd_inv_same _ hi hget (by intro h; simp_all [JobOK]) rfl
  | deliverTick i j hget hk hg =>
    exact upd_inv_same _ hi hget (by intro h; cases hc : j.cancelled <;> simp_all [JobOK]) rfl
  | istop i j hget hk hg hc => exact upd_inv_same _ hi hget (by intro h; simp_all [JobOK]) rfl
  | deliverRemove i j hget hk hg => exact upd_inv_same _ hi hget (by intro h; simp_all [JobOK]) rfl
  | runImmediateLive i j hget hk hg hc =>
    exact upd_inv_dec _ hi hget (by intro h; simp_all [JobOK]; omega) (by simp [live, hc]) rfl
  | runImmediateDead i j hget hk hg hc => exact upd_inv_same _ hi hget (by intro h; simp_all [JobOK]) rfl
  | setTerminated b => exact hi

/-- the invariant holds in every reachable state -/
theorem reach_inv {s} (h : Reach s) : LInv s := by
  induction h with
  | init => simp [init, LInv]
  | step _ hst ih => exact inv_step hst ih

/-! ## Properties of every reachable state -/

/-- **the ledger is exact**: in every reachable state `jobCount` is the number of jobs that were set and are
    not cancelled — not fired (timeout, immediate), not cleared, not cancelled by Terminate -/
theorem count_exact {s} (h : Reach s) : s.jobCount = ((s.jobs.countP fun j => !j.cancelled : Nat) : Int) :=
  (reach_inv h).2

/-- a timeout or an immediate fires at most once -/
theorem timeout_fires_at_most_once {s} (h : Reach s) :
    ∀ j ∈ s.jobs, j.kind = .timeout ∨ j.kind = .immediate → j.fired ≤ 1 := by
  intro j hj hk
  have := (reach_inv h).1 j hj
  unfold JobOK at this
  rcases hk with hk | hk <;> simp_all

/-- a job that was cleared before its callback ever ran has never run — in every reachable state, so no later
    transition makes it run (see `cleared_never_fires_later` for the statement along a path) -/
theorem cleared_never_fires {s} (h : Reach s) : ∀ j ∈ s.jobs, j.cleared0 = true → j.fired = 0 := by
  intro j hj hc
  exact (((reach_inv h).1 j hj).2.2.2.2.2 hc).1

/-- the registry `loop.jobs` holds exactly the timeouts and intervals whose goroutine / runtime timer has not
    finished; an immediate is never in the registry -/
theorem registry_matches_goroutines {s} (h : Reach s) : ∀ j ∈ s.jobs,
    (j.kind = .timeout → (j.inJobs = true ↔ (j.g = .armed ∨ j.g = .sending))) ∧
    (j.kind = .interval → (j.inJobs = true ↔ (j.g = .iwait ∨ j.g = .itick ∨ j.g = .iremove))) ∧
    (j.kind = .immediate → j.inJobs = false) := by
  intro j hj
  have := (reach_inv h).1 j hj
  unfold JobOK at this
  exact ⟨fun hk => (this.1 hk).1, fun hk => (this.2.1 hk).1, fun hk => (this.2.2.1 hk).1⟩

/-- the loop is quiescent (`jobCount = 0`, the condition under which `run` returns) exactly when every job is
    cancelled -/
theorem quiescent_iff {s} (h : Reach s) : s.jobCount = 0 ↔ ∀ j ∈ s.jobs, j.cancelled = true := by
  rw [(reach_inv h).2]
  constructor
  · intro h0 j hj
    have h0' : s.jobs.countP live = 0 := by omega
    have := List.countP_eq_zero.mp h0' j hj
    simpa [live] using this
  · intro hall
    have : s.jobs.countP live = 0 := List.countP_eq_zero.mpr (by intro j hj; simp [live, hall j hj])
    omega

/-- what Terminate establishes: once every job is cancelled (the cancel loop) and every timer goroutine and
    every interval goroutine has finished (the drain), the registry is empty and the counter is zero -/
theorem terminate_leaves_nothing {s} (h : Reach s)
    (hc : ∀ j ∈ s.jobs, j.cancelled = true)
    (ht : ∀ j ∈ s.jobs, j.kind = .timeout → j.g = .done)
    (hi : ∀ j ∈ s.jobs, j.kind = .interval → j.g = .idone) :
    (∀ j ∈ s.jobs, j.inJobs = false) ∧ s.jobCount = 0 := by
  refine ⟨?_, (quiescent_iff h).mpr hc⟩
  intro j hj
  have hok := (reach_inv h).1 j hj
  have ht' := ht j hj
  have hi' := hi j hj
  unfold JobOK at hok
  cases hk : j.kind <;> cases hb : j.inJobs <;> simp_all

/-! ## Properties of steps and paths -/

theorem getElem?_modify_pres {P : Job → Prop} (f : Job → Job) (hf : ∀ j, P j → P (f j)) (l : List Job) (k i : Nat)
    (j : Job) (h : l[i]? = some j) (hp : P j) : ∃ j', (l.modify k f)[i]? = some j' ∧ P j' := by
  rw [List.getElem?_modify, h]
  refine ⟨_, rfl, ?_⟩
  split
  · exact hf j hp
  · exact hp

theorem getElem?_append_pres (l : List Job) (x : Job) (i : Nat) (j : Job) (h : l[i]? = some j) :
    (l ++ [x])[i]? = some j := by
  obtain ⟨hlt, _⟩ := List.getElem?_eq_some_iff.mp h
  rw [List.getElem?_append_left hlt]; exact h

/-- a job keeps its index, and `cleared0` is never reset -/
theorem step_keeps_cleared0 {s t} (h : Step s t) {i : Nat} {j : Job} (hs : s.jobs[i]? = some j)
    (hc : j.cleared0 = true) : ∃ j', t.jobs[i]? = some j' ∧ j'.cleared0 = true := by
  cases h
  case setTimeout => exact ⟨j, getElem?_append_pres _ _ _ _ hs, hc⟩
  case setInterval => exact ⟨j, getElem?_append_pres _ _ _ _ hs, hc⟩
  case setImmediate => exact ⟨j, getElem?_append_pres _ _ _ _ hs, hc⟩
  case setImmediateRefused => exact ⟨j, hs, hc⟩
  case clearNoop => exact ⟨j, hs, hc⟩
  case setTerminated => exact ⟨j, hs, hc⟩
  case clear =>
    exact getElem?_modify_pres (P := fun j => j.cleared0 = true) _
      (by intro j h; unfold cancelJob; split <;> simp [h]) _ _ _ _ hs hc
  all_goals exact getElem?_modify_pres (P := fun j => j.cleared0 = true) _ (by intro j h; exact h) _ _ _ _ hs hc

/-- finite paths -/
inductive Steps : St → St → Prop where
  | refl (s : St) : Steps s s
  | tail {s t u} : Steps s t → Step t u → Steps s u

theorem Steps.reach {s t} (hs : Reach s) (h : Steps s t) : Reach t := by
  induction h with
  | refl => exact hs
  | tail _ hst ih => exact .step ih hst

/-- **clear wins**: once a job has been cleared before its callback ever ran (`cleared0`), then after any
    further transitions of the system — timer expiry, deliveries, ticks, more clears, Terminate — it is still
    the same job (same index), still marked, and its callback has still never run -/
theorem cleared_never_fires_later {s t} (hr : Reach s) (h : Steps s t) {i : Nat} {j : Job}
    (hs : s.jobs[i]? = some j) (hc : j.cleared0 = true) :
    ∃ j', t.jobs[i]? = some j' ∧ j'.cleared0 = true ∧ j'.fired = 0 := by
  have key : ∃ j', t.jobs[i]? = some j' ∧ j'.cleared0 = true := by
    induction h with
    | refl => exact ⟨j, hs, hc⟩
    | tail _ hst ih =>
      obtain ⟨j1, h1, hc1⟩ := ih
      exact step_keeps_cleared0 hst h1 hc1
  obtain ⟨j', h1, h2⟩ := key
  exact ⟨j', h1, h2, cleared_never_fires (Steps.reach hr h) j' (List.mem_of_getElem? h1) h2⟩

theorem fire_aux (f : Job → Job) {l : List Job} {k i : Nat} {j j0 j' : Job} (hget : l[k]? = some j0)
    (hs : l[i]? = some j) (ht : (l.modify k f)[i]? = some j') (hf : j.fired < j'.fired) :
    j0 = j ∧ j.fired < (f j).fired := by
  rw [List.getElem?_modify, hs] at ht
  simp only [Option.map_eq_map, Option.map_some, Option.some.injEq] at ht
  split at ht
  · next heq =>
    subst heq
    rw [hget] at hs; cases hs
    subst ht
    exact ⟨rfl, hf⟩
  · subst ht; omega

/-- **delivery re-checks `cancelled`**: a step that starts a job's callback (increases its `fired`) is only
    possible if the job was not cancelled before the step -/
theorem fire_requires_live {s t} (h : Step s t) {i : Nat} {j j' : Job} (hs : s.jobs[i]? = some j)
    (ht : t.jobs[i]? = some j') (hf : j.fired < j'.fired) : j.cancelled = false := by
  have happ : ∀ x, (s.jobs ++ [x])[i]? = some j' → j.cancelled = false := by
    intro x hx
    rw [getElem?_append_pres _ _ _ _ hs] at hx
    cases hx; omega
  have hsame : s.jobs[i]? = some j' → j.cancelled = false := by
    intro hx; rw [hs] at hx; cases hx; omega
  cases h with
  | setTimeout => exact happ _ ht
  | setInterval => exact happ _ ht
  | setImmediate => exact happ _ ht
  | setImmediateRefused => exact hsame ht
  | clearNoop => exact hsame ht
  | setTerminated => exact hsame ht
  | expire k j0 hget hk hg => obtain ⟨rfl, hf'⟩ := fire_aux _ hget hs ht hf; simp at hf'
  | deliverLive k j0 hget hk hg hc => obtain ⟨rfl, _⟩ := fire_aux _ hget hs ht hf; exact hc
  | deliverDead k j0 hget hk hg hc => obtain ⟨rfl, hf'⟩ := fire_aux _ hget hs ht hf; simp at hf'
  | clear k j0 hget hc => obtain ⟨rfl, _⟩ := fire_aux _ hget hs ht hf; exact hc
  | tick k j0 hget hk hg => obtain ⟨rfl, hf'⟩ := fire_aux _ hget hs ht hf; simp at hf'
  | deliverTick k j0 hget hk hg =>
    obtain ⟨rfl, hf'⟩ := fire_aux _ hget hs ht hf
    cases hc : j0.cancelled <;> simp_all
  | istop k j0 hget hk hg hc => obtain ⟨rfl, hf'⟩ := fire_aux _ hget hs ht hf; simp at hf'
  | deliverRemove k j0 hget hk hg => obtain ⟨rfl, hf'⟩ := fire_aux _ hget hs ht hf; simp at hf'
  | runImmediateLive k j0 hget hk hg hc => obtain ⟨rfl, _⟩ := fire_aux _ hget hs ht hf; exact hc
  | runImmediateDead k j0 hget hk hg hc => obtain ⟨rfl, hf'⟩ := fire_aux _ hget hs ht hf; simp at hf'

/-! ## Executable version -/

/-- labels of the steps -/
inductive Lbl where
  | setTimeout | setInterval | setImmediate | setImmediateRefused
  | expire (i : Nat) | deliverLive (i : Nat) | deliverDead (i : Nat)
  | clear (i : Nat) | clearNoop (i : Nat)
  | tick (i : Nat) | deliverTick (i : Nat) | istop (i : Nat) | deliverRemove (i : Nat)
  | runImmediateLive (i : Nat) | runImmediateDead (i : Nat)
  | setTerminated (b : Bool)
  deriving Repr, DecidableEq

/-- the executable transition function: `none` when the step is not enabled (index out of range, wrong kind,
    wrong goroutine state, wrong `cancelled` flag, wrong `terminated` flag) -/
def stepL (s : St) : Lbl → Option St
  | .setTimeout =>
    some { s with jobs := s.jobs ++ [⟨.timeout, false, true, .armed, 0, false⟩], jobCount := s.jobCount + 1 }
  | .setInterval =>
    some { s with jobs := s.jobs ++ [⟨.interval, false, true, .iwait, 0, false⟩], jobCount := s.jobCount + 1 }
  | .setImmediate =>
    if s.terminated = false then
      some { s with jobs := s.jobs ++ [⟨.immediate, false, false, .queued, 0, false⟩], jobCount := s.jobCount + 1 }
    else none
  | .setImmediateRefused => if s.terminated = true then some s else none
  | .expire i =>
    match s.jobs[i]? with
    | some j => if j.kind = .timeout ∧ j.g = .armed then some (s.upd i fun j => { j with g := .sending }) else none
    | none => none
  | .deliverLive i =>
    match s.jobs[i]? with
    | some j =>
      if j.kind = .timeout ∧ j.g = .sending ∧ j.cancelled = false then
        some { (s.upd i fun j => { j with g := .done, inJobs := false, cancelled := true, fired := j.fired + 1 })
               with jobCount := s.jobCount - 1 }
      else none
    | none => none
  | .deliverDead i =>
    match s.jobs[i]? with
    | some j =>
      if j.kind = .timeout ∧ j.g = .sending ∧ j.cancelled = true then
        some (s.upd i fun j => { j with g := .done, inJobs := false })
      else none
    | none => none
  | .clear i =>
    match s.jobs[i]? with
    | some j => if j.cancelled = false then some { (s.upd i cancelJob) with jobCount := s.jobCount - 1 } else none
    | none => none
  | .clearNoop i =>
    match s.jobs[i]? with
    | some j => if j.cancelled = true then some s else none
    | none => none
  | .tick i =>
    match s.jobs[i]? with
    | some j => if j.kind = .interval ∧ j.g = .iwait then some (s.upd i fun j => { j with g := .itick }) else none
    | none => none
  | .deliverTick i =>
    match s.jobs[i]? with
    | some j =>
      if j.kind = .interval ∧ j.g = .itick then
        some (s.upd i fun j => { j with g := .iwait, fired := if j.cancelled then j.fired else j.fired + 1 })
      else none
    | none => none
  | .istop i =>
    match s.jobs[i]? with
    | some j =>
      if j.kind = .interval ∧ j.g = .iwait ∧ j.cancelled = true then some (s.upd i fun j => { j with g := .iremove })
      else none
    | none => none
  | .deliverRemove i =>
    match s.jobs[i]? with
    | some j =>
      if j.kind = .interval ∧ j.g = .iremove then some (s.upd i fun j => { j with g := .idone, inJobs := false })
      else none
    | none => none
  | .runImmediateLive i =>
    match s.jobs[i]? with
    | some j =>
      if j.kind = .immediate ∧ j.g = .queued ∧ j.cancelled = false then
        some { (s.upd i fun j => { j with g := .ran, cancelled := true, fired := j.fired + 1 })
               with jobCount := s.jobCount - 1 }
      else none
    | none => none
  | .runImmediateDead i =>
    match s.jobs[i]? with
    | some j =>
      if j.kind = .immediate ∧ j.g = .queued ∧ j.cancelled = true then some (s.upd i fun j => { j with g := .ran })
      else none
    | none => none
  | .setTerminated b => some { s with terminated := b }

/-- the executable function only takes steps of the transition system -/
theorem stepL_sound (s t : St) (l : Lbl) (h : stepL s l = some t) : Step s t := by
  cases l <;> simp only [stepL] at h
  case setTimeout => simp at h; subst h; exact .setTimeout s
  case setInterval => simp at h; subst h; exact .setInterval s
  case setImmediate => split at h <;> simp at h; next hc => subst h; exact .setImmediate s hc
  case setImmediateRefused => split at h <;> simp at h; next hc => subst h; exact .setImmediateRefused s hc
  case setTerminated b => simp at h; subst h; exact .setTerminated s b
  case expire i =>
    split at h
    · next j hj => split at h <;> simp at h; next hc => subst h; exact .expire s i j hj hc.1 hc.2
    · simp at h
  case deliverLive i =>
    split at h
    · next j hj => split at h <;> simp at h; next hc => subst h; exact .deliverLive s i j hj hc.1 hc.2.1 hc.2.2
    · simp at h
  case deliverDead i =>
    split at h
    · next j hj => split at h <;> simp at h; next hc => subst h; exact .deliverDead s i j hj hc.1 hc.2.1 hc.2.2
    · simp at h
  case clear i =>
    split at h
    · next j hj => split at h <;> simp at h; next hc => subst h; exact .clear s i j hj hc
    · simp at h
  case clearNoop i =>
    split at h
    · next j hj => split at h <;> simp at h; next hc => subst h; exact .clearNoop s i j hj hc
    · simp at h
  case tick i =>
    split at h
    · next j hj => split at h <;> simp at h; next hc => subst h; exact .tick s i j hj hc.1 hc.2
    · simp at h
  case deliverTick i =>
    split at h
    · next j hj => split at h <;> simp at h; next hc => subst h; exact .deliverTick s i j hj hc.1 hc.2
    · simp at h
  case istop i =>
    split at h
    · next j hj => split at h <;> simp at h; next hc => subst h; exact .istop s i j hj hc.1 hc.2.1 hc.2.2
    · simp at h
  case deliverRemove i =>
    split at h
    · next j hj => split at h <;> simp at h; next hc => subst h; exact .deliverRemove s i j hj hc.1 hc.2
    · simp at h
  case runImmediateLive i =>
    split at h
    · next j hj => split at h <;> simp at h; next hc => subst h; exact .runImmediateLive s i j hj hc.1 hc.2.1 hc.2.2
    · simp at h
  case runImmediateDead i =>
    split at h
    · next j hj => split at h <;> simp at h; next hc => subst h; exact .runImmediateDead s i j hj hc.1 hc.2.1 hc.2.2
    · simp at h

/-- running a label sequence -/
def runLabels (s : St) : List Lbl → Option St
  | [] => some s
  | l :: ls => (stepL s l).bind fun t => runLabels t ls

/-- running a label sequence from a reachable state only visits reachable states -/
theorem runLabels_reach (s t : St) (ls : List Lbl) (hs : Reach s) (h : runLabels s ls = some t) : Reach t := by
  induction ls generalizing s with
  | nil => simp [runLabels] at h; subst h; exact hs
  | cons l ls ih =>
    simp only [runLabels] at h
    cases hq : stepL s l with
    | none => simp [hq] at h
    | some u => simp [hq] at h; exact ih u (.step hs (stepL_sound s u l hq)) h

/-- non-vacuity: set a timeout (job 0) and an interval (job 1), clear the interval, let the timeout expire and be
    delivered (it fires), let the interval goroutine stop and be removed: the run is accepted, the counter is back
    to 0, the registry is empty, the timeout fired once and the interval never -/
example :
    (runLabels init [.setTimeout, .setInterval, .clear 1, .expire 0, .deliverLive 0, .istop 1, .deliverRemove 1]).map
      (fun s => (s.jobCount, s.jobs.map (fun j => (j.inJobs, j.fired, j.cleared0))))
    = some (0, [(false, 1, false), (false, 0, true)]) := by decide +kernel

/-- non-vacuity of the guards: a cancelled timeout cannot be delivered live, a job cannot be cleared twice -/
example : runLabels init [.setTimeout, .expire 0, .clear 0, .deliverLive 0] = none := by decide +kernel
example : runLabels init [.setTimeout, .clear 0, .clear 0] = none := by decide +kernel

end GN.EventLoop.Ledger
