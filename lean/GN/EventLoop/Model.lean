import GN.Basic

/-!
# Event loop — executable model as a trace acceptor   [C03–C08, C17]

The real loop (`eventloop/eventloop.go`, built with `-tags verif`) is run under a controlled scheduler; every
arrival of a goroutine at a yield point (`Y`), every release (`R`) and every API-level event (`A`: calls, returns,
callback begin/end, set/clear) is recorded.  `step` below is the model: it holds the model state, decides whether
the next recorded event is an *enabled transition* of the model for that thread, applies its effect, and compares
the bookkeeping the code exposes (`len(auxJobs)`, wake-up token, `canRun`, `running`, `terminated`, `jobCount`,
`len(jobs)`) with the model's.  A segment of code between two yield points is one transition; its effect is
applied when the thread arrives at the next yield point (when the branch taken is known), except the part of a
segment that precedes a blocking operation, which is applied at release time.

The same `step` is the transition system the theorems in `GN/Props/C0x.lean` are about: every reachable state of
the model is a state reached by `step` from `init` along some event sequence.
-/

namespace GN.EventLoop
open GN

inductive JKind where | timeout | interval | immediate | unknown
  deriving DecidableEq, Repr, Inhabited

/-- state of the goroutine / runtime timer that belongs to a job -/
inductive GSt where
  | armed          -- timeout: runtime timer pending (or expired but its goroutine not yet at the yield point)
  | fired          -- timeout: goroutine parked at `timer.fire`
  | sending        -- timeout: goroutine released, blocked in / completing the send on jobChan
  | waiting        -- interval: goroutine in (or about to enter) its select
  | tick           -- interval: parked at `ival.tick`
  | tickSending    -- interval: sending the tick job
  | stopping       -- interval: parked at `ival.stop`
  | removing       -- interval: parked at `ival.remove`
  | removeSending  -- interval: sending its removal job
  | queued         -- immediate: in the aux queue
  | done
  deriving DecidableEq, Repr, Inhabited

structure Job where
  id : Nat
  kind : JKind := .unknown
  viaGo : Option Nat := none        -- function id when created by Go-side SetTimeout / SetInterval
  cb : Option Nat := none
  delayMs : Nat := 0
  setAt : Nat := 0                  -- µs, a time not later than the start of the runtime timer
  cancelled : Bool := false
  inJobs : Bool := false            -- registered in loop.jobs
  g : GSt := .armed
  fired : Nat := 0                  -- ghost: number of callback begins
  clearedUnfired : Bool := false    -- ghost: a clear / Terminate cancelled it before its callback ever began
  deriving Repr, Inhabited

/-- an entry of the aux queue -/
inductive QK where
  | fn (f : Nat)                    -- RunOnLoop function
  | gost (f : Nat) | gosi (f : Nat) -- registration closure of Go-side SetTimeout / SetInterval
  | goct (j : Option Nat) | goci (j : Option Nat)   -- Go-side ClearTimeout / ClearInterval
  | imm                             -- setImmediate job
  deriving DecidableEq, Repr, Inhabited

structure QE where
  qid : Nat
  kind : QK
  deriving DecidableEq, Repr, Inhabited

structure Thread where
  role : String
  pc : String := ""
  call : List String := []          -- the API call in progress (fields of the last `A call`)
  lastQid : Option Nat := none
  lastTime : Nat := 0
  ptJob : Option Nat := none        -- the job of the yield point the thread is at
  ctx : String := ""                -- which runAux invocation an executor is in: init | wake | term
  bg : Bool := false                -- run(inBackground = true)
  inFlight : Bool := false          -- released from its yield point and not yet parked at the next one
  deriving Repr, Inhabited

structure Snap where
  aux : Nat
  token : Bool
  canRun : Bool
  running : Bool
  terminated : Bool
  jobCount : Int
  jobs : Nat
  deriving Repr, DecidableEq, Inhabited

structure St where
  aux : List QE := []
  batch : List QE := []             -- the slice runAux is iterating over (remaining part)
  cur : Option QE := none           -- the queue entry being executed
  token : Bool := false
  canRun : Bool := false
  running : Bool := false
  terminated : Bool := false
  jobCount : Int := 0
  regCount : Nat := 0               -- len(loop.jobs)
  jobs : List Job := []
  threads : List Thread := []
  nextQid : Nat := 0
  immOf : List (Nat × Nat) := []    -- queue entry ↦ immediate job
  accepted : List Nat := []         -- ghost: RunOnLoop functions accepted, in acceptance order
  executed : List Nat := []         -- ghost: RunOnLoop functions whose callback began, in order
  refused : List Nat := []          -- ghost: RunOnLoop functions refused
  activeCb : Option String := none  -- ghost: role of the thread currently inside a callback
  expectCb : Option (String × String) := none   -- ghost: (kind, ref) of the callback that must begin next
  selectWaiting : Bool := false     -- an executor is blocked in the select of run() with nothing ready
  wakeGranted : Bool := false       -- … and a wake-up token was handed to it directly
  recvPending : Bool := false       -- a job closure was received from jobChan and not yet identified
  quiet : Bool := true              -- ghost: Stop() has returned (or never started) and no start since
  inTerm : Bool := false            -- ghost: the controller is inside Terminate after its Stop returned
  cbBegins : Nat := 0
  deriving Repr, Inhabited

def init : St := {}

abbrev M := Except String

def fail {α} (msg : String) : M α := .error msg

def getThread (s : St) (role : String) : Thread :=
  (s.threads.find? (·.role == role)).getD { role := role }

def setThread (s : St) (t : Thread) : St :=
  { s with threads := t :: s.threads.filter (·.role != t.role) }

def getJob (s : St) (id : Nat) : Option Job := s.jobs.find? (·.id == id)

def setJob (s : St) (j : Job) : St :=
  if s.jobs.any (·.id == j.id) then { s with jobs := s.jobs.map fun k => if k.id == j.id then j else k }
  else { s with jobs := s.jobs ++ [j] }

def isExecutorRole (r : String) : Bool := r.startsWith "L" || r == "F" || r == "C"
def isControlled (r : String) : Bool := r.startsWith "L" || r == "F" || r == "C" || r.startsWith "S"

def snapOf (s : St) : Snap :=
  ⟨s.aux.length, s.token, s.canRun, s.running, s.terminated, s.jobCount, s.regCount⟩

def require (c : Bool) (msg : String) : M Unit := if c then pure () else fail msg

/-- may the runtime timer of this timeout already have expired at time `now`?  (1 ms of slack for the distance
    between the recorded set time and the real start of the timer) -/
def maybeExpired (j : Job) (now : Nat) : Bool := now + 1000 ≥ j.setAt + j.delayMs * 1000

/-- the part of cancelling a job (`clear*`, Terminate's cancel loop) that other goroutines can observe at once:
    the flag, the count, and (through the closed stop channel / stopped timer) nothing else -/
def cancelFlags (s : St) (j : Job) : St :=
  if j.cancelled then s else
  setJob { s with jobCount := s.jobCount - 1 }
    { j with cancelled := true, clearedUnfired := j.clearedUnfired || j.fired == 0 }

/-- `wakeup()`: a non-blocking send on the one-slot channel; if the loop is blocked in its select the token is
    consumed at once -/
def wakeup (s : St) : St :=
  if s.selectWaiting then { s with selectWaiting := false, wakeGranted := true }
  else { s with token := true }

/-- the API call a thread is performing when it reaches `aux.enq` -/
def entryKind (t : Thread) : QK :=
  match t.call with
  | ["rol", f] => .fn (f.drop 1).toString.toNat!
  | "gost" :: f :: _ => .gost (f.drop 1).toString.toNat!
  | "gosi" :: f :: _ => .gosi (f.drop 1).toString.toNat!
  | ["goct", _, j] => .goct j.toNat?
  | ["goci", _, j] => .goci j.toNat?
  | _ => .imm

/-- a loop goroutine has been released from `run.exit` and has not arrived at `run.done`: it may already have cleared
`running` (under stopLock) although the model applies that effect only when it arrives -/
def loopExitInFlight (s : St) : Bool :=
  s.threads.any fun u => u.pc == "run.exit" && u.inFlight && u.ctx != "exited"

def markLoopExited (s : St) : St :=
  { s with running := false,
           threads := s.threads.map fun u => if u.pc == "run.exit" && u.inFlight then { u with ctx := "exited" } else u }

/-- effects of the code between yield point `p` and the next yield point `q` that are applied on arrival at `q` -/
def leave (s : St) (t : Thread) (p q : String) (job : Option Nat) (now : Nat) (obs : Snap) : M (St × Thread) := do
  match p with
  | "" | "thread.start" | "between.calls" => pure (s, t)
  | "aux.enq" =>
    if q == "aux.wake" then do
      require (!s.terminated) "addAuxJob accepted a job although the loop is terminated"
      let k := entryKind t
      let e : QE := ⟨s.nextQid, k⟩
      let acc := match k with | .fn f => s.accepted ++ [f] | _ => s.accepted
      pure ({ s with aux := s.aux ++ [e], nextQid := s.nextQid + 1, accepted := acc }, { t with lastQid := some e.qid })
    else do
      require s.terminated "addAuxJob refused a job although the loop is not terminated"
      let refd := match entryKind t with | .fn f => s.refused ++ [f] | _ => s.refused
      pure ({ s with refused := refd }, { t with lastQid := none })
  | "aux.wake" => pure (s, t)                  -- wakeup() was applied at release time
  | "setrunning" =>
    if t.ctx == "started" then pure (s, { t with ctx := "" })      -- applied at release time
    else do
      require (!s.running) "setRunning on a running loop"
      pure ({ s with running := true, canRun := true, terminated := false, quiet := false, inTerm := false }, t)
  | "run.enter" => do
    require (q == "runaux.swap") "run.enter must be followed by runAux"
    pure (s, { t with ctx := "init" })
  | "runaux.swap" => do
    require (s.batch.isEmpty) "runAux entered while a batch is still being executed"
    let s := { s with batch := s.aux, aux := [] }
    if s.batch.isEmpty then require (q == "runaux.done") "empty batch but a job is run"
    else require (q == "runaux.job") "non-empty batch but no job is run"
    pure (s, t)
  | "runaux.job" => pure (s, t)      -- the entry was dispatched at release time
  | "runaux.done" => do
    require s.batch.isEmpty "runaux.done with jobs left in the batch"
    match t.ctx with
    | "init" =>
      let s := if t.bg then { s with jobCount := s.jobCount + 1 } else s
      if s.jobCount > 0 then require (q == "run.select") "live jobs but the loop does not select"
      else require (q == "run.exit") "no live job but the loop does not exit"
      pure (s, t)
    | "wake" => do require (q == "run.check") "after a wake-up drain the loop must check canRun"; pure (s, t)
    | "term" => do require (q == "term.cancel") "Terminate: drain must be followed by the cancel loop"; pure (s, t)
    | _ => fail "runaux.done in an unknown context"
  | "run.select" =>
    if q == "run.wake" then
      if s.wakeGranted then pure ({ s with wakeGranted := false, selectWaiting := false }, t)
      else do
        require s.token "wake arm taken without a token"
        pure ({ s with token := false, selectWaiting := false }, t)
    else if q == "run.job" then
      pure ({ s with recvPending := true, selectWaiting := false }, t)
    else fail ("run.select followed by " ++ q)
  | "run.job" => do
    require (q.startsWith "deliver.") "a received job must be a delivery closure"
    pure (s, t)
  | "run.wake" => do
    require (q == "runaux.swap") "wake arm must drain the queue"
    pure (s, { t with ctx := "wake" })
  | "run.check" =>
    if !s.canRun then do require (q == "run.exit") "canRun is 0 but the loop goes on"; pure (s, t)
    else if s.jobCount > 0 then do require (q == "run.select") "canRun is 1 and jobs are live but the loop leaves"; pure (s, t)
    else do require (q == "run.exit") "no live job but the loop does not exit"; pure (s, t)
  | "run.exit" => do
    require (q == "run.done") "run.exit must be followed by run.done"
    if t.ctx == "exited" then pure (s, { t with ctx := "" })
    else pure ({ s with running := false }, t)
  | "run.done" => pure (s, t)
  | "stop.enter" =>
    if s.running then
      -- a loop goroutine released from run.exit clears `running` under stopLock before it reaches its next yield
      -- point: a Stop that takes the lock after it sees a stopped loop although the model has not seen run.done yet
      if q == "stop.exit" && loopExitInFlight s then pure (markLoopExited s, t)
      else do require (q == "stop.store") "Stop on a running loop must request the stop"; pure (s, t)
    else do require (q == "stop.exit") "Stop on a stopped loop must return"; pure (s, t)
  | "stop.store" => do require (q == "stop.wake") "stop.store → stop.wake"; pure ({ s with canRun := false }, t)
  | "stop.wake" => do require (q == "stop.wait") "stop.wake → stop.wait"; pure (s, t)
  | "stop.wait" =>
    if q == "stop.exit" then
      if s.running then do
        -- the loop goroutine has cleared `running` and broadcast but has not reached its next yield point yet
        require (s.threads.any fun u => u.pc == "run.exit" && u.ctx != "exited") "Stop returned from Wait while the loop is running"
        let s := { s with running := false,
                          threads := s.threads.map fun u => if u.pc == "run.exit" then { u with ctx := "exited" } else u }
        pure (s, t)
      else pure (s, t)
    else if q == "stop.store" then do require s.running "Stop repeats although the loop has stopped"; pure (s, t)
    else fail ("stop.wait followed by " ++ q)
  | "stop.exit" =>
    -- Stop() returns; inside Terminate the next point is term.flag
    pure ({ s with quiet := true, inTerm := t.call.head? == some "term" }, t)
  | "snw.enter" =>
    if q == "snw.wake" then do require s.running "StopNoWait acts on a stopped loop"; pure ({ s with canRun := false }, t)
    else if s.running then do
      -- (same hand-off as in Stop: the exiting loop goroutine got stopLock first)
      require (loopExitInFlight s) "StopNoWait ignores a running loop"
      pure (markLoopExited s, t)
    else pure (s, t)
  | "snw.wake" => pure (s, t)
  | "term.enter" => do require (q == "stop.enter") "Terminate must call Stop first"; pure (s, t)
  | "term.flag" => do
    require (q == "runaux.swap") "Terminate must drain the queue after setting the flag"
    pure ({ s with terminated := true }, { t with ctx := "term" })
  | "term.cancel" => do
    -- the flags were applied at release time; here the registry: a stopped timer leaves it at once, an expired one
    -- (its goroutine may not have reached its yield point yet) and every interval stay until they deliver
    let cands := s.jobs.filter fun j => j.kind == .timeout && j.inJobs && j.g == .armed
    let sure := cands.filter fun j => !maybeExpired j now
    let removed := s.regCount - obs.jobs
    require (obs.jobs ≤ s.regCount) "Terminate: the registry grew in the cancel loop"
    require (sure.length ≤ removed && removed ≤ cands.length) "Terminate: registry size after the cancel loop"
    let gone := ((sure ++ cands.filter fun j => maybeExpired j now).take removed).map (·.id)
    let jobs' := s.jobs.map fun j => if gone.contains j.id then { j with inJobs := false, g := GSt.done } else j
    let s : St := { s with regCount := obs.jobs, jobs := jobs' }
    if s.regCount > 0 then require (q == "term.drain") "jobs are registered but Terminate does not wait for them"
    else require (q == "term.exit") "no job is registered but Terminate waits"
    pure (s, t)
  | "term.drain" => do
    require (q.startsWith "deliver.") "Terminate's drain must receive a delivery closure"
    pure ({ s with recvPending := true }, t)
  | "term.exit" => pure ({ s with inTerm := false }, t)
  | "sched.js" | "sched.go" => pure (s, t)
  | "sched.immediate" => pure ({ s with jobCount := s.jobCount + 1 }, t)
  | "clear.timeout" =>
    -- flags were applied at release; the registry: timer.Stop() succeeded iff the job left loop.jobs
    -- (when the next yield point is the registration of a new timer, that one is already in the observed count)
    let obsJobs := if q == "sched.js" || q == "sched.go" then obs.jobs - 1 else obs.jobs
    match job.bind (getJob s) with
    | none => pure (s, t)
    | some j =>
      if j.kind == .timeout && j.inJobs && j.g == .armed && t.ptJob.isSome && s.regCount == obsJobs + 1 then
        pure (setJob { s with regCount := obsJobs } { j with inJobs := false, g := .done }, t)
      else do
        if j.kind == .timeout && j.inJobs && j.g == .armed && s.regCount == obsJobs then
          require (maybeExpired j now || !j.cancelled) "clearTimeout left an armed, unexpired timer registered"
        pure (s, t)
  | "clear.interval" | "clear.immediate" => pure (s, t)
  | "deliver.timeout" | "deliver.interval" | "deliver.remove" | "deliver.immediate" => pure (s, t)
  | other => fail ("unknown yield point " ++ other)

/-- effects that are visible on arrival at `q` itself -/
def arrive (s : St) (t : Thread) (q : String) (job : Option Nat) (now : Nat) : M (St × Thread) := do
  -- an executor that moves on must have started the callback it owed
  let owes := s.expectCb.isSome && isExecutorRole t.role &&
    (q.startsWith "runaux." || q.startsWith "run." || q.startsWith "term." || q.startsWith "deliver.")
  require (!owes) ("a callback that had to run did not run before " ++ q)
  match q with
  | "sched.js" =>
    match job with
    | none => fail "sched.js without a job"
    | some id =>
      let old := (getJob s id).getD { id := id }
      -- the runtime timer was started before this point: not later than the thread's previous event
      pure (setJob { s with jobCount := s.jobCount + 1, regCount := s.regCount + 1 }
              { old with inJobs := true, setAt := t.lastTime, g := if old.g == .armed then .armed else old.g }, t)
  | "sched.go" =>
    match job, s.cur with
    | some id, some e =>
      let old := (getJob s id).getD { id := id }
      match e.kind with
      | .gost f => pure (setJob { s with jobCount := s.jobCount + 1, regCount := s.regCount + 1, cur := none }
                          { old with kind := .timeout, viaGo := some f, inJobs := true, setAt := t.lastTime }, t)
      | .gosi f => pure (setJob { s with jobCount := s.jobCount + 1, regCount := s.regCount + 1, cur := none }
                          { old with kind := .interval, viaGo := some f, inJobs := true, setAt := t.lastTime,
                                     g := if old.g == .armed then .waiting else old.g }, t)
      | _ => fail "sched.go while the current queue entry is not a Go-side registration"
    | _, _ => fail "sched.go without job or queue entry"
  | "sched.immediate" =>
    match job, t.lastQid with
    | some id, some qid =>
      pure (setJob { s with immOf := (qid, id) :: s.immOf } { id := id, kind := .immediate, g := .queued }, t)
    | _, _ => fail "sched.immediate without an accepted queue entry"
  | "clear.timeout" | "clear.interval" =>
    -- when it is the body of a Go-side Clear*, it consumes the current queue entry
    match s.cur with
    | some e =>
      match e.kind with
      | .goct j => do require (j == job) "ClearTimeout closure clears another timer"; pure ({ s with cur := none }, t)
      | .goci j => do require (j == job) "ClearInterval closure clears another interval"; pure ({ s with cur := none }, t)
      | _ => pure (s, t)
    | none => pure (s, t)
  | "deliver.timeout" =>
    match job.bind (getJob s) with
    | some j => do
      require s.recvPending "a timeout is delivered but nothing was received from jobChan"
      require (j.g == .sending) "a timeout is delivered whose goroutine is not sending"
      pure ({ s with recvPending := false }, t)
    | none => fail "deliver.timeout of an unknown job"
  | "deliver.interval" =>
    match job.bind (getJob s) with
    | some _ => do
      require s.recvPending "a tick is delivered but nothing was received from jobChan"
      pure ({ s with recvPending := false }, t)
    | none => fail "deliver.interval of an unknown job"
  | "deliver.remove" =>
    match job.bind (getJob s) with
    | some j => do
      require s.recvPending "a removal is delivered but nothing was received from jobChan"
      require (j.g == .removeSending) "a removal is delivered whose goroutine is not sending"
      pure ({ s with recvPending := false }, t)
    | none => fail "deliver.remove of an unknown job"
  | "deliver.immediate" =>
    match s.cur, job with
    | some e, some id => do
      require (e.kind == .imm) "an immediate runs but the current queue entry is not an immediate"
      require (alookupNat s.immOf e.qid == some id) "an immediate runs under another queue entry"
      pure ({ s with cur := none }, t)
    | _, _ => fail "deliver.immediate without queue entry"
  | "runaux.job" | "runaux.done" => do
    -- the previous entry must have been consumed (its body ran)
    match s.cur with
    | some e =>
      match e.kind with
      | .fn _ => pure ({ s with cur := none }, t)     -- consumed by its cbbegin (checked through expectCb)
      | _ => fail "a queue entry was skipped"
    | none => pure (s, t)
  | _ => pure (s, t)
where
  alookupNat (m : List (Nat × Nat)) (k : Nat) : Option Nat := (m.find? (·.1 == k)).map (·.2)

def parseNatOpt (s : String) : Option Nat := if s == "-" then none else s.toNat?

/-- a goroutine of a timer or interval reaches one of its yield points -/
def stepJobThread (s : St) (role pt : String) (job : Option Nat) : M St := do
  match job with
  | none => fail "job thread without job"
  | some id =>
    let j := (getJob s id).getD { id := id }
    match pt with
    | "timer.fire" => do
      require (j.g == .armed) "a timer fires twice"
      pure (setJob s { j with kind := if j.kind == .unknown then .timeout else j.kind, g := .fired })
    | "ival.select" => pure (setJob s { j with kind := .interval, g := .waiting })
    | "ival.tick" => do
      pure (setJob s { j with g := .tick })
    | "ival.stop" => do
      require j.cancelled ("interval goroutine " ++ role ++ " stops although its interval was not cancelled")
      pure (setJob s { j with g := .stopping })
    | "ival.remove" => pure (setJob s { j with g := .removing })
    | _ => fail ("unknown job-thread point " ++ pt)

/-- Release of a parked goroutine: the part of its next segment that other goroutines can observe before this one
    reaches its next yield point (everything that precedes a blocking operation, a callback, or an action that wakes
    another goroutine). -/
def stepReleaseCore (s : St) (role pt : String) : M St := do
  let t := getThread s role
  let kindRef (j : Job) : String := match j.viaGo with | some f => "f" ++ toString f | none => "-"
  if role.startsWith "T" || role.startsWith "I" then
    match (role.drop 1).toString.toNat? with
    | none => pure s
    | some id =>
      match getJob s id with
      | none => pure s
      | some j =>
        let g := match pt with
          | "timer.fire" => GSt.sending
          | "ival.tick" => .tickSending
          | "ival.remove" => .removeSending
          | "ival.select" => .waiting
          | _ => j.g
        let sends := pt == "timer.fire" || pt == "ival.tick" || pt == "ival.remove"
        pure (setJob (if sends then { s with selectWaiting := false } else s) { j with g := g })
  else match pt with
  | "run.exit" => pure (if t.bg then { s with jobCount := s.jobCount - 1 } else s)
  | "aux.wake" | "stop.wake" | "snw.wake" => pure (wakeup s)     -- may wake the loop at once
  | "setrunning" =>
    -- unless another thread holds stopLock at a yield point, setRunning completes before anything else happens
    -- (in particular before the goroutine it starts reaches run.enter)
    let held := s.threads.any fun u => u.role != role &&
      (u.pc == "stop.store" || u.pc == "stop.wake" || u.pc == "stop.wait" || u.pc == "snw.wake")
    if held then pure s
    else do
      require (!s.running) "setRunning on a running loop"
      pure (setThread { s with running := true, canRun := true, terminated := false, quiet := false, inTerm := false }
              { t with ctx := "started" })
  | "run.select" =>
    -- the select blocks when neither a token nor a sender is ready
    let ready := s.token || s.jobs.any fun j => j.g == .sending || j.g == .tickSending || j.g == .removeSending
    pure { s with selectWaiting := !ready }
  | "runaux.job" =>
    match s.batch with
    | [] => fail "runaux.job with an empty batch"
    | e :: rest =>
      let exp : Option (String × String) := match e.kind with
        | .fn f => some ("fn", "f" ++ toString f)
        | _ => none
      pure { s with batch := rest, cur := some e, expectCb := exp }
  | "clear.timeout" | "clear.interval" | "clear.immediate" =>
    match t.ptJob.bind (getJob s) with
    | none => pure s
    | some j => pure (cancelFlags s j)
  | "term.cancel" =>
    pure ((s.jobs.filter fun j => j.inJobs && !j.cancelled).foldl (fun s j => cancelFlags s ((getJob s j.id).getD j)) s)
  | "deliver.timeout" =>
    match t.ptJob.bind (getJob s) with
    | none => fail "deliver.timeout without a job"
    | some j =>
      let s := if j.inJobs then { s with regCount := s.regCount - 1 } else s
      if j.cancelled then pure (setJob s { j with inJobs := false, g := .done })
      else pure (setJob { s with jobCount := s.jobCount - 1, expectCb := some ("timeout", kindRef j) }
                  { j with inJobs := false, g := .done, cancelled := true })
  | "deliver.interval" =>
    match t.ptJob.bind (getJob s) with
    | none => fail "deliver.interval without a job"
    | some j => if j.cancelled then pure s else pure { s with expectCb := some ("interval", kindRef j) }
  | "deliver.remove" =>
    match t.ptJob.bind (getJob s) with
    | none => fail "deliver.remove without a job"
    | some j =>
      let s := if j.inJobs then { s with regCount := s.regCount - 1 } else s
      pure (setJob s { j with inJobs := false, g := .done })
  | "deliver.immediate" =>
    match t.ptJob.bind (getJob s) with
    | none => fail "deliver.immediate without a job"
    | some j =>
      if j.cancelled then pure (setJob s { j with g := .done })
      else pure (setJob { s with jobCount := s.jobCount - 1, expectCb := some ("immediate", "-") }
                  { j with g := .done, cancelled := true })
  | _ => pure s

/-- a release: the effects that are certain to happen before anything else, and the thread is in flight from now on -/
def stepRelease (s : St) (role pt : String) : M St := do
  let s ← stepReleaseCore s role pt
  if role.startsWith "T" || role.startsWith "I" then pure s
  else pure (setThread s { getThread s role with inFlight := true })

def stepY (s : St) (role pt : String) (job : Option Nat) (obs : Snap) (now : Nat) (compare : Bool := true) : M St := do
  if role.startsWith "T" || role.startsWith "I" then stepJobThread s role pt job
  else
    let t := getThread s role
    let (s1, t1) ← leave s t t.pc pt t.ptJob now obs
    let (s2, t2) ← arrive s1 t1 pt job now
    -- a new run(): background or foreground
    let t3 : Thread :=
      if pt == "run.enter" then
        { t2 with bg := role.startsWith "L" || (t2.call.head? == some "startfg") }
      else t2
    let s3 := setThread s2 { t3 with pc := pt, ptJob := job, lastTime := now, inFlight := false }
    if isControlled role && compare then
      let m := snapOf s3
      -- A loop goroutine released from run.exit that found stopLock held (by a Stop/StopNoWait parked inside the
      -- lock) stores running = false only after that thread has been released too: from then on both run, and a
      -- snapshot another thread takes before the loop goroutine parks at run.done may see either value.
      let exiting := s3.threads.any fun u => u.role != role && u.inFlight && u.pc == "run.exit"
      let m := if exiting && m.running && !obs.running then { m with running := false } else m
      if m == obs then pure s3
      else
        let d := (if m.aux != obs.aux then ["auxJobs"] else []) ++ (if m.token != obs.token then ["token"] else []) ++
          (if m.canRun != obs.canRun then ["canRun"] else []) ++ (if m.running != obs.running then ["running"] else []) ++
          (if m.terminated != obs.terminated then ["terminated"] else []) ++
          (if m.jobCount != obs.jobCount then ["jobCount"] else []) ++ (if m.jobs != obs.jobs then ["jobs"] else [])
        fail ("state mismatch in [" ++ ",".intercalate d ++ "] at " ++ role ++ " " ++ pt ++ ": model " ++ toString (repr m) ++ " observed " ++ toString (repr obs))
    else pure s3

def stepA (s : St) (role : String) (f : List String) (now : Nat) : M St := do
  let t := getThread s role
  let upd (s : St) (t : Thread) : St := setThread s { t with lastTime := now }
  match f with
  | "call" :: rest => pure (upd s { t with call := rest })
  | ["ret", "rol", fn, ok] => do
    let id := (fn.drop 1).toString.toNat!
    -- a call that returns straight from `aux.enq` was refused
    let (s, t) ← (if t.pc == "aux.enq" then do
        require s.terminated "addAuxJob refused a job although the loop is not terminated"
        pure ({ s with refused := s.refused ++ [id] }, { t with pc := "" })
      else pure (s, t))
    if ok == "true" then require (s.accepted.contains id) "RunOnLoop returned true but nothing was queued"
    else require (s.refused.contains id && !s.accepted.contains id) "RunOnLoop returned false but the function was queued"
    pure (upd s { t with call := [] })
  | ["ret", "stop", n] => do
    require (n.toInt? == some s.jobCount) ("Stop() returned " ++ n ++ " but the live-job count is " ++ toString s.jobCount)
    pure (upd { s with quiet := true } { t with call := [] })
  | "ret" :: _ => do
    let t ← (if t.pc == "aux.enq" then do
        require s.terminated "addAuxJob refused a job although the loop is not terminated"
        pure { t with pc := "" }
      else pure t)
    pure (upd s { t with call := [] })
  | ["cbbegin", cb, kind, ref] => do
    require s.activeCb.isNone "two callbacks overlap"
    require (isExecutorRole role) "a callback runs on a thread that is not executing the loop"
    if kind == "runfn" then
      require (t.pc == "setrunning") "Run's function must run right after setRunning"
    else do
      require (!s.quiet || s.inTerm) "a callback begins while the loop is stopped"
      match s.expectCb with
      | some (k, r) => require (k == kind && r == ref) ("the callback that begins (" ++ kind ++ " " ++ ref ++ ") is not the one that is due (" ++ k ++ " " ++ r ++ ")")
      | none => fail ("a callback begins that is not due: " ++ kind ++ " " ++ ref ++ " cb " ++ cb)
    let s := { s with activeCb := some role, expectCb := none, cbBegins := s.cbBegins + 1 }
    let s := if kind == "fn" then { s with executed := s.executed ++ [(ref.drop 1).toString.toNat!] } else s
    -- per-job ghost state and the "never early" check
    let s ← (match kind with
      | "timeout" | "interval" | "immediate" => do
        -- the job whose delivery point this thread has just left
        match t.ptJob.bind (getJob s) with
        | none => fail "a timer callback begins without a delivery"
        | some j => do
          require (!j.clearedUnfired) "a callback runs although its job was cleared before it ever ran"
          if kind != "interval" then require (j.fired == 0) "a timeout or immediate callback runs twice"
          let eff := if kind == "interval" then max j.delayMs 1 else j.delayMs
          if kind != "immediate" then
            require (now ≥ j.setAt + eff * 1000) ("callback of job " ++ toString j.id ++ " runs " ++ toString (j.setAt + eff * 1000 - now) ++ "us early")
          match j.cb with
          | some c => require (toString c == cb) "a job runs another job's callback"
          | none => pure ()
          pure (setJob s { j with fired := j.fired + 1 })
      | _ => pure s)
    pure (upd s t)
  | ["cbend", _] => do
    require (s.activeCb == some role) "callback end without begin"
    pure (upd { s with activeCb := none } t)
  | ["set", kind, jid, d, cb] =>
    match jid.toNat? with
    | none => pure (upd s t)       -- refused (no handle)
    | some id =>
      let j := (getJob s id).getD { id := id }
      let k := if kind == "timeout" then JKind.timeout else if kind == "interval" then .interval else .immediate
      let g := if k == .interval && j.g == .armed then GSt.waiting else j.g
      pure (upd (setJob s { j with kind := k, delayMs := d.toNat!, cb := cb.toNat?, g := g }) t)
  | _ => pure (upd s t)

end GN.EventLoop
