import GN.EventLoop.JsOrder

/-!
# The timer-free model satisfies the callback-order specification   [C18]

Main result: `model_meets_oracle : Complete p fuel → oracle (runProgram p fuel) = .ok ()` for EVERY program `p`
(no `timerFree` hypothesis is needed: `runBody` ignores `st`/`si`) and every `fuel`.

`Complete p fuel` is a condition about fuel only: no drain loop of the run was cut short by the fuel — the main
`drainMicro`, every `drainMicro` that follows an immediate inside `drainImm`, and `drainImm` itself.  It is
STRONGER than "both queues are empty at the end" (`CompleteWeak`), and it has to be: `completeWeak_insufficient`
is a concrete program and fuel for which the final queues are empty and the oracle REJECTS the model's log,
because an intermediate `drainMicro` ran out of fuel, an immediate began while a promise reaction was still
queued, and a later `drainMicro` (with its own fuel) emptied the queue.  That is an artefact of the fuel, not of
the semantics: `Complete.fuel_mono` shows that once `Complete p fuel` holds, any larger fuel gives the same log
(and is complete too), and `Complete.weak` shows `Complete → CompleteWeak`.

Route: a simulation invariant `Inv run s o` between a model state `s` (with its log so far) and the oracle state
`o` obtained by folding `oStep` over `s.log`; preserved by every step of `runBody`, `runInst`, `drainMicro`,
`drainImm`; at the end it gives the end condition of `oracle`.
-/

namespace GN.EventLoop.JsOrder

/-! ## the oracle, one event at a time -/

/-- folding `oStep` over `log ++ [e]` is folding over `log`, then one `oStep` -/
theorem foldlM_snoc (init : OSt) (log : List Ev) (e : Ev) (o : OSt)
    (h : log.foldlM oStep init = .ok o) :
    (log ++ [e]).foldlM oStep init = oStep o e := by
  simp [List.foldlM_append, h]
  rfl

theorem oStep_b (o : OSt) (id : Nat) (k : Char)
    (h1 : o.running = none)
    (h2 : isMacro k = true → o.pendingP = [])
    (h3 : id ∉ o.begun) (h4 : id ∉ o.cleared) (h5 : k = 'i' → o.lastImm ≤ id)
    (h6 : id ∈ o.sched.map (·.1)) :
    oStep o (.b id k) = .ok { o with running := some id, begun := id :: o.begun,
                                     pendingP := o.pendingP.filter (· != id),
                                     lastImm := if k == 'i' then id else o.lastImm } := by
  have h6' : (o.sched.any (·.1 == id)) = true := by
    simp only [List.mem_map] at h6
    obtain ⟨a, ha, rfl⟩ := h6
    exact List.any_eq_true.mpr ⟨a, ha, by simp⟩
  have h2' : (isMacro k && !o.pendingP.isEmpty) = false := by
    cases hm : isMacro k <;> simp_all
  have h5' : (k == 'i' && decide (id < o.lastImm)) = false := by
    by_cases hk : k = 'i'
    · have := h5 hk; simp [hk]; omega
    · simp [hk]
  simp only [oStep, h1, Option.isSome_none, h2', h6']
  simp [h3, h4, h5']
  rfl

theorem oStep_c (o : OSt) (id : Nat) :
    oStep o (.c id) = .ok { o with cleared :=
      if (o.begun.contains id && !(o.sched.any fun p => p.1 == id && p.2 == 'v')) then o.cleared
      else id :: o.cleared } := rfl

theorem oStep_s (o : OSt) (k : Char) (id a b : Nat) :
    oStep o (.s k id a b) = .ok { o with sched := (id, k) :: o.sched,
                                         pendingP := (if (k == 'p') then o.pendingP ++ [id] else o.pendingP) } := rfl

theorem oStep_l (o : OSt) (id : Nat) (h : o.running = some id) : oStep o (.l id) = .ok o := by
  simp [oStep, h]; rfl

theorem oStep_x (o : OSt) (id : Nat) (h : o.running = some id) : oStep o (.x id) = .ok o := by
  simp [oStep, h]; rfl

theorem oStep_e (o : OSt) (id : Nat) (h : o.running = some id) :
    oStep o (.e id) = .ok { o with running := none } := by
  simp [oStep, h]; rfl

/-! ## the simulation invariant -/

/-- the simulation invariant between a model state (with its log so far) and the oracle state reached by folding
    `oStep` over that log; `run` is the callback instance currently executing -/
structure Inv (run : Option Nat) (s : St) (o : OSt) : Prop where
  /-- the oracle accepts the log so far and is in state `o` -/
  fold : s.log.foldlM oStep {} = .ok o
  running : o.running = run
  /-- the oracle's pending reactions are exactly the model's promise job queue -/
  pend : o.pendingP = s.micro.map (·.1)
  /-- ids are allocated increasingly, so both queues are sorted by id (hence duplicate-free) -/
  msorted : (s.micro.map (·.1)).Pairwise (· < ·)
  isorted : (s.imm.map (·.1)).Pairwise (· < ·)
  /-- queued reactions: allocated, not begun, scheduled, never cancelled (no handle points to them), not immediates -/
  mq : ∀ id ∈ s.micro.map (·.1), id < s.next ∧ id ∉ o.begun ∧ id ∈ o.sched.map (·.1) ∧ id ∉ s.cancelled
        ∧ id ∉ s.imm.map (·.1)
  /-- queued immediates: allocated, not begun, scheduled, later than the last immediate that began -/
  iq : ∀ id ∈ s.imm.map (·.1), id < s.next ∧ id ∉ o.begun ∧ id ∈ o.sched.map (·.1) ∧ o.lastImm < id
  lastLt : o.lastImm < s.next
  begunLt : ∀ id ∈ o.begun, id < s.next
  cancLt : ∀ id ∈ s.cancelled, id < s.next
  /-- `cleared ⊆ cancelled ⊆ begun ∪ cleared`: the model skips at least what the oracle forbids, and whatever the
      model skips the oracle's end condition excuses -/
  clearedSub : ∀ id ∈ o.cleared, id ∈ s.cancelled
  cancSub : ∀ id ∈ s.cancelled, id ∈ o.begun ∨ id ∈ o.cleared
  /-- handles point to allocated instances that are not promise reactions -/
  hand : ∀ q ∈ s.handles, q.2 < s.next ∧ q.2 ∉ s.micro.map (·.1)
  /-- everything scheduled has begun, was cleared, or is still queued -/
  schedDone : ∀ q ∈ o.sched, q.1 ∈ o.begun ∨ q.1 ∈ o.cleared ∨ q.1 ∈ s.micro.map (·.1) ∨ q.1 ∈ s.imm.map (·.1)

macro "inv_auto" : tactic => `(tactic| (
  all_goals simp only [St.emit, List.map_append, List.map_cons, List.map_nil, List.mem_append, List.mem_cons,
    List.not_mem_nil, or_false, List.pairwise_append, List.pairwise_cons, List.mem_filter,
    List.Pairwise.nil, and_true, true_and] at *
  all_goals grind))

/-! ## preservation: the steps of a body -/

theorem inv_l {me s o} (h : Inv (some me) s o) : Inv (some me) (s.emit (.l me)) o := by
  obtain ⟨h1, h2, h3, h4, h5, h6, h7, h8, h9, h10, h11, h12, h13, h14⟩ := h
  refine ⟨?_, h2, h3, h4, h5, h6, h7, h8, h9, h10, h11, h12, h13, h14⟩
  simp only [St.emit]
  rw [foldlM_snoc _ _ _ _ h1, oStep_l _ _ h2]

theorem inv_x {me s o} (h : Inv (some me) s o) : Inv (some me) (s.emit (.x me)) o := by
  obtain ⟨h1, h2, h3, h4, h5, h6, h7, h8, h9, h10, h11, h12, h13, h14⟩ := h
  refine ⟨?_, h2, h3, h4, h5, h6, h7, h8, h9, h10, h11, h12, h13, h14⟩
  simp only [St.emit]
  rw [foldlM_snoc _ _ _ _ h1, oStep_x _ _ h2]

theorem inv_e {me s o} (h : Inv (some me) s o) : Inv none (s.emit (.e me)) { o with running := none } := by
  obtain ⟨h1, h2, h3, h4, h5, h6, h7, h8, h9, h10, h11, h12, h13, h14⟩ := h
  refine ⟨?_, rfl, h3, h4, h5, h6, h7, h8, h9, h10, h11, h12, h13, h14⟩
  simp only [St.emit]
  rw [foldlM_snoc _ _ _ _ h1, oStep_e _ _ h2]

theorem inv_then {me s o} (k : Nat) (h : Inv (some me) s o) :
    Inv (some me) (({ s with next := s.next + 1, micro := s.micro ++ [(s.next, k)] } : St).emit (.s 'p' s.next me k))
      { o with sched := (s.next, 'p') :: o.sched, pendingP := o.pendingP ++ [s.next] } := by
  obtain ⟨h1, h2, h3, h4, h5, h6, h7, h8, h9, h10, h11, h12, h13, h14⟩ := h
  refine ⟨?_, h2, ?_, ?_, ?_, ?_, ?_, ?_, ?_, ?_, ?_, ?_, ?_, ?_⟩
  · simp only [St.emit]
    rw [foldlM_snoc _ _ _ _ h1, oStep_s]; rfl
  inv_auto


theorem inv_imm {me s o} (k h : Nat) (hi : Inv (some me) s o) :
    Inv (some me) (({ s with next := s.next + 1, imm := s.imm ++ [(s.next, k)],
                             handles := (h, s.next) :: s.handles.filter (·.1 != h) } : St).emit (.s 'i' s.next me k))
      { o with sched := (s.next, 'i') :: o.sched } := by
  obtain ⟨h1, h2, h3, h4, h5, h6, h7, h8, h9, h10, h11, h12, h13, h14⟩ := hi
  refine ⟨?_, h2, ?_, ?_, ?_, ?_, ?_, ?_, ?_, ?_, ?_, ?_, ?_, ?_⟩
  · simp only [St.emit]
    rw [foldlM_snoc _ _ _ _ h1, oStep_s]; rfl
  inv_auto

theorem inv_clr {me s o} (q : Nat × Nat) (hq : q ∈ s.handles) (hi : Inv (some me) s o) :
    ∃ o', Inv (some me) (({ s with cancelled := q.2 :: s.cancelled } : St).emit (.c q.2)) o' := by
  obtain ⟨h1, h2, h3, h4, h5, h6, h7, h8, h9, h10, h11, h12, h13, h14⟩ := hi
  by_cases hc : (o.begun.contains q.2 && !(o.sched.any fun p => p.1 == q.2 && p.2 == 'v')) = true
  · refine ⟨o, ?_, h2, ?_, ?_, ?_, ?_, ?_, ?_, ?_, ?_, ?_, ?_, ?_, ?_⟩
    · simp only [St.emit]
      rw [foldlM_snoc _ _ _ _ h1, oStep_c, if_pos hc]
    all_goals simp only [Bool.and_eq_true, List.contains_iff_mem] at hc
    inv_auto
  · refine ⟨{ o with cleared := q.2 :: o.cleared }, ?_, h2, ?_, ?_, ?_, ?_, ?_, ?_, ?_, ?_, ?_, ?_, ?_, ?_⟩
    · simp only [St.emit]
      rw [foldlM_snoc _ _ _ _ h1, oStep_c, if_neg hc]
    all_goals clear hc
    inv_auto

/-! ## preservation: a callback begins / a cleared immediate is skipped -/

theorem filter_ne_head (id : Nat) (l : List Nat) (h : ∀ x ∈ l, id < x) :
    (id :: l).filter (· != id) = l := by
  simp only [List.filter_cons, bne_self_eq_false, Bool.false_eq_true, if_false]
  apply List.filter_eq_self.mpr
  intro a ha
  have := h a ha
  simp; omega

theorem inv_begin_p {s o} (id k : Nat) (rest : List (Nat × Nat)) (hm : s.micro = (id, k) :: rest)
    (hi : Inv none s o) :
    ∃ o', Inv (some id) (({ s with micro := rest } : St).emit (.b id 'p')) o' := by
  obtain ⟨h1, h2, h3, h4, h5, h6, h7, h8, h9, h10, h11, h12, h13, h14⟩ := hi
  rw [hm] at h3 h4 h6 h13 h14
  refine ⟨{ o with running := some id, begun := id :: o.begun, pendingP := rest.map (·.1) }, ?_, rfl, ?_, ?_, ?_, ?_, ?_, ?_, ?_, ?_, ?_, ?_, ?_, ?_⟩
  · simp only [St.emit]
    rw [foldlM_snoc _ _ _ _ h1, oStep_b _ _ _ h2]
    · rw [h3]; simp only [List.map_cons]
      rw [filter_ne_head]
      · rfl
      · simp only [List.map_cons, List.pairwise_cons] at h4; exact h4.1
    · intro h; simp [isMacro] at h
    · inv_auto
    · inv_auto
    · intro h; simp at h
    · inv_auto
  inv_auto


theorem inv_begin_i {s o} (id k : Nat) (rest : List (Nat × Nat)) (hm : s.imm = (id, k) :: rest)
    (hmic : s.micro = []) (hnc : id ∉ s.cancelled) (hi : Inv none s o) :
    ∃ o', Inv (some id) (({ s with imm := rest } : St).emit (.b id 'i')) o' := by
  obtain ⟨micro, imm, canc, handles, next, log⟩ := s
  simp only at hm hmic hnc
  subst hm hmic
  obtain ⟨h1, h2, h3, h4, h5, h6, h7, h8, h9, h10, h11, h12, h13, h14⟩ := hi
  simp only at h1 h3 h4 h5 h6 h7 h8 h9 h10 h11 h12 h13 h14
  refine ⟨{ o with running := some id, begun := id :: o.begun, lastImm := id }, ?_, rfl, ?_, ?_, ?_, ?_, ?_, ?_, ?_, ?_, ?_, ?_, ?_, ?_⟩
  · simp only [St.emit]
    rw [foldlM_snoc _ _ _ _ h1, oStep_b _ _ _ h2]
    · rw [h3]; rfl
    · intro _; rw [h3]; rfl
    · inv_auto
    · inv_auto
    · intro _; have := (h7 id (by simp)).2.2.2; omega
    · inv_auto
  inv_auto

theorem inv_skip {s o} (id k : Nat) (rest : List (Nat × Nat)) (hm : s.imm = (id, k) :: rest)
    (hc : id ∈ s.cancelled) (hi : Inv none s o) :
    Inv none ({ s with imm := rest } : St) o := by
  obtain ⟨h1, h2, h3, h4, h5, h6, h7, h8, h9, h10, h11, h12, h13, h14⟩ := hi
  rw [hm] at h5 h6 h7 h14
  refine ⟨h1, h2, ?_, ?_, ?_, ?_, ?_, ?_, ?_, ?_, ?_, ?_, ?_, ?_⟩
  inv_auto

/-! ## preservation: bodies, instances, the drain loops -/

theorem inv_runBody (p : Prog) (me : Nat) (acts : List Act) :
    ∀ (s : St) (o : OSt), Inv (some me) s o → ∃ o', Inv (some me) (runBody p me acts s) o' := by
  induction acts with
  | nil => intro s o h; exact ⟨o, h⟩
  | cons a rest ih =>
    intro s o h
    cases a with
    | log => simp only [runBody]; exact ih _ _ (inv_l h)
    | thenDo k => simp only [runBody]; exact ih _ _ (inv_then k h)
    | imm k hd => simp only [runBody]; exact ih _ _ (inv_imm k hd h)
    | st k d hd => simp only [runBody]; exact ih _ _ h
    | si k d n hd => simp only [runBody]; exact ih _ _ h
    | clr hd =>
      simp only [runBody]
      split
      · next x id hf =>
        obtain ⟨o', h'⟩ := inv_clr (x, id) (List.mem_of_find?_eq_some hf) h
        exact ih _ _ h'
      · exact ih _ _ h
    | throw => simp only [runBody]; exact ⟨o, inv_x h⟩

theorem inv_runInst_p (p : Prog) {s o} (id k : Nat) (rest : List (Nat × Nat)) (hm : s.micro = (id, k) :: rest)
    (hi : Inv none s o) : ∃ o', Inv none (runInst p id k 'p' { s with micro := rest }) o' := by
  obtain ⟨o1, h1⟩ := inv_begin_p id k rest hm hi
  obtain ⟨o2, h2⟩ := inv_runBody p id (p.getD k []) _ _ h1
  exact ⟨_, inv_e h2⟩

theorem inv_runInst_i (p : Prog) {s o} (id k : Nat) (rest : List (Nat × Nat)) (hm : s.imm = (id, k) :: rest)
    (hmic : s.micro = []) (hnc : id ∉ s.cancelled)
    (hi : Inv none s o) : ∃ o', Inv none (runInst p id k 'i' { s with imm := rest }) o' := by
  obtain ⟨o1, h1⟩ := inv_begin_i id k rest hm hmic hnc hi
  obtain ⟨o2, h2⟩ := inv_runBody p id (p.getD k []) _ _ h1
  exact ⟨_, inv_e h2⟩

theorem inv_drainMicro (p : Prog) (fuel : Nat) :
    ∀ (s : St) (o : OSt), Inv none s o → ∃ o', Inv none (drainMicro p fuel s) o' := by
  induction fuel with
  | zero => intro s o h; exact ⟨o, h⟩
  | succ n ih =>
    intro s o h
    simp only [drainMicro]
    split
    · exact ⟨o, h⟩
    · next id k rest hm =>
      obtain ⟨o', h'⟩ := inv_runInst_p p id k rest hm h
      exact ih _ _ h'


/-! ## the fuel condition -/

/-- `drainImm p fuel s` is not cut short by the fuel, and neither is any `drainMicro` it calls (mirrors the
    recursion of `drainImm`) -/
def ImmComplete (p : Prog) : Nat → St → Prop
  | 0, s => s.imm = []
  | fuel + 1, s =>
    match s.imm with
    | [] => True
    | (id, k) :: rest =>
      let s' : St := { s with imm := rest }
      if s'.cancelled.contains id then ImmComplete p fuel s'
      else (drainMicro p fuel (runInst p id k 'i' s')).micro = [] ∧
           ImmComplete p fuel (drainMicro p fuel (runInst p id k 'i' s'))

/-- the run was not cut short by the fuel: the main `drainMicro` emptied the promise job queue, and the immediates
    loop with all its inner `drainMicro`s ran to completion.  A condition about fuel/termination only. -/
def Complete (p : Prog) (fuel : Nat) : Prop :=
  let s0 : St := ({ next := 2 } : St).emit (.s 'm' 1 0 0)
  let s1 := drainMicro p fuel (runInst p 1 0 'm' s0)
  s1.micro = [] ∧ ImmComplete p fuel s1

/-- executable version of `ImmComplete` -/
def immCompleteB (p : Prog) : Nat → St → Bool
  | 0, s => s.imm.isEmpty
  | fuel + 1, s =>
    match s.imm with
    | [] => true
    | (id, k) :: rest =>
      let s' : St := { s with imm := rest }
      if s'.cancelled.contains id then immCompleteB p fuel s'
      else (drainMicro p fuel (runInst p id k 'i' s')).micro.isEmpty &&
           immCompleteB p fuel (drainMicro p fuel (runInst p id k 'i' s'))

/-- executable version of `Complete` (for drivers and `decide`) -/
def completeB (p : Prog) (fuel : Nat) : Bool :=
  let s0 : St := ({ next := 2 } : St).emit (.s 'm' 1 0 0)
  let s1 := drainMicro p fuel (runInst p 1 0 'm' s0)
  s1.micro.isEmpty && immCompleteB p fuel s1

theorem immCompleteB_iff (p : Prog) (fuel : Nat) :
    ∀ s : St, immCompleteB p fuel s = true ↔ ImmComplete p fuel s := by
  induction fuel with
  | zero => intro s; simp [immCompleteB, ImmComplete]
  | succ f ih =>
    intro s
    cases himm : s.imm with
    | nil => simp [immCompleteB, ImmComplete, himm]
    | cons q rest =>
      obtain ⟨id, k⟩ := q
      simp only [immCompleteB, ImmComplete, himm]
      by_cases hcan : id ∈ s.cancelled
      · simp only [List.contains_iff_mem, hcan, if_true]; exact ih _
      · simp only [List.contains_iff_mem, hcan, if_false, Bool.and_eq_true, List.isEmpty_iff, ih]

theorem completeB_iff (p : Prog) (fuel : Nat) : completeB p fuel = true ↔ Complete p fuel := by
  simp only [completeB, Complete, Bool.and_eq_true, List.isEmpty_iff, immCompleteB_iff]

instance (p : Prog) (fuel : Nat) (s : St) : Decidable (ImmComplete p fuel s) :=
  decidable_of_iff _ (immCompleteB_iff p fuel s)

instance (p : Prog) (fuel : Nat) : Decidable (Complete p fuel) :=
  decidable_of_iff _ (completeB_iff p fuel)

/-- the weaker condition "both queues are empty at the end"; implied by `Complete` (`Complete.weak`) but NOT sufficient
    for the oracle (`completeWeak_insufficient`) -/
def CompleteWeak (p : Prog) (fuel : Nat) : Prop :=
  let s0 : St := ({ next := 2 } : St).emit (.s 'm' 1 0 0)
  let s := drainImm p fuel (drainMicro p fuel (runInst p 1 0 'm' s0))
  s.micro = [] ∧ s.imm = []

theorem inv_drainImm (p : Prog) (fuel : Nat) :
    ∀ (s : St) (o : OSt), Inv none s o → s.micro = [] → ImmComplete p fuel s →
      ∃ o', Inv none (drainImm p fuel s) o' ∧ (drainImm p fuel s).micro = [] ∧ (drainImm p fuel s).imm = [] := by
  induction fuel with
  | zero => intro s o h hmic hc; exact ⟨o, h, hmic, hc⟩
  | succ n ih =>
    intro s o h hmic hc
    cases himm : s.imm with
    | nil => simp only [drainImm, himm]; exact ⟨o, h, hmic, trivial⟩
    | cons q rest =>
      obtain ⟨id, k⟩ := q
      simp only [drainImm, ImmComplete, himm] at hc ⊢
      by_cases hcan : id ∈ s.cancelled
      · simp only [List.contains_iff_mem, hcan, if_true] at hc ⊢
        exact ih _ _ (inv_skip id k rest himm hcan h) hmic hc
      · simp only [List.contains_iff_mem, hcan, if_false] at hc ⊢
        obtain ⟨o1, h1⟩ := inv_runInst_i p id k rest himm hmic hcan h
        obtain ⟨o2, h2⟩ := inv_drainMicro p n _ _ h1
        exact ih _ _ h2 hc.1 hc.2

theorem inv_init (p : Prog) :
    ∃ o, Inv none (runInst p 1 0 'm' (({ next := 2 } : St).emit (.s 'm' 1 0 0))) o := by
  have h0 : Inv (some 1) ((({ next := 2 } : St).emit (.s 'm' 1 0 0)).emit (.b 1 'm'))
      { running := some 1, sched := [(1, 'm')], begun := [1] } := by
    refine ⟨rfl, rfl, rfl, ?_, ?_, ?_, ?_, ?_, ?_, ?_, ?_, ?_, ?_, ?_⟩
    all_goals simp [St.emit]
  obtain ⟨o2, h2⟩ := inv_runBody p 1 (p.getD 0 []) _ _ h0
  exact ⟨_, inv_e h2⟩

/-- with both queues empty the end condition of the oracle holds -/
theorem inv_final {s o} (h : Inv none s o) (hm : s.micro = []) (hi : s.imm = []) : oracle s.log = .ok () := by
  obtain ⟨h1, h2, h3, h4, h5, h6, h7, h8, h9, h10, h11, h12, h13, h14⟩ := h
  have hfind : List.find? (fun p => !o.begun.contains p.fst && !o.cleared.contains p.fst) o.sched = none := by
    apply List.find?_eq_none.mpr
    intro q hq
    have := h14 q hq
    simp only [hm, hi, List.map_nil, List.not_mem_nil, or_false] at this
    rcases this with h | h <;> simp [h]
  simp only [oracle, h1]
  show (if o.running.isSome = true then _ else _) = _
  simp only [h2, Option.isSome_none, Bool.false_eq_true, if_false, hfind]
  rfl


/-! ## the model satisfies the specification -/

/-- **C18, model ⊨ specification.**  For every program and every fuel, if the run is not cut short by the fuel
    (`Complete`), the oracle accepts the model's log. -/
theorem model_meets_oracle (p : Prog) (fuel : Nat) (hc : Complete p fuel) :
    oracle (runProgram p fuel) = .ok () := by
  obtain ⟨o0, h0⟩ := inv_init p
  obtain ⟨o1, h1⟩ := inv_drainMicro p fuel _ _ h0
  obtain ⟨o2, h2, hm, hi⟩ := inv_drainImm p fuel _ _ h1 hc.1 hc.2
  exact inv_final h2 hm hi

theorem Complete.weak {p : Prog} {fuel : Nat} (hc : Complete p fuel) : CompleteWeak p fuel := by
  obtain ⟨o0, h0⟩ := inv_init p
  obtain ⟨o1, h1⟩ := inv_drainMicro p fuel _ _ h0
  obtain ⟨o2, _, hm, hi⟩ := inv_drainImm p fuel _ _ h1 hc.1 hc.2
  exact ⟨hm, hi⟩

/-- main schedules three reactions and one immediate; with fuel 2 the main `drainMicro` stops with one reaction
    queued, the immediate begins (violation), then the inner `drainMicro` runs the last reaction -/
def weakCex : Prog := [[.thenDo 1, .thenDo 1, .thenDo 1, .imm 1 0], []]

/-- "both queues empty at the end" does not imply acceptance: a fuel artefact (with fuel ≥ 3 the same program is
    `Complete` and accepted) -/
theorem completeWeak_insufficient :
    CompleteWeak weakCex 2 ∧ oracle (runProgram weakCex 2) ≠ .ok () := by
  refine ⟨⟨by decide, by decide⟩, ?_⟩
  intro h
  have : (oracle (runProgram weakCex 2)).toBool = true := by rw [h]; rfl
  revert this
  decide

/-! ## `Complete` is about termination: more fuel changes nothing -/

theorem drainMicro_fuel_mono (p : Prog) (fuel : Nat) :
    ∀ (s : St) (n : Nat), (drainMicro p fuel s).micro = [] → drainMicro p (fuel + n) s = drainMicro p fuel s := by
  induction fuel with
  | zero =>
    intro s n h
    simp only [drainMicro] at h
    cases n with
    | zero => rfl
    | succ n => simp [drainMicro, h]
  | succ f ih =>
    intro s n h
    rw [show f + 1 + n = (f + n) + 1 by omega]
    simp only [drainMicro] at h ⊢
    split
    · rfl
    · next id k rest hm =>
      simp only [hm] at h
      exact ih _ _ h


theorem drainImm_fuel_mono (p : Prog) (fuel : Nat) :
    ∀ (s : St) (n : Nat), ImmComplete p fuel s →
      drainImm p (fuel + n) s = drainImm p fuel s ∧ ImmComplete p (fuel + n) s := by
  induction fuel with
  | zero =>
    intro s n h
    simp only [ImmComplete] at h
    cases n <;> simp [drainImm, ImmComplete, h]
  | succ f ih =>
    intro s n h
    rw [show f + 1 + n = (f + n) + 1 by omega]
    cases himm : s.imm with
    | nil => simp [drainImm, ImmComplete, himm]
    | cons q rest =>
      obtain ⟨id, k⟩ := q
      simp only [drainImm, ImmComplete, himm] at h ⊢
      by_cases hcan : id ∈ s.cancelled
      · simp only [List.contains_iff_mem, hcan, if_true] at h ⊢
        exact ih _ _ h
      · simp only [List.contains_iff_mem, hcan, if_false] at h ⊢
        rw [drainMicro_fuel_mono p f _ n h.1]
        exact ⟨(ih _ n h.2).1, h.1, (ih _ n h.2).2⟩

/-- once complete, the run is independent of the fuel -/
theorem Complete.fuel_mono {p : Prog} {fuel : Nat} (hc : Complete p fuel) (n : Nat) :
    Complete p (fuel + n) ∧ runProgram p (fuel + n) = runProgram p fuel := by
  obtain ⟨h1, h2⟩ := hc
  have hm := drainMicro_fuel_mono p fuel _ n h1
  have hi := drainImm_fuel_mono p fuel _ n h2
  refine ⟨⟨?_, ?_⟩, ?_⟩
  · simp only [hm]; exact h1
  · simp only [hm]; exact hi.2
  · simp only [runProgram, hm, hi.1]

end GN.EventLoop.JsOrder
