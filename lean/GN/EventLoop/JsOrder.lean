import GN.Basic

/-!
# Callback order seen by JavaScript   [C18]

Programs are tables of callback bodies over `log`, `Promise.resolve().then`, `setImmediate`, `setTimeout`,
`setInterval`, `clear*`, `throw`.  Two things live here:

* `oracle`: the program-independent partial order the property states, as an executable predicate on a recorded
  log (the specification);
* `runProgram`: the exact semantics of the timer-free fragment (synchronous code, promise reactions drained FIFO
  when the outermost call returns — goja's rule, a modelled dependency — and immediates through the FIFO aux queue),
  against which the implementation's log is compared literally.
-/

namespace GN.EventLoop.JsOrder
open GN

inductive Ev where
  | s (kind : Char) (id parent k : Nat)   -- a callback instance is scheduled (kind: m main, p promise, i immediate, t timeout, v interval)
  | b (id : Nat) (kind : Char)            -- it begins
  | e (id : Nat)                          -- it ends (returns or throws)
  | l (id : Nat)                          -- its body logs
  | c (id : Nat)                          -- it is cleared
  | x (id : Nat)                          -- its body throws
  deriving Repr, DecidableEq, Inhabited

def Ev.toString : Ev → String
  | .s k i p cb => s!"s:{k}:{i}:{p}:{cb}"
  | .b i k => s!"b:{i}:{k}"
  | .e i => s!"e:{i}"
  | .l i => s!"l:{i}"
  | .c i => s!"c:{i}"
  | .x i => s!"x:{i}"

/-! ## the specification: a program-independent oracle on the log -/

structure OSt where
  running : Option Nat := none            -- the callback instance currently executing
  pendingP : List Nat := []               -- promise reactions scheduled and not begun
  sched : List (Nat × Char) := []         -- every scheduled instance
  begun : List Nat := []
  cleared : List Nat := []                -- cleared before they ever began
  lastImm : Nat := 0                      -- id of the last immediate that began
  deriving Repr, Inhabited

def isMacro (k : Char) : Bool := k == 'i' || k == 't' || k == 'v' || k == 'm'

/-- one log event; `none` = the partial order is violated (the string says which clause) -/
def oStep (st : OSt) : Ev → Except String OSt
  | .s k id _ _ => pure { st with sched := (id, k) :: st.sched, pendingP := if k == 'p' then st.pendingP ++ [id] else st.pendingP }
  | .b id k => do
    if st.running.isSome then throw "a callback begins before the current synchronous block has ended"
    if isMacro k && !st.pendingP.isEmpty then throw "a timer or immediate callback begins while promise reactions are pending"
    if k != 'v' && st.begun.contains id then throw "a callback runs twice"
    if st.cleared.contains id then throw "a callback runs after it was cleared"
    if k == 'i' && id < st.lastImm then throw "immediates do not run in the order they were requested"
    if !(st.sched.any (·.1 == id)) then throw "a callback runs that was never scheduled"
    pure { st with running := some id, begun := id :: st.begun, pendingP := st.pendingP.filter (· != id),
                   lastImm := if k == 'i' then id else st.lastImm }
  | .e id => do
    if st.running != some id then throw "unbalanced end"
    pure { st with running := none }
  | .l id | .x id => do
    if st.running != some id then throw "a body logs while it is not the running callback"
    pure st
  | .c id =>
    -- clearing an interval stops further ticks; clearing anything that has not begun silences it
    pure { st with cleared := if st.begun.contains id && !(st.sched.any fun p => p.1 == id && p.2 == 'v') then st.cleared
                              else id :: st.cleared }

/-- the whole log, plus the end condition: everything scheduled and not cleared has run (a throwing callback
    does not prevent later callbacks), nothing is left pending -/
def oracle (log : List Ev) : Except String Unit := do
  let st ← log.foldlM oStep {}
  if st.running.isSome then throw "the log ends inside a callback"
  match st.sched.find? fun p => !st.begun.contains p.1 && !st.cleared.contains p.1 with
  | some p => throw s!"callback instance {p.1} ({p.2}) was scheduled, never cleared, and never ran"
  | none => pure ()

/-! ## exact semantics of the timer-free fragment -/

inductive Act where
  | log | thenDo (k : Nat) | imm (k h : Nat) | st (k d h : Nat) | si (k d n h : Nat) | clr (h : Nat) | throw
  deriving Repr, DecidableEq, Inhabited

abbrev Prog := List (List Act)

def Prog.timerFree (p : Prog) : Bool := p.all fun b => b.all fun a => match a with | .st .. | .si .. => false | _ => true

structure St where
  micro : List (Nat × Nat) := []          -- (instance, callback): promise job queue
  imm : List (Nat × Nat) := []            -- aux queue of immediates
  cancelled : List Nat := []
  handles : List (Nat × Nat) := []        -- slot ↦ instance
  next : Nat := 1
  log : List Ev := []
  deriving Repr, Inhabited

def St.emit (s : St) (e : Ev) : St := { s with log := s.log ++ [e] }

/-- the body of callback `k` running as instance `me` -/
def runBody (p : Prog) (me : Nat) : List Act → St → St
  | [], s => s
  | .log :: rest, s => runBody p me rest (s.emit (.l me))
  | .thenDo k :: rest, s =>
    let id := s.next
    let s1 : St := { s with next := id + 1, micro := s.micro ++ [(id, k)] }
    runBody p me rest (s1.emit (.s 'p' id me k))
  | .imm k h :: rest, s =>
    let id := s.next
    let s1 : St := { s with next := id + 1, imm := s.imm ++ [(id, k)],
                            handles := (h, id) :: s.handles.filter (·.1 != h) }
    runBody p me rest (s1.emit (.s 'i' id me k))
  | .clr h :: rest, s =>
    match s.handles.find? (·.1 == h) with
    | some (_, id) =>
      let s1 : St := { s with cancelled := id :: s.cancelled }
      runBody p me rest (s1.emit (.c id))
    | none => runBody p me rest s
  | .throw :: _, s => s.emit (.x me)
  | _ :: rest, s => runBody p me rest s      -- timers: not in this fragment

def runInst (p : Prog) (id k : Nat) (kind : Char) (s : St) : St :=
  (runBody p id (p.getD k []) (s.emit (.b id kind))).emit (.e id)

/-- drain the promise job queue FIFO; reactions may queue further reactions -/
def drainMicro (p : Prog) : Nat → St → St
  | 0, s => s
  | fuel + 1, s =>
    match s.micro with
    | [] => s
    | (id, k) :: rest => drainMicro p fuel (runInst p id k 'p' { s with micro := rest })

/-- the loop: take the next immediate (cleared ones are skipped), run it, drain the reactions -/
def drainImm (p : Prog) : Nat → St → St
  | 0, s => s
  | fuel + 1, s =>
    match s.imm with
    | [] => s
    | (id, k) :: rest =>
      let s := { s with imm := rest }
      if s.cancelled.contains id then drainImm p fuel s
      else drainImm p fuel (drainMicro p fuel (runInst p id k 'i' s))

def runProgram (p : Prog) (fuel : Nat := 10000) : List Ev :=
  let s0 : St := ({ next := 2 } : St).emit (.s 'm' 1 0 0)
  (drainImm p fuel (drainMicro p fuel (runInst p 1 0 'm' s0))).log

end GN.EventLoop.JsOrder
