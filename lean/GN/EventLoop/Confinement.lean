import GN.Generated.SharedAccess

/-!
# C17: which goroutine may touch which field of the loop, and the shared Registry

`Generated.elAccesses` is recomputed from eventloop.go on every run: every access to a field of `EventLoop`, with the
function it occurs in (function literals count as functions of their own: they run later), whether it writes, whether
it goes through sync/atomic, and which of the loop's mutexes are held.  Below: the reviewed assignment of functions to
goroutine roles, which roles can overlap in time, and the lockset argument as a decidable check over the table.
-/

namespace GN.EventLoop.Confinement
open GN GN.Generated

inductive Role where
  | init    -- construction, before the loop value is shared
  | loop    -- runs on the goroutine that executes the loop (run and everything it calls, queued closures, JS callbacks)
  | any     -- documented as callable from any goroutine
  | ctl     -- the one controlling goroutine: Start / Run / Stop, while the loop may be running
  | quiet   -- the controlling goroutine after its Stop() has returned (Terminate's body): the loop goroutine is out
  | side    -- a timer-side goroutine: the time.AfterFunc callback of a Timer, the `run` goroutine of an Interval
  deriving DecidableEq, Repr

open Role in
def roleTable : List (String × Role) := [
  ("NewEventLoop", init), ("EnableConsole$lit1", init), ("WithRegistry$lit1", init),
  ("EventLoop.run", loop), ("EventLoop.runAux", loop), ("EventLoop.schedule", loop), ("EventLoop.setTimeout", loop),
  ("EventLoop.setInterval", loop), ("EventLoop.setImmediate", loop), ("EventLoop.addImmediate", loop),
  ("EventLoop.newTimeout", loop), ("EventLoop.newInterval", loop),
  ("EventLoop.doTimeout", loop), ("EventLoop.doInterval", loop), ("EventLoop.doImmediate", loop),
  ("EventLoop.clearTimeout", loop), ("EventLoop.clearInterval", loop), ("EventLoop.clearImmediate", loop),
  ("EventLoop.jsClearTimeout", loop), ("EventLoop.jsClearInterval", loop), ("EventLoop.jsClearImmediate", loop),
  ("EventLoop.removeJob", loop),
  -- closures queued through addAuxJob / built for the loop: they run on the loop goroutine
  ("EventLoop.RunOnLoop$lit1", loop), ("EventLoop.SetTimeout$lit1", loop), ("EventLoop.SetTimeout$lit2", loop),
  ("EventLoop.SetInterval$lit1", loop), ("EventLoop.SetInterval$lit2", loop),
  ("EventLoop.ClearTimeout$lit1", loop), ("EventLoop.ClearInterval$lit1", loop),
  -- thread-safe API
  ("EventLoop.RunOnLoop", any), ("EventLoop.SetTimeout", any), ("EventLoop.SetInterval", any),
  ("EventLoop.ClearTimeout", any), ("EventLoop.ClearInterval", any), ("EventLoop.StopNoWait", any),
  ("EventLoop.addAuxJob", any), ("EventLoop.wakeup", any),
  -- the controlling goroutine
  ("EventLoop.Run", ctl), ("EventLoop.Start", ctl), ("EventLoop.StartInForeground", ctl), ("EventLoop.setRunning", ctl),
  ("EventLoop.Stop", ctl),
  ("EventLoop.Terminate", quiet)
]

def roleOf (fn : String) : Option Role := (roleTable.find? (·.1 == fn)).map (·.2)

/-- can code of these two roles run at the same time on different goroutines? -/
def conc : Role → Role → Bool
  | .init, _ | _, .init => false
  | .loop, .loop => false          -- one goroutine
  | .loop, .quiet | .quiet, .loop => false   -- Stop() has returned: the loop goroutine has left run (C07.stop_waits_for_a_served_loop)
  | .quiet, .quiet => false
  | .ctl, .ctl | .ctl, .quiet | .quiet, .ctl => false   -- one controlling goroutine
  | _, _ => true

/-- accesses ordered by the protocol rather than by a lock, with the theorem that orders them -/
def protocolOrdered : List (String × String) := [
  -- `return int(loop.jobCount)` in Stop(): read after the wait loop saw running = false under stopLock, which run()
  -- stores under stopLock after its last write to jobCount (C07.stop_waits_for_a_served_loop)
  ("EventLoop.Stop", "jobCount")
]

def protectedPair (a b : Access) : Bool := (a.atomic && b.atomic) || a.locks.any (fun l => b.locks.contains l)

def pairOK (a b : Access) : Bool :=
  a.field != b.field || !(a.write || b.write)
  || (match roleOf a.fn, roleOf b.fn with
      | some r1, some r2 => !conc r1 r2
      | _, _ => false)
  || protectedPair a b
  || protocolOrdered.contains (a.fn, a.field) || protocolOrdered.contains (b.fn, b.field)

def raceFree (t : List Access) : Bool := t.all fun a => t.all fun b => pairOK a b

/-! ## fields of the job objects (Timer, Interval, Immediate) -/

open Role in
/-- roles for the job-field table: constructors work on an object nobody else has yet -/
def jobRoleTable : List (String × Role) := [
  ("EventLoop.newTimeout", init), ("EventLoop.newInterval", init), ("EventLoop.addImmediate", init),
  ("Interval.run", side), ("Timer.start$lit1", side),
  ("Timer.start", loop), ("Interval.start", loop), ("Timer.doCancel", loop), ("Interval.doCancel", loop)
]

def jobRoleOf (fn : String) : Option Role :=
  match jobRoleTable.find? (·.1 == fn) with
  | some p => some p.2
  | none => roleOf fn

/-- `i.ticker` is written in `Interval.start` immediately before `go i.run(loop)`: the go statement orders the write
before everything the new goroutine does -/
def jobProtocolOrdered : List (String × String) := [("Interval.run", "ticker")]

def jobPairOK (a b : Access) : Bool :=
  a.field != b.field || !(a.write || b.write)
  || (match jobRoleOf a.fn, jobRoleOf b.fn with
      | some r1, some r2 => !conc r1 r2
      | _, _ => false)
  || protectedPair a b
  || jobProtocolOrdered.contains (a.fn, a.field) || jobProtocolOrdered.contains (b.fn, b.field)

def jobRaceFree (t : List Access) : Bool := t.all fun a => t.all fun b => jobPairOK a b

/-! ## the shared Registry: compile once -/

inductive Src where
  | ok | bad | missing
  deriving DecidableEq, Repr

structure Reg where
  compiled : List String := []
  loads : List String := []      -- the SourceLoader calls, in order
  deriving Repr

/-- `getCompiledSource(p)`; the whole body runs under the registry mutex, so requests from different runtimes are
serialised: an interleaving of runtimes is a sequence of these steps -/
def getCompiled (files : String → Src) (r : Reg) (p : String) : Reg :=
  if r.compiled.contains p then r
  else
    let r := { r with loads := r.loads ++ [p] }
    match files p with
    | .ok => { r with compiled := p :: r.compiled }
    | _ => r

def runRequests (files : String → Src) (ps : List String) : Reg := ps.foldl (getCompiled files) {}

theorem getCompiled_inv (files : String → Src) (r : Reg) (p q : String)
    (h : files q = .ok) (hinv : r.loads.count q ≤ 1 ∧ (q ∈ r.loads → q ∈ r.compiled)) :
    (getCompiled files r p).loads.count q ≤ 1 ∧ (q ∈ (getCompiled files r p).loads → q ∈ (getCompiled files r p).compiled) := by
  by_cases hc : r.compiled.contains p = true
  · have e : getCompiled files r p = r := by unfold getCompiled; rw [hc]; rfl
    rw [e]; exact hinv
  · have hc' : r.compiled.contains p = false := by simpa using hc
    have hloads : (getCompiled files r p).loads = r.loads ++ [p] := by
      unfold getCompiled; rw [hc']; cases files p <;> rfl
    have hcomp : (getCompiled files r p).compiled = (if files p = .ok then p :: r.compiled else r.compiled) := by
      unfold getCompiled; rw [hc']; cases files p <;> simp
    rw [hloads, hcomp]
    by_cases hpq : p = q
    · subst hpq
      have hnl : p ∉ r.loads := by
        intro hm
        have := hinv.2 hm
        simp at hc'
        exact hc' this
      refine ⟨?_, fun _ => by simp [h]⟩
      simp [List.count_append, List.count_eq_zero_of_not_mem hnl]
    · have hqp : ¬ q = p := fun e => hpq e.symm
      refine ⟨?_, fun hm => ?_⟩
      · have : (r.loads ++ [p]).count q = r.loads.count q := by simp [List.count_append, hpq]
        rw [this]; exact hinv.1
      · have hq : q ∈ r.loads := by simpa [hqp] using hm
        have := hinv.2 hq
        split
        · exact List.mem_cons_of_mem _ this
        · exact this

theorem runRequests_inv (files : String → Src) (q : String) (h : files q = .ok) (ps : List String) (r : Reg)
    (hinv : r.loads.count q ≤ 1 ∧ (q ∈ r.loads → q ∈ r.compiled)) :
    (ps.foldl (getCompiled files) r).loads.count q ≤ 1 := by
  induction ps generalizing r with
  | nil => exact hinv.1
  | cons p ps ih => exact ih _ (getCompiled_inv files r p q h hinv)

end GN.EventLoop.Confinement
