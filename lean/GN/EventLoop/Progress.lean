import GN.EventLoop.Queue
import GN.EventLoop.Ledger

/-!
# Event loop — progress theorems for the queue system and the job ledger   [C04, C05, C06, C07]

`GN.EventLoop.Queue` and `GN.EventLoop.Ledger` come with safety theorems only (invariants of every reachable
state).  This file adds the *progress* halves of the properties those systems are used for.  No fairness
assumption is made anywhere; the theorems are of three kinds:

* **bounded-work theorems** — along *every* path of the system (all interleavings with the other threads) the
  number of steps of one designated thread before a goal is reached is bounded by a measure of the start state
  (`stop_returns_after_bounded_loop_steps`, `stop_returns_after_seven_control_steps`,
  `uncleared_oneshot_fires_within_two_own_steps`);
* **never-stuck theorems** — until the goal is reached a step of the designated thread is enabled
  (`loop_not_stuck_while_stop_waits`, `loop_enabled_for_pending_function`, `live_work_is_enabled`);
* **possibility theorems** — there is a path using only the designated thread's steps that reaches the goal
  (`stop_can_return`, `accepted_function_is_executed_by_loop_alone`, `uncleared_oneshot_fires_exactly_once`).

Two literal readings of the informal progress clauses are **false** in the model and are refuted here by
kernel-checked counterexamples (`no_bound_independent_of_submissions`, and the `example`s after
`accepted_function_is_executed_by_loop_alone`); the theorems proved are the strongest variants that hold.

What the model does not contain (and so these theorems do not speak about): the `jobChan` arm of the loop's
`select` is not a transition of `Queue` (timer deliveries are in `Ledger`), so "bounded number of loop steps"
counts the steps of `Queue`'s loop thread; that Go's `select` eventually picks the wake-up arm when both arms are
ready is outside the model.
-/

namespace GN.EventLoop.Progress

/-! ## Part 1 — the queue system (`GN.EventLoop.Queue`) -/

section QueueProgress
open GN.EventLoop.Queue

/-- Which thread takes a step.  `loop`: the loop goroutine between `run.enter` and its exit.  `controller`: the
goroutine calling `Start`/`Run` (the `start` step), `Stop` and `Terminate`.  `other`: any other goroutine —
submitters (`RunOnLoop` = `enqueue`/`refuse`, then the owed token send `wake`) and callers of `StopNoWait`. -/
inductive Thread where
  | loop | controller | other
  deriving DecidableEq, Repr

def thread : Lbl → Thread
  | .swap | .execOne | .execDone | .quiesce | .takeToken | .chk | .exit => .loop
  | .start | .stopStore | .stopWake | .termFlag | .termSwap | .termExecOne | .termExecDone => .controller
  | .enqueue _ | .refuse _ | .wake | .snwStore => .other

/-- the steps of the LOOP thread -/
def isLoop : Lbl → Bool
  | .swap | .execOne | .execDone | .quiesce | .takeToken | .chk | .exit => true
  | _ => false

theorem isLoop_iff_thread (l : Lbl) : isLoop l = true ↔ thread l = .loop := by cases l <;> simp [isLoop, thread]

/-- an accepted submission (`addAuxJob` appending under the lock) -/
def isEnqueue : Lbl → Bool
  | .enqueue _ => true
  | _ => false

/-- the loop's own control steps: every loop step except the execution of one submitted function (`execOne`) -/
def isControl : Lbl → Bool
  | .swap | .execDone | .quiesce | .takeToken | .chk | .exit => true
  | _ => false

/-- **The Stop measure**: the exact number of loop steps (the final `exit` included) the loop still takes before it
releases a waiting `Stop`, if nobody submits anything any more and the loop does not leave early through
`quiesce`: the remaining control steps on the way `swap false → exec false → sel → swap true → exec true → chk →
exit → (exit step)`, plus one `execOne` for every function that is in the batch or will be swapped into it. -/
def stopMeasure (s : St) : Nat :=
  match s.lpc with
  | .exit => 1
  | .chk => 2
  | .exec true => 3 + s.batch.length
  | .swap true => 4 + s.aux.length
  | .sel => 5 + s.aux.length
  | .exec false => 6 + s.batch.length + s.aux.length
  | .swap false => 7 + s.aux.length
  | _ => 0

/-- the control part of the measure: the position of the loop on its way out, a number between 1 and 7 -/
def stopPhase (s : St) : Nat :=
  match s.lpc with
  | .exit => 1
  | .chk => 2
  | .exec true => 3
  | .swap true => 4
  | .sel => 5
  | .exec false => 6
  | .swap false => 7
  | _ => 0

/-- a lower bound on the number of loop steps before Stop is released that holds for every path (also for those
on which the loop leaves early through `quiesce` at the select) -/
def stopLower (s : St) : Nat :=
  match s.lpc with
  | .exit => 1
  | .chk => 2
  | .exec true => 3 + s.batch.length
  | .swap true => 4 + s.aux.length
  | .sel => 2
  | .exec false => 3 + s.batch.length
  | .swap false => 4 + s.aux.length
  | _ => 0

/-- the executable function is complete: every `Step` is the step of some label.  (With `stepQ_sound`: the labelled
paths accepted by `runLabels` are exactly the paths of `Step`, so the theorems below, stated with labels so that
steps can be attributed to threads, are theorems about all paths of the transition system.) -/
theorem stepQ_complete {s t : St} (h : Step s t) : ∃ l, stepQ s l = some t := by
  cases h
  case enqueue f ht hf => exact ⟨.enqueue f, by simp [stepQ, ht, hf]⟩
  case refuse f ht hf => exact ⟨.refuse f, by simp [stepQ, ht, hf]⟩
  case wake h => exact ⟨.wake, by simp [stepQ, h]⟩
  case start h hc hl => exact ⟨.start, by simp [stepQ, h, hc, hl]⟩
  case swap k h => exact ⟨.swap, by simp [stepQ, h]⟩
  case execOne k f rest h hb => exact ⟨.execOne, by simp [stepQ, h, hb]⟩
  case execDone k h hb => exact ⟨.execDone, by simp [stepQ, h, hb]⟩
  case quiesce h => exact ⟨.quiesce, by simp [stepQ, h]⟩
  case takeToken h ht => exact ⟨.takeToken, by simp [stepQ, h, ht]⟩
  case chk h => exact ⟨.chk, by simp [stepQ, h]⟩
  case exit h hl => exact ⟨.exit, by simp [stepQ, h, hl]⟩
  case stopStore h hr => exact ⟨.stopStore, by simp [stepQ, h, hr]⟩
  case stopWake h => exact ⟨.stopWake, by simp [stepQ, h]⟩
  case snwStore hr hc => exact ⟨.snwStore, by simp [stepQ, hr, hc]⟩
  case termFlag h hc hl => exact ⟨.termFlag, by simp [stepQ, h, hc, hl]⟩
  case termSwap h => exact ⟨.termSwap, by simp [stepQ, h]⟩
  case termExecOne f rest h hb => exact ⟨.termExecOne, by simp [stepQ, h, hb]⟩
  case termExecDone h hb => exact ⟨.termExecDone, by simp [stepQ, h, hb]⟩

/-- facts about a reachable state in which Stop waits -/
theorem waiting_facts {s : St} (hr : Reach s) (hw : s.cpc = .waiting) :
    s.running = true ∧ s.canRun = false ∧ s.terminated = false ∧
    (s.lpc = .swap true ∨ s.lpc = .exec true ∨ s.lpc = .chk ∨ s.lpc = .exit ∨
      (s.token = true ∧ (s.lpc = .swap false ∨ s.lpc = .exec false ∨ s.lpc = .sel))) := by
  obtain ⟨_, _, _, hs, ht⟩ := reach_inv hr
  obtain ⟨h1, h2, h3⟩ := hs
  obtain ⟨hrun, hsv⟩ := h3 hw
  have hcr := (h2 (by rw [hw]; decide)).1
  have hterm : s.terminated = false := by
    cases htt : s.terminated
    · rfl
    · have := (ht.2 htt).1; rw [hrun] at this; cases this
  refine ⟨hrun, hcr, hterm, ?_⟩
  have hl : ¬ (s.lpc = .idle ∨ s.lpc = .tswap ∨ s.lpc = .texec) := by
    intro h; have := h1.mp h; rw [hrun] at this; cases this
  rcases hsv with h | h | h | h | h
  · cases hlpc : s.lpc with
    | swap k => cases k <;> simp [h]
    | exec k => cases k <;> simp [h]
    | _ => simp_all
  all_goals simp [h]

/-- the one-step lemma behind Part 1: what any enabled step does to a reachable state in which Stop waits -/
theorem waiting_step {s t : St} {l : Lbl} (hr : Reach s) (hw : s.cpc = .waiting) (h : stepQ s l = some t) :
    (l = .exit ∧ t.cpc = .out ∧ t.running = false ∧ s.lpc = .exit) ∨
    (l ≠ .exit ∧ t.cpc = .waiting ∧
      stopMeasure t + (isLoop l).toNat ≤ stopMeasure s + (isEnqueue l).toNat ∧
      (l ≠ .quiesce → stopMeasure s + (isEnqueue l).toNat ≤ stopMeasure t + (isLoop l).toNat + (isEnqueue l).toNat) ∧
      stopPhase t + (isControl l).toNat ≤ stopPhase s ∧
      stopLower s ≤ stopLower t + (isLoop l).toNat) := by
  obtain ⟨hrun, hcr, hterm, hl⟩ := waiting_facts hr hw
  rcases hl with hl | hl | hl | hl | ⟨htok, hl | hl | hl⟩ <;>
    cases l <;> simp only [stepQ, hl] at h <;> (try split at h) <;> simp at h <;> (try subst h) <;>
    simp_all [stopMeasure, stopPhase, stopLower, isLoop, isEnqueue, isControl] <;> (try omega)

/-- number of steps of the loop thread on a path -/
def loopCount (ls : List Lbl) : Nat := ls.countP isLoop
/-- number of accepted submissions on a path -/
def enqCount (ls : List Lbl) : Nat := ls.countP isEnqueue
/-- number of control steps of the loop thread (loop steps other than `execOne`) on a path -/
def controlCount (ls : List Lbl) : Nat := ls.countP isControl

theorem countP_cons_toNat (p : Lbl → Bool) (a : Lbl) (l : List Lbl) :
    (a :: l).countP p = (p a).toNat + l.countP p := by
  rw [List.countP_cons]; cases p a <;> simp <;> omega

theorem waiting_measure_pos {s : St} (hr : Reach s) (hw : s.cpc = .waiting) :
    1 ≤ stopMeasure s ∧ 1 ≤ stopPhase s ∧ stopPhase s ≤ 7 ∧ stopPhase s ≤ stopMeasure s := by
  obtain ⟨_, _, _, hl⟩ := waiting_facts hr hw
  rcases hl with hl | hl | hl | hl | ⟨_, hl | hl | hl⟩ <;> simp [stopMeasure, stopPhase, hl] <;> omega

/-- **(T1, per step, loop thread.)** In a reachable state in which the controller waits in `Stop`, every enabled
step of the loop thread either is the `exit` step — which releases Stop: `cpc` becomes `out` and `running`
becomes false, so Stop's `cond.Wait` loop terminates — or keeps Stop waiting and strictly decreases
`stopMeasure`; unless it is `execOne` it also strictly decreases `stopPhase`. -/
theorem loop_step_decreases_measure {s t : St} {l : Lbl} (hr : Reach s) (hw : s.cpc = .waiting)
    (hl : isLoop l = true) (h : stepQ s l = some t) :
    (l = .exit ∧ t.cpc = .out ∧ t.running = false) ∨
    (t.cpc = .waiting ∧ stopMeasure t < stopMeasure s ∧ (l ≠ .execOne → stopPhase t < stopPhase s)) := by
  rcases waiting_step hr hw h with ⟨a, b, c, _⟩ | ⟨_, b, c, _, d, _⟩
  · exact .inl ⟨a, b, c⟩
  · have he : isEnqueue l = false := by cases l <;> simp_all [isLoop, isEnqueue]
    simp only [hl, he, Bool.toNat_true, Bool.toNat_false] at c
    refine .inr ⟨b, by omega, fun hne => ?_⟩
    have : isControl l = true := by cases l <;> simp_all [isLoop, isControl]
    simp only [this, Bool.toNat_true] at d
    omega

/-- **(T1, per step, other threads.)** In such a state a step of any other thread (submitters, StopNoWait callers;
the controller itself is blocked) keeps Stop waiting, never changes `stopPhase` upwards, and does not increase
`stopMeasure` — *except an accepted submission (`enqueue`), which may increase it by one*: the loop has to run
the new function if it is submitted before the loop's last queue swap (see `enqueue_delays_stop`). -/
theorem other_step_bounded {s t : St} {l : Lbl} (hr : Reach s) (hw : s.cpc = .waiting)
    (hl : isLoop l = false) (h : stepQ s l = some t) :
    t.cpc = .waiting ∧ stopPhase t ≤ stopPhase s ∧ stopMeasure t ≤ stopMeasure s + (isEnqueue l).toNat := by
  rcases waiting_step hr hw h with ⟨a, _⟩ | ⟨_, b, c, _, d, _⟩
  · subst a; simp [isLoop] at hl
  · simp only [hl, Bool.toNat_false] at c
    exact ⟨b, by omega, by omega⟩

/-- Along the path `ls` from `s` the loop performs `exit` while Stop is still waiting, and that step releases Stop:
`ls = pre ++ exit :: post`, after `pre` the controller still waits (`u.cpc = waiting`) and the loop is at its exit,
and the `exit` step leads to `v` with `v.cpc = out` and `v.running = false` — the condition on which Stop's
`for running { cond.Wait() }` returns.  (The model has no separate "Stop returns" step: `exit` resets `cpc`.) -/
def StopReleased (s : St) (ls : List Lbl) : Prop :=
  ∃ pre post u v, ls = pre ++ Lbl.exit :: post ∧ Lbl.exit ∉ pre ∧ runLabels s pre = some u ∧
    u.cpc = .waiting ∧ u.lpc = .exit ∧ stepQ u .exit = some v ∧ v.cpc = .out ∧ v.running = false

/-- accounting along a path on which the loop has not yet performed `exit` -/
theorem stop_path {s t : St} {ls : List Lbl} (hr : Reach s) (hw : s.cpc = .waiting)
    (h : runLabels s ls = some t) (hx : Lbl.exit ∉ ls) :
    t.cpc = .waiting ∧
    stopMeasure t + loopCount ls ≤ stopMeasure s + enqCount ls ∧
    (Lbl.quiesce ∉ ls → stopMeasure s ≤ stopMeasure t + loopCount ls) ∧
    stopPhase t + controlCount ls ≤ stopPhase s ∧
    stopLower s ≤ stopLower t + loopCount ls := by
  induction ls generalizing s with
  | nil =>
    simp [runLabels] at h; subst h
    simp [hw, loopCount, enqCount, controlCount]
  | cons l ls ih =>
    simp only [runLabels] at h
    cases hq : stepQ s l with
    | none => simp [hq] at h
    | some u =>
      simp [hq] at h
      have hru := Reach.step hr (stepQ_sound s u l hq)
      simp only [List.mem_cons, not_or] at hx
      rcases waiting_step hr hw hq with ⟨rfl, _⟩ | ⟨hne, hwu, h1, h2, h3, h4⟩
      · exact absurd rfl hx.1
      · obtain ⟨a, b, c, d, e⟩ := ih hru hwu h hx.2
        simp only [loopCount, enqCount, controlCount, countP_cons_toNat] at *
        refine ⟨a, by omega, ?_, by omega, by omega⟩
        intro hq'
        simp only [List.mem_cons, not_or] at hq'
        have := h2 (fun e => hq'.1 e.symm)
        have := c hq'.2
        omega

/-- the first `exit` on a path from a state in which Stop waits releases Stop -/
theorem first_exit {s t : St} {ls : List Lbl} (hr : Reach s) (hw : s.cpc = .waiting)
    (h : runLabels s ls = some t) (hx : Lbl.exit ∈ ls) : StopReleased s ls := by
  induction ls generalizing s with
  | nil => simp at hx
  | cons l ls ih =>
    simp only [runLabels] at h
    cases hq : stepQ s l with
    | none => simp [hq] at h
    | some u =>
      simp [hq] at h
      rcases waiting_step hr hw hq with ⟨rfl, h1, h2, h3⟩ | ⟨hne, hwu, _⟩
      · exact ⟨[], ls, s, u, rfl, by simp, rfl, hw, h3, hq, h1, h2⟩
      · have hx' : Lbl.exit ∈ ls := by
          rcases List.mem_cons.mp hx with e | e
          · exact absurd e.symm hne
          · exact e
        obtain ⟨pre, post, u', v, e1, e2, e3, e4⟩ := ih (Reach.step hr (stepQ_sound s u l hq)) hwu h hx'
        refine ⟨l :: pre, post, u', v, by simp [e1], ?_, by simp [runLabels, hq, e3], e4⟩
        simp only [List.mem_cons, not_or]
        exact ⟨fun e => hne e.symm, e2⟩

/-- **(T1 / P1, C07) Stop() returns after a bounded number of loop steps, whatever the other goroutines do.**
Take any reachable state `s` in which the controller waits in Stop, and any path `ls` of the system from `s` —
an arbitrary interleaving of loop steps with arbitrarily many steps of other threads (submissions accepted or
refused, token sends, StopNoWait).  As soon as the loop thread has taken `stopMeasure s` steps on that path, plus
one step for every function that was *submitted on the path itself*, the loop has performed `exit` and Stop has
been released.  Equivalently (`stop_path`): as long as Stop is still waiting,
`loopCount ls < stopMeasure s + enqCount ls`.  The allowance for submissions cannot be dropped
(`no_bound_independent_of_submissions`); it can for the loop's control steps
(`stop_returns_after_seven_control_steps`). -/
theorem stop_returns_after_bounded_loop_steps {s t : St} {ls : List Lbl} (hr : Reach s) (hw : s.cpc = .waiting)
    (h : runLabels s ls = some t) (hn : stopMeasure s + enqCount ls ≤ loopCount ls) : StopReleased s ls := by
  by_cases hx : Lbl.exit ∈ ls
  · exact first_exit hr hw h hx
  · obtain ⟨a, b, _, _⟩ := stop_path hr hw h hx
    have := (waiting_measure_pos (runLabels_reach s t ls hr h) a).1
    omega

/-- the hypotheses are satisfiable: Stop is called while the loop is parked at its select with one function queued;
two more functions are submitted while the loop is on its way out.  `stopMeasure = 6`, two submissions on the
path, and after 8 loop steps Stop has been released. -/
example : ∃ s t, Reach s ∧ s.cpc = .waiting ∧ stopMeasure s = 6 ∧
    runLabels s [.enqueue 2, .takeToken, .enqueue 3, .wake, .swap, .execOne, .execOne, .execOne, .enqueue 4,
                 .execDone, .chk, .exit] = some t ∧ t.cpc = .out ∧ t.running = false ∧ t.executed = [1, 2, 3] := by
  have h : ∃ s, runLabels init [.start, .swap, .execDone, .enqueue 1, .stopStore, .stopWake] = some s ∧
      s.cpc = .waiting ∧ stopMeasure s = 6 ∧
      ∃ t, runLabels s [.enqueue 2, .takeToken, .enqueue 3, .wake, .swap, .execOne, .execOne, .execOne, .enqueue 4,
                 .execDone, .chk, .exit] = some t ∧ t.cpc = .out ∧ t.running = false ∧ t.executed = [1, 2, 3] := by
    decide
  obtain ⟨s, h1, h2, h3, t, h4⟩ := h
  exact ⟨s, t, runLabels_reach init s _ .init h1, h2, h3, h4⟩

/-- **(T1 / P1, C07) — the bound that does not depend on the other goroutines.**  On any path from a reachable
state in which Stop waits, the loop takes at most `stopPhase s ≤ 7` *control* steps (swap the queue, finish the
batch, take the token, check `canRun`, leave — everything except running one submitted function) before Stop is
released, whatever the other threads do: on a path with 7 control steps Stop has been released.  What can not be
bounded independently of the submitters is only the number of submitted functions the loop runs on its way
(at most the two batches it drains: the one in progress and the one it swaps in after taking Stop's token). -/
theorem stop_returns_after_seven_control_steps {s t : St} {ls : List Lbl} (hr : Reach s) (hw : s.cpc = .waiting)
    (h : runLabels s ls = some t) (hn : 7 ≤ controlCount ls) : StopReleased s ls := by
  by_cases hx : Lbl.exit ∈ ls
  · exact first_exit hr hw h hx
  · obtain ⟨a, _, _, d, _⟩ := stop_path hr hw h hx
    have := (waiting_measure_pos (runLabels_reach s t ls hr h) a).2.1
    have := (waiting_measure_pos hr hw).2.2.1
    omega

/-- sharper form: `stopPhase s` control steps suffice -/
theorem stop_returns_after_phase_control_steps {s t : St} {ls : List Lbl} (hr : Reach s) (hw : s.cpc = .waiting)
    (h : runLabels s ls = some t) (hn : stopPhase s ≤ controlCount ls) : StopReleased s ls := by
  by_cases hx : Lbl.exit ∈ ls
  · exact first_exit hr hw h hx
  · obtain ⟨a, _, _, d, _⟩ := stop_path hr hw h hx
    have := (waiting_measure_pos (runLabels_reach s t ls hr h) a).2.1
    omega

/-- satisfiable, and the bound 7 is attained: Stop is called right after Start, before the loop's first swap -/
example : ∃ s, Reach s ∧ s.cpc = .waiting ∧ stopPhase s = 7 ∧
    ∃ t, runLabels s [.swap, .execDone, .takeToken, .swap, .execDone, .chk, .exit] = some t ∧ t.cpc = .out := by
  have h : ∃ s, runLabels init [.start, .stopStore, .stopWake] = some s ∧ s.cpc = .waiting ∧ stopPhase s = 7 ∧
      ∃ t, runLabels s [.swap, .execDone, .takeToken, .swap, .execDone, .chk, .exit] = some t ∧ t.cpc = .out := by
    decide
  obtain ⟨s, h1, h2⟩ := h
  exact ⟨s, runLabels_reach init s _ .init h1, h2⟩

/-- **The bounds are sharp.**  On a path on which Stop gets released the loop has taken at least `stopLower s`
steps; if the loop did not leave early through `quiesce`, at least `stopMeasure s` steps. -/
theorem stop_needs_at_least {s t : St} {ls : List Lbl} (hr : Reach s) (hw : s.cpc = .waiting)
    (h : runLabels s ls = some t) (hrel : StopReleased s ls) :
    stopLower s ≤ loopCount ls ∧ (Lbl.quiesce ∉ ls → stopMeasure s ≤ loopCount ls) := by
  obtain ⟨pre, post, u, v, e1, e2, e3, e4, e5, _⟩ := hrel
  subst e1
  obtain ⟨_, _, c, _, e⟩ := stop_path hr hw e3 e2
  have hu : stopMeasure u = 1 := by simp [stopMeasure, e5]
  have hu' : stopLower u = 1 := by simp [stopLower, e5]
  have hcnt : loopCount (pre ++ Lbl.exit :: post) = loopCount pre + 1 + loopCount post := by
    simp only [loopCount, List.countP_append, countP_cons_toNat, isLoop, Bool.toNat_true]; omega
  refine ⟨by omega, fun hq => ?_⟩
  have := c (fun hm => hq (by simp [hm]))
  omega

/-- **(T1, never stuck.)** While Stop waits, some step of the loop thread is enabled — and not merely the
abstract `quiesce` (which in the real loop needs the live-job count to be zero): the loop can swap, execute,
finish the batch, take the token (which is there: `stop_is_served`), check `canRun`, or exit. -/
theorem loop_not_stuck_while_stop_waits {s : St} (hr : Reach s) (hw : s.cpc = .waiting) :
    ∃ l, isLoop l = true ∧ l ≠ .quiesce ∧ (stepQ s l).isSome = true := by
  obtain ⟨_, _, _, hl⟩ := waiting_facts hr hw
  have hexec : ∀ k, s.lpc = .exec k → ∃ l, isLoop l = true ∧ l ≠ .quiesce ∧ (stepQ s l).isSome = true := by
    intro k hk
    cases hb : s.batch with
    | nil => exact ⟨.execDone, rfl, by simp, by simp [stepQ, hk, hb]⟩
    | cons f rest => exact ⟨.execOne, rfl, by simp, by simp [stepQ, hk, hb]⟩
  rcases hl with hl | hl | hl | hl | ⟨htok, hl | hl | hl⟩
  · exact ⟨.swap, rfl, by simp, by simp [stepQ, hl]⟩
  · exact hexec _ hl
  · exact ⟨.chk, rfl, by simp, by simp [stepQ, hl]⟩
  · exact ⟨.exit, rfl, by simp, by simp [stepQ, hl, hw]⟩
  · exact ⟨.swap, rfl, by simp, by simp [stepQ, hl]⟩
  · exact hexec _ hl
  · exact ⟨.takeToken, rfl, by simp, by simp [stepQ, hl, htok]⟩

/-- **(T1, possibility, exact.)** From every reachable state in which Stop waits, the loop thread *alone*, in exactly
`stopMeasure s` steps, none of them `quiesce`, reaches its exit and releases Stop. -/
theorem stop_can_return {s : St} (hr : Reach s) (hw : s.cpc = .waiting) :
    ∃ ls t, (∀ l ∈ ls, isLoop l = true ∧ l ≠ .quiesce) ∧ ls.length = stopMeasure s ∧
      runLabels s ls = some t ∧ StopReleased s ls ∧ t.cpc = .out ∧ t.running = false := by
  generalize hn : stopMeasure s = n
  induction n generalizing s with
  | zero => have := (waiting_measure_pos hr hw).1; omega
  | succ n ih =>
    obtain ⟨l, hl1, hl2, hl3⟩ := loop_not_stuck_while_stop_waits hr hw
    cases hq : stepQ s l with
    | none => simp [hq] at hl3
    | some u =>
      rcases waiting_step hr hw hq with ⟨rfl, h1, h2, h3⟩ | ⟨hne, hwu, h1, h2, _⟩
      · have : n = 0 := by simp [stopMeasure, h3] at hn; omega
        subst this
        refine ⟨[.exit], u, by simp [isLoop], rfl, by simp [runLabels, hq], ?_, h1, h2⟩
        exact ⟨[], [], s, u, rfl, by simp, rfl, hw, h3, hq, h1, h2⟩
      · have h2' := h2 hl2
        have hle : isEnqueue l = false := by cases l <;> simp_all [isLoop, isEnqueue]
        simp only [hl1, hle, Bool.toNat_true, Bool.toNat_false] at h1 h2'
        have hru := Reach.step hr (stepQ_sound s u l hq)
        obtain ⟨ls, t, a, b, c, d, e⟩ := ih hru hwu (by omega)
        refine ⟨l :: ls, t, ?_, by simp [b], by simp [runLabels, hq, c], ?_, e⟩
        · intro x hx
          rcases List.mem_cons.mp hx with rfl | hx
          · exact ⟨hl1, hl2⟩
          · exact a x hx
        · obtain ⟨pre, post, u', v, e1, e2, e3, e4⟩ := d
          refine ⟨l :: pre, post, u', v, by simp [e1], ?_, by simp [runLabels, hq, e3], e4⟩
          simp only [List.mem_cons, not_or]
          exact ⟨fun e => hne e.symm, e2⟩

/-- the hypotheses of `stop_needs_at_least`, `loop_not_stuck_while_stop_waits`, `stop_can_return` are satisfiable
(Stop called while the loop executes a batch of two), and for that state the loop alone needs exactly
`stopMeasure = 9` steps (eight to reach its exit point, then `exit` itself) -/
example : ∃ s, Reach s ∧ s.cpc = .waiting ∧ stopMeasure s = 9 ∧ stopLower s = 5 ∧
    (runLabels s [.execOne, .execOne, .execDone, .takeToken, .swap, .execOne, .execDone, .chk]).map
      (fun t => (t.cpc, t.lpc)) = some (.waiting, .exit) := by
  have h : ∃ s, runLabels init [.enqueue 1, .enqueue 2, .start, .swap, .enqueue 3, .stopStore, .stopWake] = some s ∧
      s.cpc = .waiting ∧ stopMeasure s = 9 ∧ stopLower s = 5 ∧
      (runLabels s [.execOne, .execOne, .execDone, .takeToken, .swap, .execOne, .execDone, .chk]).map
        (fun t => (t.cpc, t.lpc)) = some (.waiting, .exit) := by decide
  obtain ⟨s, h1, h2⟩ := h
  exact ⟨s, runLabels_reach init s _ .init h1, h2⟩

/-- Stop's own two steps never block: after the store the token send is enabled and leads to the wait -/
theorem stop_reaches_wait (s : St) (h : s.cpc = .stored) :
    ∃ t, stepQ s .stopWake = some t ∧ t.cpc = .waiting ∧ t.token = true := by
  simp [stepQ, h]

/-! ### Why the bound must mention the submissions: the literal (T1) shape is false -/

theorem le_foldr_max (l : List Nat) : ∀ x ∈ l, x ≤ l.foldr max 0 := by
  induction l with
  | nil => simp
  | cons a l ih =>
    intro x hx
    simp only [List.mem_cons] at hx
    simp only [List.foldr_cons]
    rcases hx with rfl | hx
    · omega
    · have := ih x hx; omega

/-- a function id that was never submitted -/
def freshId (s : St) : Nat := (s.accepted ++ s.refused).foldr max 0 + 1

theorem freshId_fresh (s : St) : freshId s ∉ s.accepted ∧ freshId s ∉ s.refused := by
  constructor <;> intro h
  · have := le_foldr_max (s.accepted ++ s.refused) (freshId s) (by simp [h]); simp [freshId] at this; omega
  · have := le_foldr_max (s.accepted ++ s.refused) (freshId s) (by simp [h]); simp [freshId] at this; omega

/-- the loop has not yet swapped the queue for the last time before its exit -/
def BeforeLastSwap (s : St) : Prop :=
  s.lpc = .swap false ∨ s.lpc = .exec false ∨ s.lpc = .sel ∨ s.lpc = .swap true

/-- **A step of another thread that *does* increase the measure**: a submission accepted before the loop's last
swap costs the loop one more step (the function is run before Stop returns). -/
theorem enqueue_delays_stop {s t : St} {f : Nat} (hl : BeforeLastSwap s) (h : stepQ s (.enqueue f) = some t) :
    t.lpc = s.lpc ∧ t.cpc = s.cpc ∧ stopMeasure t = stopMeasure s + 1 ∧
    ((∃ k, s.lpc = .swap k) → stopLower t = stopLower s + 1) := by
  simp only [stepQ] at h; split at h <;> simp at h; subst h
  rcases hl with hl | hl | hl | hl <;> simp [stopMeasure, stopLower, hl] <;> omega

theorem submissions_delay_stop {s : St} (hr : Reach s) (hw : s.cpc = .waiting) (hl : BeforeLastSwap s) (n : Nat) :
    ∃ ls t, (∀ l ∈ ls, isEnqueue l = true) ∧ ls.length = n ∧ runLabels s ls = some t ∧
      t.cpc = .waiting ∧ stopMeasure t = stopMeasure s + n ∧
      ((∃ k, s.lpc = .swap k) → stopLower t = stopLower s + n) := by
  induction n generalizing s with
  | zero => exact ⟨[], s, by simp, rfl, rfl, hw, rfl, fun _ => rfl⟩
  | succ n ih =>
    obtain ⟨_, _, hterm, _⟩ := waiting_facts hr hw
    have hf := freshId_fresh s
    have hen : ∃ u, stepQ s (.enqueue (freshId s)) = some u := by simp [stepQ, hterm, hf]
    obtain ⟨u, hu⟩ := hen
    obtain ⟨a, b, c, d⟩ := enqueue_delays_stop hl hu
    have hl' : BeforeLastSwap u := by unfold BeforeLastSwap; rw [a]; exact hl
    obtain ⟨ls, t, h1, h2, h3, h4, h5, h6⟩ := ih (Reach.step hr (stepQ_sound _ _ _ hu)) (by rw [b, hw]) hl'
    refine ⟨.enqueue (freshId s) :: ls, t, ?_, by simp [h2], by simp [runLabels, hu, h3], h4, by omega, ?_⟩
    · intro x hx
      rcases List.mem_cons.mp hx with rfl | hx
      · rfl
      · exact h1 x hx
    · intro hk
      have := d hk
      have := h6 (by rw [a]; exact hk)
      omega

/-- **The literal (T1) shape is false: no bound on the loop's steps holds independently of the submitters.**
For every `N` there is a reachable state in which the controller waits in Stop and from which *every* path that
releases Stop contains at least `N` steps of the loop thread.  (Stop is called right after Start; `N` functions
are submitted before the loop's first swap; the loop runs them all before it looks at `canRun`.)  So "other
threads' steps do not increase the measure" fails for `enqueue`, for any measure that bounds the loop's steps;
`stop_returns_after_bounded_loop_steps` charges one loop step per submission, which is exact. -/
theorem no_bound_independent_of_submissions (N : Nat) :
    ∃ s, Reach s ∧ s.cpc = .waiting ∧
      ∀ ls t, runLabels s ls = some t → StopReleased s ls → N ≤ loopCount ls := by
  have h0 : ∃ s0, runLabels init [.start, .stopStore, .stopWake] = some s0 ∧ s0.cpc = .waiting ∧
      s0.lpc = .swap false := by decide
  obtain ⟨s0, h1, h2, h3⟩ := h0
  have hr0 := runLabels_reach init s0 _ .init h1
  obtain ⟨es, s, _, _, e3, e4, _, e6⟩ := submissions_delay_stop hr0 h2 (.inl h3) N
  have hr := runLabels_reach s0 s es hr0 e3
  refine ⟨s, hr, e4, fun ls t hrun hrel => ?_⟩
  have := (stop_needs_at_least hr e4 hrun hrel).1
  have := e6 ⟨_, h3⟩
  omega

/-- the counterexample by evaluation: `stopMeasure` of the state reached by Start, Stop's two steps and `n`
submissions, for `n = 0 … 5` (prints `[some 7, some 8, some 9, some 10, some 11, some 12]`) -/
def stopMeasureAfterSubmissions (n : Nat) : Option Nat :=
  (runLabels init ([.start, .stopStore, .stopWake] ++ (List.range n).map .enqueue)).map stopMeasure

#eval (List.range 6).map stopMeasureAfterSubmissions

/-- the counterexample, concretely (kernel-checked): the same state with 0, 1, 2, 3 functions submitted after Stop
began to wait has measure 7, 8, 9, 10, and the loop alone needs exactly that many steps -/
example :
    ((List.range 4).map fun n =>
      (runLabels init ([.start, .stopStore, .stopWake] ++ (List.range n).map .enqueue)).map stopMeasure)
      = [some 7, some 8, some 9, some 10] ∧
    (runLabels init [.start, .stopStore, .stopWake, .enqueue 0, .enqueue 1,
        .swap, .execOne, .execOne, .execDone, .takeToken, .swap, .execDone, .chk]).map (fun s => (s.cpc, s.lpc))
      = some (.waiting, .exit) := by decide

/-! ### (T2 / P2, C04) an accepted function is executed without any further submission -/

/-- the steps of the loop's drain cycle: all loop steps except the two that leave the loop (`quiesce`, `exit`) -/
def isDrain : Lbl → Bool
  | .swap | .execOne | .execDone | .takeToken | .chk => true
  | _ => false

/-- accepted and not yet executed: in the queue or in the batch being executed
    (`accepted = executed ++ batch ++ aux`, `C04.accepted_is_executed_then_batch_then_queue`) -/
def Pending (s : St) (f : Nat) : Prop := f ∈ s.aux ∨ f ∈ s.batch

/-- an upper bound on the number of steps until `f` is executed -/
def execMeasure (f : Nat) (s : St) : Nat :=
  if f ∈ s.batch then s.batch.length else
  match s.lpc with
  | .swap _ => s.aux.length + 1
  | .sel => s.aux.length + (if s.token then 3 else 4)
  | .chk => s.aux.length + 5
  | .exec _ => s.batch.length + s.aux.length + 6
  | _ => 0

theorem running_lpc {s : St} (hr : Reach s) (hrun : s.running = true) :
    (∃ k, s.lpc = .swap k) ∨ (∃ k, s.lpc = .exec k) ∨ s.lpc = .sel ∨ s.lpc = .chk ∨ s.lpc = .exit := by
  have h1 := (reach_inv hr).2.2.2.1.1
  cases hl : s.lpc <;> simp_all

theorem batch_exec {s : St} (hr : Reach s) (hrun : s.running = true) (hb : s.batch ≠ []) : ∃ k, s.lpc = .exec k := by
  rcases (reach_inv hr).2.1 hb with h | h
  · exact h
  · have := ((reach_inv hr).2.2.2.1.1).mp (.inr (.inr h)); rw [hrun] at this; cases this

/-- the loop is running, no stop has been requested, the loop has not left its `for`, and `f` is pending -/
def Good (f : Nat) (s : St) : Prop :=
  s.running = true ∧ s.canRun = true ∧ s.lpc ≠ .exit ∧ Pending s f

/-- one step of progress towards executing `f`: a drain step of the loop, or — only when the loop is parked at
its select without a token — the owed token send of a submission that was already accepted -/
theorem exec_progress_step {s : St} {f : Nat} (hr : Reach s) (hg : Good f s) :
    ∃ l t, stepQ s l = some t ∧
      (isDrain l = true ∨ (l = .wake ∧ s.lpc = .sel ∧ s.token = false ∧ 0 < s.pend)) ∧
      t.pend ≤ s.pend ∧
      (f ∈ t.executed ∨ (Good f t ∧ execMeasure f t < execMeasure f s)) := by
  obtain ⟨hrun, hcr, hx, hf⟩ := hg
  by_cases hb : f ∈ s.batch
  · obtain ⟨k, hk⟩ := batch_exec hr hrun (by intro e; rw [e] at hb; cases hb)
    cases hbt : s.batch with
    | nil => rw [hbt] at hb; cases hb
    | cons g rest =>
      refine ⟨.execOne, { s with batch := rest, executed := s.executed ++ [g] }, by simp [stepQ, hk, hbt],
        .inl rfl, Nat.le_refl _, ?_⟩
      by_cases hgf : g = f
      · left; simp [hgf]
      · right
        have hfr : f ∈ rest := by
          rw [hbt] at hb
          rcases List.mem_cons.mp hb with e | e
          · exact absurd e.symm hgf
          · exact e
        refine ⟨⟨hrun, hcr, by simpa using hx, .inr hfr⟩, ?_⟩
        simp [execMeasure, hfr, hbt]
  · have hfa : f ∈ s.aux := by rcases hf with h | h; exact h; exact absurd h hb
    rcases running_lpc hr hrun with ⟨k, hk⟩ | ⟨k, hk⟩ | hk | hk | hk
    · refine ⟨.swap, { s with batch := s.aux, aux := [], lpc := .exec k }, by simp [stepQ, hk], .inl rfl, Nat.le_refl _, .inr ?_⟩
      refine ⟨⟨hrun, hcr, by simp, .inr hfa⟩, ?_⟩
      simp [execMeasure, hfa, hb, hk]
    · cases hbt : s.batch with
      | nil =>
        refine ⟨.execDone, { s with lpc := if k then .chk else .sel }, by simp [stepQ, hk, hbt], .inl rfl, Nat.le_refl _, .inr ?_⟩
        refine ⟨⟨hrun, hcr, by cases k <;> simp, .inl hfa⟩, ?_⟩
        cases k <;> simp [execMeasure, hk, hbt] <;> (try split) <;> omega
      | cons g rest =>
        have hfr : f ∉ rest := by intro h; exact hb (by rw [hbt]; exact List.mem_cons_of_mem _ h)
        have hfg : f ≠ g := by intro h; exact hb (by rw [hbt, h]; exact List.mem_cons_self)
        refine ⟨.execOne, { s with batch := rest, executed := s.executed ++ [g] }, by simp [stepQ, hk, hbt],
          .inl rfl, Nat.le_refl _, .inr ?_⟩
        refine ⟨⟨hrun, hcr, by simpa using hx, .inl hfa⟩, ?_⟩
        simp [execMeasure, hfr, hfg, hk, hbt]
    · cases htok : s.token with
      | true =>
        refine ⟨.takeToken, { s with token := false, lpc := .swap true }, by simp [stepQ, hk, htok], .inl rfl, Nat.le_refl _, .inr ?_⟩
        refine ⟨⟨hrun, hcr, by simp, .inl hfa⟩, ?_⟩
        simp [execMeasure, hb, hk, htok]
      | false =>
        have hp : 0 < s.pend := by
          rcases no_lost_wakeup hr hk (by intro e; rw [e] at hfa; cases hfa) with h | h
          · rw [htok] at h; cases h
          · exact h
        refine ⟨.wake, { s with token := true, pend := s.pend - 1 }, by simp [stepQ, hp], .inr ⟨rfl, hk, rfl, hp⟩,
          Nat.sub_le _ _, .inr ?_⟩
        refine ⟨⟨hrun, hcr, by simpa using hx, .inl hfa⟩, ?_⟩
        simp [execMeasure, hb, hk, htok]
    · refine ⟨.chk, { s with lpc := if s.canRun then .sel else .exit }, by simp [stepQ, hk], .inl rfl, Nat.le_refl _, .inr ?_⟩
      refine ⟨⟨hrun, hcr, by simp [hcr], .inl hfa⟩, ?_⟩
      simp [execMeasure, hb, hk, hcr]; split <;> omega
    · exact absurd hk hx

/-- **(T2 / P2, C04) While the loop is running an accepted function is executed without any further submission.**
In every reachable state in which the loop runs (`running`), no stop has been requested (`canRun`), the loop has
not already left its `for` (`lpc ≠ exit`), and `f` is accepted but not yet executed (in the queue or in the
batch), there is a path to a state in which `f` has been executed that consists of
* steps of the loop thread only — drain steps: swap, execute, finish the batch, take the token, check `canRun`;
  never `quiesce`, never `exit` —
* plus, *only if* the loop is parked at its select and the token is not yet in the channel, token sends (`wake`)
  that submitters whose function is already queued still owe (`pend > 0`; `no_lost_wakeup`): the second half of a
  `RunOnLoop` call whose first half has happened.
No `enqueue` (no further submission), no controller step.  If every accepted `RunOnLoop` call has returned
(`pend = 0`), the path consists of steps of the loop thread alone.
The side conditions `canRun` and `lpc ≠ exit` cannot be dropped, nor can `wake` when `pend > 0`: see the two
counterexamples below. -/
theorem accepted_function_is_executed_by_loop_alone {s : St} {f : Nat} (hr : Reach s) (hrun : s.running = true)
    (hcr : s.canRun = true) (hx : s.lpc ≠ .exit) (hf : f ∈ s.aux ∨ f ∈ s.batch) :
    ∃ ls t, runLabels s ls = some t ∧ f ∈ t.executed ∧
      (∀ l ∈ ls, isDrain l = true ∨ l = .wake) ∧
      (s.pend = 0 → ∀ l ∈ ls, isDrain l = true) ∧
      (∀ l ∈ ls, l ≠ .quiesce ∧ l ≠ .exit ∧ isEnqueue l = false) := by
  have hg : Good f s := ⟨hrun, hcr, hx, hf⟩
  clear hrun hcr hx hf
  generalize hn : execMeasure f s = n
  induction n using Nat.strongRecOn generalizing s with
  | _ n ih =>
    obtain ⟨l, u, hq, hl, hp, hres⟩ := exec_progress_step hr hg
    have hl3 : l ≠ .quiesce ∧ l ≠ .exit ∧ isEnqueue l = false := by
      rcases hl with h | ⟨rfl, _⟩
      · cases l <;> simp_all [isDrain, isEnqueue]
      · simp [isEnqueue]
    have hl1 : isDrain l = true ∨ l = .wake := by
      rcases hl with h | ⟨h, _⟩
      · exact .inl h
      · exact .inr h
    have hl2 : s.pend = 0 → isDrain l = true := by
      intro h0
      rcases hl with h | ⟨_, _, _, h⟩
      · exact h
      · omega
    rcases hres with hex | ⟨hgu, hlt⟩
    · refine ⟨[l], u, by simp [runLabels, hq], hex, ?_, ?_, ?_⟩
      · intro x hx; simp at hx; subst hx; exact hl1
      · intro h0 x hx; simp at hx; subst hx; exact hl2 h0
      · intro x hx; simp at hx; subst hx; exact hl3
    · obtain ⟨ls, t, a, b, c, d, e⟩ := ih _ (by omega) (Reach.step hr (stepQ_sound _ _ _ hq)) hgu rfl
      refine ⟨l :: ls, t, by simp [runLabels, hq, a], b, ?_, ?_, ?_⟩
      · intro x hx
        rcases List.mem_cons.mp hx with rfl | hx
        · exact hl1
        · exact c x hx
      · intro h0 x hx
        rcases List.mem_cons.mp hx with rfl | hx
        · exact hl2 h0
        · exact d (by omega) x hx
      · intro x hx
        rcases List.mem_cons.mp hx with rfl | hx
        · exact hl3
        · exact e x hx

/-- satisfiable: two functions queued, the loop parked at its select, the submissions complete (`pend = 0`) -/
example : ∃ s, Reach s ∧ s.running = true ∧ s.canRun = true ∧ s.lpc ≠ .exit ∧ (2 ∈ s.aux ∨ 2 ∈ s.batch) ∧
    s.pend = 0 ∧ (runLabels s [.takeToken, .swap, .execOne, .execOne]).map (·.executed) = some [1, 2] := by
  have h : ∃ s, runLabels init [.start, .swap, .execDone, .enqueue 1, .wake, .enqueue 2, .wake] = some s ∧
      s.running = true ∧ s.canRun = true ∧ s.lpc ≠ .exit ∧ (2 ∈ s.aux ∨ 2 ∈ s.batch) ∧ s.pend = 0 ∧
      (runLabels s [.takeToken, .swap, .execOne, .execOne]).map (·.executed) = some [1, 2] := by decide
  obtain ⟨s, h1, h2⟩ := h
  exact ⟨s, runLabels_reach init s _ .init h1, h2⟩

/-- **Counterexample 1 to the literal (T2) shape ("loop steps only").**  A reachable running state with function 1
accepted and queued in which *no* drain step of the loop is enabled: the submitter has appended under the lock but
not yet sent the token.  The only enabled loop step is `quiesce` (which in the real loop needs the live-job count
to be zero) and it leads out of the loop with 1 still queued.  The submitter's owed `wake` is enabled. -/
example : ∃ s, runLabels init [.start, .swap, .execDone, .enqueue 1] = some s ∧ s.running = true ∧ s.canRun = true ∧
    1 ∈ s.aux ∧ s.pend = 1 ∧
    [Lbl.swap, .execOne, .execDone, .takeToken, .chk, .exit].all (fun l => (stepQ s l).isNone) = true ∧
    (stepQ s .wake).isSome = true ∧
    (runLabels s [.quiesce, .exit]).map (fun t => (t.running, t.aux, t.executed)) = some (false, [1], []) := by
  decide

/-- **Counterexample 2 ("while the loop is running" needs "and has not been asked to stop").**  A reachable running
state with function 1 accepted, queued and its token sent, in which the loop's only possible steps are
`chk`, `exit`: a stop was requested, the loop leaves, and 1 stays queued until the next Start
(`C07.nothing_lost`). -/
example : ∃ s, runLabels init [.start, .swap, .execDone, .snwStore, .wake, .takeToken, .swap, .execDone,
      .enqueue 1, .wake] = some s ∧ s.running = true ∧ s.canRun = false ∧ 1 ∈ s.aux ∧ s.pend = 0 ∧
    [Lbl.swap, .execOne, .execDone, .takeToken, .quiesce, .exit].all (fun l => (stepQ s l).isNone) = true ∧
    (runLabels s [.chk]).map
      (fun t => [Lbl.swap, .execOne, .execDone, .takeToken, .quiesce, .chk].all (fun l => (stepQ t l).isNone)) = some true ∧
    (runLabels s [.chk, .exit]).map (fun t => (t.running, t.aux, t.executed)) = some (false, [1], []) := by
  decide

/-- **(T2, enabledness.)** In every reachable state in which the loop runs, has not left its `for`, and a function
is accepted but not yet executed, a drain step of the loop thread is enabled — no further submission is needed to
wake the loop — or else the loop is parked at its select, the token is not yet in the channel, and the token send
a submitter still owes (`wake`) is enabled.  (Here `canRun` is not needed.) -/
theorem loop_enabled_for_pending_function {s : St} {f : Nat} (hr : Reach s) (hrun : s.running = true)
    (hx : s.lpc ≠ .exit) (hf : f ∈ s.aux ∨ f ∈ s.batch) :
    (∃ l, isDrain l = true ∧ (stepQ s l).isSome = true) ∨
    (s.lpc = .sel ∧ s.token = false ∧ 0 < s.pend ∧ (stepQ s .wake).isSome = true) := by
  rcases running_lpc hr hrun with ⟨k, hk⟩ | ⟨k, hk⟩ | hk | hk | hk
  · exact .inl ⟨.swap, rfl, by simp [stepQ, hk]⟩
  · cases hb : s.batch with
    | nil => exact .inl ⟨.execDone, rfl, by simp [stepQ, hk, hb]⟩
    | cons g rest => exact .inl ⟨.execOne, rfl, by simp [stepQ, hk, hb]⟩
  · cases htok : s.token with
    | true => exact .inl ⟨.takeToken, rfl, by simp [stepQ, hk, htok]⟩
    | false =>
      have hfa : s.aux ≠ [] := by
        rcases hf with h | h
        · intro e; rw [e] at h; cases h
        · obtain ⟨k, hk'⟩ := batch_exec hr hrun (by intro e; rw [e] at h; cases h)
          rw [hk] at hk'; cases hk'
      rcases no_lost_wakeup hr hk hfa with h | h
      · rw [htok] at h; cases h
      · exact .inr ⟨hk, rfl, h, by simp [stepQ, h]⟩
  · exact .inl ⟨.chk, rfl, by simp [stepQ, hk]⟩
  · exact absurd hk hx

/-- satisfiable, also with a stop requested: the loop is at `chk` with `canRun = false` and function 1 queued -/
example : ∃ s, Reach s ∧ s.running = true ∧ s.lpc ≠ .exit ∧ (1 ∈ s.aux ∨ 1 ∈ s.batch) ∧ s.pend = 0 := by
  have h : ∃ s, runLabels init [.start, .swap, .execDone, .snwStore, .wake, .takeToken, .swap, .execDone,
      .enqueue 1, .wake] = some s ∧ s.running = true ∧ s.lpc ≠ .exit ∧ (1 ∈ s.aux ∨ 1 ∈ s.batch) ∧ s.pend = 0 := by
    decide
  obtain ⟨s, h1, h2⟩ := h
  exact ⟨s, runLabels_reach init s _ .init h1, h2⟩

/-- with every submission call returned (`pend = 0`) the enabled step is a step of the loop thread itself -/
theorem loop_step_enabled_for_pending_function {s : St} {f : Nat} (hr : Reach s) (hrun : s.running = true)
    (hx : s.lpc ≠ .exit) (hf : f ∈ s.aux ∨ f ∈ s.batch) (hp : s.pend = 0) :
    ∃ l, isLoop l = true ∧ isDrain l = true ∧ (stepQ s l).isSome = true := by
  rcases loop_enabled_for_pending_function hr hrun hx hf with ⟨l, h1, h2⟩ | ⟨_, _, h, _⟩
  · exact ⟨l, by cases l <;> simp_all [isLoop, isDrain], h1, h2⟩
  · omega

/-! ### (T4 / P4, C06) the queue system's side of "Run() returns": the exit is never blocked -/

/-- **(T4, queue side.)** At its select the loop's exit on quiescence is enabled (the guard "live-job count = 0" is
the ledger's business, see `run_returns_at_quiescence`); it leads to the loop's exit point, where the final step —
clear `running`, broadcast — is enabled unless a `Stop` holds the stop lock between its store and its wait, in which
case Stop's own next step is enabled and then the exit is.  So the way out is never blocked. -/
theorem run_exit_never_blocked (s : St) (h : s.lpc = .sel) :
    ∃ t, stepQ s .quiesce = some t ∧ t.lpc = .exit ∧ t.cpc = s.cpc ∧
      (t.cpc ≠ .stored → ∃ u, stepQ t .exit = some u ∧ u.running = false ∧ u.lpc = .idle) ∧
      (t.cpc = .stored → ∃ t' u, stepQ t .stopWake = some t' ∧ stepQ t' .exit = some u ∧ u.running = false ∧
        u.lpc = .idle ∧ u.cpc = .out) := by
  refine ⟨{ s with lpc := .exit }, by simp [stepQ, h], rfl, rfl, ?_, ?_⟩
  · intro hc
    have hc' : s.cpc ≠ .stored := hc
    simp [stepQ, hc']
  · intro hc
    have hc' : s.cpc = .stored := hc
    exact ⟨{ s with lpc := .exit, token := true, cpc := .waiting },
      { s with lpc := .idle, token := true, cpc := .out, running := false },
      by simp [stepQ, hc'], by simp [stepQ], rfl, rfl, rfl⟩

/-- satisfiable in both cases: a loop parked at its select, without and with a Stop between its store and its wait -/
example : (∃ s, runLabels init [.start, .swap, .execDone] = some s ∧ s.lpc = .sel ∧ s.cpc ≠ .stored) ∧
    (∃ s, runLabels init [.start, .swap, .execDone, .stopStore] = some s ∧ s.lpc = .sel ∧ s.cpc = .stored) := by
  decide

end QueueProgress

/-! ## Part 2 — the job ledger (`GN.EventLoop.Ledger`) -/

section LedgerProgress
open GN.EventLoop.Ledger

/-- the executable function is complete: every `Step` of the ledger is the step of some label -/
theorem stepL_complete {s t : St} (h : Step s t) : ∃ l, stepL s l = some t := by
  cases h
  case setTimeout => exact ⟨.setTimeout, rfl⟩
  case setInterval => exact ⟨.setInterval, rfl⟩
  case setImmediate h => exact ⟨.setImmediate, by simp [stepL, h]⟩
  case setImmediateRefused h => exact ⟨.setImmediateRefused, by simp [stepL, h]⟩
  case expire i j h hk hg => exact ⟨.expire i, by simp [stepL, h, hk, hg]⟩
  case deliverLive i j h hk hg hc => exact ⟨.deliverLive i, by simp [stepL, h, hk, hg, hc]⟩
  case deliverDead i j h hk hg hc => exact ⟨.deliverDead i, by simp [stepL, h, hk, hg, hc]⟩
  case clear i j h hc => exact ⟨.clear i, by simp [stepL, h, hc]⟩
  case clearNoop i j h hc => exact ⟨.clearNoop i, by simp [stepL, h, hc]⟩
  case tick i j h hk hg => exact ⟨.tick i, by simp [stepL, h, hk, hg]⟩
  case deliverTick i j h hk hg => exact ⟨.deliverTick i, by simp [stepL, h, hk, hg]⟩
  case istop i j h hk hg hc => exact ⟨.istop i, by simp [stepL, h, hk, hg, hc]⟩
  case deliverRemove i j h hk hg => exact ⟨.deliverRemove i, by simp [stepL, h, hk, hg]⟩
  case runImmediateLive i j h hk hg hc => exact ⟨.runImmediateLive i, by simp [stepL, h, hk, hg, hc]⟩
  case runImmediateDead i j h hk hg hc => exact ⟨.runImmediateDead i, by simp [stepL, h, hk, hg, hc]⟩
  case setTerminated b => exact ⟨.setTerminated b, rfl⟩

theorem upd_get_cases {s : St} {k i : Nat} {j : Job} (f : Job → Job) (hj : s.jobs[i]? = some j) :
    (s.upd k f).jobs[i]? = some (if k = i then f j else j) := by
  simp only [St.upd, List.getElem?_modify, hj]
  split <;> rfl

theorem upd_get_eq {s : St} {i : Nat} {j : Job} (f : Job → Job) (hj : s.jobs[i]? = some j) :
    (s.upd i f).jobs[i]? = some (f j) := by rw [upd_get_cases f hj]; simp

theorem upd_get_ne {s : St} {k i : Nat} {j : Job} (f : Job → Job) (hj : s.jobs[i]? = some j) (hki : k ≠ i) :
    (s.upd k f).jobs[i]? = some j := by rw [upd_get_cases f hj]; simp [hki]

/-! ### (T3 / P3, C05) a timeout or immediate that is not cleared runs exactly once -/

/-- the job's own remaining steps until its callback runs: the runtime timer expiring (`expire`) and the loop
receiving `doTimeout` (`deliverLive`) for a timeout; the loop running `doImmediate` (`runImmediateLive`) for an
immediate.  No `clear`, no `setTerminated`, no step of any other job. -/
def fireLabels (i : Nat) (j : Job) : List Lbl :=
  match j.kind, j.g with
  | .timeout, .armed => [.expire i, .deliverLive i]
  | .timeout, .sending => [.deliverLive i]
  | .immediate, .queued => [.runImmediateLive i]
  | _, _ => []

/-- the number of those steps: 2 for an armed timeout, 1 for an expired one and for a queued immediate -/
def pendingSteps (j : Job) : Nat :=
  match j.kind, j.g with
  | .timeout, .armed => 2
  | .timeout, .sending => 1
  | .immediate, .queued => 1
  | _, _ => 0

theorem fireLabels_length (i : Nat) (j : Job) : (fireLabels i j).length = pendingSteps j := by
  unfold fireLabels pendingSteps; split <;> rfl

theorem fireLabels_own (i : Nat) (j : Job) :
    ∀ l ∈ fireLabels i j, l = .expire i ∨ l = .deliverLive i ∨ l = .runImmediateLive i := by
  intro l hl; unfold fireLabels at hl; split at hl <;> simp at hl
  all_goals (first | (rcases hl with h | h <;> simp [h]) | simp [hl])

/-- a live (set, not cancelled) timeout or immediate has not fired, and its goroutine is where it should be: the
timer is armed or its expiry is on the way to the loop; the immediate is queued -/
theorem live_oneshot_facts {s : St} {i : Nat} {j : Job} (hr : Reach s) (hj : s.jobs[i]? = some j)
    (hk : j.kind = .timeout ∨ j.kind = .immediate) (hc : j.cancelled = false) :
    j.fired = 0 ∧ ((j.kind = .timeout ∧ (j.g = .armed ∨ j.g = .sending)) ∨ (j.kind = .immediate ∧ j.g = .queued)) := by
  have hok := (reach_inv hr).1 j (List.mem_of_getElem? hj)
  unfold JobOK at hok
  rcases hk with hk | hk <;> simp_all
  · refine ⟨by omega, ?_⟩
    rcases hok.1.2 with h | h | h <;> simp_all
  · refine ⟨by omega, ?_⟩
    rcases hok.1.2.1 with h | h <;> simp_all

theorem live_oneshot_can_fire {s : St} {i : Nat} {j : Job} (hr : Reach s) (hj : s.jobs[i]? = some j)
    (hk : j.kind = .timeout ∨ j.kind = .immediate) (hc : j.cancelled = false) :
    ∃ t j', runLabels s (fireLabels i j) = some t ∧ t.jobs[i]? = some j' ∧ j'.kind = j.kind ∧ j'.fired = 1 ∧
      j'.cancelled = true ∧ t.jobCount = s.jobCount - 1 := by
  obtain ⟨hf, hcase⟩ := live_oneshot_facts hr hj hk hc
  rcases hcase with ⟨hk, hg | hg⟩ | ⟨hk, hg⟩
  · simp [fireLabels, runLabels, stepL, hj, hk, hg, hc, hf, St.upd]
  · simp [fireLabels, runLabels, stepL, hj, hk, hg, hc, hf, St.upd]
  · simp [fireLabels, runLabels, stepL, hj, hk, hg, hc, hf, St.upd]

/-- a job keeps its index and kind, and its `fired` count never decreases -/
theorem step_keeps_job {s t : St} (h : Step s t) {i : Nat} {j : Job} (hs : s.jobs[i]? = some j) :
    ∃ j', t.jobs[i]? = some j' ∧ j'.kind = j.kind ∧ j.fired ≤ j'.fired := by
  have base : (fun x : Job => x.kind = j.kind ∧ j.fired ≤ x.fired) j := ⟨rfl, Nat.le_refl _⟩
  cases h
  case setTimeout => exact ⟨j, getElem?_append_pres _ _ _ _ hs, base⟩
  case setInterval => exact ⟨j, getElem?_append_pres _ _ _ _ hs, base⟩
  case setImmediate => exact ⟨j, getElem?_append_pres _ _ _ _ hs, base⟩
  case setImmediateRefused => exact ⟨j, hs, base⟩
  case clearNoop => exact ⟨j, hs, base⟩
  case setTerminated => exact ⟨j, hs, base⟩
  case clear =>
    exact getElem?_modify_pres (P := fun x => x.kind = j.kind ∧ j.fired ≤ x.fired) _
      (by intro x hx; unfold cancelJob; split <;> exact hx) _ _ _ _ hs base
  case deliverTick =>
    exact getElem?_modify_pres (P := fun x => x.kind = j.kind ∧ j.fired ≤ x.fired) _
      (by intro x hx; refine ⟨hx.1, ?_⟩; have := hx.2; dsimp only; split <;> omega) _ _ _ _ hs base
  all_goals
    exact getElem?_modify_pres (P := fun x => x.kind = j.kind ∧ j.fired ≤ x.fired) _
      (by intro x hx; first | exact hx | exact ⟨hx.1, Nat.le_succ_of_le hx.2⟩) _ _ _ _ hs base

theorem steps_keep_job {s t : St} (h : Steps s t) {i : Nat} {j : Job} (hs : s.jobs[i]? = some j) :
    ∃ j', t.jobs[i]? = some j' ∧ j'.kind = j.kind ∧ j.fired ≤ j'.fired := by
  induction h with
  | refl => exact ⟨j, hs, rfl, Nat.le_refl _⟩
  | tail _ hst ih =>
    obtain ⟨j1, h1, k1, f1⟩ := ih
    obtain ⟨j2, h2, k2, f2⟩ := step_keeps_job hst h1
    exact ⟨j2, h2, k2.trans k1, Nat.le_trans f1 f2⟩

/-- once a timeout or immediate has fired, its count stays 1 over every later history -/
theorem fired_once_stays_once {t u : St} (hr : Reach t) (h : Steps t u) {i : Nat} {j : Job}
    (hj : t.jobs[i]? = some j) (hk : j.kind = .timeout ∨ j.kind = .immediate) (hf : j.fired = 1) :
    ∃ j', u.jobs[i]? = some j' ∧ j'.kind = j.kind ∧ j'.fired = 1 := by
  obtain ⟨j', h1, h2, h3⟩ := steps_keep_job h hj
  have := timeout_fires_at_most_once (Steps.reach hr h) j' (List.mem_of_getElem? h1) (by rw [h2]; exact hk)
  exact ⟨j', h1, h2, by omega⟩

/-- **(T3 / P3, C05) A timeout or immediate that is not cleared does run, exactly once.**  In every reachable state,
for a job `i` that is a timeout or an immediate and is live (it was set, and is neither cancelled nor fired —
`cancelled = false`; a fired one-shot job is cancelled by its own delivery): it has not fired yet; the path
`fireLabels i j` — at most two steps, the job's own (timer expiry, delivery on the loop; `fireLabels_own`: no
`clear`, no `setTerminated`, nothing of any other job) — is enabled and leads to a state `t` in which it has
fired; and in `t` *and in every state reachable from `t` by any steps whatsoever* its `fired` count is exactly 1
(≥ 1 because it fired and counts never decrease, ≤ 1 by `C05.fires_at_most_once`). -/
theorem uncleared_oneshot_fires_exactly_once {s : St} {i : Nat} {j : Job} (hr : Reach s)
    (hj : s.jobs[i]? = some j) (hk : j.kind = .timeout ∨ j.kind = .immediate) (hc : j.cancelled = false) :
    j.fired = 0 ∧ fireLabels i j ≠ [] ∧
    ∃ t, runLabels s (fireLabels i j) = some t ∧
      ∀ u, Steps t u → ∃ j', u.jobs[i]? = some j' ∧ j'.kind = j.kind ∧ j'.fired = 1 := by
  obtain ⟨hf, hcase⟩ := live_oneshot_facts hr hj hk hc
  obtain ⟨t, j', h1, h2, h3, h4, _⟩ := live_oneshot_can_fire hr hj hk hc
  refine ⟨hf, ?_, t, h1, ?_⟩
  · rcases hcase with ⟨hk, hg | hg⟩ | ⟨hk, hg⟩ <;> simp [fireLabels, hk, hg]
  · intro u hu
    obtain ⟨j'', a, b, c⟩ := fired_once_stays_once (runLabels_reach s t _ hr h1) hu h2 (by rw [h3]; exact hk) h4
    exact ⟨j'', a, b.trans h3, c⟩

/-- satisfiable, for a timeout (job 0, armed) and an immediate (job 1, queued), with an interval around -/
example : ∃ s j0 j1, Reach s ∧ s.jobs[0]? = some j0 ∧ j0.kind = .timeout ∧ j0.cancelled = false ∧
    s.jobs[1]? = some j1 ∧ j1.kind = .immediate ∧ j1.cancelled = false ∧
    fireLabels 0 j0 = [.expire 0, .deliverLive 0] ∧ fireLabels 1 j1 = [.runImmediateLive 1] ∧
    (runLabels s (fireLabels 0 j0 ++ fireLabels 1 j1)).map (fun t => t.jobs.map (·.fired)) = some [1, 1, 0] := by
  have h : ∃ s, runLabels init [.setTimeout, .setImmediate, .setInterval] = some s ∧ ∃ j0 j1,
      s.jobs[0]? = some j0 ∧ j0.kind = .timeout ∧ j0.cancelled = false ∧
      s.jobs[1]? = some j1 ∧ j1.kind = .immediate ∧ j1.cancelled = false ∧
      fireLabels 0 j0 = [.expire 0, .deliverLive 0] ∧ fireLabels 1 j1 = [.runImmediateLive 1] ∧
      (runLabels s (fireLabels 0 j0 ++ fireLabels 1 j1)).map (fun t => t.jobs.map (·.fired)) = some [1, 1, 0] :=
    ⟨_, rfl, _, _, rfl, rfl, rfl, rfl, rfl, rfl, rfl, rfl, by decide +kernel⟩
  obtain ⟨s, h1, j0, j1, h2⟩ := h
  exact ⟨s, j0, j1, runLabels_reach init s _ .init h1, h2⟩

/-- the job's own steps, as a predicate on labels -/
def isOwn (i : Nat) : Lbl → Bool
  | .expire k | .deliverLive k | .runImmediateLive k => k == i
  | _ => false

/-- number of the job's own steps on a path -/
def ownCount (i : Nat) (ls : List Lbl) : Nat := ls.countP (isOwn i)

/-- **(T3, per step.)** Nothing but `clear i` can stop a live timeout or immediate `i`: after any other enabled
step of the system (other jobs being set, expiring, delivered, cleared; intervals ticking; Terminate's flag) the
job is still live with no more own steps to go than before — one fewer if the step was its own — or the step was
its own delivery and it has fired. -/
theorem other_steps_cannot_stop_it {s t : St} {l : Lbl} {i : Nat} {j : Job} (hr : Reach s)
    (hj : s.jobs[i]? = some j) (hk : j.kind = .timeout ∨ j.kind = .immediate) (hc : j.cancelled = false)
    (h : stepL s l = some t) (hl : l ≠ .clear i) :
    ∃ j', t.jobs[i]? = some j' ∧ j'.kind = j.kind ∧
      ((j'.cancelled = false ∧ pendingSteps j' + (isOwn i l).toNat ≤ pendingSteps j) ∨
       (j'.fired = 1 ∧ isOwn i l = true)) := by
  obtain ⟨hf, hcase⟩ := live_oneshot_facts hr hj hk hc
  have keep : isOwn i l = false →
      ((j.cancelled = false ∧ pendingSteps j + (isOwn i l).toNat ≤ pendingSteps j) ∨
       (j.fired = 1 ∧ isOwn i l = true)) := fun e => .inl ⟨hc, by simp [e]⟩
  cases l <;> simp only [stepL] at h
  case setTimeout => simp at h; subst h; exact ⟨j, getElem?_append_pres _ _ _ _ hj, rfl, keep rfl⟩
  case setInterval => simp at h; subst h; exact ⟨j, getElem?_append_pres _ _ _ _ hj, rfl, keep rfl⟩
  case setImmediate => split at h <;> simp at h; subst h; exact ⟨j, getElem?_append_pres _ _ _ _ hj, rfl, keep rfl⟩
  case setImmediateRefused => split at h <;> simp at h; subst h; exact ⟨j, hj, rfl, keep rfl⟩
  case setTerminated b => simp at h; subst h; exact ⟨j, hj, rfl, keep rfl⟩
  case clearNoop k =>
    split at h
    · split at h <;> simp at h; subst h; exact ⟨j, hj, rfl, keep rfl⟩
    · simp at h
  all_goals
    rename_i k
    split at h
    · next j0 hj0 =>
      split at h <;> simp at h
      next hcnd =>
      subst h
      by_cases hki : k = i
      · subst hki; rw [hj] at hj0; cases hj0
        refine ⟨_, upd_get_eq _ hj, ?_⟩
        first
          | exact absurd rfl hl
          | (rcases hcase with ⟨hk', hg' | hg'⟩ | ⟨hk', hg'⟩ <;> simp_all [isOwn, pendingSteps])
      · exact ⟨j, upd_get_ne _ hj hki, rfl, keep (by simp [isOwn, hki])⟩
    · simp at h

theorem steps_head {s u t : St} (h1 : Step s u) (h2 : Steps u t) : Steps s t := by
  induction h2 with
  | refl => exact .tail (.refl s) h1
  | tail _ hst ih => exact .tail ih hst

theorem runLabels_steps {s t : St} {ls : List Lbl} (h : runLabels s ls = some t) : Steps s t := by
  induction ls generalizing s with
  | nil => simp [runLabels] at h; subst h; exact .refl s
  | cons l ls ih =>
    simp only [runLabels] at h
    cases hq : stepL s l with
    | none => simp [hq] at h
    | some u => simp [hq] at h; exact steps_head (stepL_sound s u l hq) (ih h)

theorem countP_cons_toNatL (p : Lbl → Bool) (a : Lbl) (l : List Lbl) :
    (a :: l).countP p = (p a).toNat + l.countP p := by
  rw [List.countP_cons]; cases p a <;> simp <;> omega

/-- along any path without `clear i`: the job is still live (not fired, its remaining own steps accounted for) or
has fired exactly once -/
theorem uncleared_oneshot_path {s t : St} {ls : List Lbl} {i : Nat} {j : Job} (hr : Reach s)
    (hj : s.jobs[i]? = some j) (hk : j.kind = .timeout ∨ j.kind = .immediate) (hc : j.cancelled = false)
    (h : runLabels s ls = some t) (hx : Lbl.clear i ∉ ls) :
    ∃ j', t.jobs[i]? = some j' ∧ j'.kind = j.kind ∧
      ((j'.cancelled = false ∧ j'.fired = 0 ∧ pendingSteps j' + ownCount i ls ≤ pendingSteps j) ∨ j'.fired = 1) := by
  induction ls generalizing s j with
  | nil =>
    simp [runLabels] at h; subst h
    exact ⟨j, hj, rfl, .inl ⟨hc, (live_oneshot_facts hr hj hk hc).1, by simp [ownCount]⟩⟩
  | cons l ls ih =>
    simp only [runLabels] at h
    cases hq : stepL s l with
    | none => simp [hq] at h
    | some u =>
      simp [hq] at h
      simp only [List.mem_cons, not_or] at hx
      have hru := Reach.step hr (stepL_sound s u l hq)
      obtain ⟨j1, h1, k1, hres⟩ := other_steps_cannot_stop_it hr hj hk hc hq (fun e => hx.1 e.symm)
      rcases hres with ⟨c1, p1⟩ | ⟨f1, _⟩
      · obtain ⟨j2, h2, k2, hres2⟩ := ih hru h1 (by rw [k1]; exact hk) c1 h hx.2
        refine ⟨j2, h2, k2.trans k1, ?_⟩
        rcases hres2 with ⟨a, b, c⟩ | f2
        · left; refine ⟨a, b, ?_⟩
          simp only [ownCount, countP_cons_toNatL] at *
          omega
        · exact .inr f2
      · obtain ⟨j2, h2, k2, f2⟩ := fired_once_stays_once hru (runLabels_steps h) h1 (by rw [k1]; exact hk) f1
        exact ⟨j2, h2, k2.trans k1, .inr f2⟩

/-- **(T3 / P3, bounded form: "provided the loop keeps running".)**  Take a live timeout or immediate `i` in a
reachable state and *any* path of the system from it on which job `i` is not cleared (no `clear i`, whether by
`clearTimeout`/`clearImmediate` or by Terminate's cancel loop) — whatever else happens on it.  As soon as the path
contains `pendingSteps j ≤ 2` of the job's own steps (the timer expires; the loop takes the delivery), the job has
fired, exactly once.  Together with `other_steps_cannot_stop_it` (its own next step stays enabled until taken)
this is the progress half of C05: the only assumption left is that the runtime timer expires and the running loop
takes its deliveries. -/
theorem uncleared_oneshot_fires_within_two_own_steps {s t : St} {ls : List Lbl} {i : Nat} {j : Job} (hr : Reach s)
    (hj : s.jobs[i]? = some j) (hk : j.kind = .timeout ∨ j.kind = .immediate) (hc : j.cancelled = false)
    (h : runLabels s ls = some t) (hx : Lbl.clear i ∉ ls) (hn : pendingSteps j ≤ ownCount i ls) :
    pendingSteps j ≤ 2 ∧ ∃ j', t.jobs[i]? = some j' ∧ j'.kind = j.kind ∧ j'.fired = 1 := by
  obtain ⟨j', h1, h2, hres⟩ := uncleared_oneshot_path hr hj hk hc h hx
  refine ⟨by unfold pendingSteps; split <;> omega, j', h1, h2, ?_⟩
  rcases hres with ⟨a, b, c⟩ | f
  · have hpos : 1 ≤ pendingSteps j' := by
      obtain ⟨_, hcase⟩ := live_oneshot_facts (runLabels_reach s t ls hr h) h1 (by rw [h2]; exact hk) a
      rcases hcase with ⟨hk', hg' | hg'⟩ | ⟨hk', hg'⟩ <;> simp [pendingSteps, hk', hg']
    omega
  · exact f

/-- satisfiable: job 0 is a live timeout; other jobs are set, cleared and delivered around it; no `clear 0` -/
example : ∃ s j, Reach s ∧ s.jobs[0]? = some j ∧ j.kind = .timeout ∧ j.cancelled = false ∧ pendingSteps j = 2 ∧
    ownCount 0 [.setInterval, .expire 0, .clear 1, .setTerminated true, .istop 1, .deliverLive 0, .deliverRemove 1] = 2 ∧
    (runLabels s [.setInterval, .expire 0, .clear 1, .setTerminated true, .istop 1, .deliverLive 0, .deliverRemove 1]).map
      (fun t => t.jobs.map (·.fired)) = some [1, 0] := by
  have h : ∃ s, runLabels init [.setTimeout] = some s ∧ ∃ j, s.jobs[0]? = some j ∧ j.kind = .timeout ∧
      j.cancelled = false ∧ pendingSteps j = 2 ∧
      ownCount 0 [.setInterval, .expire 0, .clear 1, .setTerminated true, .istop 1, .deliverLive 0, .deliverRemove 1] = 2 ∧
      (runLabels s [.setInterval, .expire 0, .clear 1, .setTerminated true, .istop 1, .deliverLive 0, .deliverRemove 1]).map
        (fun t => t.jobs.map (·.fired)) = some [1, 0] :=
    ⟨_, rfl, _, rfl, rfl, rfl, rfl, by decide, by decide +kernel⟩
  obtain ⟨s, h1, j, h2⟩ := h
  exact ⟨s, j, runLabels_reach init s _ .init h1, h2⟩

/-! ### (T4 / P4, C06) Run() returns exactly when no live work is left: "always then"

"Never earlier" is `C06.count_is_exact` / `C06.zero_iff_no_live_job`: the loop's condition `jobCount > 0` fails
exactly when no job is live.  What was missing is (a) that at that moment nothing is left that could still run —
no step of the ledger starts a callback, and the steps that need a live job are disabled — so returning loses
nothing; (b) that the exit itself is not blocked (`run_exit_never_blocked`, queue side); and (c) conversely,
that while the count is non-zero the loop is not waiting in vain: some live job has an enabled step of its own. -/

/-- **(T4a.)** In a quiescent reachable state (`jobCount = 0`) no step of the ledger starts any callback -/
theorem quiescent_nothing_fires {s t : St} (hr : Reach s) (h0 : s.jobCount = 0) (h : Step s t) {i : Nat} {j j' : Job}
    (hs : s.jobs[i]? = some j) (ht : t.jobs[i]? = some j') : j'.fired = j.fired := by
  obtain ⟨j1, h1, _, hle⟩ := step_keeps_job h hs
  rw [ht] at h1; cases h1
  have hcan := (quiescent_iff hr).mp h0 j (List.mem_of_getElem? hs)
  apply Classical.byContradiction
  intro hne
  have := fire_requires_live h hs ht (by omega)
  rw [hcan] at this; cases this

/-- **(T4a'.)** … and the steps that need a live job — a live delivery, a live immediate, a clear that counts — are
disabled for every job.  (New jobs can of course still be set by other goroutines; that is a new Run.) -/
theorem quiescent_disables_live_steps {s : St} (hr : Reach s) (h0 : s.jobCount = 0) (i : Nat) :
    stepL s (.deliverLive i) = none ∧ stepL s (.runImmediateLive i) = none ∧ stepL s (.clear i) = none := by
  have hall := (quiescent_iff hr).mp h0
  cases hj : s.jobs[i]? with
  | none => simp [stepL, hj]
  | some j =>
    have := hall j (List.mem_of_getElem? hj)
    simp [stepL, hj, this]

/-- **(T4c.)** While the live-job count is non-zero there is a live job with an enabled step of its own: its timer
can expire or be delivered, its immediate can run, its ticker can tick or be delivered.  The loop that has not
returned is not waiting for nothing. -/
theorem live_work_is_enabled {s : St} (hr : Reach s) (h0 : s.jobCount ≠ 0) :
    ∃ i j l, s.jobs[i]? = some j ∧ j.cancelled = false ∧
      (l = .expire i ∨ l = .deliverLive i ∨ l = .runImmediateLive i ∨ l = .tick i ∨ l = .deliverTick i) ∧
      (stepL s l).isSome = true := by
  have hcnt := count_exact hr
  have hpos : 0 < s.jobs.countP (fun j => !j.cancelled) := by omega
  obtain ⟨j, hjm, hjl⟩ := List.countP_pos_iff.mp hpos
  obtain ⟨i, hi⟩ := List.getElem?_of_mem hjm
  have hc : j.cancelled = false := by simpa using hjl
  have hok := (reach_inv hr).1 j hjm
  unfold JobOK at hok
  refine ⟨i, j, ?_⟩
  cases hk : j.kind
  · obtain ⟨_, hcase⟩ := live_oneshot_facts hr hi (.inl hk) hc
    rcases hcase with ⟨_, hg | hg⟩ | ⟨hk', _⟩
    · exact ⟨.expire i, hi, hc, by simp, by simp [stepL, hi, hk, hg]⟩
    · exact ⟨.deliverLive i, hi, hc, by simp, by simp [stepL, hi, hk, hg, hc]⟩
    · rw [hk] at hk'; cases hk'
  · have h2 := hok.2.1 hk
    rcases h2.2.1 with hg | hg | hg | hg
    · exact ⟨.tick i, hi, hc, by simp, by simp [stepL, hi, hk, hg]⟩
    · exact ⟨.deliverTick i, hi, hc, by simp, by simp [stepL, hi, hk, hg]⟩
    · have := h2.2.2 (.inl hg); rw [hc] at this; cases this
    · have := h2.2.2 (.inr hg); rw [hc] at this; cases this
  · obtain ⟨_, hcase⟩ := live_oneshot_facts hr hi (.inr hk) hc
    rcases hcase with ⟨hk', _⟩ | ⟨_, hg⟩
    · rw [hk] at hk'; cases hk'
    · exact ⟨.runImmediateLive i, hi, hc, by simp, by simp [stepL, hi, hk, hg, hc]⟩

/-- satisfiable: a quiescent reachable state with history (a fired timeout, a cleared interval whose goroutine is
still around and can still deliver a dead tick), and a non-quiescent one -/
example : (∃ s, Reach s ∧ s.jobCount = 0 ∧ s.jobs.length = 2 ∧ (stepL s (.deliverTick 1)).isSome = true) ∧
    (∃ s, Reach s ∧ s.jobCount ≠ 0) := by
  have h : ∃ s, runLabels init [.setTimeout, .setInterval, .expire 0, .tick 1, .deliverLive 0, .clear 1] = some s ∧
      s.jobCount = 0 ∧ s.jobs.length = 2 ∧ (stepL s (.deliverTick 1)).isSome = true :=
    ⟨_, rfl, by decide +kernel, by decide +kernel, by decide +kernel⟩
  have h' : ∃ s, runLabels init [.setImmediate] = some s ∧ s.jobCount ≠ 0 := ⟨_, rfl, by decide +kernel⟩
  obtain ⟨s, h1, h2⟩ := h
  obtain ⟨s', h1', h2'⟩ := h'
  exact ⟨⟨s, runLabels_reach init s _ .init h1, h2⟩, ⟨s', runLabels_reach init s' _ .init h1', h2'⟩⟩

end LedgerProgress

/-! ## Part 3 — the two systems side by side: Run() returns exactly at quiescence -/

/-- **(T4 / P4, C06) Run() returns when no live work is left — "always then".**  The two systems are coupled only by
the convention that the queue system's `quiesce` step is taken when the ledger's count is zero.  For a loop parked
at its select (`q.lpc = sel`) next to a reachable ledger state `l`:
* if `l.jobCount = 0` — by `C06.zero_iff_no_live_job` exactly when no job is live — the loop's way out is enabled
  and never blocked (`run_exit_never_blocked`), no live-job step of the ledger is enabled for any job, and no ledger
  step starts a callback;
* if `l.jobCount ≠ 0`, some live job has an enabled step of its own.
"Never earlier" is the existing `C06.count_is_exact`; nothing else is missing on the model side. -/
theorem run_returns_at_quiescence {q : Queue.St} {l : Ledger.St} (hl : Ledger.Reach l) (hsel : q.lpc = .sel) :
    (l.jobCount = 0 →
      (∃ q1, Queue.stepQ q .quiesce = some q1 ∧ q1.lpc = .exit ∧
        (q1.cpc ≠ .stored → ∃ q2, Queue.stepQ q1 .exit = some q2 ∧ q2.running = false ∧ q2.lpc = .idle)) ∧
      (∀ j ∈ l.jobs, j.cancelled = true) ∧
      (∀ i, Ledger.stepL l (.deliverLive i) = none ∧ Ledger.stepL l (.runImmediateLive i) = none ∧
            Ledger.stepL l (.clear i) = none) ∧
      (∀ (l' : Ledger.St) (i : Nat) (j j' : Ledger.Job), Ledger.Step l l' → l.jobs[i]? = some j → l'.jobs[i]? = some j' → j'.fired = j.fired)) ∧
    (l.jobCount ≠ 0 →
      ∃ i j lab, l.jobs[i]? = some j ∧ j.cancelled = false ∧
        (lab = .expire i ∨ lab = .deliverLive i ∨ lab = .runImmediateLive i ∨ lab = .tick i ∨ lab = .deliverTick i) ∧
        (Ledger.stepL l lab).isSome = true) := by
  refine ⟨fun h0 => ⟨?_, (Ledger.quiescent_iff hl).mp h0, quiescent_disables_live_steps hl h0, ?_⟩,
    live_work_is_enabled hl⟩
  · obtain ⟨t, h1, h2, _, h4, _⟩ := run_exit_never_blocked q hsel
    exact ⟨t, h1, h2, h4⟩
  · intro l' i j j' hst hs ht
    exact quiescent_nothing_fires hl h0 hst hs ht

/-- both cases are inhabited: after set / expire / deliver the count is 0; after set it is 1 -/
example : (∃ q, Queue.runLabels Queue.init [.start, .swap, .execDone] = some q ∧ q.lpc = .sel) ∧
    (∃ l, Ledger.runLabels Ledger.init [.setTimeout, .expire 0, .deliverLive 0] = some l ∧ l.jobCount = 0) ∧
    (∃ l, Ledger.runLabels Ledger.init [.setTimeout] = some l ∧ l.jobCount ≠ 0) := by
  refine ⟨by decide, ⟨_, rfl, by decide +kernel⟩, ⟨_, rfl, by decide +kernel⟩⟩

end GN.EventLoop.Progress
