import GN.EventLoop.Queue
import GN.EventLoop.Ledger

/-!
# Event loop — the queue system and the job ledger, coupled   [C03–C08, in particular C06]

`GN.EventLoop.Queue` (aux queue, wake-up token, Start/Stop/Terminate handshake, the loop's program counter) and
`GN.EventLoop.Ledger` (timeouts, intervals, immediates, `jobCount`) are two separate transition systems; as the
header of `GN/EventLoop/Progress.lean` notes, nothing ties `Queue`'s `quiesce` step (the loop leaves `run()`
because `jobCount > 0` is false) to the ledger's `jobCount`, and `Queue` has no transition for the `jobChan` arm
of the loop's `select`.  This file defines the **combined system** and proves that the coupling is coherent.

## State

A pair `q : Queue.St`, `l : Ledger.St`, plus two flags:

* `bg` — `run(inBackground)`: `true` for `Start()` / `StartInForeground()`, `false` for `Run(fn)`.  Go keeps the
  extra `jobCount++` / `jobCount--` of background mode in `loop.jobCount` itself; here the ledger's `jobCount` stays
  the number of live jobs and the loop's condition reads `effCount = l.jobCount + (if bg then 1 else 0)`.
* `inJob` — the loop goroutine has received a closure from `jobChan` (`doTimeout` / `doInterval` / the `removeJob`
  closure) and is still inside `job()`.  The ledger's delivery steps are atomic; the flag is what lets a timer
  callback call `setTimeout` / `clearTimeout` *before* the loop is back at the head of its `for` (label `jobDone`).
  `Queue.LPc.sel` stands for the head of the `for` loop *and* the `select`; "the loop is at its select" is
  `lpc = sel ∧ inJob = false` (`AtSelect`).

## Steps (`stepC`, executable) and the coupling guards

Every `Queue` label (`.q a`), `Start()` as a second way of taking `Queue`'s `start` (`.startBg`), every `Ledger`
label (`.l a`), and `jobDone`.  The guards, all read off `eventloop.go`:

* **(g1)** `quiesce` needs `effCount ≤ 0` (Go: `for loop.jobCount > 0` is false) and `inJob = false`;
  `takeToken` — the wake-up arm of the `select`, which is inside the `for` body — needs `0 < effCount` and
  `inJob = false`.  (The guard on `takeToken` mirrors the same `for` condition from the other side: a loop whose
  count is zero leaves, it does not take the token.)
* **(g2)** by the goroutine a ledger step runs on:
  - `expire`, `tick`, `istop` (runtime timer, ticker, the interval goroutine): always enabled;
  - `deliverLive`, `deliverDead`, `deliverTick`, `deliverRemove` (a receive on `jobChan`): `CanReceive` — the loop is
    at its select with `0 < effCount`, or the controller is in Terminate's drain (`TermPhase` and every registered
    job already cancelled — the cancel loop precedes the drain).  A delivery at the select sets `inJob`; a delivery
    in the drain does not (every job is cancelled there, no callback runs);
  - `runImmediateLive`, `runImmediateDead`: `doImmediate` is an *aux-queue function*, not a `jobChan` delivery, so
    these need `lpc = exec _` or `lpc = texec` (`inRunAux`) — not the select;
  - `setTimeout`, `setInterval`, `setImmediate`, `setImmediateRefused`: `codeRunning` — inside a delivered job
    (`inJob`), inside `runAux` (`exec _`, `texec`: `RunOnLoop` functions, the closures of Go-level `SetTimeout` …),
    or inside `fn` of `Run(fn)`, which runs between `setRunning()` and `run(false)`, i.e. at `lpc = swap false` in
    foreground mode;
  - `clear`, `clearNoop`: `codeRunning`, or one iteration of Terminate's cancel loop: `TermPhase` and the job is
    registered in `loop.jobs`.
* **(g3)** `terminated` is one Go variable.  `Queue`'s `termFlag` also sets the ledger's flag, `Queue`'s `start`
  (both modes) also clears it, so the two copies agree in every reachable state (`terminated_flags_agree`); the
  ledger's own `setTerminated b` is enabled only as the no-op `b = q.terminated`.  `Queue` has no program counter
  for Terminate's cancel loop and drain; `TermPhase` (`q.terminated ∧ q.lpc = idle`: the flag is set and
  Terminate's `runAux` is over, the loop has not been started again) stands for them.

## Theorems

* (T1) `reach_queue`, `reach_ledger`: the components of every reachable combined state are reachable in `Queue` /
  `Ledger`, so every invariant of the two systems transfers; step by step `stepC_proj_queue`, `stepC_proj_ledger`;
  on labelled paths `run_projects_to_queue_run`, `run_projects_to_ledger_run`.
* (T2) `run_returns_never_earlier`, `run_does_not_return_while_a_job_is_live`.
* (T3) `run_returns_always_then`; both directions in one: `quiesce_enabled_iff`.
* (T4) `job_callback_excludes_runAux` (states), `delivery_and_exec_never_both_enabled` (enabledness).
* coupling read back: `terminated_flags_agree` (g3), `delivery_only_at_select_or_in_drain` (g2),
  `count_stable_at_select`, `drain_runs_no_callback`, `live_timer_has_enabled_step_at_select`.
* (T5) replayed label sequences at the end of the file.

## Limits

* An immediate is a ledger job *and* an aux-queue function (`doImmediate`).  The two systems use separate
  identities (job index / function id) and the combined system does not identify them: `runImmediate*` is only
  required to happen inside some `runAux`, not to coincide with the `execOne` of its own closure; likewise a
  Go-level `SetTimeout` is an `enqueue` in `Queue` and, independently, a `setTimeout` inside some `runAux` here.
* Terminate's cancel loop and drain have no program counter in `Queue`; `TermPhase` over-approximates them (it
  still holds after Terminate has returned, until the next Start / Run, and `start` is enabled during it —
  the API contract forbids calling Start concurrently with Terminate, the model does not enforce that).
* "Code is running" is a guard, not a step: a callback's own `setTimeout` / `clear*` calls are separate ledger
  steps taken while `inJob` (or `exec _` / `texec` / `swap false`) holds.
-/

namespace GN.EventLoop.Combined

open GN.EventLoop

structure St where
  q     : Queue.St := {}
  l     : Ledger.St := {}
  bg    : Bool := false      -- run(inBackground): Start() / StartInForeground()
  inJob : Bool := false      -- the loop goroutine is inside a closure received from jobChan
  deriving Repr

def init : St := {}

/-- what Go's `loop.jobCount` holds while `run` is in its `for` loop: the live jobs, plus one in background mode -/
def effCount (s : St) : Int := s.l.jobCount + (if s.bg then 1 else 0)

/-- the loop goroutine is at the head of its `for` loop / at its `select`, not inside a received job -/
def AtSelect (s : St) : Prop := s.q.lpc = .sel ∧ s.inJob = false

/-- Terminate has set the flag and finished its `runAux`; the loop has not been started again: the cancel loop and
    the drain of Terminate happen here (`Queue` has no program counter for them) -/
def TermPhase (s : St) : Prop := s.q.terminated = true ∧ s.q.lpc = .idle

instance (s : St) : Decidable (TermPhase s) := inferInstanceAs (Decidable (_ ∧ _))

/-- Terminate's cancel loop is through: every job in the registry `loop.jobs` is cancelled -/
def RegisteredAllCancelled (s : St) : Prop := ∀ j ∈ s.l.jobs, j.inJobs = true → j.cancelled = true

instance (s : St) : Decidable (RegisteredAllCancelled s) := inferInstanceAs (Decidable (∀ j ∈ s.l.jobs, _))

/-- **(g2, deliveries)** the loop goroutine — or Terminate's drain — can receive from `jobChan` -/
def CanReceive (s : St) : Prop :=
  s.inJob = false ∧ ((s.q.lpc = .sel ∧ 0 < effCount s) ∨ (TermPhase s ∧ RegisteredAllCancelled s))

instance (s : St) : Decidable (CanReceive s) := inferInstanceAs (Decidable (_ ∧ _))

/-- a batch of queued functions is being executed (`runAux`, by the loop or by Terminate) -/
def inRunAux (s : St) : Bool :=
  match s.q.lpc with
  | .exec _ | .texec => true
  | _ => false

/-- **(g2, set/clear)** JavaScript or a Go closure is executing on the goroutine that owns the loop: a delivered
    job's callback, a queued function, or `fn` of `Run(fn)` -/
def codeRunning (s : St) : Bool :=
  s.inJob ||
  match s.q.lpc with
  | .exec _ | .texec => true
  | .swap false => !s.bg
  | _ => false

/-- job `i` is in the registry `loop.jobs` -/
def registered (s : St) (i : Nat) : Bool :=
  match s.l.jobs[i]? with
  | some j => j.inJobs
  | none => false

/-- **(g1)** the guards on `Queue` labels -/
def guardQ (s : St) : Queue.Lbl → Bool
  | .quiesce => decide (effCount s ≤ 0) && !s.inJob
  | .takeToken => decide (0 < effCount s) && !s.inJob
  | _ => true

/-- **(g2, g3)** the guards on `Ledger` labels -/
def guardL (s : St) : Ledger.Lbl → Bool
  | .expire _ | .tick _ | .istop _ => true
  | .deliverLive _ | .deliverDead _ | .deliverTick _ | .deliverRemove _ => decide (CanReceive s)
  | .runImmediateLive _ | .runImmediateDead _ => inRunAux s
  | .setTimeout | .setInterval | .setImmediate | .setImmediateRefused => codeRunning s
  | .clear i | .clearNoop i => codeRunning s || (decide (TermPhase s) && registered s i)
  | .setTerminated b => decide (b = s.q.terminated)

/-- the receives on `jobChan` -/
def isDelivery : Ledger.Lbl → Bool
  | .deliverLive _ | .deliverDead _ | .deliverTick _ | .deliverRemove _ => true
  | _ => false

/-- the ledger steps that run on the loop goroutine (or on the controller inside Terminate): everything except
    the runtime timer, the ticker, the interval goroutine and the (no-op) flag step -/
def onLoopGoroutine : Ledger.Lbl → Bool
  | .expire _ | .tick _ | .istop _ | .setTerminated _ => false
  | _ => true

/-- **(g3)** what a `Queue` step does to the rest of the state: `start` = `Run(fn)` clears the ledger's copy of
    `terminated` and selects foreground mode, `termFlag` sets the ledger's copy -/
def afterQ (s : St) (a : Queue.Lbl) (q' : Queue.St) : St :=
  match a with
  | .start => { s with q := q', l := { s.l with terminated := false }, bg := false }
  | .termFlag => { s with q := q', l := { s.l with terminated := true } }
  | _ => { s with q := q' }

inductive Lbl where
  | q (a : Queue.Lbl)       -- a step of the queue system; `.q .start` is `Run(fn)`
  | startBg                 -- `Start()` / `StartInForeground()`: `Queue`'s `start`, in background mode
  | l (a : Ledger.Lbl)      -- a step of the ledger
  | jobDone                 -- the closure received from jobChan returns
  deriving Repr, DecidableEq

/-- the executable transition function of the combined system: `none` when the step is not enabled -/
def stepC (s : St) : Lbl → Option St
  | .q a => if guardQ s a = true then (Queue.stepQ s.q a).map (afterQ s a) else none
  | .startBg =>
    (Queue.stepQ s.q .start).map fun q' => { s with q := q', l := { s.l with terminated := false }, bg := true }
  | .l a =>
    if guardL s a = true then
      (Ledger.stepL s.l a).map fun l' =>
        { s with l := l', inJob := if isDelivery a = true then decide (s.q.lpc = .sel) else s.inJob }
    else none
  | .jobDone => if s.inJob = true then some { s with inJob := false } else none

inductive Reach : St → Prop where
  | init : Reach init
  | step {s t} (a : Lbl) : Reach s → stepC s a = some t → Reach t

def runLabels (s : St) : List Lbl → Option St
  | [] => some s
  | a :: as => (stepC s a).bind fun t => runLabels t as

/-- running a label sequence from a reachable state only visits reachable states -/
theorem runLabels_reach (s t : St) (ls : List Lbl) (hs : Reach s) (h : runLabels s ls = some t) : Reach t := by
  induction ls generalizing s with
  | nil => simp [runLabels] at h; subst h; exact hs
  | cons a as ih =>
    simp only [runLabels] at h
    cases hq : stepC s a with
    | none => simp [hq] at h
    | some u => simp [hq] at h; exact ih u (.step a hs hq) h

/-! ## Inversion of `stepC` -/

theorem stepC_q_inv {s t : St} {a : Queue.Lbl} (h : stepC s (.q a) = some t) :
    guardQ s a = true ∧ ∃ q', Queue.stepQ s.q a = some q' ∧ t = afterQ s a q' := by
  simp only [stepC] at h
  split at h
  · next hg =>
    cases hq : Queue.stepQ s.q a with
    | none => simp [hq] at h
    | some q' => simp [hq] at h; exact ⟨hg, q', rfl, h.symm⟩
  · simp at h

theorem stepC_startBg_inv {s t : St} (h : stepC s .startBg = some t) :
    ∃ q', Queue.stepQ s.q .start = some q' ∧
      t = { s with q := q', l := { s.l with terminated := false }, bg := true } := by
  simp only [stepC] at h
  cases hq : Queue.stepQ s.q .start with
  | none => simp [hq] at h
  | some q' => simp [hq] at h; exact ⟨q', rfl, h.symm⟩

theorem stepC_l_inv {s t : St} {a : Ledger.Lbl} (h : stepC s (.l a) = some t) :
    guardL s a = true ∧ ∃ l', Ledger.stepL s.l a = some l' ∧
      t = { s with l := l', inJob := if isDelivery a = true then decide (s.q.lpc = .sel) else s.inJob } := by
  simp only [stepC] at h
  split at h
  · next hg =>
    cases hl : Ledger.stepL s.l a with
    | none => simp [hl] at h
    | some l' => simp [hl] at h; exact ⟨hg, l', rfl, h.symm⟩
  · simp at h

theorem stepC_jobDone_inv {s t : St} (h : stepC s .jobDone = some t) :
    s.inJob = true ∧ t = { s with inJob := false } := by
  simp only [stepC] at h
  split at h
  · next hg => simp at h; exact ⟨hg, h.symm⟩
  · simp at h

theorem afterQ_q (s : St) (a : Queue.Lbl) (q' : Queue.St) : (afterQ s a q').q = q' := by
  cases a <;> rfl

theorem afterQ_inJob (s : St) (a : Queue.Lbl) (q' : Queue.St) : (afterQ s a q').inJob = s.inJob := by
  cases a <;> rfl

theorem afterQ_l (s : St) (a : Queue.Lbl) (q' : Queue.St) :
    (afterQ s a q').l = s.l ∨ ∃ b, (afterQ s a q').l = { s.l with terminated := b } := by
  cases a
  case start => exact .inr ⟨false, rfl⟩
  case termFlag => exact .inr ⟨true, rfl⟩
  all_goals exact .inl rfl

/-! ## (T1) Projection -/

/-- **(T1, one step, queue side.)** A step of the combined system is a step of the queue system on the `q`
    component, or leaves it unchanged. -/
theorem stepC_proj_queue {s t : St} {a : Lbl} (h : stepC s a = some t) : t.q = s.q ∨ Queue.Step s.q t.q := by
  cases a with
  | q a =>
    obtain ⟨_, q', hq, rfl⟩ := stepC_q_inv h
    rw [afterQ_q]; exact .inr (Queue.stepQ_sound _ _ _ hq)
  | startBg =>
    obtain ⟨q', hq, rfl⟩ := stepC_startBg_inv h
    exact .inr (Queue.stepQ_sound _ _ _ hq)
  | l a => obtain ⟨_, l', _, rfl⟩ := stepC_l_inv h; exact .inl rfl
  | jobDone => obtain ⟨_, rfl⟩ := stepC_jobDone_inv h; exact .inl rfl

/-- **(T1, one step, ledger side.)** A step of the combined system is a step of the ledger on the `l` component
    (for `start` / `termFlag`: the ledger's `setTerminated`), or leaves it unchanged. -/
theorem stepC_proj_ledger {s t : St} {a : Lbl} (h : stepC s a = some t) : t.l = s.l ∨ Ledger.Step s.l t.l := by
  cases a with
  | q a =>
    obtain ⟨_, q', _, rfl⟩ := stepC_q_inv h
    rcases afterQ_l s a q' with h1 | ⟨b, h1⟩
    · exact .inl h1
    · rw [h1]; exact .inr (.setTerminated s.l b)
  | startBg =>
    obtain ⟨q', _, rfl⟩ := stepC_startBg_inv h
    exact .inr (.setTerminated s.l false)
  | l a => obtain ⟨_, l', hl, rfl⟩ := stepC_l_inv h; exact .inr (Ledger.stepL_sound _ _ _ hl)
  | jobDone => obtain ⟨_, rfl⟩ := stepC_jobDone_inv h; exact .inl rfl

/-- **(T1a) Projection to the queue system.**  The `q` component of every reachable state of the combined system is
    a reachable state of `GN.EventLoop.Queue`: the guards only remove behaviour.  Every invariant proved for the
    queue system (FIFO / exactly once, no lost wake-up, the Stop handshake, Terminate's drain of the aux queue)
    therefore holds of the combined system. -/
theorem reach_queue {s : St} (h : Reach s) : Queue.Reach s.q := by
  induction h with
  | init => exact .init
  | step a _ hst ih =>
    rcases stepC_proj_queue hst with h1 | h1
    · rw [h1]; exact ih
    · exact .step ih h1

/-- **(T1b) Projection to the ledger.**  The `l` component of every reachable state of the combined system is a
    reachable state of `GN.EventLoop.Ledger`.  Every invariant proved for the ledger (the count is exact, at most
    once, clear wins, the registry matches the goroutines) therefore holds of the combined system. -/
theorem reach_ledger {s : St} (h : Reach s) : Ledger.Reach s.l := by
  induction h with
  | init => exact .init
  | step a _ hst ih =>
    rcases stepC_proj_ledger hst with h1 | h1
    · rw [h1]; exact ih
    · exact .step ih h1

/-! ## Facts about `stepQ` used by the coupling invariants -/

theorem stepQ_terminated {q q' : Queue.St} {a : Queue.Lbl} (h : Queue.stepQ q a = some q') :
    q'.terminated = (match a with | .start => false | .termFlag => true | _ => q.terminated) := by
  cases a <;> simp only [Queue.stepQ] at h <;> split at h <;> simp at h <;> subst h <;> rfl

theorem stepQ_sel_stays {q q' : Queue.St} {a : Queue.Lbl} (h : Queue.stepQ q a = some q') (hsel : q.lpc = .sel)
    (h1 : a ≠ .quiesce) (h2 : a ≠ .takeToken) : q'.lpc = .sel := by
  cases a <;> simp only [Queue.stepQ] at h <;> split at h <;> simp_all <;> subst h <;> simp_all

theorem stepL_terminated {l l' : Ledger.St} {a : Ledger.Lbl} (h : Ledger.stepL l a = some l') :
    l'.terminated = (match a with | .setTerminated b => b | _ => l.terminated) := by
  cases a <;> simp only [Ledger.stepL] at h
  case setTimeout => simp at h; subst h; rfl
  case setInterval => simp at h; subst h; rfl
  case setTerminated b => simp at h; subst h; rfl
  case setImmediate => split at h <;> simp at h; subst h; rfl
  case setImmediateRefused => split at h <;> simp at h; subst h; rfl
  all_goals
    split at h
    · split at h <;> simp at h; subst h; rfl
    · simp at h

/-! ## The coupling invariants -/

/-- the two copies of `terminated` agree; a received job is being executed only by a loop that is at its select -/
def CInv (s : St) : Prop := s.l.terminated = s.q.terminated ∧ (s.inJob = true → s.q.lpc = .sel)

theorem cinv_step {s t : St} {a : Lbl} (h : stepC s a = some t) (hi : CInv s) : CInv t := by
  obtain ⟨i1, i2⟩ := hi
  cases a with
  | q a =>
    obtain ⟨hg, q', hq, rfl⟩ := stepC_q_inv h
    refine ⟨?_, ?_⟩
    · have := stepQ_terminated hq
      rw [afterQ_q, this]
      cases a <;> simp [afterQ, i1]
    · rw [afterQ_q, afterQ_inJob]
      intro hj
      refine stepQ_sel_stays hq (i2 hj) ?_ ?_
      · rintro rfl; simp [guardQ, hj] at hg
      · rintro rfl; simp [guardQ, hj] at hg
  | startBg =>
    obtain ⟨q', hq, rfl⟩ := stepC_startBg_inv h
    refine ⟨?_, ?_⟩
    · have := stepQ_terminated hq
      simp at this; simp [this]
    · intro hj
      exact stepQ_sel_stays hq (i2 hj) (by simp) (by simp)
  | l a =>
    obtain ⟨hg, l', hl, rfl⟩ := stepC_l_inv h
    refine ⟨?_, ?_⟩
    · have := stepL_terminated hl
      simp only [this]
      cases a <;> simp_all [guardL]
    · simp only
      split
      · intro hd; simpa using hd
      · exact i2
  | jobDone =>
    obtain ⟨_, rfl⟩ := stepC_jobDone_inv h
    exact ⟨i1, by simp⟩

theorem reach_cinv {s : St} (h : Reach s) : CInv s := by
  induction h with
  | init => simp [CInv, init]
  | step a _ hst ih => exact cinv_step hst ih

/-- **(g3) One flag.**  In every reachable state the ledger's copy of `terminated` equals the queue system's:
    Terminate sets both, Start / Run clear both. -/
theorem terminated_flags_agree {s : St} (h : Reach s) : s.l.terminated = s.q.terminated := (reach_cinv h).1

/-! ## Transferred facts -/

/-- the live-job count is never negative (transferred from the ledger: `count_exact`) -/
theorem count_nonneg {s : St} (h : Reach s) : 0 ≤ s.l.jobCount := by
  rw [Ledger.count_exact (reach_ledger h)]; omega

/-- a loop that is at its select is running (transferred from the queue system: the Stop-handshake invariant) -/
theorem sel_running {s : St} (h : Reach s) (hsel : s.q.lpc = .sel) : s.q.running = true := by
  have hs := (Queue.reach_inv (reach_queue h)).2.2.2.1
  unfold Queue.InvStop at hs
  cases hr : s.q.running
  · have := hs.1.mpr hr
    rw [hsel] at this; simp at this
  · rfl

/-- in reachable states the loop's condition `jobCount > 0` is false exactly when the loop runs in the foreground
    and the ledger's count is zero -/
theorem effCount_le_zero_iff {s : St} (h : Reach s) : effCount s ≤ 0 ↔ s.bg = false ∧ s.l.jobCount = 0 := by
  have := count_nonneg h
  unfold effCount
  cases hb : s.bg <;> simp <;> omega

/-! ## (T2) Run() returns never earlier -/

/-- **(T2) Run() returns never earlier.**  In every reachable state of the combined system, if the step by which
    the loop leaves `run()` because nothing is left (`quiesce`) is enabled, then the loop is at its select (not
    inside a delivered job), it was started with `Run` (foreground), the ledger's count is zero and every job ever
    set is cancelled — it has fired (timeout, immediate), or was cleared, or was cancelled by Terminate.
    (The last two conjuncts are `C06.count_is_exact` / `C06.zero_iff_no_live_job`, i.e. `Ledger.count_exact` /
    `Ledger.quiescent_iff`, used through the projection `reach_ledger`.) -/
theorem run_returns_never_earlier {s t : St} (hr : Reach s) (h : stepC s (.q .quiesce) = some t) :
    AtSelect s ∧ s.bg = false ∧ s.l.jobCount = 0 ∧ ∀ j ∈ s.l.jobs, j.cancelled = true := by
  obtain ⟨hg, q', hq, _⟩ := stepC_q_inv h
  simp only [guardQ, Bool.and_eq_true, decide_eq_true_eq, Bool.not_eq_true'] at hg
  have hsel : s.q.lpc = .sel := by
    simp only [Queue.stepQ] at hq
    split at hq
    · assumption
    · simp at hq
  obtain ⟨hbg, h0⟩ := (effCount_le_zero_iff hr).mp hg.1
  exact ⟨⟨hsel, hg.2⟩, hbg, h0, (Ledger.quiescent_iff (reach_ledger hr)).mp h0⟩

/-- **(T2, contrapositive.)** While some job is live — set, not fired, not cleared — the loop cannot leave `run()`
    through `quiesce`, whatever else the state is. -/
theorem run_does_not_return_while_a_job_is_live {s : St} (hr : Reach s) {j : Ledger.Job} (hj : j ∈ s.l.jobs)
    (hc : j.cancelled = false) : stepC s (.q .quiesce) = none := by
  cases h : stepC s (.q .quiesce) with
  | none => rfl
  | some t =>
    have := (run_returns_never_earlier hr h).2.2.2 j hj
    rw [hc] at this; cases this

/-! ## (T3) … and always then -/

/-- **(T3) … and always then.**  In every reachable state in which the loop is at its select, runs in the
    foreground, and every job is cancelled (equivalently: the ledger's count is zero):
    * `quiesce` is enabled and leads to `lpc = exit` without touching the ledger, and from there the loop's `exit`
      step (clear `running`, broadcast) is enabled unless Stop holds `stopLock` right now (`cpc = stored`);
    * the wake-up arm of the select (`takeToken`) is not enabled — the `for` condition is checked first;
    * no ledger step that runs on the loop goroutine is enabled: no delivery, no immediate, no set, no clear.
      (A runtime timer can still expire and a ticker can still tick; nobody receives what they send.) -/
theorem run_returns_always_then {s : St} (hr : Reach s) (hsel : AtSelect s) (hbg : s.bg = false)
    (hall : ∀ j ∈ s.l.jobs, j.cancelled = true) :
    (∃ t, stepC s (.q .quiesce) = some t ∧ t.q.lpc = .exit ∧ t.l = s.l ∧
      (t.q.cpc ≠ .stored → ∃ u, stepC t (.q .exit) = some u ∧ u.q.running = false ∧ u.q.lpc = .idle ∧ u.l = s.l)) ∧
    stepC s (.q .takeToken) = none ∧
    (∀ a, onLoopGoroutine a = true → stepC s (.l a) = none) := by
  obtain ⟨hl, hj⟩ := hsel
  have h0 : s.l.jobCount = 0 := (Ledger.quiescent_iff (reach_ledger hr)).mpr hall
  have he : effCount s = 0 := by simp [effCount, hbg, h0]
  refine ⟨⟨{ s with q := { s.q with lpc := .exit } }, ?_, rfl, rfl, ?_⟩, ?_, ?_⟩
  · simp [stepC, guardQ, he, hj, Queue.stepQ, hl, afterQ]
  · intro hc
    simp only at hc
    refine ⟨{ s with q := { s.q with lpc := .idle, running := false,
                                     cpc := if s.q.cpc = .waiting then .out else s.q.cpc } }, ?_, rfl, rfl, rfl⟩
    simp [stepC, guardQ, Queue.stepQ, hc, afterQ]
  · simp [stepC, guardQ, he]
  · intro a ha
    have hcr : codeRunning s = false := by simp [codeRunning, hj, hl]
    have hra : inRunAux s = false := by simp [inRunAux, hl]
    have hrc : ¬ CanReceive s := by
      rintro ⟨_, ⟨_, h1⟩ | ⟨⟨_, h1⟩, _⟩⟩
      · omega
      · rw [hl] at h1; cases h1
    have htp : ¬ TermPhase s := by rintro ⟨_, h1⟩; rw [hl] at h1; cases h1
    cases a <;> simp_all [stepC, guardL, onLoopGoroutine]

/-- **(g1, both directions.)** In a reachable state `quiesce` is enabled exactly when the loop is at its select,
    runs in the foreground, and no job is live. -/
theorem quiesce_enabled_iff {s : St} (hr : Reach s) :
    (stepC s (.q .quiesce)).isSome = true ↔ AtSelect s ∧ s.bg = false ∧ ∀ j ∈ s.l.jobs, j.cancelled = true := by
  constructor
  · intro h
    obtain ⟨t, ht⟩ := Option.isSome_iff_exists.mp h
    obtain ⟨a, b, _, d⟩ := run_returns_never_earlier hr ht
    exact ⟨a, b, d⟩
  · rintro ⟨a, b, c⟩
    obtain ⟨⟨t, ht, _⟩, _⟩ := run_returns_always_then hr a b c
    simp [ht]

/-! ## (T4) Mutual exclusion on the loop goroutine -/

/-- **(T4, states.)** A job received from `jobChan` and a batch of queued functions are never in progress together:
    in every reachable state in which the loop goroutine is inside a delivered job (`inJob`), the loop's program
    counter is at the select, the loop is running, no `runAux` is in progress (neither the loop's nor
    Terminate's), and none of the following is enabled: executing a queued function (`execOne`, `termExecOne`),
    swapping the queue, leaving through `quiesce`, taking the wake-up token, a second delivery, an immediate. -/
theorem job_callback_excludes_runAux {s : St} (hr : Reach s) (hj : s.inJob = true) :
    s.q.lpc = .sel ∧ s.q.running = true ∧ inRunAux s = false ∧
    stepC s (.q .execOne) = none ∧ stepC s (.q .termExecOne) = none ∧ stepC s (.q .swap) = none ∧
    stepC s (.q .quiesce) = none ∧ stepC s (.q .takeToken) = none ∧
    (∀ a, isDelivery a = true → stepC s (.l a) = none) ∧
    (∀ i, stepC s (.l (.runImmediateLive i)) = none ∧ stepC s (.l (.runImmediateDead i)) = none) := by
  have hl := (reach_cinv hr).2 hj
  have hra : inRunAux s = false := by simp [inRunAux, hl]
  have hrc : ¬ CanReceive s := by rintro ⟨h1, _⟩; rw [hj] at h1; cases h1
  refine ⟨hl, sel_running hr hl, hra, ?_, ?_, ?_, ?_, ?_, ?_, ?_⟩
  · simp [stepC, guardQ, Queue.stepQ, hl]
  · simp [stepC, guardQ, Queue.stepQ, hl]
  · simp [stepC, guardQ, Queue.stepQ, hl]
  · simp [stepC, guardQ, hj]
  · simp [stepC, guardQ, hj]
  · intro a ha
    cases a <;> simp_all [stepC, guardL, isDelivery]
  · intro i
    simp [stepC, guardL, hra]

/-- **(T4, enabledness; no reachability needed.)** In no state are a receive on `jobChan` and the execution of a
    queued function both enabled; the same for a receive and an immediate (which is a queued function). -/
theorem delivery_and_exec_never_both_enabled (s : St) (a : Ledger.Lbl) (hd : isDelivery a = true)
    (h : (stepC s (.l a)).isSome = true) :
    stepC s (.q .execOne) = none ∧ stepC s (.q .termExecOne) = none ∧
    (∀ i, stepC s (.l (.runImmediateLive i)) = none ∧ stepC s (.l (.runImmediateDead i)) = none) := by
  obtain ⟨t, ht⟩ := Option.isSome_iff_exists.mp h
  obtain ⟨hg, _⟩ := stepC_l_inv ht
  have hrc : CanReceive s := by cases a <;> simp_all [guardL, isDelivery]
  have hl : s.q.lpc = .sel ∨ s.q.lpc = .idle := by
    rcases hrc with ⟨_, ⟨h1, _⟩ | ⟨⟨_, h1⟩, _⟩⟩
    · exact .inl h1
    · exact .inr h1
  have hra : inRunAux s = false := by rcases hl with hl | hl <;> simp [inRunAux, hl]
  refine ⟨?_, ?_, ?_⟩
  · rcases hl with hl | hl <;> simp [stepC, guardQ, Queue.stepQ, hl]
  · rcases hl with hl | hl <;> simp [stepC, guardQ, Queue.stepQ, hl]
  · intro i; simp [stepC, guardL, hra]

/-- **(g2, read back.)** A receive on `jobChan` happens only at the select of a running loop whose count is
    positive, or in Terminate's drain after the cancel loop. -/
theorem delivery_only_at_select_or_in_drain {s t : St} (hr : Reach s) {a : Ledger.Lbl} (hd : isDelivery a = true)
    (h : stepC s (.l a) = some t) :
    (AtSelect s ∧ s.q.running = true ∧ 0 < effCount s ∧ t.inJob = true) ∨
    (TermPhase s ∧ RegisteredAllCancelled s ∧ s.q.running = false ∧ t.inJob = false) := by
  obtain ⟨hg, l', _, rfl⟩ := stepC_l_inv h
  have hrc : CanReceive s := by cases a <;> simp_all [guardL, isDelivery]
  obtain ⟨hj, ⟨hl, hc⟩ | ⟨htp, hrac⟩⟩ := hrc
  · exact .inl ⟨⟨hl, hj⟩, sel_running hr hl, hc, by simp [hd, hl]⟩
  · refine .inr ⟨htp, hrac, ?_, by simp [hd, htp.2]⟩
    exact ((Queue.reach_inv (reach_queue hr)).2.2.2.2.2 htp.1).1

/-! ## Terminate's drain; the loop is not waiting in vain -/

/-- **Terminate's drain runs no callback.**  In a reachable state in Terminate's phase, a receive on `jobChan` does
    not make any job fire (every registered job has been cancelled by the cancel loop before the first receive),
    and it is atomic (`inJob` stays false). -/
theorem drain_runs_no_callback {s t : St} (hr : Reach s) (htp : TermPhase s) {a : Ledger.Lbl}
    (hd : isDelivery a = true) (h : stepC s (.l a) = some t) :
    t.inJob = false ∧ ∀ (i : Nat) (j j' : Ledger.Job), s.l.jobs[i]? = some j → t.l.jobs[i]? = some j' →
      j'.fired = j.fired := by
  rcases delivery_only_at_select_or_in_drain hr hd h with ⟨⟨h1, _⟩, _⟩ | ⟨_, hrac, _, hin⟩
  · rw [htp.2] at h1; cases h1
  refine ⟨hin, ?_⟩
  obtain ⟨_, l', hl, rfl⟩ := stepC_l_inv h
  have hinv := (Ledger.reach_inv (reach_ledger hr)).1
  intro i j j' hs ht
  simp only at ht
  cases a <;> simp [isDelivery] at hd <;> simp only [Ledger.stepL] at hl
  all_goals
    split at hl
    case h_2 => simp at hl
    next jk hk =>
    split at hl
    case isFalse => simp at hl
    next hc =>
    simp only [Option.some.injEq] at hl
    subst hl
    have hmem := List.mem_of_getElem? hk
    have hok := hinv jk hmem
    have hcan := hrac jk hmem
    simp only [Ledger.St.upd, List.getElem?_modify, hs, Option.map_eq_map, Option.map_some,
      Option.some.injEq] at ht
    subst ht
    split
    · next hki =>
      subst hki
      have hjj : jk = j := Option.some.inj (hk.symm.trans hs)
      subst hjj
      unfold Ledger.JobOK at hok
      simp_all
    · rfl

/-- **The loop is not waiting in vain.**  In a reachable state with the loop at its select, a live timeout or
    interval keeps the loop from leaving (`quiesce` is not enabled) and has an enabled step of its own: its timer
    can expire, or its delivery can be received by the loop right now, or its ticker can tick. -/
theorem live_timer_has_enabled_step_at_select {s : St} (hr : Reach s) (hsel : AtSelect s) {i : Nat}
    {j : Ledger.Job} (hj : s.l.jobs[i]? = some j) (hk : j.kind ≠ .immediate) (hc : j.cancelled = false) :
    stepC s (.q .quiesce) = none ∧
    ∃ a, (a = .expire i ∨ a = .deliverLive i ∨ a = .tick i ∨ a = .deliverTick i) ∧
      (stepC s (.l a)).isSome = true := by
  have hmem := List.mem_of_getElem? hj
  refine ⟨run_does_not_return_while_a_job_is_live hr hmem hc, ?_⟩
  have hpos : 0 < effCount s := by
    have h1 := Ledger.count_exact (reach_ledger hr)
    have h2 : 0 < s.l.jobs.countP (fun j => !j.cancelled) := List.countP_pos_iff.mpr ⟨j, hmem, by simp [hc]⟩
    unfold effCount; split <;> omega
  have hrc : CanReceive s := ⟨hsel.2, .inl ⟨hsel.1, hpos⟩⟩
  have hok := (Ledger.reach_inv (reach_ledger hr)).1 j hmem
  unfold Ledger.JobOK at hok
  cases hkind : j.kind
  · obtain ⟨_, hg⟩ := hok.1 hkind
    rcases hg with hg | hg | hg
    · exact ⟨.expire i, by simp, by simp [stepC, guardL, Ledger.stepL, hj, hkind, hg]⟩
    · exact ⟨.deliverLive i, by simp, by simp [stepC, guardL, hrc, Ledger.stepL, hj, hkind, hg, hc]⟩
    · have := hok.2.2.2.2.1 hkind hg; rw [hc] at this; cases this
  · obtain ⟨_, hg, hcan⟩ := hok.2.1 hkind
    rcases hg with hg | hg | hg | hg
    · exact ⟨.tick i, by simp, by simp [stepC, guardL, Ledger.stepL, hj, hkind, hg]⟩
    · exact ⟨.deliverTick i, by simp, by simp [stepC, guardL, hrc, Ledger.stepL, hj, hkind, hg]⟩
    · have := hcan (.inl hg); rw [hc] at this; cases this
    · have := hcan (.inr hg); rw [hc] at this; cases this
  · exact absurd hkind hk

/-- **The count does not move under a parked loop.**  While the loop is at its select, the only steps that change
    the ledger's count are receives on `jobChan` (by the loop itself).  This is what justifies reading
    `Queue.LPc.sel` as both the test `jobCount > 0` at the head of the `for` and the `select` inside it. -/
theorem count_stable_at_select {s t : St} (hsel : AtSelect s) {a : Lbl} (h : stepC s a = some t)
    (hne : t.l.jobCount ≠ s.l.jobCount) : ∃ b, a = .l b ∧ isDelivery b = true := by
  obtain ⟨hl, hj⟩ := hsel
  cases a with
  | q a =>
    obtain ⟨_, q', _, rfl⟩ := stepC_q_inv h
    rcases afterQ_l s a q' with h1 | ⟨b, h1⟩ <;> rw [h1] at hne <;> exact absurd rfl hne
  | startBg => obtain ⟨q', _, rfl⟩ := stepC_startBg_inv h; exact absurd rfl hne
  | jobDone => obtain ⟨_, rfl⟩ := stepC_jobDone_inv h; exact absurd rfl hne
  | l b =>
    refine ⟨b, rfl, ?_⟩
    obtain ⟨hg, l', hl', rfl⟩ := stepC_l_inv h
    have hcr : codeRunning s = false := by simp [codeRunning, hj, hl]
    have hra : inRunAux s = false := by simp [inRunAux, hl]
    have htp : ¬ TermPhase s := by rintro ⟨_, h1⟩; rw [hl] at h1; cases h1
    cases b <;> simp_all [guardL, isDelivery]
    case setTerminated => simp only [Ledger.stepL, Option.some.injEq] at hl'; subst hl'; exact hne rfl
    all_goals
      simp only [Ledger.stepL] at hl'
      split at hl'
      · split at hl' <;> simp at hl'; subst hl'; exact hne rfl
      · simp at hl'

/-! ## (T1, paths) A run of the combined system is a run of each component -/

/-- the steps of the combined system, as a relation -/
def Step (s t : St) : Prop := ∃ a, stepC s a = some t

/-- the queue labels of a combined label -/
def projQ : Lbl → List Queue.Lbl
  | .q a => [a]
  | .startBg => [.start]
  | _ => []

/-- the ledger labels of a combined label: `start` and `termFlag` carry the ledger's flag step -/
def projL : Lbl → List Ledger.Lbl
  | .q .start | .startBg => [.setTerminated false]
  | .q .termFlag => [.setTerminated true]
  | .l a => [a]
  | _ => []

theorem queue_runLabels_append (s : Queue.St) (xs ys : List Queue.Lbl) :
    Queue.runLabels s (xs ++ ys) = (Queue.runLabels s xs).bind fun t => Queue.runLabels t ys := by
  induction xs generalizing s with
  | nil => simp [Queue.runLabels]
  | cons x xs ih =>
    simp only [List.cons_append, Queue.runLabels]
    cases Queue.stepQ s x <;> simp [ih]

theorem ledger_runLabels_append (s : Ledger.St) (xs ys : List Ledger.Lbl) :
    Ledger.runLabels s (xs ++ ys) = (Ledger.runLabels s xs).bind fun t => Ledger.runLabels t ys := by
  induction xs generalizing s with
  | nil => simp [Ledger.runLabels]
  | cons x xs ih =>
    simp only [List.cons_append, Ledger.runLabels]
    cases Ledger.stepL s x <;> simp [ih]

theorem stepC_projQ {s t : St} {a : Lbl} (h : stepC s a = some t) : Queue.runLabels s.q (projQ a) = some t.q := by
  cases a with
  | q a =>
    obtain ⟨_, q', hq, rfl⟩ := stepC_q_inv h
    simp [projQ, Queue.runLabels, hq, afterQ_q]
  | startBg =>
    obtain ⟨q', hq, rfl⟩ := stepC_startBg_inv h
    simp [projQ, Queue.runLabels, hq]
  | l a => obtain ⟨_, l', _, rfl⟩ := stepC_l_inv h; simp [projQ, Queue.runLabels]
  | jobDone => obtain ⟨_, rfl⟩ := stepC_jobDone_inv h; simp [projQ, Queue.runLabels]

theorem stepC_projL {s t : St} {a : Lbl} (h : stepC s a = some t) : Ledger.runLabels s.l (projL a) = some t.l := by
  cases a with
  | q a =>
    obtain ⟨_, q', _, rfl⟩ := stepC_q_inv h
    cases a <;> simp [projL, Ledger.runLabels, Ledger.stepL, afterQ]
  | startBg =>
    obtain ⟨q', _, rfl⟩ := stepC_startBg_inv h
    simp [projL, Ledger.runLabels, Ledger.stepL]
  | l a => obtain ⟨_, l', hl, rfl⟩ := stepC_l_inv h; simp [projL, Ledger.runLabels, hl]
  | jobDone => obtain ⟨_, rfl⟩ := stepC_jobDone_inv h; simp [projL, Ledger.runLabels]

/-- **(T1a, paths.)** Every run of the combined system, projected to its queue labels, is a run of the queue
    system between the `q` components. -/
theorem run_projects_to_queue_run (s t : St) (ls : List Lbl) (h : runLabels s ls = some t) :
    Queue.runLabels s.q (ls.flatMap projQ) = some t.q := by
  induction ls generalizing s with
  | nil => simp [runLabels] at h; subst h; simp [Queue.runLabels]
  | cons a as ih =>
    simp only [runLabels] at h
    cases hq : stepC s a with
    | none => simp [hq] at h
    | some u =>
      simp [hq] at h
      simp [List.flatMap_cons, queue_runLabels_append, stepC_projQ hq, ih u h]

/-- **(T1b, paths.)** Every run of the combined system, projected to its ledger labels, is a run of the ledger
    between the `l` components. -/
theorem run_projects_to_ledger_run (s t : St) (ls : List Lbl) (h : runLabels s ls = some t) :
    Ledger.runLabels s.l (ls.flatMap projL) = some t.l := by
  induction ls generalizing s with
  | nil => simp [runLabels] at h; subst h; simp [Ledger.runLabels]
  | cons a as ih =>
    simp only [runLabels] at h
    cases hq : stepC s a with
    | none => simp [hq] at h
    | some u =>
      simp [hq] at h
      simp [List.flatMap_cons, ledger_runLabels_append, stepC_projL hq, ih u h]

/-! ## (T5) Non-vacuity: replayed label sequences -/

/-- `Run(fn)` with one timeout, start to finish: `fn` sets the timeout (job 0) between `setRunning` and `run`; the
    first `runAux` finds nothing; at the select the timer expires, the loop receives `doTimeout` (the callback
    fires, count 1 → 0), the job returns, and only now `quiesce` is accepted; `exit` clears `running`.
    Result: loop idle and not running, count 0, job 0 fired once and is out of the registry. -/
example :
    (runLabels init [.q .start, .l .setTimeout, .q .swap, .q .execDone, .l (.expire 0), .l (.deliverLive 0),
        .jobDone, .q .quiesce, .q .exit]).map
      (fun s => ((s.q.lpc, s.q.running, s.inJob), s.l.jobCount, s.l.jobs.map (fun j => (j.inJobs, j.fired))))
    = some ((.idle, false, false), 0, [(false, 1)]) := by decide +kernel

/-- `quiesce` is refused while the timeout is live: right after the first `runAux`; after the timer expired but
    before the loop received the delivery; and after the delivery while the callback is still running -/
example :
    (runLabels init [.q .start, .l .setTimeout, .q .swap, .q .execDone, .q .quiesce]).isNone = true ∧
    (runLabels init [.q .start, .l .setTimeout, .q .swap, .q .execDone, .l (.expire 0), .q .quiesce]).isNone = true ∧
    (runLabels init [.q .start, .l .setTimeout, .q .swap, .q .execDone, .l (.expire 0), .l (.deliverLive 0),
        .q .quiesce]).isNone = true := by decide +kernel

/-- a callback that sets the next timeout keeps `Run` alive: `quiesce` is refused after the first job returns and
    accepted after the second -/
example :
    (runLabels init [.q .start, .l .setTimeout, .q .swap, .q .execDone, .l (.expire 0), .l (.deliverLive 0),
        .l .setTimeout, .jobDone, .q .quiesce]).isNone = true ∧
    (runLabels init [.q .start, .l .setTimeout, .q .swap, .q .execDone, .l (.expire 0), .l (.deliverLive 0),
        .l .setTimeout, .jobDone, .l (.expire 1), .l (.deliverLive 1), .jobDone, .q .quiesce, .q .exit]).map
      (fun s => (s.q.running, s.l.jobCount, s.l.jobs.map (·.fired))) = some (false, 0, [1, 1]) := by decide +kernel

/-- the guards of (g2) bite: nobody can set a timeout while the loop is parked at its select; a delivery is not
    received while a batch of queued functions is being executed; an immediate does not run at the select -/
example :
    (runLabels init [.q .start, .q .swap, .q .execDone, .l .setTimeout]).isNone = true ∧
    (runLabels init [.q (.enqueue 7), .q .wake, .q .start, .l .setTimeout, .l (.expire 0), .q .swap,
        .l (.deliverLive 0)]).isNone = true ∧
    (runLabels init [.q (.enqueue 7), .q .wake, .q .start, .q .swap, .q .execOne, .l .setImmediate, .q .execDone,
        .l (.runImmediateLive 0)]).isNone = true := by decide +kernel

/-- a queued function, an immediate and a timeout in one `Run`: function 7 (queued before `Run`) sets an immediate
    (job 1) during the first `runAux`; at the select the timeout (job 0) is delivered; the wake-up token leads to a
    second `runAux` in which the immediate runs; `canRun` is still set, so the loop is back at the select, where the
    count is 0 and `quiesce` is accepted -/
example :
    (runLabels init [.q (.enqueue 7), .q .wake, .q .start, .l .setTimeout, .l (.expire 0), .q .swap, .q .execOne,
        .l .setImmediate, .q .execDone, .l (.deliverLive 0), .jobDone, .q .takeToken, .q .swap,
        .l (.runImmediateLive 1), .q .execDone, .q .chk, .q .quiesce, .q .exit]).map
      (fun s => (s.q.running, s.q.executed, s.l.jobCount, s.l.jobs.map (·.fired))) = some (false, [7], 0, [1, 1]) := by
  decide +kernel

/-- background mode (`Start()`): with no job at all `quiesce` is refused — the loop only leaves through Stop -/
example :
    (runLabels init [.startBg, .q .swap, .q .execDone, .q .quiesce]).isNone = true ∧
    (runLabels init [.startBg, .q .swap, .q .execDone, .q .stopStore, .q .stopWake, .q .takeToken, .q .swap,
        .q .execDone, .q .chk, .q .exit]).map (fun s => (s.q.lpc, s.q.running, s.q.cpc)) = some (.idle, false, .out) := by
  decide +kernel

/-- Terminate (g3): a started loop gets an interval (job 0) and a timeout (job 1) from a queued function; the ticker
    ticks; Stop; Terminate sets the flag in both components and runs the (empty) queue; the cancel loop clears both
    jobs (the timeout's timer is stopped on the spot); the drain receives the dead tick, the interval goroutine
    sees `stopChan` closed and its `removeJob` closure is received.  Nothing fired, nothing is registered, count 0.
    A receive before the cancel loop is through is refused, and so is a receive by a loop that is merely stopped. -/
example :
    (runLabels init [.startBg, .q (.enqueue 1), .q .wake, .q .swap, .q .execOne, .l .setInterval, .l .setTimeout,
        .q .execDone, .l (.tick 0), .q .stopStore, .q .stopWake, .q .takeToken, .q .swap, .q .execDone, .q .chk, .q .exit,
        .q .termFlag, .q .termSwap, .q .termExecDone, .l (.clear 0), .l (.clear 1), .l (.deliverTick 0), .l (.istop 0),
        .l (.deliverRemove 0)]).map
      (fun s => (s.q.terminated, s.l.terminated, s.l.jobCount, s.l.jobs.map (fun j => (j.inJobs, j.fired))))
    = some (true, true, 0, [(false, 0), (false, 0)]) ∧
    (runLabels init [.startBg, .q (.enqueue 1), .q .wake, .q .swap, .q .execOne, .l .setInterval, .l .setTimeout,
        .q .execDone, .l (.tick 0), .q .stopStore, .q .stopWake, .q .takeToken, .q .swap, .q .execDone, .q .chk, .q .exit,
        .q .termFlag, .q .termSwap, .q .termExecDone, .l (.clear 0), .l (.deliverTick 0)]).isNone = true ∧
    (runLabels init [.startBg, .q (.enqueue 1), .q .wake, .q .swap, .q .execOne, .l .setInterval, .l .setTimeout,
        .q .execDone, .l (.tick 0), .q .stopStore, .q .stopWake, .q .takeToken, .q .swap, .q .execDone, .q .chk, .q .exit,
        .l (.deliverTick 0)]).isNone = true := by decide +kernel

/-- the hypotheses of `run_returns_always_then` and of `live_timer_has_enabled_step_at_select` are satisfiable by
    reachable states: after the delivered job returned the loop is at its select with every job cancelled; before
    the delivery it is at its select with a live timeout -/
example :
    (∃ s, Reach s ∧ AtSelect s ∧ s.bg = false ∧ s.l.jobs.length = 1 ∧ ∀ j ∈ s.l.jobs, j.cancelled = true) ∧
    (∃ s j, Reach s ∧ AtSelect s ∧ s.l.jobs[0]? = some j ∧ j.kind ≠ .immediate ∧ j.cancelled = false) ∧
    (∃ s, Reach s ∧ s.inJob = true) := by
  have h1 : ∃ s, runLabels init [.q .start, .l .setTimeout, .q .swap, .q .execDone, .l (.expire 0),
      .l (.deliverLive 0), .jobDone] = some s ∧
      AtSelect s ∧ s.bg = false ∧ s.l.jobs.length = 1 ∧ ∀ j ∈ s.l.jobs, j.cancelled = true :=
    ⟨_, rfl, ⟨by decide +kernel, by decide +kernel⟩, by decide +kernel, by decide +kernel, by decide +kernel⟩
  have h2 : ∃ s, runLabels init [.q .start, .l .setTimeout, .q .swap, .q .execDone, .l (.expire 0)] = some s ∧
      ∃ j, AtSelect s ∧ s.l.jobs[0]? = some j ∧ j.kind ≠ .immediate ∧ j.cancelled = false :=
    ⟨_, rfl, _, ⟨by decide +kernel, by decide +kernel⟩, rfl, by decide +kernel, by decide +kernel⟩
  have h3 : ∃ s, runLabels init [.q .start, .l .setTimeout, .q .swap, .q .execDone, .l (.expire 0),
      .l (.deliverLive 0)] = some s ∧ s.inJob = true := ⟨_, rfl, by decide +kernel⟩
  obtain ⟨s1, r1, p1⟩ := h1
  obtain ⟨s2, r2, j, p2⟩ := h2
  obtain ⟨s3, r3, p3⟩ := h3
  exact ⟨⟨s1, runLabels_reach init s1 _ .init r1, p1⟩, ⟨s2, j, runLabels_reach init s2 _ .init r2, p2⟩,
    ⟨s3, runLabels_reach init s3 _ .init r3, p3⟩⟩

end GN.EventLoop.Combined
