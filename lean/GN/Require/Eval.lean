import GN.Require.Resolve

/-!
# require(): evaluation, caches, native modules   [C01, C15, C16 wrapper; uses C02's selection]

An executable transcription of `resolve`, `loadNative`, `loadModule`, `loadModuleFile` (require/resolve.go)
and `getCompiledSource` (require/module.go) after the cache fixes: four caches (files by file path,
native/core by name, file-or-directory requests by resolved path, node_modules lookups by
(start, name)), "insert before the body runs, forget on failure".
Module bodies are programs over a small action alphabet; evaluation is big-step with fuel (one unit per
action / nested call), so every function is structurally recursive and total.
-/

namespace GN.Require
open GN

/-- the error value that reaches a requirer -/
inductive ErrTok where
  | invalidModule | noSuchBuiltin | loaderError | syntaxError | jsonSyntax
  | thrown (tok : String)
  | outOfFuel
  deriving Repr, DecidableEq, Inhabited

inductive Act where
  | set (tag : String)                         -- exports[tag] = true
  | req (spelling : String) (caught : Bool)    -- require(spelling), optionally inside try/catch
  | throw (tok : String)
  deriving Repr, Inhabited

inductive FileKind where
  | js (body : List Act)    -- compiles; the body is run
  | bad                     -- does not compile
  | jsonOk                  -- a *.json file (or any file) whose text JSON.parse accepts
  | jsonBad                 -- a *.json file whose text JSON.parse rejects
  deriving Repr, Inhabited

structure Tree where
  file : List (Path × FileKind)
  loadErr : List Path                 -- the SourceLoader fails here with an error other than "does not exist"
  pkgMain : List (Path × String)      -- package.json files with a usable "main"
  globalFolders : List Path
  regNative : List String             -- registry-level native modules
  globNative : List String            -- global native modules
  core : List String                  -- core modules (names as registered; "node:x" = prefix-only)
  deriving Repr, Inhabited

def alookup {α β} [BEq α] (m : List (α × β)) (k : α) : Option β := (m.find? (·.1 == k)).map (·.2)
def ainsert {α β} [BEq α] (m : List (α × β)) (k : α) (v : β) : List (α × β) := (k, v) :: m.filter (fun p => !(p.1 == k))
def aerase {α β} [BEq α] (m : List (α × β)) (k : α) : List (α × β) := m.filter (fun p => !(p.1 == k))

inductive Ev where
  | load (p : Path)                                   -- SourceLoader called
  | enter (p : Path) (id : Nat)                       -- a module body starts running
  | got (spelling : String) (id : Nat) (file : Option Path) (tags : List String)
  | caught (spelling : String) (e : ErrTok)
  | native (table : String) (name : String) (id : Nat)  -- a native/core loader ran
  | top (id : Nat) (file : Option Path) (tags : List String)
  | topErr (e : ErrTok)
  deriving Repr, Inhabited

structure St where
  modules : List (Path × Nat) := []
  native : List (String × Nat) := []
  resolved : List (Path × Nat) := []
  nodeMods : List ((Path × String) × Nat) := []
  compiled : List Path := []                 -- Registry.compiled (shared by the runtimes of one registry)
  exports : List (Nat × List String) := []   -- tags set so far, per module
  fileOf : List (Nat × Path) := []
  next : Nat := 0
  log : List Ev := []
  deriving Repr, Inhabited

def St.emit (st : St) (e : Ev) : St := { st with log := st.log ++ [e] }
def St.tags (st : St) (id : Nat) : List String := (alookup st.exports id).getD []

def envOf (t : Tree) : Env :=
  { join := join, dir := dir, base := base,
    pkgMain := fun p => alookup t.pkgMain p,
    globalFolders := t.globalFolders }

/-- `forget`: drop a failed module from the file cache and from the request caches -/
def St.forget (st : St) (path : Path) (id : Nat) : St :=
  { st with modules := aerase st.modules path,
            resolved := st.resolved.filter (·.2 != id),
            nodeMods := st.nodeMods.filter (·.2 != id) }

/-- `loadNative`: registry-native, else global-native, else core, else `node:`-stripped core -/
def loadNative (t : Tree) (st : St) (path : String) : St × Res ErrTok :=
  match alookup st.native path with
  | some id => (st, .found id)
  | none =>
    let pre := Generated.nodePrefix
    -- `regName`: the name the loader that runs was registered under (what the loader itself can observe)
    let mk (table regName : String) (aliases : List String) : St × Res ErrTok :=
      let id := st.next
      let nat := aliases.foldl (fun m a => ainsert m a id) (ainsert st.native path id)
      (({ st with next := id + 1, native := nat }).emit (.native table regName id), .found id)
    if t.regNative.contains path then mk "R" path []
    else if t.globNative.contains path then mk "G" path []
    else if t.core.contains path then
      -- `node:`+name is an alias of this core module unless a module is registered under that very name
      let alias := pre ++ path
      mk "C" path (if path.startsWith pre || t.regNative.contains alias || t.globNative.contains alias
                      || t.core.contains alias then [] else [alias])
    else if path.startsWith pre then
      let name := (path.drop pre.length).toString
      if t.core.contains name then
        let overridden := t.regNative.contains name || t.globNative.contains name
        -- the core module may already have been loaded under its own name
        match (if overridden then none else alookup st.native name) with
        | some id => ({ st with native := ainsert st.native path id }, .found id)
        | none => mk "C" name (if overridden then [] else [name])
      else (st, .err .noSuchBuiltin)
    else (st, .err .invalidModule)

mutual

/-- `loadModule` + `loadModuleFile` + `getCompiledSource` -/
def loadModule (t : Tree) : Nat → St → Path → St × Res ErrTok
  | 0, st, _ => (st, .err .outOfFuel)
  | fuel + 1, st, path =>
    match alookup st.modules path with
    | some id => (st, .found id)
    | none =>
      -- the module object is created and cached before anything is known about the file.  Its identity is
      -- observable only if the file turns out to exist and compile, so the counter is advanced only then
      -- (identities of modules that are never seen need not be distinct from later ones).
      let id := st.next
      let st := { st with modules := ainsert st.modules path id }
      -- getCompiledSource: the loader is consulted unless a compiled program is cached
      let cached := st.compiled.contains path
      let st := if cached then st else st.emit (.load path)
      if !cached && t.loadErr.contains path then (st.forget path id, .err .loaderError)
      else
        match alookup t.file path with
        | none => (st.forget path id, .none)
        | some .bad => (st.forget path id, .err .syntaxError)
        | some kind =>
          let st := { st with compiled := if cached then st.compiled else path :: st.compiled }
          match kind with
          | .jsonBad => (st.forget path id, .err .jsonSyntax)
          | .jsonOk => ({ st with next := id + 1 }, .found id)
          | .bad => (st, .none) -- unreachable
          | .js body =>
            let st := ({ st with next := id + 1, fileOf := ainsert st.fileOf id path }).emit (.enter path id)
            match runBody t fuel st (dir path) id body with
            | (st, none) => (st, .found id)
            | (st, some e) => (st.forget path id, .err e)

/-- a module body; `curDir` is the directory of the file being evaluated -/
def runBody (t : Tree) : Nat → St → Path → Nat → List Act → St × Option ErrTok
  | 0, st, _, _, _ => (st, some .outOfFuel)
  | _ + 1, st, _, _, [] => (st, none)
  | fuel + 1, st, curDir, self, a :: rest =>
    match a with
    | .set tag =>
      runBody t fuel { st with exports := ainsert st.exports self (st.tags self ++ [tag]) } curDir self rest
    | .throw tok => (st, some (.thrown tok))
    | .req spelling caught =>
      match resolve t fuel st curDir spelling with
      | (st, .found id) =>
        runBody t fuel (st.emit (.got spelling id (alookup st.fileOf id) (st.tags id))) curDir self rest
      | (st, .err e) =>
        if caught then runBody t fuel (st.emit (.caught spelling e)) curDir self rest else (st, some e)
      | (st, .none) => (st, some .invalidModule)   -- unreachable: resolve never returns none

/-- `resolve` -/
def resolve (t : Tree) : Nat → St → Path → String → St × Res ErrTok
  | 0, st, _, _ => (st, .err .outOfFuel)
  | fuel + 1, st, curDir, modpath =>
    let env := envOf t
    let start := if isAbs modpath then "" else curDir
    let p := join start modpath
    let finish (r : St × Res ErrTok) : St × Res ErrTok :=
      match r with
      | (st, .none) => (st, .err .invalidModule)
      | r => r
    if isFileOrDirectoryPath modpath then
      match alookup st.resolved p with
      | some id => (st, .found id)
      | none =>
        match loadAsFileOrDirectory env (loadModule t fuel) st p with
        | (st, .found id) => ({ st with resolved := ainsert st.resolved p id }, .found id)
        | r => finish r
    else
      match loadNative t st modpath with
      | (st, .found id) => (st, .found id)
      | (st, .err .invalidModule) =>
        match alookup st.nodeMods (start, modpath) with
        | some id => (st, .found id)
        | none =>
          match loadNodeModules env (loadModule t fuel) (start.length + 2) st modpath start with
          | (st, .found id) => ({ st with nodeMods := ainsert st.nodeMods (start, modpath) id }, .found id)
          | r => finish r
      | r => r

end

/-- a top-level call: from a script with the given name (JS `require`) or from Go (`Require`, no JS frame) -/
structure TopCall where
  script : Option Path
  spelling : String
  deriving Repr, Inhabited

def topFuel : Nat := 100000

def runTop (t : Tree) (st : St) (c : TopCall) : St :=
  let curDir := match c.script with
    | some s => dir s
    | none => "."
  match resolve t topFuel st curDir c.spelling with
  | (st, .found id) => st.emit (.top id (alookup st.fileOf id) (st.tags id))
  | (st, .err e) => st.emit (.topErr e)
  | (st, .none) => st.emit (.topErr .invalidModule)

def runHistory (t : Tree) (calls : List TopCall) : St := calls.foldl (runTop t) {}

end GN.Require
