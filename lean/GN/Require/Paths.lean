import GN.Basic

/-! POSIX `path.Clean / Join / Dir / Base` (Go's lexical path functions) on strings — used by the executable
    model; the resolution theorems are generic in these functions. -/

namespace GN.Require
open GN

def splitSegs (p : String) : List String := (p.splitOn "/").filter (· ≠ "")

/-- `path.Clean` -/
def clean (p : String) : String :=
  if p = "" then "." else
  let rooted := p.startsWith "/"
  let segs := (splitSegs p).foldl (fun (acc : List String) s =>
    if s = "." then acc
    else if s = ".." then
      match acc with
      | [] => if rooted then [] else [".."]
      | x :: xs => if x = ".." then ".." :: x :: xs else xs
    else s :: acc) []
  let body := "/".intercalate segs.reverse
  if rooted then "/" ++ body else if body = "" then "." else body

/-- `path.Join(a, b)` -/
def join (a b : String) : String :=
  if a = "" ∧ b = "" then ""
  else if a = "" then clean b
  else if b = "" then clean a
  else clean (a ++ "/" ++ b)

/-- `path.Dir` -/
def dir (p : String) : String :=
  -- everything up to and including the last '/', cleaned
  let cs := p.toList
  let rec lastSlash (l : List Char) (i : Nat) (best : Option Nat) : Option Nat :=
    match l with
    | [] => best
    | c :: cs => lastSlash cs (i + 1) (if c = '/' then some i else best)
  match lastSlash cs 0 none with
  | none => "."
  | some i => clean (String.ofList (cs.take (i + 1)))

/-- `path.Base` -/
def base (p : String) : String :=
  if p = "" then "." else
  match (splitSegs p).reverse with
  | [] => "/"
  | s :: _ => s

def isAbs (p : String) : Bool := p.startsWith "/"

/-- `isFileOrDirectoryPath` (non-Windows) -/
def isFileOrDirectoryPath (p : String) : Bool :=
  p == "." || p == ".." || p.startsWith "/" || p.startsWith "./" || p.startsWith "../"

end GN.Require
