import GN.Require.Ideal
import GN.Require.ResolveLemmas
/-!
# require(): cache transparency   [C01, C02, C15]

The model of the code (`GN.Require.Eval`: four caches, "insert before the body runs, forget on failure") produces
the same observable log as the cache-free reference semantics (`GN.Require.Ideal`), loader-call events aside:
`cache_transparent`.

The only assumption of the main theorem is `NoFuelErr (idealHistory t calls).log`: the *reference* run reports no
exhausted fuel (the code never needs more fuel than the reference semantics: a cache hit costs nothing).
No condition on the tree is needed: `loadNative` writes the alias `node:x` of a core module `x` only when no module
is registered under the name `node:x` itself (before that repair, a module registered as `node:x` was shadowed once
`x` had been required; `alias_regression` replays that history).

Route: a simulation relation `R` (equal file cache / exports / ids / filtered log; the native cache is the image of
the reference instances under `nativeOf`, up to the lazily created `node:` alias; every entry of the two request
caches is a `Hit`: a candidate that is a live module, preceded only by candidates that are missing in the tree),
the simulation of `loadNative` by `idealNative`, and a joint induction on fuel for
`loadModule/idealLoad`, `runBody/idealBody`, `resolve/idealResolve` (`sim_all`), with outcome `Out`: the reference
run is out of fuel, or has logged a fuel error, or results are equal and the states are related again.
-/

namespace GN.Require
open GN

section alist
variable {α β : Type} [BEq α]

theorem alookup_nil (k : α) : alookup ([] : List (α × β)) k = none := rfl

variable [LawfulBEq α]

theorem alookup_cons (a : α) (b : β) (m : List (α × β)) (k : α) :
    alookup ((a, b) :: m) k = if a == k then some b else alookup m k := by
  simp only [alookup, List.find?_cons]
  split <;> simp_all

theorem alookup_filter_ne (m : List (α × β)) (k k' : α) :
    alookup (m.filter (fun p => !(p.1 == k))) k' = if k == k' then none else alookup m k' := by
  induction m with
  | nil => simp [alookup]
  | cons x m ih =>
    rcases x with ⟨a, b⟩
    by_cases hak : a == k
    · simp only [List.filter_cons, hak, Bool.not_true, Bool.false_eq_true, if_false, ih, alookup_cons]
      have : a = k := by simpa using hak
      subst this
      split <;> simp_all
    · simp only [List.filter_cons, hak, Bool.not_false, if_true, alookup_cons, ih]
      by_cases hk : k == k'
      · have : k = k' := by simpa using hk
        subst this
        simp [hak]
      · simp [hk]

theorem alookup_ainsert (m : List (α × β)) (k : α) (v : β) (k' : α) :
    alookup (ainsert m k v) k' = if k == k' then some v else alookup m k' := by
  simp only [ainsert, alookup_cons, alookup_filter_ne]
  split <;> simp_all

theorem alookup_aerase (m : List (α × β)) (k k' : α) :
    alookup (aerase m k) k' = if k == k' then none else alookup m k' := by
  simp only [aerase, alookup_filter_ne]

theorem alookup_mem (m : List (α × β)) (k : α) (v : β) (h : alookup m k = some v) : (k, v) ∈ m := by
  induction m with
  | nil => simp [alookup] at h
  | cons x m ih =>
    rcases x with ⟨a, b⟩
    rw [alookup_cons] at h
    split at h
    · rename_i hak
      have : a = k := by simpa using hak
      simp_all
    · exact List.mem_cons_of_mem _ (ih h)

omit [LawfulBEq α] in
theorem mem_ainsert (m : List (α × β)) (k : α) (v : β) (x : α × β) (h : x ∈ ainsert m k v) :
    x = (k, v) ∨ x ∈ m := by
  simp only [ainsert, List.mem_cons, List.mem_filter] at h
  rcases h with h | h
  · exact .inl h
  · exact .inr h.1

end alist

def pre : String := Generated.nodePrefix
def bare (s : String) : String := (s.drop pre.length).toString

theorem pre_toList : pre.toList = ['n','o','d','e',':'] := by decide
theorem pre_length : pre.length = 5 := by decide

theorem bare_toList (s : String) : (bare s).toList = s.toList.drop 5 := by
  simp [bare, pre_length]

theorem startsWith_pre_append (x : String) : (pre ++ x).startsWith pre = true := by
  simp

theorem bare_pre_append (x : String) : bare (pre ++ x) = x := by
  apply String.toList_inj.mp
  simp [bare_toList, pre_toList]

theorem bare_inj (a b : String) (ha : a.startsWith pre = true) (hb : b.startsWith pre = true)
    (h : bare a = bare b) : a = b := by
  rw [String.startsWith_string_iff] at ha hb
  obtain ⟨ta, hta⟩ := ha
  obtain ⟨tb, htb⟩ := hb
  have h' := congrArg String.toList h
  rw [bare_toList, bare_toList, ← hta, ← htb, pre_toList] at h'
  apply String.toList_inj.mp
  rw [← hta, ← htb]
  simp at h'
  simp [h']

def Ev.isLoad : Ev → Bool
  | .load _ => true
  | _ => false

def Fourth (t : Tree) (n : String) : Prop :=
  t.regNative.contains n = false ∧ t.globNative.contains n = false ∧ t.core.contains n = false ∧
    n.startsWith pre = true

theorem nativeOf_cases (t : Tree) (n : String) :
    (t.regNative.contains n = true ∧ nativeOf t n = .inl (some ("R", n))) ∨
    (t.regNative.contains n = false ∧ t.globNative.contains n = true ∧ nativeOf t n = .inl (some ("G", n))) ∨
    (t.regNative.contains n = false ∧ t.globNative.contains n = false ∧ t.core.contains n = true ∧
        nativeOf t n = .inl (some ("C", n))) ∨
    (Fourth t n ∧ t.core.contains (bare n) = true ∧ nativeOf t n = .inl (some ("C", bare n))) ∨
    (Fourth t n ∧ t.core.contains (bare n) = false ∧ nativeOf t n = .inr ()) ∨
    (t.regNative.contains n = false ∧ t.globNative.contains n = false ∧ t.core.contains n = false ∧
        n.startsWith pre = false ∧ nativeOf t n = .inl none) := by
  unfold Fourth nativeOf bare pre
  cases h1 : t.regNative.contains n <;> cases h2 : t.globNative.contains n <;> cases h3 : t.core.contains n <;>
    cases h4 : n.startsWith Generated.nodePrefix <;>
    cases h5 : t.core.contains (n.drop Generated.nodePrefix.length).toString <;> simp_all

/-- the tree has no module file at `c`, and the loader does not fail there -/
def Missing (t : Tree) (c : Path) : Prop := alookup t.file c = none ∧ t.loadErr.contains c = false

/-- the candidate list has a candidate that is the live module `id`, and all earlier candidates are missing -/
def Hit (t : Tree) (mods : List (Path × Nat)) (cands : List Path) (id : Nat) : Prop :=
  ∃ pre f post, cands = pre ++ f :: post ∧ (∀ c ∈ pre, Missing t c) ∧ alookup mods f = some id

/-- `node:x` means the core module `x` when nothing is registered under the name `node:x` itself -/
theorem nativeOf_alias {t : Tree} (x : String) (hc : t.core.contains x = true)
    (h1 : t.regNative.contains (pre ++ x) = false) (h2 : t.globNative.contains (pre ++ x) = false)
    (h3 : t.core.contains (pre ++ x) = false) :
    nativeOf t (pre ++ x) = .inl (some ("C", x)) := by
  rcases nativeOf_cases t (pre ++ x) with c | c | c | c | c | c
  · simp_all
  · simp_all
  · simp_all
  · rw [c.2.2, bare_pre_append]
  · have := c.2.1; rw [bare_pre_append] at this; simp_all
  · have := c.2.2.2.1; rw [startsWith_pre_append] at this; simp at this

/-- the simulation relation between the state of the code and the state of the cache-free semantics -/
structure R (t : Tree) (st : St) (ist : ISt) : Prop where
  mods : ∀ p, alookup st.modules p = alookup ist.mods p
  exports : st.exports = ist.exports
  fileOf : st.fileOf = ist.fileOf
  next : st.next = ist.next
  log : st.log.filter (fun e => !e.isLoad) = ist.log
  n1 : ∀ name id, alookup st.native name = some id →
    ∃ l, nativeOf t name = .inl (some l) ∧ alookup ist.natives l = some id
  n2 : ∀ name l id, nativeOf t name = .inl (some l) → alookup ist.natives l = some id →
    alookup st.native name = some id ∨
      (Fourth t name ∧ t.regNative.contains (bare name) = false ∧ t.globNative.contains (bare name) = false ∧
        alookup st.native (bare name) = some id)
  res : ∀ p id, (p, id) ∈ st.resolved → Hit t ist.mods (fodCands (envOf t) p) id
  nm : ∀ s n id, ((s, n), id) ∈ st.nodeMods → Hit t ist.mods (nmCands (envOf t) (s.length + 2) n s) id
  keys : ∀ p id, alookup ist.mods p = some id → (alookup t.file p).isSome = true ∧ t.loadErr.contains p = false
  comp : ∀ p, st.compiled.contains p = true → t.loadErr.contains p = false

/-- the cache-free state only grows: the log is extended and live modules stay -/
structure Ext (a b : ISt) : Prop where
  log : ∃ l, b.log = a.log ++ l
  mods : ∀ p i, alookup a.mods p = some i → alookup b.mods p = some i

theorem Ext.refl (a : ISt) : Ext a a := ⟨⟨[], by simp⟩, fun _ _ h => h⟩
theorem Ext.trans {a b c : ISt} (h1 : Ext a b) (h2 : Ext b c) : Ext a c := by
  obtain ⟨l1, e1⟩ := h1.log
  obtain ⟨l2, e2⟩ := h2.log
  exact ⟨⟨l1 ++ l2, by simp [e2, e1]⟩, fun p i h => h2.mods p i (h1.mods p i h)⟩

theorem loadNative_unfold (t : Tree) (st : St) (path : String) : loadNative t st path =
  match alookup st.native path with
  | some id => (st, .found id)
  | none =>
    if t.regNative.contains path then
      (({ st with next := st.next + 1, native := ainsert st.native path st.next }).emit (.native "R" path st.next), .found st.next)
    else if t.globNative.contains path then
      (({ st with next := st.next + 1, native := ainsert st.native path st.next }).emit (.native "G" path st.next), .found st.next)
    else if t.core.contains path then
      if path.startsWith pre || t.regNative.contains (pre ++ path) || t.globNative.contains (pre ++ path)
          || t.core.contains (pre ++ path) then
        (({ st with next := st.next + 1, native := ainsert st.native path st.next }).emit (.native "C" path st.next), .found st.next)
      else
        (({ st with next := st.next + 1, native := ainsert (ainsert st.native path st.next) (pre ++ path) st.next }).emit (.native "C" path st.next), .found st.next)
    else if path.startsWith pre then
      if t.core.contains (bare path) then
        if t.regNative.contains (bare path) || t.globNative.contains (bare path) then
          (({ st with next := st.next + 1, native := ainsert st.native path st.next }).emit (.native "C" (bare path) st.next), .found st.next)
        else
          match alookup st.native (bare path) with
          | some id => ({ st with native := ainsert st.native path id }, .found id)
          | none =>
            (({ st with next := st.next + 1, native := ainsert (ainsert st.native path st.next) (bare path) st.next }).emit (.native "C" (bare path) st.next), .found st.next)
      else (st, .err .noSuchBuiltin)
    else (st, .err .invalidModule) := by
  unfold loadNative bare pre
  cases alookup st.native path with
  | some id => rfl
  | none =>
    simp only []
    cases t.regNative.contains path <;> cases t.globNative.contains path <;> cases t.core.contains path <;>
      cases path.startsWith Generated.nodePrefix <;> try (simp [List.foldl]; done)
    all_goals first
      | (cases t.regNative.contains (Generated.nodePrefix ++ path) <;>
          cases t.globNative.contains (Generated.nodePrefix ++ path) <;>
          cases t.core.contains (Generated.nodePrefix ++ path) <;> simp [List.foldl]; done)
      | (cases t.core.contains (path.drop Generated.nodePrefix.length).toString <;>
          cases t.regNative.contains (path.drop Generated.nodePrefix.length).toString <;>
          cases t.globNative.contains (path.drop Generated.nodePrefix.length).toString <;>
          cases alookup st.native (path.drop Generated.nodePrefix.length).toString <;> simp [List.foldl])

theorem filter_emit (log : List Ev) (e : Ev) (he : e.isLoad = false) :
    (log ++ [e]).filter (fun e => !e.isLoad) = log.filter (fun e => !e.isLoad) ++ [e] := by
  simp [List.filter_append, he]

theorem filter_emit_load (log : List Ev) (p : Path) :
    (log ++ [Ev.load p]).filter (fun e => !e.isLoad) = log.filter (fun e => !e.isLoad) := by
  simp [List.filter_append, Ev.isLoad]

theorem R_create {t : Tree} {st : St} {ist : ISt} (h : R t st ist) (l : String × String) (W : String → Bool)
    (nat' : List (String × Nat)) (e : Ev) (he : e.isLoad = false)
    (hnat : ∀ n, alookup nat' n = if W n then some ist.next else alookup st.native n)
    (w0 : alookup ist.natives l = none)
    (w1 : ∀ n, W n = true → nativeOf t n = .inl (some l))
    (w2 : ∀ n, nativeOf t n = .inl (some l) → W n = true ∨
      (Fourth t n ∧ t.regNative.contains (bare n) = false ∧ t.globNative.contains (bare n) = false ∧
        W (bare n) = true)) :
    R t (({ st with next := ist.next + 1, native := nat' }).emit e)
      (({ ist with next := ist.next + 1, natives := ainsert ist.natives l ist.next }).emit e) := by
  constructor
  · exact h.mods
  · exact h.exports
  · exact h.fileOf
  · simp [St.emit, ISt.emit]
  · simp only [St.emit, ISt.emit, filter_emit _ _ he, h.log]
  · intro name id hl
    simp only [St.emit, ISt.emit, hnat] at hl ⊢
    split at hl
    · rename_i hw
      refine ⟨l, w1 _ hw, ?_⟩
      simp only [alookup_ainsert, beq_self_eq_true, if_true]
      exact hl
    · obtain ⟨l', hl1, hl2⟩ := h.n1 name id hl
      refine ⟨l', hl1, ?_⟩
      rw [alookup_ainsert]
      split
      · rename_i heq
        have : l = l' := by simpa using heq
        subst this
        rw [w0] at hl2
        cases hl2
      · exact hl2
  · intro name l' id hno hl
    simp only [St.emit, ISt.emit, hnat, alookup_ainsert] at hl ⊢
    split at hl
    · rename_i heq
      have : l = l' := by simpa using heq
      subst this
      rcases w2 name hno with hw | ⟨h4, hr, hg, hw⟩
      · left; simp [hw, hl]
      · right; exact ⟨h4, hr, hg, by simp [hw, hl]⟩
    · rename_i hne
      have hne' : l ≠ l' := by simpa using hne
      rcases h.n2 name l' id hno hl with hh | ⟨h4, hr, hg, hh⟩
      · left
        cases hw : W name
        · simpa using hh
        · have := w1 _ hw
          rw [hno] at this
          exact absurd (by simpa using this : l' = l).symm hne'
      · right
        refine ⟨h4, hr, hg, ?_⟩
        cases hw : W (bare name)
        · simpa using hh
        · obtain ⟨l'', hl1, hl2⟩ := h.n1 _ _ hh
          have := w1 _ hw
          rw [hl1] at this
          have : l'' = l := by simpa using this
          subst this
          rw [w0] at hl2
          cases hl2
  · exact h.res
  · exact h.nm
  · exact h.keys
  · exact h.comp

theorem native_none_of {t : Tree} {st : St} {ist : ISt} (h : R t st ist) (name : String)
    (hno : ∀ l, nativeOf t name ≠ .inl (some l)) : alookup st.native name = none := by
  cases hl : alookup st.native name with
  | none => rfl
  | some id =>
    obtain ⟨l, h1, _⟩ := h.n1 name id hl
    exact absurd h1 (hno l)

theorem native_sim_inr {t : Tree} {st : St} {ist : ISt} (h : R t st ist) (name : String)
    (hno : nativeOf t name = .inr ()) :
    loadNative t st name = (st, .err .noSuchBuiltin) ∧ idealNative t ist name = (ist, some (.err .noSuchBuiltin)) := by
  have hn := native_none_of h name (by simp [hno])
  refine ⟨?_, by simp [idealNative, hno]⟩
  rw [loadNative_unfold, hn]
  rcases nativeOf_cases t name with c | c | c | c | c | c <;> try (simp [hno] at c; done)
  obtain ⟨⟨h1, h2, h3, h4⟩, h5, _⟩ := c
  simp only [h1, h2, h3, h4, h5]; simp

theorem native_sim_none {t : Tree} {st : St} {ist : ISt} (h : R t st ist) (name : String)
    (hno : nativeOf t name = .inl none) :
    loadNative t st name = (st, .err .invalidModule) ∧ idealNative t ist name = (ist, none) := by
  have hn := native_none_of h name (by simp [hno])
  refine ⟨?_, by simp [idealNative, hno]⟩
  rw [loadNative_unfold, hn]
  rcases nativeOf_cases t name with c | c | c | c | c | c <;> try (simp [hno] at c; done)
  obtain ⟨h1, h2, h3, h4, _⟩ := c
  simp only [h1, h2, h3, h4]; simp

theorem Ext_create (ist : ISt) (l : String × String) (e : Ev) :
    Ext ist (({ ist with next := ist.next + 1, natives := ainsert ist.natives l ist.next }).emit e) :=
  ⟨⟨[e], rfl⟩, fun _ _ h => h⟩

theorem idealNative_create {t : Tree} {ist : ISt} {name : String} {l : String × String}
    (hno : nativeOf t name = .inl (some l)) (w0 : alookup ist.natives l = none) :
    idealNative t ist name =
      (({ ist with next := ist.next + 1, natives := ainsert ist.natives l ist.next }).emit (.native l.1 l.2 ist.next),
        some (.found ist.next)) := by
  simp [idealNative, hno, w0]

theorem natives_none_of {t : Tree} {st : St} {ist : ISt} (h : R t st ist) (name : String) (l : String × String)
    (hno : nativeOf t name = .inl (some l)) (hn : alookup st.native name = none)
    (hx : ¬ (Fourth t name ∧ t.regNative.contains (bare name) = false ∧ t.globNative.contains (bare name) = false ∧
        (alookup st.native (bare name)).isSome = true)) :
    alookup ist.natives l = none := by
  cases hl : alookup ist.natives l with
  | none => rfl
  | some id =>
    rcases h.n2 name l id hno hl with hh | ⟨h4, hr, hg, hh⟩
    · rw [hn] at hh; cases hh
    · exact absurd ⟨h4, hr, hg, by simp [hh]⟩ hx

theorem nativeOf_core {t : Tree} {x : String} (h1 : t.regNative.contains x = false)
    (h2 : t.globNative.contains x = false) (h3 : t.core.contains x = true) :
    nativeOf t x = .inl (some ("C", x)) := by
  rcases nativeOf_cases t x with d | d | d | d | d | d <;> simp_all [Fourth]

theorem nativeOf_C_inv {t : Tree} {n x : String} (h : nativeOf t n = .inl (some ("C", x))) :
    (n = x ∧ t.regNative.contains n = false ∧ t.globNative.contains n = false) ∨ (Fourth t n ∧ bare n = x) := by
  rcases nativeOf_cases t n with d | d | d | d | d | d
  · rw [h] at d; simp at d
  · rw [h] at d; simp at d
  · rw [h] at d; left; simp at d; simp [d]
  · rw [h] at d; right; simp at d; simp [d]
  · rw [h] at d; simp at d
  · rw [h] at d; simp at d

theorem native_sim_some {t : Tree} {st : St} {ist : ISt} (h : R t st ist) (name : String)
    (l : String × String) (hno : nativeOf t name = .inl (some l)) :
    ∃ st' ist' id, loadNative t st name = (st', .found id) ∧ idealNative t ist name = (ist', some (.found id)) ∧
      R t st' ist' ∧ Ext ist ist' := by
  cases hn : alookup st.native name with
  | some id =>
    obtain ⟨l', h1, h2⟩ := h.n1 name id hn
    rw [hno] at h1
    have : l = l' := by simpa using h1
    subst this
    exact ⟨st, ist, id, by rw [loadNative_unfold, hn], by simp [idealNative, hno, h2], h, Ext.refl _⟩
  | none =>
    rw [loadNative_unfold, hn]
    simp only [h.next]
    rcases nativeOf_cases t name with c | c | c | c | c | c
    · -- registry-native
      obtain ⟨c1, c2⟩ := c
      rw [hno] at c2
      have hl : ("R", name) = l := by simpa using c2.symm
      subst hl
      have w0 := natives_none_of h name _ hno hn (fun hx => by have := hx.1.1; rw [c1] at this; cases this)
      simp only [c1, if_true]
      refine ⟨_, _, _, rfl, idealNative_create hno w0, ?_, Ext_create _ _ _⟩
      refine R_create h _ (fun n => name == n) _ _ ?_ ?_ w0 ?_ ?_
      · rfl
      · intro n; rw [alookup_ainsert]
      · intro n hn'; have : name = n := by simpa using hn'
        subst this; exact hno
      · intro n hn'
        left
        rcases nativeOf_cases t n with d | d | d | d | d | d <;> simp_all
    · -- global-native
      obtain ⟨c0, c1, c2⟩ := c
      rw [hno] at c2
      have hl : ("G", name) = l := by simpa using c2.symm
      subst hl
      have w0 := natives_none_of h name _ hno hn (fun hx => by have := hx.1.2.1; rw [c1] at this; cases this)
      simp only [c0, c1, if_true, Bool.false_eq_true, if_false]
      refine ⟨_, _, _, rfl, idealNative_create hno w0, ?_, Ext_create _ _ _⟩
      refine R_create h _ (fun n => name == n) _ _ ?_ ?_ w0 ?_ ?_
      · rfl
      · intro n; rw [alookup_ainsert]
      · intro n hn'; have : name = n := by simpa using hn'
        subst this; exact hno
      · intro n hn'
        left
        rcases nativeOf_cases t n with d | d | d | d | d | d <;> simp_all
    · -- core module under its registered name
      obtain ⟨c0, c1, c3, c2⟩ := c
      rw [hno] at c2
      have hl : ("C", name) = l := by simpa using c2.symm
      subst hl
      have w0 := natives_none_of h name _ hno hn (fun hx => by have := hx.1.2.2.1; rw [c3] at this; cases this)
      have hw2 : ∀ n, nativeOf t n = .inl (some ("C", name)) → n = name ∨
          (Fourth t n ∧ t.regNative.contains (bare n) = false ∧ t.globNative.contains (bare n) = false ∧
            bare n = name) := by
        intro n hn'
        rcases nativeOf_C_inv hn' with d | d
        · exact .inl d.1
        · right; refine ⟨d.1, ?_, ?_, d.2⟩ <;> rw [d.2] <;> assumption
      simp only [c0, c1, c3, if_true, Bool.false_eq_true, if_false]
      cases hal : (name.startsWith pre || t.regNative.contains (pre ++ name) || t.globNative.contains (pre ++ name)
          || t.core.contains (pre ++ name))
      · have hal' := hal
        simp only [Bool.or_eq_false_iff] at hal'
        obtain ⟨⟨⟨hp, a1⟩, a2⟩, a3⟩ := hal'
        simp only [Bool.false_eq_true, if_false]
        refine ⟨_, _, _, rfl, idealNative_create hno w0, ?_, Ext_create _ _ _⟩
        refine R_create h _ (fun n => name == n || (pre ++ name) == n) _ _ ?_ ?_ w0 ?_ ?_
        · rfl
        · intro n; rw [alookup_ainsert, alookup_ainsert]
          by_cases e1 : name = n <;> by_cases e2 : pre ++ name = n <;> simp [e1, e2]
        · intro n hn'
          simp only [Bool.or_eq_true, beq_iff_eq] at hn'
          rcases hn' with e | e
          · subst e; exact hno
          · subst e; exact nativeOf_alias name c3 a1 a2 a3
        · intro n hn'
          rcases hw2 n hn' with d | d
          · left; simp [d]
          · right; exact ⟨d.1, d.2.1, d.2.2.1, by simp [d.2.2.2]⟩
      · simp only [if_true]
        refine ⟨_, _, _, rfl, idealNative_create hno w0, ?_, Ext_create _ _ _⟩
        refine R_create h _ (fun n => name == n) _ _ ?_ ?_ w0 ?_ ?_
        · rfl
        · intro n; rw [alookup_ainsert]
        · intro n hn'; have : name = n := by simpa using hn'
          subst this; exact hno
        · intro n hn'
          rcases hw2 n hn' with d | d
          · left; simp [d]
          · right; exact ⟨d.1, d.2.1, d.2.2.1, by simp [d.2.2.2]⟩
    · -- `node:`-prefixed request of a core module
      obtain ⟨c4, c3, c2⟩ := c
      obtain ⟨c0, c1, c5, c6⟩ := c4
      rw [hno] at c2
      have hl : ("C", bare name) = l := by simpa using c2.symm
      subst hl
      simp only [c0, c1, c5, c6, c3, if_true, Bool.false_eq_true, if_false]
      cases hov : (t.regNative.contains (bare name) || t.globNative.contains (bare name))
      · have hov' := hov
        simp only [Bool.or_eq_false_iff] at hov'
        obtain ⟨o1, o2⟩ := hov'
        simp only [Bool.false_eq_true, if_false]
        cases hb : alookup st.native (bare name) with
        | some id =>
          simp only []
          obtain ⟨l', h1, h2⟩ := h.n1 _ _ hb
          rw [nativeOf_core o1 o2 c3] at h1
          have : ("C", bare name) = l' := by simpa using h1
          subst this
          refine ⟨_, ist, id, rfl, by simp [idealNative, hno, h2], ?_, Ext.refl _⟩
          constructor
          · exact h.mods
          · exact h.exports
          · exact h.fileOf
          · rfl
          · exact h.log
          · intro n i hl
            simp only [alookup_ainsert] at hl
            split at hl
            · rename_i e
              have : name = n := by simpa using e
              subst this
              cases hl
              exact ⟨_, hno, h2⟩
            · exact h.n1 n i hl
          · intro n l' i hn' hl
            simp only [alookup_ainsert]
            rcases h.n2 n l' i hn' hl with hh | ⟨h4, hr, hg, hh⟩
            · left
              split
              · rename_i e
                have : name = n := by simpa using e
                subst this
                rw [hn] at hh; cases hh
              · exact hh
            · right
              refine ⟨h4, hr, hg, ?_⟩
              split
              · rename_i e
                have : name = bare n := by simpa using e
                rw [← this, hn] at hh; cases hh
              · exact hh
          · exact h.res
          · exact h.nm
          · exact h.keys
          · exact h.comp
        | none =>
          simp only []
          have w0 := natives_none_of h name _ hno hn (fun hx => by have := hx.2.2.2; rw [hb] at this; cases this)
          refine ⟨_, _, _, rfl, idealNative_create hno w0, ?_, Ext_create _ _ _⟩
          refine R_create h _ (fun n => name == n || bare name == n) _ _ ?_ ?_ w0 ?_ ?_
          · rfl
          · intro n; rw [alookup_ainsert, alookup_ainsert]
            by_cases e1 : name = n <;> by_cases e2 : bare name = n <;> simp [e1, e2]
          · intro n hn'
            simp only [Bool.or_eq_true, beq_iff_eq] at hn'
            rcases hn' with e | e
            · subst e; exact hno
            · subst e; exact nativeOf_core o1 o2 c3
          · intro n hn'
            left
            rcases nativeOf_C_inv hn' with d | d
            · simp [d.1]
            · have := bare_inj n name d.1.2.2.2 c6 d.2
              simp [this]
      · simp only [if_true]
        have w0 := natives_none_of h name _ hno hn (fun hx => by
          have h1 := hx.2.1; have h2 := hx.2.2.1; rw [h1, h2] at hov; cases hov)
        refine ⟨_, _, _, rfl, idealNative_create hno w0, ?_, Ext_create _ _ _⟩
        refine R_create h _ (fun n => name == n) _ _ ?_ ?_ w0 ?_ ?_
        · rfl
        · intro n; rw [alookup_ainsert]
        · intro n hn'; have : name = n := by simpa using hn'
          subst this; exact hno
        · intro n hn'
          left
          rcases nativeOf_C_inv hn' with d | d
          · rw [← d.1, d.2.1, d.2.2] at hov; cases hov
          · have := bare_inj n name d.1.2.2.2 c6 d.2
            simp [this]
    · simp [hno] at c
    · simp [hno] at c

/-! ### facts about the cache-free semantics alone -/

theorem Ext_emit (a : ISt) (e : Ev) : Ext a (a.emit e) := ⟨⟨[e], rfl⟩, fun _ _ h => h⟩

theorem Ext_tryList {load : ISt → Path → ISt × Res ErrTok}
    (hl : ∀ ist p ist' r, load ist p = (ist', r) → Ext ist ist')
    (ist : ISt) (cs : List Path) (ist' : ISt) (r : Res ErrTok) (h : tryList load ist cs = (ist', r)) :
    Ext ist ist' := by
  induction cs generalizing ist with
  | nil => simp only [tryList] at h; cases h; exact Ext.refl _
  | cons c cs ih =>
    simp only [tryList] at h
    rcases h1 : load ist c with ⟨ist1, r1⟩
    have e1 := hl _ _ _ _ h1
    rw [h1] at h
    cases r1 with
    | none => exact e1.trans (ih ist1 h)
    | found id => cases h; exact e1
    | err e => cases h; exact e1

theorem Ext_idealNative (t : Tree) (ist : ISt) (name : String) (ist' : ISt) (r : Option (Res ErrTok))
    (h : idealNative t ist name = (ist', r)) : Ext ist ist' := by
  unfold idealNative at h
  split at h
  · cases h; exact Ext.refl _
  · cases h; exact Ext.refl _
  · split at h
    · cases h; exact Ext.refl _
    · cases h; exact Ext_create _ _ _

def IdealOK (t : Tree) (n : Nat) : Prop :=
  (∀ ist p ist' r, idealLoad t n ist p = (ist', r) → Ext ist ist' ∧
    (∀ id, r = .found id → alookup ist'.mods p = some id) ∧ (r = .none → ist' = ist ∧ Missing t p)) ∧
  (∀ ist d self body ist' r, idealBody t n ist d self body = (ist', r) → Ext ist ist') ∧
  (∀ ist d s ist' r, idealResolve t n ist d s = (ist', r) → Ext ist ist')

theorem idealOK (t : Tree) (n : Nat) : IdealOK t n := by
  induction n with
  | zero =>
    refine ⟨fun ist p ist' r h => ?_, fun ist d self body ist' r h => ?_, fun ist d s ist' r h => ?_⟩
    · rw [idealLoad] at h; cases h; simp [Ext.refl]
    · rw [idealBody] at h; cases h; exact Ext.refl _
    · rw [idealResolve] at h; cases h; exact Ext.refl _
  | succ n ih =>
    obtain ⟨ihL, ihB, ihR⟩ := ih
    refine ⟨fun ist p ist' r h => ?_, fun ist d self body ist' r h => ?_, fun ist d s ist' r h => ?_⟩
    · rw [idealLoad] at h
      split at h
      · cases h; rename_i id hm; simp [Ext.refl, hm]
      rename_i hm
      have hmono : ∀ (m : List (Path × Nat)), (∀ q i, alookup ist.mods q = some i → alookup m q = some i) →
          ∀ q i, alookup ist.mods q = some i → alookup (ainsert m p ist.next) q = some i := by
        intro m hmm q i hq
        simp only [alookup_ainsert]
        split
        · rename_i e; have : p = q := by simpa using e
          subst this; rw [hm] at hq; cases hq
        · exact hmm q i hq
      split at h
      · cases h; simp [Ext.refl]
      rename_i hle
      split at h
      · cases h; rename_i hf; exact ⟨Ext.refl _, by simp, fun _ => ⟨rfl, hf, by simpa using hle⟩⟩
      · cases h; simp [Ext.refl]
      · cases h; simp [Ext.refl]
      · cases h
        refine ⟨⟨⟨[], by simp⟩, hmono _ (fun _ _ h => h)⟩, ?_, ?_⟩
        · intro id hid; simp at hid; subst hid; simp [alookup_ainsert]
        · intro hc; cases hc
      · simp only [] at h
        split at h
        · rename_i ist2 hbody
          cases h
          have hb := ihB _ _ _ _ _ _ hbody
          refine ⟨⟨?_, ?_⟩, ?_, ?_⟩
          · obtain ⟨l, hl⟩ := hb.log
            exact ⟨Ev.enter p ist.next :: l, by rw [hl]; simp [ISt.emit]⟩
          · intro q i hq
            exact hb.mods q i (hmono _ (fun _ _ h => h) q i hq)
          · intro id hid; simp at hid; subst hid
            exact hb.mods _ _ (by simp [ISt.emit, alookup_ainsert])
          · intro hc; cases hc
        · rename_i ist2 e hbody
          cases h
          have hb := ihB _ _ _ _ _ _ hbody
          refine ⟨⟨?_, ?_⟩, ?_, ?_⟩
          · obtain ⟨l, hl⟩ := hb.log
            exact ⟨Ev.enter p ist.next :: l, by rw [hl]; simp [ISt.emit]⟩
          · intro q i hq
            simp only [alookup_aerase]
            split
            · rename_i e; have : p = q := by simpa using e
              subst this; rw [hm] at hq; cases hq
            · exact hb.mods q i (hmono _ (fun _ _ h => h) q i hq)
          · intro id hid; cases hid
          · intro hc; cases hc
    · cases body with
      | nil => rw [idealBody] at h; cases h; exact Ext.refl _
      | cons a rest =>
        cases a with
        | set tag =>
          rw [idealBody] at h
          have e := ihB _ _ _ _ _ _ h
          exact ⟨by simpa using e.log, e.mods⟩
        | throw tok => rw [idealBody] at h; cases h; exact Ext.refl _
        | req sp caught =>
          rw [idealBody] at h
          split at h
          · rename_i ist1 id hr
            exact (ihR _ _ _ _ _ hr).trans ((Ext_emit _ _).trans (ihB _ _ _ _ _ _ h))
          · rename_i ist1 e hr
            split at h
            · exact (ihR _ _ _ _ _ hr).trans ((Ext_emit _ _).trans (ihB _ _ _ _ _ _ h))
            · cases h; exact ihR _ _ _ _ _ hr
          · rename_i ist1 hr
            cases h; exact ihR _ _ _ _ _ hr
    · rw [idealResolve] at h
      have hpick : ∀ (ist0 : ISt) cands ist' r,
          (match tryList (idealLoad t n) ist0 cands with
            | (st, .none) => (st, .err .invalidModule)
            | r => r) = (ist', r) → Ext ist0 ist' := by
        intro ist0 cands ist' r h
        split at h
        · rename_i st hr; cases h
          exact Ext_tryList (fun a b c d hh => (ihL a b c d hh).1) _ _ _ _ hr
        · rename_i hr
          exact Ext_tryList (fun a b c d hh => (ihL a b c d hh).1) _ _ _ _ h
      simp only [] at h
      split at h
      · exact hpick _ _ _ _ h
      · split at h
        · rename_i ist1 r1 hn
          cases h
          exact Ext_idealNative _ _ _ _ _ hn
        · rename_i ist1 hn
          exact (Ext_idealNative _ _ _ _ _ hn).trans (hpick _ _ _ _ h)

theorem Hit.mono {t : Tree} {m m' : List (Path × Nat)} {cs : List Path} {id : Nat} (h : Hit t m cs id)
    (hm : ∀ p i, alookup m p = some i → alookup m' p = some i) : Hit t m' cs id := by
  obtain ⟨pre, f, post, h1, h2, h3⟩ := h
  exact ⟨pre, f, post, h1, h2, hm _ _ h3⟩

/-- a successful search of the cache-free semantics ends in a state in which the candidate list hits -/
theorem tryList_found_hit {t : Tree} {n : Nat} (ist : ISt) (cs : List Path) (ist' : ISt) (id : Nat)
    (h : tryList (idealLoad t n) ist cs = (ist', .found id)) : Hit t ist'.mods cs id := by
  induction cs generalizing ist with
  | nil => simp [tryList] at h
  | cons c cs ih =>
    simp only [tryList] at h
    rcases h1 : idealLoad t n ist c with ⟨ist1, r1⟩
    have hL := (idealOK t n).1 _ _ _ _ h1
    rw [h1] at h
    cases r1 with
    | none =>
      obtain ⟨rfl, hmiss⟩ := hL.2.2 rfl
      obtain ⟨pre, f, post, e1, e2, e3⟩ := ih _ h
      refine ⟨c :: pre, f, post, by simp [e1], ?_, e3⟩
      intro c' hc'
      rcases List.mem_cons.mp hc' with rfl | hc'
      · exact hmiss
      · exact e2 _ hc'
    | found id' =>
      cases h
      exact ⟨[], c, cs, rfl, by simp, hL.2.1 _ rfl⟩
    | err e => cases h

theorem idealLoad_missing {t : Tree} {n : Nat} {ist : ISt} {c : Path} (hm : Missing t c)
    (hk : alookup ist.mods c = none) : idealLoad t (n + 1) ist c = (ist, .none) := by
  rw [idealLoad, hk]
  simp only [hm.2, hm.1, Bool.false_eq_true, if_false]

/-- a hit: the search of the cache-free semantics finds the module and changes nothing -/
theorem hit_tryList {t : Tree} {n : Nat} {ist : ISt} {cs : List Path} {id : Nat}
    (hk : ∀ p id, alookup ist.mods p = some id → (alookup t.file p).isSome = true ∧ t.loadErr.contains p = false)
    (h : Hit t ist.mods cs id) : tryList (idealLoad t (n + 1)) ist cs = (ist, .found id) := by
  obtain ⟨pre, f, post, rfl, h2, h3⟩ := h
  induction pre with
  | nil =>
    simp only [List.nil_append, tryList]
    rw [idealLoad, h3]
  | cons c pre ih =>
    simp only [List.cons_append, tryList]
    have hm := h2 c (by simp)
    have : alookup ist.mods c = none := by
      cases hc : alookup ist.mods c with
      | none => rfl
      | some i => have := (hk c i hc).1; rw [hm.1] at this; cases this
    rw [idealLoad_missing hm this]
    exact ih (fun c' hc' => h2 c' (by simp [hc']))

theorem hit_tryList_zero {t : Tree} {ist : ISt} {cs : List Path} {id : Nat} {m : List (Path × Nat)}
    (h : Hit t m cs id) : tryList (idealLoad t 0) ist cs = (ist, .err .outOfFuel) := by
  obtain ⟨pre, f, post, rfl, h2, h3⟩ := h
  cases pre <;> simp [tryList, idealLoad]

/-! ### the simulation -/

def FuelLogged (log : List Ev) : Prop := ∃ e ∈ log, e = .topErr .outOfFuel ∨ ∃ s, e = .caught s .outOfFuel

theorem FuelLogged.ext {a b : ISt} (h : FuelLogged a.log) (e : Ext a b) : FuelLogged b.log := by
  obtain ⟨l, hl⟩ := e.log
  obtain ⟨x, hx, hx'⟩ := h
  exact ⟨x, by rw [hl]; exact List.mem_append_left _ hx, hx'⟩

/-- outcome of a simulation step: the reference run is out of fuel, or has logged a fuel error, or both runs agree -/
def Out {ρ : Type} (t : Tree) (bad : ρ) (c : St × ρ) (i : ISt × ρ) : Prop :=
  i.2 = bad ∨ FuelLogged i.1.log ∨ (c.2 = i.2 ∧ R t c.1 i.1)

theorem tryList_sim {t : Tree} {n : Nat}
    (hs : ∀ st ist p, R t st ist → Out t (.err .outOfFuel) (loadModule t n st p) (idealLoad t n ist p))
    (st : St) (ist : ISt) (cs : List Path) (hR : R t st ist) :
    Out t (.err .outOfFuel) (tryList (loadModule t n) st cs) (tryList (idealLoad t n) ist cs) := by
  induction cs generalizing st ist with
  | nil => right; right; exact ⟨rfl, hR⟩
  | cons c cs ih =>
    simp only [tryList]
    have h1 := hs st ist c hR
    rcases hc : loadModule t n st c with ⟨st1, r1⟩
    rcases hi : idealLoad t n ist c with ⟨ist1, r1'⟩
    rw [hc, hi] at h1
    rcases h1 with h1 | h1 | ⟨h1, h2⟩
    · simp only at h1; subst h1; left; rfl
    · simp only at h1
      right; left
      cases r1' with
      | none =>
        simp only []
        rcases h3 : tryList (idealLoad t n) ist1 cs with ⟨ist2, r2⟩
        exact h1.ext (Ext_tryList (fun a b c d hh => ((idealOK t n).1 a b c d hh).1) _ _ _ _ h3)
      | found id => exact h1
      | err e => exact h1
    · simp only at h1 h2
      subst h1
      cases r1 with
      | none => exact ih st1 ist1 h2
      | found id => right; right; exact ⟨rfl, h2⟩
      | err e => right; right; exact ⟨rfl, h2⟩

theorem R_change {t : Tree} {st : St} {ist : ISt} (h : R t st ist) (st' : St) (ist' : ISt)
    (hmods : ∀ q, alookup st'.modules q = alookup ist'.mods q)
    (hexp : st'.exports = ist'.exports) (hfo : st'.fileOf = ist'.fileOf) (hnext : st'.next = ist'.next)
    (hlog : st'.log.filter (fun e => !e.isLoad) = ist'.log)
    (hnat : st'.native = st.native) (hnats : ist'.natives = ist.natives)
    (hres : ∀ x ∈ st'.resolved, x ∈ st.resolved) (hnm : ∀ x ∈ st'.nodeMods, x ∈ st.nodeMods)
    (hmono : ∀ q i, alookup ist.mods q = some i → alookup ist'.mods q = some i)
    (hkeys : ∀ q i, alookup ist'.mods q = some i →
      alookup ist.mods q = some i ∨ ((alookup t.file q).isSome = true ∧ t.loadErr.contains q = false))
    (hcomp : ∀ q, st'.compiled.contains q = true → st.compiled.contains q = true ∨ t.loadErr.contains q = false) :
    R t st' ist' := by
  constructor
  · exact hmods
  · exact hexp
  · exact hfo
  · exact hnext
  · exact hlog
  · rw [hnat, hnats]; exact h.n1
  · rw [hnat, hnats]; exact h.n2
  · intro p id hx; exact (h.res p id (hres _ hx)).mono hmono
  · intro s n id hx; exact (h.nm s n id (hnm _ hx)).mono hmono
  · intro q i hq
    rcases hkeys q i hq with h1 | h1
    · exact h.keys q i h1
    · exact h1
  · intro q hq
    rcases hcomp q hq with h1 | h1
    · exact h.comp q h1
    · exact h1

theorem R_emit {t : Tree} {st : St} {ist : ISt} (h : R t st ist) (e : Ev) (he : e.isLoad = false) :
    R t (st.emit e) (ist.emit e) := by
  refine R_change h _ _ h.mods h.exports h.fileOf h.next ?_ rfl rfl (fun _ h => h) (fun _ h => h)
    (fun _ _ h => h) (fun _ _ h => .inl h) (fun _ h => .inl h)
  simp only [St.emit, ISt.emit, filter_emit _ _ he, h.log]

theorem R_forget {t : Tree} {st : St} {ist : ISt} (h : R t st ist) (p : Path) (id : Nat)
    (hp : alookup ist.mods p = some id) :
    R t (st.forget p id) { ist with mods := aerase ist.mods p } := by
  have hit : ∀ cs i, i ≠ id → Hit t ist.mods cs i → Hit t (aerase ist.mods p) cs i := by
    intro cs i hi ⟨pre, f, post, h1, h2, h3⟩
    refine ⟨pre, f, post, h1, h2, ?_⟩
    rw [alookup_aerase]
    split
    · rename_i e
      have : p = f := by simpa using e
      subst this
      rw [hp] at h3
      exact absurd (by simpa using h3 : id = i).symm hi
    · exact h3
  constructor
  · intro q; simp only [St.forget, alookup_aerase, h.mods]
  · exact h.exports
  · exact h.fileOf
  · exact h.next
  · exact h.log
  · exact h.n1
  · exact h.n2
  · intro q i hx
    simp only [St.forget, List.mem_filter, bne_iff_ne, ne_eq] at hx
    exact hit _ _ hx.2 (h.res q i hx.1)
  · intro s n i hx
    simp only [St.forget, List.mem_filter, bne_iff_ne, ne_eq] at hx
    exact hit _ _ hx.2 (h.nm s n i hx.1)
  · intro q i hq
    simp only [alookup_aerase] at hq
    split at hq
    · cases hq
    · exact h.keys q i hq
  · exact h.comp

theorem R_resolved {t : Tree} {st : St} {ist : ISt} (h : R t st ist) (p : Path) (id : Nat)
    (hit : Hit t ist.mods (fodCands (envOf t) p) id) :
    R t { st with resolved := ainsert st.resolved p id } ist := by
  constructor
  · exact h.mods
  · exact h.exports
  · exact h.fileOf
  · exact h.next
  · exact h.log
  · exact h.n1
  · exact h.n2
  · intro q i hx
    rcases mem_ainsert _ _ _ _ hx with e | e
    · cases e; exact hit
    · exact h.res q i e
  · exact h.nm
  · exact h.keys
  · exact h.comp

theorem R_nodeMods {t : Tree} {st : St} {ist : ISt} (h : R t st ist) (s : Path) (n : String) (id : Nat)
    (hit : Hit t ist.mods (nmCands (envOf t) (s.length + 2) n s) id) :
    R t { st with nodeMods := ainsert st.nodeMods (s, n) id } ist := by
  constructor
  · exact h.mods
  · exact h.exports
  · exact h.fileOf
  · exact h.next
  · exact h.log
  · exact h.n1
  · exact h.n2
  · exact h.res
  · intro s' n' i hx
    rcases mem_ainsert _ _ _ _ hx with e | e
    · cases e; exact hit
    · exact h.nm s' n' i e
  · exact h.keys
  · exact h.comp

def LoadSim (t : Tree) (n : Nat) : Prop :=
  ∀ st ist p, R t st ist → Out t (.err .outOfFuel) (loadModule t n st p) (idealLoad t n ist p)
def BodySim (t : Tree) (n : Nat) : Prop :=
  ∀ st ist d self body, R t st ist →
    Out t (some .outOfFuel) (runBody t n st d self body) (idealBody t n ist d self body)
def ResSim (t : Tree) (n : Nat) : Prop :=
  ∀ st ist d s, R t st ist → Out t (.err .outOfFuel) (resolve t n st d s) (idealResolve t n ist d s)

theorem idealBody_ext {t : Tree} {n : Nat} {ist : ISt} {d : Path} {self : Nat} {body : List Act} :
    Ext ist (idealBody t n ist d self body).1 :=
  (idealOK t n).2.1 ist d self body _ _ rfl

theorem body_sim {t : Tree} {n : Nat} (hB : BodySim t n) (hRes : ResSim t n) : BodySim t (n + 1) := by
  intro st ist d self body hR
  cases body with
  | nil => rw [runBody, idealBody]; right; right; exact ⟨rfl, hR⟩
  | cons a rest =>
    cases a with
    | set tag =>
      rw [runBody, idealBody]
      apply hB
      refine R_change hR _ _ hR.mods ?_ hR.fileOf hR.next hR.log rfl rfl (fun _ h => h) (fun _ h => h)
        (fun _ _ h => h) (fun _ _ h => .inl h) (fun _ h => .inl h)
      simp [St.tags, ISt.tags, hR.exports]
    | throw tok => rw [runBody, idealBody]; right; right; exact ⟨rfl, hR⟩
    | req sp caught =>
      rw [runBody, idealBody]
      have h1 := hRes st ist d sp hR
      rcases hc : resolve t n st d sp with ⟨st1, r1⟩
      rcases hi : idealResolve t n ist d sp with ⟨ist1, r1'⟩
      rw [hc, hi] at h1
      rcases h1 with h1 | h1 | ⟨h1, h2⟩
      · simp only at h1; subst h1
        simp only []
        cases caught with
        | false => left; rfl
        | true =>
          right; left
          simp only [if_true]
          refine FuelLogged.ext ?_ idealBody_ext
          exact ⟨.caught sp .outOfFuel, by simp [ISt.emit], .inr ⟨sp, rfl⟩⟩
      · simp only at h1
        right; left
        cases r1' with
        | found id => exact (h1.ext (Ext_emit _ _)).ext idealBody_ext
        | err e =>
          simp only []
          split
          · exact (h1.ext (Ext_emit _ _)).ext idealBody_ext
          · exact h1
        | none => exact h1
      · simp only at h1 h2
        subst h1
        cases r1 with
        | found id =>
          simp only []
          rw [h2.fileOf, show st1.tags id = ist1.tags id by simp [St.tags, ISt.tags, h2.exports]]
          exact hB _ _ _ _ _ (R_emit h2 _ rfl)
        | err e =>
          simp only []
          split
          · exact hB _ _ _ _ _ (R_emit h2 _ rfl)
          · right; right; exact ⟨rfl, h2⟩
        | none => right; right; exact ⟨rfl, h2⟩

theorem cached_sim {t : Tree} {n : Nat} {st : St} {ist : ISt} (hR : R t st ist) (cs : List Path) (id : Nat)
    (hit : Hit t ist.mods cs id) :
    Out t (.err .outOfFuel) (st, .found id)
      (match tryList (idealLoad t n) ist cs with
        | (st, .none) => (st, .err .invalidModule)
        | r => r) := by
  cases n with
  | zero => rw [hit_tryList_zero hit]; left; rfl
  | succ n => rw [hit_tryList hR.keys hit]; right; right; exact ⟨rfl, hR⟩

theorem search_sim {t : Tree} {n : Nat} (hL : LoadSim t n) {st : St} {ist : ISt} (hR : R t st ist) (cs : List Path)
    (ins : St → Nat → St) (hins : ∀ st' ist' id, R t st' ist' → Hit t ist'.mods cs id → R t (ins st' id) ist')
    (c : St × Res ErrTok) (hc : tryList (loadModule t n) st cs = c) :
    Out t (.err .outOfFuel)
      (match c with
        | (st, .found id) => (ins st id, .found id)
        | (st, .none) => (st, .err .invalidModule)
        | r => r)
      (match tryList (idealLoad t n) ist cs with
        | (st, .none) => (st, .err .invalidModule)
        | r => r) := by
  have h1 := tryList_sim hL st ist cs hR
  rw [hc] at h1
  rcases c with ⟨st1, r1⟩
  rcases hi : tryList (idealLoad t n) ist cs with ⟨ist1, r1'⟩
  rw [hi] at h1
  rcases h1 with h1 | h1 | ⟨h1, h2⟩
  · simp only at h1; subst h1; left; rfl
  · simp only at h1; right; left
    cases r1' <;> exact h1
  · simp only at h1 h2
    subst h1
    right; right
    cases r1 with
    | found id => exact ⟨rfl, hins _ _ _ h2 (tryList_found_hit _ _ _ _ hi)⟩
    | none => exact ⟨rfl, h2⟩
    | err e => exact ⟨rfl, h2⟩

theorem res_sim {t : Tree} {n : Nat} (hL : LoadSim t n) : ResSim t (n + 1) := by
  intro st ist d s hR
  rw [resolve, idealResolve]
  simp only [loadAsFileOrDirectory_eq, loadNodeModules_eq]
  generalize (if isAbs s = true then "" else d) = start
  split
  · -- a file or directory path
    cases hres : alookup st.resolved (join start s) with
    | some id => exact cached_sim hR _ id (hR.res _ _ (alookup_mem _ _ _ hres))
    | none =>
      simp only []
      rcases hc : tryList (loadModule t n) st (fodCands (envOf t) (join start s)) with ⟨st1, r1⟩
      have := search_sim hL hR (fodCands (envOf t) (join start s))
        (fun st id => { st with resolved := ainsert st.resolved (join start s) id })
        (fun st' ist' id h1 h2 => R_resolved h1 _ _ h2) _ hc
      cases r1 <;> exact this
  · -- a bare name
    cases hno : nativeOf t s with
    | inr u =>
      obtain ⟨h1, h2⟩ := native_sim_inr hR s hno
      rw [h1, h2]
      right; right; exact ⟨rfl, hR⟩
    | inl o =>
      cases o with
      | some l =>
        obtain ⟨st', ist', id, h1, h2, h3, _⟩ := native_sim_some hR s l hno
        rw [h1, h2]
        right; right; exact ⟨rfl, h3⟩
      | none =>
        obtain ⟨h1, h2⟩ := native_sim_none hR s hno
        rw [h1, h2]
        simp only []
        cases hres : alookup st.nodeMods (start, s) with
        | some id => exact cached_sim hR _ id (hR.nm _ _ _ (alookup_mem _ _ _ hres))
        | none =>
          simp only []
          rcases hc : tryList (loadModule t n) st (nmCands (envOf t) (start.length + 2) s start) with ⟨st1, r1⟩
          have := search_sim hL hR (nmCands (envOf t) (start.length + 2) s start)
            (fun st id => { st with nodeMods := ainsert st.nodeMods (start, s) id })
            (fun st' ist' id h1 h2 => R_nodeMods h1 _ _ _ h2) _ hc
          cases r1 <;> exact this

/-- a module object that was cached and is forgotten again before anything observable happened -/
theorem R_fail {t : Tree} {st : St} {ist : ISt} (hR : R t st ist) {p : Path} (hm : alookup ist.mods p = none)
    (id : Nat) (st0 : St)
    (h1 : st0.modules = ainsert st.modules p id) (h2 : st0.native = st.native) (h3 : st0.resolved = st.resolved)
    (h4 : st0.nodeMods = st.nodeMods)
    (h5 : ∀ q, st0.compiled.contains q = true → st.compiled.contains q = true ∨ t.loadErr.contains q = false)
    (h6 : st0.exports = st.exports) (h7 : st0.fileOf = st.fileOf) (h8 : st0.next = ist.next)
    (h9 : st0.log.filter (fun e => !e.isLoad) = st.log.filter (fun e => !e.isLoad)) :
    R t (st0.forget p id) ist := by
  refine R_change hR _ _ ?_ (h6.trans hR.exports) (h7.trans hR.fileOf) h8 (h9.trans hR.log) h2 rfl
    ?_ ?_ (fun _ _ h => h) (fun _ _ h => .inl h) h5
  · intro q
    simp only [St.forget, h1, alookup_aerase, alookup_ainsert]
    split
    · rename_i e
      have : p = q := by simpa using e
      subst this; exact hm.symm
    · exact hR.mods q
  · intro x hx
    simp only [St.forget, h3, List.mem_filter] at hx
    exact hx.1
  · intro x hx
    simp only [St.forget, h4, List.mem_filter] at hx
    exact hx.1

/-- a new module is cached under its file -/
theorem R_enter {t : Tree} {st : St} {ist : ISt} (hR : R t st ist) {p : Path} (hm : alookup ist.mods p = none)
    (hf : (alookup t.file p).isSome = true) (hle : t.loadErr.contains p = false) (st1 : St) (ist1 : ISt)
    (h1 : st1.modules = ainsert st.modules p ist.next) (i1 : ist1.mods = ainsert ist.mods p ist.next)
    (h2 : st1.native = st.native) (i2 : ist1.natives = ist.natives) (h3 : st1.resolved = st.resolved)
    (h4 : st1.nodeMods = st.nodeMods)
    (h5 : ∀ q, st1.compiled.contains q = true → st.compiled.contains q = true ∨ t.loadErr.contains q = false)
    (h6 : st1.exports = ist1.exports) (h7 : st1.fileOf = ist1.fileOf) (h8 : st1.next = ist1.next)
    (h9 : st1.log.filter (fun e => !e.isLoad) = ist1.log) : R t st1 ist1 := by
  refine R_change hR _ _ ?_ h6 h7 h8 h9 h2 i2 (by rw [h3]; exact fun _ h => h) (by rw [h4]; exact fun _ h => h)
    ?_ ?_ h5
  · intro q
    simp only [h1, i1, alookup_ainsert, hR.mods]
  · intro q i hq
    simp only [i1, alookup_ainsert]
    split
    · rename_i e
      have : p = q := by simpa using e
      subst this; rw [hm] at hq; cases hq
    · exact hq
  · intro q i hq
    simp only [i1, alookup_ainsert] at hq
    split at hq
    · rename_i e
      have : p = q := by simpa using e
      subst this; exact .inr ⟨hf, hle⟩
    · exact .inl hq

theorem js_sim {t : Tree} {n : Nat} (hB : BodySim t n) {st1 : St} {ist1 : ISt} (hR1 : R t st1 ist1) {p : Path}
    {id : Nat} (hp1 : alookup ist1.mods p = some id) (d : Path) (body : List Act)
    (c : St × Option ErrTok) (hc : runBody t n st1 d id body = c)
    (i : ISt × Option ErrTok) (hi : idealBody t n ist1 d id body = i) :
    Out t (Res.err ErrTok.outOfFuel)
      (match c with
        | (st, none) => (st, Res.found id)
        | (st, some e) => (st.forget p id, Res.err e))
      (match i with
        | (st, none) => (st, Res.found id)
        | (st, some e) => ({ st with mods := aerase st.mods p }, Res.err e)) := by
  have h1 := hB st1 ist1 d id body hR1
  have hext : Ext ist1 i.1 := by rw [← hi]; exact idealBody_ext
  rw [hc, hi] at h1
  rcases c with ⟨st2, r2⟩
  rcases i with ⟨ist2, r2'⟩
  rcases h1 with h1 | h1 | ⟨h1, h2⟩
  · simp only at h1; subst h1; left; rfl
  · simp only at h1; right; left
    cases r2' <;> exact h1
  · simp only at h1 h2
    subst h1
    right; right
    cases r2 with
    | none => exact ⟨rfl, h2⟩
    | some e => exact ⟨rfl, R_forget h2 p id (hext.mods _ _ hp1)⟩

theorem comp_cons {t : Tree} {p : Path} {c : List Path} (hle : t.loadErr.contains p = false) :
    ∀ q, (p :: c).contains q = true → c.contains q = true ∨ t.loadErr.contains q = false := by
  intro q hq
  simp only [List.contains_cons, Bool.or_eq_true, beq_iff_eq] at hq
  rcases hq with e | hq
  · subst e; exact .inr hle
  · exact .inl hq

theorem load_sim {t : Tree} {n : Nat} (hB : BodySim t n) : LoadSim t (n + 1) := by
  intro st ist p hR
  rw [loadModule, idealLoad, hR.mods p]
  cases hm : alookup ist.mods p with
  | some id => right; right; exact ⟨rfl, hR⟩
  | none =>
    simp only [hR.next]
    cases hcached : st.compiled.contains p
    · -- the loader is consulted
      simp only [Bool.false_eq_true, if_false, Bool.not_false, Bool.true_and]
      cases hle : t.loadErr.contains p
      · simp only [Bool.false_eq_true, if_false]
        cases hf : alookup t.file p with
        | none =>
          right; right
          exact ⟨rfl, R_fail hR hm _ _ rfl rfl rfl rfl (fun _ h => .inl h) rfl rfl rfl (filter_emit_load _ _)⟩
        | some k =>
          cases k with
          | bad =>
            right; right
            exact ⟨rfl, R_fail hR hm _ _ rfl rfl rfl rfl (fun _ h => .inl h) rfl rfl rfl (filter_emit_load _ _)⟩
          | jsonBad =>
            right; right
            exact ⟨rfl, R_fail hR hm _ _ rfl rfl rfl rfl (comp_cons hle) rfl rfl rfl (filter_emit_load _ _)⟩
          | jsonOk =>
            right; right
            refine ⟨rfl, R_enter hR hm (by simp [hf]) hle _ _ rfl rfl rfl rfl rfl rfl (comp_cons hle) hR.exports
              hR.fileOf rfl ?_⟩
            exact (filter_emit_load _ _).trans hR.log
          | js body =>
            simp only []
            split <;> rename_i hc <;> split <;> rename_i hi <;>
            · refine js_sim (p := p) hB ?_ ?_ _ _ _ hc _ hi
              · refine R_enter hR hm (by simp [hf]) hle _ _ rfl rfl rfl rfl rfl rfl (comp_cons hle) hR.exports
                  (congrArg (fun f => ainsert f ist.next p) hR.fileOf) rfl ?_
                simp only [St.emit, ISt.emit, filter_emit _ _ (rfl : (Ev.enter p ist.next).isLoad = false),
                  filter_emit_load, hR.log]
              · simp [ISt.emit, alookup_ainsert]
      · simp only [if_true]
        right; right
        exact ⟨rfl, R_fail hR hm _ _ rfl rfl rfl rfl (fun _ h => .inl h) rfl rfl rfl (filter_emit_load _ _)⟩
    · -- a compiled program is cached
      have hle := hR.comp p hcached
      simp only [if_true, Bool.not_true, Bool.false_and, Bool.false_eq_true, if_false, hle]
      cases hf : alookup t.file p with
      | none =>
        right; right
        exact ⟨rfl, R_fail hR hm _ _ rfl rfl rfl rfl (fun _ h => .inl h) rfl rfl rfl rfl⟩
      | some k =>
        cases k with
        | bad =>
          right; right
          exact ⟨rfl, R_fail hR hm _ _ rfl rfl rfl rfl (fun _ h => .inl h) rfl rfl rfl rfl⟩
        | jsonBad =>
          right; right
          exact ⟨rfl, R_fail hR hm _ _ rfl rfl rfl rfl (fun _ h => .inl h) rfl rfl rfl rfl⟩
        | jsonOk =>
          right; right
          exact ⟨rfl, R_enter hR hm (by simp [hf]) hle _ _ rfl rfl rfl rfl rfl rfl (fun _ h => .inl h) hR.exports
            hR.fileOf rfl hR.log⟩
        | js body =>
          simp only []
          split <;> rename_i hc <;> split <;> rename_i hi <;>
          · refine js_sim (p := p) hB ?_ ?_ _ _ _ hc _ hi
            · refine R_enter hR hm (by simp [hf]) hle _ _ rfl rfl rfl rfl rfl rfl (fun _ h => .inl h) hR.exports
                (congrArg (fun f => ainsert f ist.next p) hR.fileOf) rfl ?_
              simp only [St.emit, ISt.emit, filter_emit _ _ (rfl : (Ev.enter p ist.next).isLoad = false),
                  hR.log]
            · simp [ISt.emit, alookup_ainsert]

theorem sim_all (t : Tree) (n : Nat) : LoadSim t n ∧ BodySim t n ∧ ResSim t n := by
  induction n with
  | zero =>
    refine ⟨fun st ist p _ => ?_, fun st ist d self body _ => ?_, fun st ist d s _ => ?_⟩
    · rw [loadModule, idealLoad]; left; rfl
    · rw [runBody, idealBody]; left; rfl
    · rw [resolve, idealResolve]; left; rfl
  | succ n ih => exact ⟨load_sim ih.2.1, body_sim ih.2.1 ih.2.2, res_sim ih.1⟩

theorem Ext_idealTop (t : Tree) (ist : ISt) (c : TopCall) : Ext ist (idealTop t ist c) := by
  unfold idealTop
  simp only []
  split
  · rename_i h; exact ((idealOK t topFuel).2.2 _ _ _ _ _ h).trans (Ext_emit _ _)
  · rename_i h; exact ((idealOK t topFuel).2.2 _ _ _ _ _ h).trans (Ext_emit _ _)
  · rename_i h; exact ((idealOK t topFuel).2.2 _ _ _ _ _ h).trans (Ext_emit _ _)

theorem Ext_idealHistory (t : Tree) (calls : List TopCall) (ist : ISt) :
    Ext ist (calls.foldl (idealTop t) ist) := by
  induction calls generalizing ist with
  | nil => exact Ext.refl _
  | cons c cs ih => exact (Ext_idealTop t ist c).trans (ih _)

theorem top_sim {t : Tree} {st : St} {ist : ISt} (hR : R t st ist) (c : TopCall) :
    FuelLogged (idealTop t ist c).log ∨ R t (runTop t st c) (idealTop t ist c) := by
  rcases c with ⟨script, sp⟩
  have key : ∀ curDir : Path,
      FuelLogged (match idealResolve t topFuel ist curDir sp with
        | (st, .found id) => st.emit (.top id (alookup st.fileOf id) (st.tags id))
        | (st, .err e) => st.emit (.topErr e)
        | (st, .none) => st.emit (.topErr .invalidModule)).log ∨
      R t (match resolve t topFuel st curDir sp with
        | (st, .found id) => st.emit (.top id (alookup st.fileOf id) (st.tags id))
        | (st, .err e) => st.emit (.topErr e)
        | (st, .none) => st.emit (.topErr .invalidModule))
        (match idealResolve t topFuel ist curDir sp with
        | (st, .found id) => st.emit (.top id (alookup st.fileOf id) (st.tags id))
        | (st, .err e) => st.emit (.topErr e)
        | (st, .none) => st.emit (.topErr .invalidModule)) := by
    intro curDir
    have h1 := (sim_all t topFuel).2.2 st ist curDir sp hR
    rcases hc : resolve t topFuel st curDir sp with ⟨st1, r1⟩
    rcases hi : idealResolve t topFuel ist curDir sp with ⟨ist1, r1'⟩
    rw [hc, hi] at h1
    rcases h1 with h1 | h1 | ⟨h1, h2⟩
    · simp only at h1; subst h1
      left
      exact ⟨.topErr .outOfFuel, by simp [ISt.emit], .inl rfl⟩
    · simp only at h1
      left
      cases r1' <;> exact h1.ext (Ext_emit _ _)
    · simp only at h1 h2
      subst h1
      right
      cases r1 with
      | found id =>
        simp only []
        rw [h2.fileOf, show st1.tags id = ist1.tags id by simp [St.tags, ISt.tags, h2.exports]]
        exact R_emit h2 _ rfl
      | err e => exact R_emit h2 _ rfl
      | none => exact R_emit h2 _ rfl
  cases script with
  | none => exact key "."
  | some s => exact key (dir s)

theorem hist_sim {t : Tree} (calls : List TopCall) {st : St} {ist : ISt} (hR : R t st ist) :
    FuelLogged (calls.foldl (idealTop t) ist).log ∨
      R t (calls.foldl (runTop t) st) (calls.foldl (idealTop t) ist) := by
  induction calls generalizing st ist with
  | nil => exact .inr hR
  | cons c cs ih =>
    simp only [List.foldl_cons]
    rcases top_sim hR c with h | h
    · exact .inl (h.ext (Ext_idealHistory t cs _))
    · exact ih h

theorem R_init (t : Tree) : R t {} {} := by
  constructor <;> simp [alookup]

/-- the run mentions no exhausted fuel -/
def NoFuelErr (log : List Ev) : Prop :=
  ∀ e ∈ log, e ≠ .topErr .outOfFuel ∧ ∀ s, e ≠ .caught s .outOfFuel

/-- **Cache transparency**: with its four caches, the code produces exactly the observable log of the cache-free
reference semantics (loader-call events aside, which the reference semantics does not have). -/
theorem cache_transparent (t : Tree) (calls : List TopCall)
    (hfuel : NoFuelErr (idealHistory t calls).log) :
    (runHistory t calls).log.filter (fun e => !e.isLoad) = (idealHistory t calls).log := by
  rcases hist_sim calls (R_init t) with h | h
  · obtain ⟨e, he, h'⟩ := h
    have := hfuel e he
    rcases h' with h' | ⟨s, h'⟩
    · exact absurd h' this.1
    · exact absurd h' (this.2 s)
  · exact h.log

/-! ### regression: a native module registered under the alias name of a core module -/

namespace CacheCex
deriving instance DecidableEq for Ev
end CacheCex

/-- core module `fs`, and a registry-native module registered as `node:fs` -/
def aliasCexTree : Tree :=
  { file := [], loadErr := [], pkgMain := [], globalFolders := [], regNative := ["node:fs"], globNative := [],
    core := ["fs"] }

/-- the history on which the code used to differ from the reference semantics (`require("fs")` made `node:fs` an
alias of the core module although a native module is registered under that name): both logs, explicitly -/
theorem alias_regression :
    (runHistory aliasCexTree [⟨none, "fs"⟩, ⟨none, "node:fs"⟩]).log.filter (fun e => !e.isLoad) =
      [.native "C" "fs" 0, .top 0 none [], .native "R" "node:fs" 1, .top 1 none []] ∧
    (idealHistory aliasCexTree [⟨none, "fs"⟩, ⟨none, "node:fs"⟩]).log =
      [.native "C" "fs" 0, .top 0 none [], .native "R" "node:fs" 1, .top 1 none []] := by
  decide +kernel

end GN.Require
