import GN.Require.Eval

/-!
# require(): the specification   [C01, C02, C15]

The reference semantics the properties describe, with **no request caches at all**: every request is resolved
from scratch by the CommonJS candidate list (C02), a file has one module identity for as long as it is in
progress or evaluated successfully (C01), a failed evaluation leaves nothing behind, and a bare or `node:` name
is looked up in the registration tables only (C15).
The model of the code (`GN.Require.Eval`, with its four caches) must produce the same observable log.
-/

namespace GN.Require
open GN

structure ISt where
  mods : List (Path × Nat) := []           -- file ↦ module, while in progress or successfully evaluated
  natives : List ((String × String) × Nat) := []   -- (table, registered name) ↦ instance
  exports : List (Nat × List String) := []
  fileOf : List (Nat × Path) := []
  next : Nat := 0
  log : List Ev := []
  deriving Repr, Inhabited

def ISt.emit (st : ISt) (e : Ev) : ISt := { st with log := st.log ++ [e] }
def ISt.tags (st : ISt) (id : Nat) : List String := (alookup st.exports id).getD []

/-- which registered loader a name denotes: registry-native, else global-native, else core;
    `node:X` means core `X` (or a core module registered with the prefix) and nothing else -/
def nativeOf (t : Tree) (name : String) : Option (String × String) ⊕ Unit :=
  -- inl (some l): loader l;  inl none: not a native/core name (fall through to files);  inr (): No such built-in module
  let pre := Generated.nodePrefix
  if t.regNative.contains name then .inl (some ("R", name))
  else if t.globNative.contains name then .inl (some ("G", name))
  else if t.core.contains name then .inl (some ("C", name))
  else if name.startsWith pre then
    let bare := (name.drop pre.length).toString
    if t.core.contains bare then .inl (some ("C", bare)) else .inr ()
  else .inl none

def idealNative (t : Tree) (st : ISt) (name : String) : ISt × Option (Res ErrTok) :=
  match nativeOf t name with
  | .inr () => (st, some (.err .noSuchBuiltin))
  | .inl none => (st, none)
  | .inl (some l) =>
    match alookup st.natives l with
    | some id => (st, some (.found id))
    | none =>
      let id := st.next
      (({ st with next := id + 1, natives := ainsert st.natives l id }).emit (.native l.1 l.2 id), some (.found id))

mutual

def idealLoad (t : Tree) : Nat → ISt → Path → ISt × Res ErrTok
  | 0, st, _ => (st, .err .outOfFuel)
  | fuel + 1, st, path =>
    match alookup st.mods path with
    | some id => (st, .found id)
    | none =>
      if t.loadErr.contains path then (st, .err .loaderError)
      else
        match alookup t.file path with
        | none => (st, .none)
        | some .bad => (st, .err .syntaxError)
        | some .jsonBad => (st, .err .jsonSyntax)
        | some .jsonOk =>
          let id := st.next
          ({ st with next := id + 1, mods := ainsert st.mods path id }, .found id)
        | some (.js body) =>
          let id := st.next
          let st := ({ st with next := id + 1, mods := ainsert st.mods path id,
                               fileOf := ainsert st.fileOf id path }).emit (.enter path id)
          match idealBody t fuel st (dir path) id body with
          | (st, none) => (st, .found id)
          | (st, some e) => ({ st with mods := aerase st.mods path }, .err e)

def idealBody (t : Tree) : Nat → ISt → Path → Nat → List Act → ISt × Option ErrTok
  | 0, st, _, _, _ => (st, some .outOfFuel)
  | _ + 1, st, _, _, [] => (st, none)
  | fuel + 1, st, curDir, self, a :: rest =>
    match a with
    | .set tag =>
      idealBody t fuel { st with exports := ainsert st.exports self (st.tags self ++ [tag]) } curDir self rest
    | .throw tok => (st, some (.thrown tok))
    | .req spelling caught =>
      match idealResolve t fuel st curDir spelling with
      | (st, .found id) =>
        idealBody t fuel (st.emit (.got spelling id (alookup st.fileOf id) (st.tags id))) curDir self rest
      | (st, .err e) =>
        if caught then idealBody t fuel (st.emit (.caught spelling e)) curDir self rest else (st, some e)
      | (st, .none) => (st, some .invalidModule)

def idealResolve (t : Tree) : Nat → ISt → Path → String → ISt × Res ErrTok
  | 0, st, _, _ => (st, .err .outOfFuel)
  | fuel + 1, st, curDir, modpath =>
    let env := envOf t
    let start := if isAbs modpath then "" else curDir
    let p := join start modpath
    let pick (st : ISt) (cands : List Path) : ISt × Res ErrTok :=
      match tryList (idealLoad t fuel) st cands with
      | (st, .none) => (st, .err .invalidModule)
      | r => r
    if isFileOrDirectoryPath modpath then pick st (fodCands env p)
    else
      match idealNative t st modpath with
      | (st, some r) => (st, r)
      | (st, none) => pick st (nmCands env (start.length + 2) modpath start)

end

def idealTop (t : Tree) (st : ISt) (c : TopCall) : ISt :=
  let curDir := match c.script with
    | some s => dir s
    | none => "."
  match idealResolve t topFuel st curDir c.spelling with
  | (st, .found id) => st.emit (.top id (alookup st.fileOf id) (st.tags id))
  | (st, .err e) => st.emit (.topErr e)
  | (st, .none) => st.emit (.topErr .invalidModule)

def idealHistory (t : Tree) (calls : List TopCall) : ISt := calls.foldl (idealTop t) {}

end GN.Require
