import GN.Basic

/-!
# A .json module is data   [C16]

`getCompiledSource` wraps the text of a `.json` file as
`module.exports = JSON.parse(<json.Marshal(text)>)` inside the usual function wrapper.
Model: `jsonQuote`, Go's `encoding/json` string encoder (with HTML escaping), on code points; and
`lexBody`, the ECMAScript double-quoted string literal grammar (escape sequences, no raw line terminators).
-/

namespace GN.Require.Json
open GN

def hexLower (n : Nat) : Char := if n < 10 then Char.ofNat (48 + n) else Char.ofNat (87 + n)

/-- `\uXXXX`, four lower-case hex digits -/
def uEscape (n : Nat) : List Char :=
  ['\\', 'u', hexLower (n / 4096 % 16), hexLower (n / 256 % 16), hexLower (n / 16 % 16), hexLower (n % 16)]

/-- what `appendString(dst, s, escapeHTML = true)` writes for one code point -/
def quoteChar (c : Char) : List Char :=
  if c = '"' then ['\\', '"']
  else if c = '\\' then ['\\', '\\']
  else if c = '\x08' then ['\\', 'b']
  else if c = '\x0c' then ['\\', 'f']
  else if c = '\n' then ['\\', 'n']
  else if c = '\r' then ['\\', 'r']
  else if c = '\t' then ['\\', 't']
  else if c.toNat < 0x20 || c = '<' || c = '>' || c = '&' || c.toNat = 0x2028 || c.toNat = 0x2029 then uEscape c.toNat
  else [c]

def quoteBody (s : List Char) : List Char := s.flatMap quoteChar

/-- a Go string is a byte string: a unit is a decoded code point or a byte that is not part of a well-formed
    sequence (`none`), which the encoder writes as the escape `\ufffd` -/
def quoteUnit : Option Char → List Char
  | some c => quoteChar c
  | none => uEscape 0xfffd

def jsonQuoteUnits (s : List (Option Char)) : List Char := '"' :: s.flatMap quoteUnit ++ ['"']

/-- `json.Marshal(s)` for a string of code points -/
def jsonQuote (s : List Char) : List Char := '"' :: quoteBody s ++ ['"']

def hexVal (c : Char) : Option Nat :=
  if '0' ≤ c ∧ c ≤ '9' then some (c.toNat - 48)
  else if 'a' ≤ c ∧ c ≤ 'f' then some (c.toNat - 87)
  else if 'A' ≤ c ∧ c ≤ 'F' then some (c.toNat - 55)
  else none

/-- ECMAScript DoubleStringCharacters up to and including the closing quote.
    Returns the string value (code points) and the rest of the source. `none`: not a string literal. -/
def lexBody : List Char → Option (List Char × List Char)
  | [] => none
  | '"' :: rest => some ([], rest)
  | '\\' :: 'u' :: a :: b :: c :: d :: rest =>
    match hexVal a, hexVal b, hexVal c, hexVal d with
    | some a, some b, some c, some d =>
      (lexBody rest).map fun (v, r) => (Char.ofNat (a * 4096 + b * 256 + c * 16 + d) :: v, r)
    | _, _, _, _ => none
  | '\\' :: e :: rest =>
    let single : Option Char :=
      if e = 'n' then some '\n' else if e = 'r' then some '\r' else if e = 't' then some '\t'
      else if e = 'b' then some '\x08' else if e = 'f' then some '\x0c' else if e = 'v' then some '\x0b'
      else if e = '"' then some '"' else if e = '\\' then some '\\' else if e = '\'' then some '\'' else if e = '/' then some '/'
      else none
    match single with
    | some ch => (lexBody rest).map fun (v, r) => (ch :: v, r)
    | none => none     -- \x, \0, \u{…}, line continuations: never produced by the encoder
  | c :: rest =>
    if c = '\n' || c = '\r' then none      -- a raw line terminator ends the literal with a SyntaxError
    else (lexBody rest).map fun (v, r) => (c :: v, r)

/-- a string literal at the head of `src` -/
def lexString : List Char → Option (List Char × List Char)
  | '"' :: rest => lexBody rest
  | _ => none

/-- the wrapper text the loader compiles for a `.json` file -/
def wrapper (text : List Char) : List Char :=
  "(function(exports,require,module,__filename,__dirname){module.exports = JSON.parse(".toList ++
    jsonQuote text ++ ")\n})".toList

end GN.Require.Json
