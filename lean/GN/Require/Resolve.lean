import GN.Require.Paths
import GN.Generated.Misc

/-!
# require(): file selection   [C02]

`loadAsFile`, `loadIndex`, `loadAsDirectory`, `loadAsFileOrDirectory`, `loadNodeModules` of require/resolve.go,
written over an *arbitrary* state type `σ` and an *arbitrary* module-file loader
`load : σ → Path → σ × Res` (which in the real code evaluates the module and consults the caches),
and over arbitrary path functions.  The specification is "the first candidate of an explicit list
that the loader does not report as missing".
-/

namespace GN.Require
open GN

abbrev Path := String

/-- result of trying to load one module file: `(module, nil)`, `(nil, nil)` = does not exist, `(nil, err)` -/
inductive Res (ε : Type) where
  | found (id : Nat)
  | none
  | err (e : ε)
  deriving Repr, Inhabited, DecidableEq

/-- path functions and the facts about the tree that resolution consults besides module files -/
structure Env where
  join : Path → Path → Path
  dir : Path → Path
  base : Path → Path
  /-- `package.json` at this path is readable, valid JSON and has a non-empty string "main" -/
  pkgMain : Path → Option String
  globalFolders : List Path

section shaped
variable {σ ε : Type} (env : Env) (load : σ → Path → σ × Res ε)

def loadAsFile (st : σ) (p : Path) : σ × Res ε :=
  match load st p with
  | (st, .none) =>
    match load st (p ++ ".js") with
    | (st, .none) => load st (p ++ ".json")
    | r => r
  | r => r

def loadIndex (st : σ) (p : Path) : σ × Res ε :=
  match load st (env.join p "index.js") with
  | (st, .none) => load st (env.join p "index.json")
  | r => r

def loadAsDirectory (st : σ) (p : Path) : σ × Res ε :=
  match env.pkgMain (env.join p "package.json") with
  | none => loadIndex env load st p
  | some main =>
    let m := env.join p main
    match loadAsFile load st m with
    | (st, .none) => loadIndex env load st m
    | r => r

def loadAsFileOrDirectory (st : σ) (p : Path) : σ × Res ε :=
  match loadAsFile load st p with
  | (st, .none) => loadAsDirectory env load st p
  | r => r

def loadNodeModule (st : σ) (modpath start : Path) : σ × Res ε :=
  loadAsFileOrDirectory env load st (env.join start modpath)

def loadGlobalFolders (st : σ) (modpath : Path) : List Path → σ × Res ε
  | [] => (st, .none)
  | d :: ds =>
    match loadNodeModule env load st modpath d with
    | (st, .none) => loadGlobalFolders st modpath ds
    | r => r

/-- the `for` loop of `loadNodeModules`; `fuel` bounds the number of directory levels (the walk ends when
`Dir(start) == start` or `start == ".."`) -/
def walkNodeModules (modpath : Path) : Nat → σ → Path → σ × Res ε
  | 0, st, _ => (st, .none)
  | fuel + 1, st, start =>
    let p := if env.base start ≠ "node_modules" then env.join start "node_modules" else start
    match loadNodeModule env load st modpath p with
    | (st, .none) =>
      if start = ".." then (st, .none)
      else
        let parent := env.dir start
        if parent = start then (st, .none) else walkNodeModules modpath fuel st parent
    | r => r

def loadNodeModules (fuel : Nat) (st : σ) (modpath start : Path) : σ × Res ε :=
  match loadGlobalFolders env load st modpath env.globalFolders with
  | (st, .none) => walkNodeModules env load modpath fuel st start
  | r => r

/-! ## candidate lists (the specification) -/

def fileCands (p : Path) : List Path := [p, p ++ ".js", p ++ ".json"]

def indexCands (p : Path) : List Path := [env.join p "index.js", env.join p "index.json"]

def dirCands (p : Path) : List Path :=
  match env.pkgMain (env.join p "package.json") with
  | none => indexCands env p
  | some main => let m := env.join p main; fileCands m ++ indexCands env m

/-- exact file, .js, .json, then the directory: main as file, main as directory, else index.js, index.json -/
def fodCands (p : Path) : List Path := fileCands p ++ dirCands env p

/-- the node_modules directories searched from `start`, nearest first -/
def nmDirs : Nat → Path → List Path
  | 0, _ => []
  | fuel + 1, start =>
    let p := if env.base start ≠ "node_modules" then env.join start "node_modules" else start
    if start = ".." then [p]
    else
      let parent := env.dir start
      if parent = start then [p] else p :: nmDirs fuel parent

def nmCands (fuel : Nat) (modpath start : Path) : List Path :=
  (env.globalFolders ++ nmDirs env fuel start).flatMap fun d => fodCands env (env.join d modpath)

/-- try candidates in order; stop at the first that is a module or an error -/
def tryList (st : σ) : List Path → σ × Res ε
  | [] => (st, .none)
  | c :: cs =>
    match load st c with
    | (st, .none) => tryList st cs
    | r => r

end shaped

end GN.Require
