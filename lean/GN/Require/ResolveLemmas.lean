import GN.Require.Resolve

namespace GN.Require
open GN

section
variable {σ ε : Type} (env : Env) (load : σ → Path → σ × Res ε)

theorem tryList_append (st : σ) (a b : List Path) :
    tryList load st (a ++ b) =
      match tryList load st a with
      | (st', .none) => tryList load st' b
      | r => r := by
  induction a generalizing st with
  | nil => simp [tryList]
  | cons c cs ih =>
    simp only [List.cons_append, tryList]
    rcases h : load st c with ⟨st1, r1⟩
    cases r1 <;> simp [ih]

theorem loadAsFile_eq (st : σ) (p : Path) : loadAsFile load st p = tryList load st (fileCands p) := by
  simp only [loadAsFile, fileCands, tryList]
  rcases h1 : load st p with ⟨st1, r1⟩
  cases r1 <;> simp
  rcases h2 : load st1 (p ++ ".js") with ⟨st2, r2⟩
  cases r2 <;> simp
  rcases h3 : load st2 (p ++ ".json") with ⟨st3, r3⟩
  cases r3 <;> simp

theorem loadIndex_eq (st : σ) (p : Path) : loadIndex env load st p = tryList load st (indexCands env p) := by
  simp only [loadIndex, indexCands, tryList]
  rcases h1 : load st (env.join p "index.js") with ⟨st1, r1⟩
  cases r1 <;> simp
  rcases h2 : load st1 (env.join p "index.json") with ⟨st2, r2⟩
  cases r2 <;> simp

theorem loadAsDirectory_eq (st : σ) (p : Path) :
    loadAsDirectory env load st p = tryList load st (dirCands env p) := by
  simp only [loadAsDirectory, dirCands]
  cases env.pkgMain (env.join p "package.json") with
  | none => simp [loadIndex_eq]
  | some m =>
    simp only [tryList_append, loadAsFile_eq, loadIndex_eq]
    rcases h : tryList load st (fileCands (env.join p m)) with ⟨st1, r1⟩
    cases r1 <;> simp

theorem loadAsFileOrDirectory_eq (st : σ) (p : Path) :
    loadAsFileOrDirectory env load st p = tryList load st (fodCands env p) := by
  simp only [loadAsFileOrDirectory, fodCands, tryList_append, loadAsFile_eq, loadAsDirectory_eq]
  rcases h : tryList load st (fileCands p) with ⟨st1, r1⟩
  cases r1 <;> simp

theorem loadGlobalFolders_eq (st : σ) (modpath : Path) (ds : List Path) :
    loadGlobalFolders env load st modpath ds =
      tryList load st (ds.flatMap fun d => fodCands env (env.join d modpath)) := by
  induction ds generalizing st with
  | nil => simp [loadGlobalFolders, tryList]
  | cons d ds ih =>
    simp only [loadGlobalFolders, loadNodeModule, List.flatMap_cons, tryList_append, loadAsFileOrDirectory_eq]
    rcases h : tryList load st (fodCands env (env.join d modpath)) with ⟨st1, r1⟩
    cases r1 <;> simp [ih]

theorem walkNodeModules_eq (modpath : Path) (fuel : Nat) (st : σ) (start : Path) :
    walkNodeModules env load modpath fuel st start =
      tryList load st ((nmDirs env fuel start).flatMap fun d => fodCands env (env.join d modpath)) := by
  induction fuel generalizing st start with
  | zero => simp [walkNodeModules, nmDirs, tryList]
  | succ fuel ih =>
    simp only [walkNodeModules, nmDirs, loadNodeModule, loadAsFileOrDirectory_eq]
    generalize (if env.base start ≠ "node_modules" then env.join start "node_modules" else start) = p
    by_cases hs : start = ".."
    · simp only [hs, if_true, List.flatMap_cons, List.flatMap_nil, List.append_nil]
      rcases h : tryList load st (fodCands env (env.join p modpath)) with ⟨st1, r1⟩
      cases r1 <;> simp
    · by_cases hp : env.dir start = start
      · simp only [hs, hp, if_true, if_false, List.flatMap_cons, List.flatMap_nil, List.append_nil]
        rcases h : tryList load st (fodCands env (env.join p modpath)) with ⟨st1, r1⟩
        cases r1 <;> simp
      · simp only [hs, hp, if_false, List.flatMap_cons, tryList_append]
        rcases h : tryList load st (fodCands env (env.join p modpath)) with ⟨st1, r1⟩
        cases r1 <;> simp [ih]

/-- the whole bare-name search is "first hit in the candidate list" -/
theorem loadNodeModules_eq (fuel : Nat) (st : σ) (modpath start : Path) :
    loadNodeModules env load fuel st modpath start = tryList load st (nmCands env fuel modpath start) := by
  simp only [loadNodeModules, nmCands, List.flatMap_append, tryList_append, loadGlobalFolders_eq, walkNodeModules_eq]
  rcases h : tryList load st (env.globalFolders.flatMap fun d => fodCands env (env.join d modpath)) with ⟨st1, r1⟩
  cases r1 <;> simp

end

/-! ### the pure reading: a loader that only probes the tree -/

/-- what the SourceLoader says about a path as a module file -/
inductive Probe where
  | missing            -- ModuleFileDoesNotExistError (or a directory)
  | failure            -- any other loader error
  | file (id : Nat)    -- a module file (identified by a number)
  deriving Repr, DecidableEq, Inhabited

def probeLoad (probe : Path → Probe) (st : Unit) (p : Path) : Unit × Res Unit :=
  (st, match probe p with
    | .missing => .none
    | .failure => .err ()
    | .file id => .found id)

/-- the CommonJS selection: the first candidate that is not missing decides -/
def specSelect (probe : Path → Probe) : List Path → Res Unit
  | [] => .none
  | c :: cs =>
    match probe c with
    | .missing => specSelect probe cs
    | .failure => .err ()
    | .file id => .found id

theorem tryList_probe (probe : Path → Probe) (cs : List Path) :
    tryList (probeLoad probe) () cs = ((), specSelect probe cs) := by
  induction cs with
  | nil => rfl
  | cons c cs ih =>
    simp only [tryList, probeLoad, specSelect]
    cases probe c <;> simp [ih]

end GN.Require
