import GN.Require.JsonWrap
import GN.Url.Params

/-! Line protocol for C16.
`C16 <contenthex> => Q <json.Marshal hex> I <impl outcome> R <reference outcome> S <0|1>` -/

namespace GN.Driver.C16
open GN GN.Require.Json

def decodeText (b : List UInt8) : Option (List Char × Bool) :=
  -- Go: string(buf); invalid bytes are replaced by U+FFFD wherever the string is decoded
  let s := GN.Url.sanitizeUtf8 b
  (String.fromUTF8? (ByteArray.mk s.toArray)).map fun str => (str.toList, s == b)

/-- Go's `utf8.DecodeRune` loop: a code point, or `none` for a byte that is not part of a well-formed sequence -/
partial def decodeUnits (b : List UInt8) : List (Option Char) :=
  match b with
  | [] => []
  | b0 :: rest =>
    -- a prefix is well-formed iff sanitizing it leaves it unchanged
    let tryN (n : Nat) : Option (Char × List UInt8) :=
      let pre := b.take n
      if pre.length == n && GN.Url.sanitizeUtf8 pre == pre then
        match String.fromUTF8? (ByteArray.mk pre.toArray) with
        | some s => match s.toList with
          | [c] => some (c, b.drop n)
          | _ => none
        | none => none
      else none
    if b0 < 0x80 then some (Char.ofNat b0.toNat) :: decodeUnits rest
    else match tryN 2 with
      | some (c, r) => some c :: decodeUnits r
      | none => match tryN 3 with
        | some (c, r) => some c :: decodeUnits r
        | none => match tryN 4 with
          | some (c, r) => some c :: decodeUnits r
          | none => none :: decodeUnits rest

def handle (toks : List String) : String :=
  match toks with
  | [c, "=>", "Q", q, "I", i, "R", r, "S", s] =>
    match parseHexBytes c with
    | none => "BADLINE"
    | some bytes =>
      match decodeText bytes with
      | none => "BADLINE utf8"
      | some (text, wellFormed) =>
        -- the model-side comparisons are list algorithms: they are run on contents of up to 64 KiB (the theorem
        -- lexString_jsonQuote covers every length; the specification clause below is evaluated on every content)
        let small := bytes.length ≤ 65536
        let quoted := if small then hexOfBytes (String.ofList (jsonQuoteUnits (decodeUnits bytes))).toUTF8.toList else q
        let lexOK := !small || lexString (jsonQuote text ++ ")\n})".toList) == some (text, ")\n})".toList)
        let a := if quoted != q then "MODELDIFF json.Marshal-model " ++ quoted
                 else if !lexOK then "MODELDIFF literal-does-not-lex-back" else ""
        let specOK :=
          s == "1" &&
          (if wellFormed then i == r
           else i.startsWith "ok:" || i == "throw:SyntaxError")
        let b := if specOK then "" else "SPECFAIL expected: I=" ++ r ++ " S=1"
        if a == "" && b == "" then (if wellFormed then "OK" else "OK-NOCLAIM") else (a ++ " " ++ b).trimAscii.toString
  | _ => "BADLINE"

end GN.Driver.C16
