import GN.Require.Ideal

/-! Line protocol for the require properties (C01, C02, C15).
```
REQ <nfiles> {<path> <kind…>} <nloaderr> {path} <nglobal> {path} <nreg> {name} <nglob> {name} <ncore> {name}
    <ncalls> {<script|~> <spelling>} => {event}
kind : J <nacts> {S tag | R spelling 0|1 | T tok} | B | JO | JB | PM <main>
event: L path | E path id | G spelling id file|~ ntags {tag} | C spelling err | N table name id
     | T id file|~ ntags {tag} | X err
```
strings are UTF-8 hex; ids are renumbered by first appearance. -/

namespace GN.Driver.Req
open GN GN.Require

def hs (s : String) : Option String := do
  let b ← parseHexBytes s
  String.fromUTF8? (ByteArray.mk b.toArray)

def sh (s : String) : String := hexOfBytes s.toUTF8.toList

abbrev P := StateT (List String) Option

def tok : P String := do
  match (← get) with
  | t :: r => set r; pure t
  | [] => failure

def str : P String := do let t ← tok; (hs t : Option String)
def nat : P Nat := do let t ← tok; (t.toNat? : Option Nat)

def rep {α} (n : Nat) (p : P α) : P (List α) :=
  match n with
  | 0 => pure []
  | n + 1 => do let a ← p; let as ← rep n p; pure (a :: as)

def act : P Act := do
  match (← tok) with
  | "S" => pure (.set (← str))
  | "R" => do let s ← str; let c ← tok; pure (.req s (c == "1"))
  | "T" => pure (.throw (← str))
  | _ => failure

def fileEntry : P (Path × FileKind × Option String) := do
  let p ← str
  match (← tok) with
  | "J" => do let n ← nat; let b ← rep n act; pure (p, .js b, none)
  | "B" => pure (p, .bad, none)
  | "JO" => pure (p, .jsonOk, none)
  | "JB" => pure (p, .jsonBad, none)
  | "PM" => do let m ← str; pure (p, .jsonOk, if m == "" then none else some m)
  | _ => failure

def call : P TopCall := do
  let s ← tok
  let sp ← str
  if s == "~" then pure ⟨none, sp⟩ else
    match hs s with
    | some s => pure ⟨some s, sp⟩
    | none => failure

def caseP : P (Tree × List TopCall) := do
  let files ← rep (← nat) fileEntry
  let le ← rep (← nat) str
  let gf ← rep (← nat) str
  let rn ← rep (← nat) str
  let gn ← rep (← nat) str
  let co ← rep (← nat) str
  let calls ← rep (← nat) call
  let arrow ← tok
  if arrow != "=>" then failure
  pure ({ file := files.map fun (p, k, _) => (p, k),
          loadErr := le,
          pkgMain := files.filterMap fun (p, _, m) => if le.contains p then none else m.map fun m => (p, m),
          globalFolders := gf, regNative := rn, globNative := gn, core := co }, calls)

def errStr : ErrTok → String
  | .invalidModule => "invalid" | .noSuchBuiltin => "nobuiltin" | .loaderError => "loaderr"
  | .syntaxError => "syntax" | .jsonSyntax => "jsonsyntax" | .thrown t => "thrown:" ++ sh t
  | .outOfFuel => "fuel"

def isPkgJson (p : Path) : Bool := base p == "package.json"

/-- renumber ids by first appearance and print -/
def fmtLog (log : List Ev) (withLoads : Bool) : String :=
  let step (acc : List (Nat × Nat) × List String) (e : Ev) : List (Nat × Nat) × List String :=
    let (m, out) := acc
    let canon (m : List (Nat × Nat)) (id : Nat) : List (Nat × Nat) × Nat :=
      match alookup m id with
      | some c => (m, c)
      | none => ((id, m.length) :: m, m.length)
    let fileStr (f : Option Path) : String := match f with | some f => sh f | none => "~"
    match e with
    | .load p => if withLoads && !isPkgJson p then (m, out ++ ["L", sh p]) else (m, out)
    | .enter p id => let (m, c) := canon m id; (m, out ++ ["E", sh p, toString c])
    | .got s id f tags => let (m, c) := canon m id
      (m, out ++ ["G", sh s, toString c, fileStr f, toString tags.length] ++ tags.map sh)
    | .caught s e => (m, out ++ ["C", sh s, errStr e])
    | .native tb n id => let (m, c) := canon m id; (m, out ++ ["N", tb, sh n, toString c])
    | .top id f tags => let (m, c) := canon m id
      (m, out ++ ["T", toString c, fileStr f, toString tags.length] ++ tags.map sh)
    | .topErr e => (m, out ++ ["X", errStr e])
  " ".intercalate (log.foldl step ([], [])).2

def fmtRaw (log : List Ev) : String := toString (repr log)

/-- drop the loader-call events from the implementation's log (they depend on the caches, which the
    specification does not have) -/
def dropLoads : List String → List String
  | "L" :: _ :: rest => dropLoads rest
  | t :: rest => t :: dropLoads rest
  | [] => []

def handle (toks : List String) : String :=
  match caseP.run toks with
  | some ((tree, calls), impl) =>
    let implS := " ".intercalate impl
    let model := fmtLog (runHistory tree calls).log true
    let spec := fmtLog (idealHistory tree calls).log false
    let implNoL := " ".intercalate (dropLoads impl)
    -- sanity check of the statement of the cache-transparency theorem on this case: the raw logs (same ids)
    let rawEq := fmtRaw ((runHistory tree calls).log.filter (fun e => match e with | .load _ => false | _ => true))
                   == fmtRaw (idealHistory tree calls).log
    let a := if model == implS then (if rawEq then "" else "MODELDIFF raw-log-of-model-differs-from-ideal") else "MODELDIFF " ++ model
    let b := if spec == implNoL then "" else "SPECFAIL expected: " ++ spec
    if a == "" && b == "" then "OK" else (a ++ " " ++ b).trimAscii.toString
  | none => "BADLINE"

end GN.Driver.Req
