import GN.Buffer.Num

/-! Line protocol for C10 (also used by C09 for the numeric methods).

`C10 <jsName> <bufhex> <arg>* => ok <ret> <bufhex> | throw <Class> <bufhex> | panic <bufhex>` -/

namespace GN.Driver.C10
open GN GN.Buffer

def parseArg (s : String) : Option JArg :=
  if s == "U" then some .undef
  else if s == "S" then some .str
  else if s == "X" then some .other
  else if s.startsWith "N:" then (parseHexNat (s.drop 2).toString).map fun n => .num ⟨UInt64.ofNat n⟩
  else if s.startsWith "B:" then (s.drop 2).toString.toInt?.map .big
  else none

def fmtRet : JRet → String
  | .int n => "f:" ++ hexOfNat (F64.ofSmallInt n).bits.toNat 16
  | .big n => "b:" ++ toString n
  | .flt f => if f.isNaN then "nan" else "f:" ++ hexOfNat f.bits.toNat 16

def fmtResult (r : CallResult) : String :=
  match r.out with
  | .ok v => "ok " ++ fmtRet v ++ " " ++ hexOfBytes r.buf
  | .throw c => "throw " ++ toString c ++ " " ++ hexOfBytes r.buf
  | .panic _ => "panic " ++ hexOfBytes r.buf

/-- spec comparison: RangeError and TypeError are one class (the property says "RangeError or TypeError") -/
def specFmt (r : CallResult) : String :=
  match r.out with
  | .throw _ => "throw RangeError|TypeError " ++ hexOfBytes r.buf
  | _ => fmtResult r

def normImplForSpec (impl : List String) : String :=
  match impl with
  | ["throw", c, b] => if c == "RangeError" || c == "TypeError" then "throw RangeError|TypeError " ++ b else "throw " ++ c ++ " " ++ b
  | xs => " ".intercalate xs

/-- returns the verdict line -/
def handle (toks : List String) : String :=
  match toks with
  | jsName :: bufhex :: rest =>
    let (argToks, implToks) := rest.span (· != "=>")
    let implToks := implToks.drop 1
    match parseHexBytes bufhex, argToks.mapM parseArg with
    | some buf, some args =>
      let impl := " ".intercalate implToks
      let modelV := match callModel jsName buf args with
        | some r => if fmtResult r == impl then "" else "MODELDIFF " ++ fmtResult r
        | none => "MODELDIFF no-such-method"
      let specV := match specCall jsName buf args with
        | some r => if specFmt r == normImplForSpec implToks then "" else "SPECFAIL expected: " ++ specFmt r
        | none => ""
      if modelV == "" && specV == "" then
        (if (specCall jsName buf args).isSome then "OK" else "OK-NOCLAIM")
      else (modelV ++ " " ++ specV).trimAscii.toString
    | _, _ => "BADLINE"
  | _ => "BADLINE"

end GN.Driver.C10
