import GN.Url.UrlObj
import GN.Url.Rfc3986

/-! Line protocols for the URL class.

```
C14 <refHex> <baseHex|~> => T:<msg> | O <href> <protocol> <username> <password> <host> <hostname> <port> <pathname> <search> <hash>
C13 <urlHex> ; <op> ; <op> … => <res> ; <res> ; …          (one <res> for the constructor and one per op)
  op:  S <prop> <hex> <obs>   | P <int> <obs> | G <obs> | A <k> <v> <obs> | D <k> <obs> | D2 <k> <v> <obs> | E <k> <v> <obs> | O <obs>
  res: - | T:<msg> | [T:<msg>] O <href> <toString> <toJSON> <protocol> <username> <password> <host> <hostname> <port>
                                 <pathname> <search> <hash> <origin> <sp> <reparse>
  sp:  ~ (no searchParams object held) | <n>(,<k>,<v>)*          reparse: hex of new URL(href).href | THROW
```
-/

namespace GN.Driver.Url
open GN GN.Url GN.Url.Net GN.Url.Obj

def hx (s : String) : Option Bytes := parseHexBytes s
def out (b : Bytes) : String := hexOfBytes (sanitizeUtf8 b)

def errTok : Err → String
  | .invalidURL => "T:Invalid_URL"
  | .invalidBase => "T:Invalid_base_URL"
  | .notAbsolute => "T:URL_is_not_absolute"
  | .invalidHostname => "T:Invalid_hostname"
  | .noclaim => "NOCLAIM"

/-! ## C14 -/

def stripFirst (c : UInt8) (s : Bytes) : Bytes :=
  match s with
  | x :: rest => if x == c then rest else s
  | [] => []

/-- raw getters of the implementation → the components the property compares -/
def implComponents (proto user pass hostname port path search hash : Bytes) : Rfc.Components :=
  { scheme := proto.dropLast
    username := user
    password := pass
    host := hostname
    port := if port == [] then none else some (Rfc.natOfDigits port)
    segments := Rfc.pathSegments path
    query := Rfc.pctDecode (stripFirst 63 search)
    fragment := Rfc.pctDecode (stripFirst 35 hash) }

def showComponents (c : Rfc.Components) : String :=
  s!"scheme={out c.scheme},user={out c.username},pass={out c.password},host={out c.host},port={c.port},path={c.segments.map out},query={out c.query},fragment={out c.fragment}"

/-- serialised strings must not contain raw non-ASCII, blanks or the delimiters `" < >` -/
def hygienic (s : Bytes) : Bool := s.all fun c => c < 128 && c > 32 && c != 34 && c != 60 && c != 62

def diffComponents (a b : Rfc.Components) : List String :=
  (if a.scheme != b.scheme then ["scheme"] else []) ++ (if a.username != b.username then ["username"] else []) ++
  (if a.password != b.password then ["password"] else []) ++ (if a.host != b.host then ["host"] else []) ++
  (if a.port != b.port then ["port"] else []) ++ (if a.segments != b.segments then ["path"] else []) ++
  (if a.query != b.query then ["query"] else []) ++ (if a.fragment != b.fragment then ["fragment"] else [])

def handleC14 (toks : List String) : String :=
  let (inp, outp) := toks.span (· != "=>")
  let outp := outp.drop 1
  match inp with
  | [r, b] =>
    match hx r, (if b == "~" then some none else (hx b).map some) with
    | some ref, some base =>
      -- the implementation's answer
      let impl : Option (Option (List Bytes)) :=   -- none = malformed; some none = throw
        match outp with
        | "O" :: fields => (fields.mapM hx).map some
        | [t] => if t.startsWith "T:" then some none else none
        | _ => none
      match impl with
      | none => "BADLINE impl"
      | some implO =>
        -- 1. the model of the code
        let modelStr : Option String :=
          match construct ref base with
          | .error .noclaim => none
          | .error e => some (errTok e)
          | .ok u =>
            let (_, o) := observe { url := u }
            some (" ".intercalate ("O" :: [o.href, o.protocol, o.username, o.password, o.host, o.hostname, o.port,
                                          o.pathname, o.search, o.hash].map out))
        let implStr := " ".intercalate outp
        let a := match modelStr with
          | some m => if m == implStr then "" else "MODELDIFF " ++ m
          | none => ""
        -- 2. the specification, on the grammar of the property
        let inG := Rfc.inGrammar ref base
        let specMsg : String :=
          if !inG then
            -- outside the grammar only one clause applies: one argument without a scheme is rejected
            match base, implO with
            | none, some _ => if (Rfc.splitRef ref).scheme.isNone then "a string without a scheme must be rejected" else ""
            | _, _ => ""
          else
            let expected : Option Rfc.Components := match base with
              | some bb => Rfc.resolveSpec ref bb
              | none => (Rfc.parseSpec ref).getD none
            match expected, implO with
            | none, _ => ""
            | some _, none => "a URL of the grammar must be accepted"
            | some e, some [href, proto, user, pass, _host, hostname, port, path, search, hash] =>
              let c := implComponents proto user pass hostname port path search hash
              let d := diffComponents e c
              if d != [] then s!"components {d} differ: expected {showComponents e} got {showComponents c}"
              else if !(hygienic href && hygienic path && hygienic search && hygienic hash) then
                "non-ASCII or unsafe character not percent-encoded"
              else ""
            | some _, some _ => "malformed observation"
        let b := if specMsg == "" then "" else "SPECFAIL " ++ specMsg.replace " " "_"
        if a == "" && b == "" then (if inG then "OK" else "OK-NOCLAIM") else (a ++ " " ++ b).trimAscii.toString
    | _, _ => "BADLINE hex"
  | _ => "BADLINE shape"

/-! ## C13 -/

structure Step where
  op : Op
  observe : Bool
  deriving Inhabited

def propOf : String → Option Prop'
  | "href" => some .href | "protocol" => some .protocol | "username" => some .username | "password" => some .password
  | "host" => some .host | "hostname" => some .hostname | "port" => some .port | "pathname" => some .pathname
  | "search" => some .search | "hash" => some .hash
  | _ => none

def flag (s : String) : Option Bool := if s == "1" then some true else if s == "0" then some false else none

def parseOp : List String → Option Step
  | ["S", p, v, f] => do pure ⟨.set (← propOf p) (← hx v), ← flag f⟩
  | ["P", n, f] => do pure ⟨.setPort (.int (← n.toInt?)), ← flag f⟩
  | ["G", f] => do pure ⟨.getSP, ← flag f⟩
  | ["A", k, v, f] => do pure ⟨.spAppend (← hx k) (← hx v), ← flag f⟩
  | ["D", k, f] => do pure ⟨.spDelete (← hx k) none, ← flag f⟩
  | ["D2", k, v, f] => do pure ⟨.spDelete (← hx k) (some (← hx v)), ← flag f⟩
  | ["E", k, v, f] => do pure ⟨.spSet (← hx k) (← hx v), ← flag f⟩
  | ["O", f] => do pure ⟨.spSort, ← flag f⟩
  | _ => none

def splitSemi (toks : List String) : List (List String) :=
  toks.foldr (fun t acc => if t == ";" then [] :: acc else match acc with
    | [] => [[t]]
    | a :: r => (t :: a) :: r) [[]]

def showParams (sp : Option Params) : String :=
  match sp with
  | none => "~"
  | some l => ",".intercalate (toString l.length :: l.flatMap fun p => [out p.name, out p.value])

/-- the model's rendering of an observation (all but the re-parse field) -/
def showObs (o : Obs) : List String :=
  [o.href, o.href, o.href, o.protocol, o.username, o.password, o.host, o.hostname, o.port, o.pathname, o.search,
   o.hash, o.origin].map out ++ [showParams o.params]

/-- the clauses of the property, evaluated on what the implementation showed -/
def specObs (f : List String) : List String :=
  match f with
  | [href, ts, tj, proto, _user, _pass, host, hostname, port, _path, search, _hash, _origin, sp, re] =>
    let b (s : String) : Bytes := (hx s).getD []
    let c1 := if href == ts && ts == tj then [] else ["href/toString()/toJSON() differ"]
    -- the query as href shows it
    let hrefB := b href
    let beforeFrag := hrefB.takeWhile (· != 35)
    let hrefQuery := (beforeFrag.dropWhile (· != 63)).drop 1
    let searchB := b search
    let c2 :=
      if searchB == [] then (if hrefQuery == [] then [] else ["search is empty but href has a query"])
      else if searchB.head? != some 63 then ["search does not start with '?'"]
      else if searchB.drop 1 != hrefQuery then ["search and the query in href differ"] else []
    let c3 :=
      if sp == "~" then []
      else
        let want := showParams (some (Url.parseBody (searchB.drop 1)))
        if want == sp then [] else ["searchParams does not list the pairs of the query: query gives " ++ want]
    let portB := b port
    let c4 :=
      if b host == b hostname ++ (if portB == [] then [] else 58 :: portB) then [] else ["host is not hostname[:port]"]
    let c5 :=
      if portB != [] && portB.all isDigit && isDefaultURLPort (b proto).dropLast (natOfDigits portB) then
        ["the default port of the scheme is shown"] else []
    let c6 := if re == href then [] else
      [if re == "THROW" then "href cannot be parsed again" else "parsing href again gives another href"]
    c1 ++ c2 ++ c3 ++ c4 ++ c5 ++ c6
  | _ => ["malformed observation"]

structure Acc where
  st : Option St          -- none = the model makes no claim any more
  claimLost : Bool := false
  msgs : List String := []

def handleC13 (toks : List String) : String :=
  let (inp, outp) := toks.span (· != "=>")
  let ins := splitSemi inp
  let outs := splitSemi (outp.drop 1)
  match ins with
  | [u] :: opToks =>
    match hx u, opToks.mapM parseOp with
    | some url, some steps =>
      if outs.length != steps.length + 1 then "BADLINE arity" else
      -- one result: optional throw token, optional observation
      let splitRes (r : List String) : Option String × Option (List String) :=
        match r with
        | ["-"] => (none, none)
        | t :: "O" :: f => if t.startsWith "T:" then (some t, some f) else (none, none)
        | "O" :: f => (none, some f)
        | [t] => if t.startsWith "T:" then (some t, none) else (none, none)
        | _ => (none, none)
      let check (i : Nat) (acc : Acc) (modelThrow : Option String) (st' : Option St) (res : List String)
          (observeIt : Bool) : Acc :=
        let (implThrow, implObs) := splitRes res
        let acc := match acc.st, st' with
          | some _, some _ =>
            if modelThrow != implThrow then
              { acc with msgs := acc.msgs ++ [s!"MODELDIFF step {i}: model {modelThrow.getD "returns"} impl {implThrow.getD "returns"}"] }
            else acc
          | _, _ => acc
        let acc := { acc with st := st' }
        -- observation
        match implObs with
        | none => if observeIt then { acc with msgs := acc.msgs ++ [s!"BADLINE step {i}: observation missing"] } else acc
        | some f =>
          let acc := match acc.st with
            | some st =>
              let (st2, o) := observe st
              let m := showObs o
              let acc := { acc with st := some st2 }
              -- the model's own re-parse of the href it shows (a run-time checked obligation: "href parses again to
              -- the same href" is not proved for the model in general)
              let acc := match construct o.href none with
                | .ok u' =>
                  let h2 := (observe { url := u' }).2.href
                  if h2 == o.href then acc
                  else { acc with msgs := acc.msgs ++ [s!"MODELDIFF step {i}: the model re-parses its own href {out o.href} to {out h2}"] }
                | .error .noclaim => acc
                | .error e => { acc with msgs := acc.msgs ++ [s!"MODELDIFF step {i}: the model cannot re-parse its own href {out o.href}: {errTok e}"] }
              if m == f.take 14 then acc
              else
                let names := ["href", "toString", "toJSON", "protocol", "username", "password", "host", "hostname", "port",
                              "pathname", "search", "hash", "origin", "searchParams"]
                let bad := (List.range 14).filter fun k => m.getD k "" != f.getD k ""
                { acc with msgs := acc.msgs ++ [s!"MODELDIFF step {i}: {bad.map fun k => names.getD k "?"} model {" ".intercalate m}"] }
            | none => acc
          let sp := specObs f
          if sp == [] then acc else { acc with msgs := acc.msgs ++ [s!"SPECFAIL step {i}: {sp}"] }
      -- constructor
      let acc0 : Acc :=
        match construct url none with
        | .ok u => check 0 { st := some { url := u } } none (some { url := u }) (outs.getD 0 []) true
        | .error .noclaim =>
          -- outside the model: whether the implementation accepts or rejects the string is not compared
          if (splitRes (outs.getD 0 [])).1.isSome then { st := none, claimLost := true }
          else check 0 { st := none, claimLost := true } none none (outs.getD 0 []) true
        | .error e =>
          let (implThrow, _) := splitRes (outs.getD 0 [])
          if implThrow == some (errTok e) then { st := none }
          else { st := none, msgs := [s!"MODELDIFF step 0: model {errTok e} impl {implThrow.getD "returns"}"] }
      let finish (acc : Acc) (claimLost : Bool) : String :=
        if acc.msgs == [] then (if claimLost then "OK-NOCLAIM" else "OK")
        else
          let tag := if acc.msgs.any (·.startsWith "SPECFAIL") then "SPECFAIL" else
                     if acc.msgs.any (·.startsWith "BADLINE") then "BADLINE" else "MODELDIFF"
          tag ++ " " ++ (" | ".intercalate acc.msgs).replace " " "_"
      let ctorThrew := (splitRes (outs.getD 0 [])).1.isSome
      if ctorThrew then finish acc0 true
      else
      let (acc, _) := (steps.zip (outs.drop 1)).foldl (fun (p : Acc × Nat) (so : Step × List String) =>
        let (acc, i) := p
        let (s, res) := so
        match acc.st with
        | none =>
          -- outside the model only what the property says of every operation applies: no assignment other than
          -- to href throws (an assignment that would make the URL unparsable is ignored)
          let acc := match s.op, (splitRes res).1 with
            | .set .href _, _ => acc
            | .set _ _, some tok | .setPort _, some tok =>
              { acc with msgs := acc.msgs ++ [s!"SPECFAIL step {i}: an assignment threw instead of being ignored: {tok}"] }
            | _, _ => acc
          (check i acc none none res s.observe, i + 1)
        | some st =>
          match step st s.op with
          | .ok st' => (check i acc none (some st') res s.observe, i + 1)
          | .error .noclaim => (check i { acc with claimLost := true, st := none } none none res s.observe, i + 1)
          | .error e => (check i acc (some (errTok e)) (some st) res s.observe, i + 1)) (acc0, 1)
      finish acc acc.claimLost
    | _, _ => "BADLINE parse"
  | _ => "BADLINE shape"

end GN.Driver.Url
