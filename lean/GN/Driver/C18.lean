import GN.EventLoop.JsOrderLemmas

/-! `C18 <ncbs> (<nacts> <k:a:d:n:h>…)… => <event>…` -/

namespace GN.Driver.C18
open GN GN.EventLoop.JsOrder

def parseAct (t : String) : Option Act :=
  match t.splitOn ":" with
  | [k, a, d, n, h] => do
    let a ← a.toNat?; let d ← d.toNat?; let n ← n.toNat?; let h ← h.toNat?
    match k with
    | "log" => some .log | "slp" => some .log   -- slp: the body blocks for d ms, then logs (the order must not notice)
    | "then" => some (.thenDo a) | "imm" => some (.imm a h) | "st" => some (.st a d h)
    | "si" => some (.si a d n h) | "clr" => some (.clr a) | "throw" => some .throw
    | _ => none
  | _ => none

def parseProg : List String → Nat → Option (Prog × List String)
  | rest, 0 => some ([], rest)
  | n :: rest, c + 1 => do
    let n ← n.toNat?
    let acts ← (rest.take n).mapM parseAct
    let (p, r) ← parseProg (rest.drop n) c
    pure (acts :: p, r)
  | [], _ + 1 => none

def parseEv (t : String) : Option Ev :=
  match t.splitOn ":" with
  | ["s", k, i, p, c] => do pure (.s (k.toList.headD '?') (← i.toNat?) (← p.toNat?) (← c.toNat?))
  | ["b", i, k] => do pure (.b (← i.toNat?) (k.toList.headD '?'))
  | ["e", i] => (i.toNat?).map .e
  | ["l", i] => (i.toNat?).map .l
  | ["c", i] => (i.toNat?).map .c
  | ["x", i] => (i.toNat?).map .x
  | _ => none

def handle (toks : List String) : String :=
  match toks with
  | n :: rest =>
    match n.toNat?.bind (parseProg rest) with
    | some (prog, "=>" :: impl) =>
      match impl.mapM parseEv with
      | none => if impl == ["HANG"] then "SPECFAIL HANG" else "SPECFAIL unparsable-log:" ++ " ".intercalate (impl.take 3)
      | some log =>
        let b := match oracle log with
          | .ok _ => ""
          | .error e => "SPECFAIL " ++ e.replace " " "_"
        let a := if prog.timerFree then
            let m := runProgram prog
            if !completeB prog 10000 then "MODELDIFF model-ran-out-of-fuel"
            else if m == log then "" else "MODELDIFF " ++ " ".intercalate (m.map Ev.toString)
          else ""
        if a == "" && b == "" then (if prog.timerFree then "OK" else "OK-ORACLE") else (a ++ " " ++ b).trimAscii.toString
    | _ => "BADLINE"
  | _ => "BADLINE"

end GN.Driver.C18
