import GN.Process.Env

/-! Line protocol for C20.
`C20 <nenv> e… <nrt> <nops> (<rt> S <k> <v> | <rt> D <k> | H S <k> <v> | H D <k> | N)… => (R <n> (k v)…)^runtimes H <m> e…`
(hex, sorted; `H` = the host changes its own environment, `N` = a further runtime is created now) -/

namespace GN.Driver.C20
open GN GN.Process

def leBytes : List UInt8 → List UInt8 → Bool
  | [], _ => true
  | _ :: _, [] => false
  | a :: as, b :: bs => if a < b then true else if b < a then false else leBytes as bs

def sortPairs (m : EnvMap) : EnvMap := m.mergeSort (fun a b => leBytes a.1 b.1)
def sortEntries (m : List Bytes) : List Bytes := m.mergeSort leBytes

def takeHex : List String → Nat → Option (List Bytes × List String)
  | rest, 0 => some ([], rest)
  | t :: rest, n + 1 => do
    let b ← parseHexBytes t
    let (xs, rest) ← takeHex rest n
    pure (b :: xs, rest)
  | [], _ + 1 => none

def takeOps : List String → Nat → Option (List WOp × List String)
  | rest, 0 => some ([], rest)
  | "N" :: rest, n + 1 => do
    let (xs, rest) ← takeOps rest n
    pure (.newRuntime :: xs, rest)
  | "H" :: "S" :: k :: v :: rest, n + 1 => do
    let k ← parseHexBytes k
    let v ← parseHexBytes v
    let (xs, rest) ← takeOps rest n
    pure (.hostSet k v :: xs, rest)
  | "H" :: "D" :: k :: rest, n + 1 => do
    let k ← parseHexBytes k
    let (xs, rest) ← takeOps rest n
    pure (.hostDel k :: xs, rest)
  | rt :: "S" :: k :: v :: rest, n + 1 => do
    let rt ← rt.toNat?
    let k ← parseHexBytes k
    let v ← parseHexBytes v
    let (xs, rest) ← takeOps rest n
    pure (.js rt (.set k v) :: xs, rest)
  | rt :: "D" :: k :: rest, n + 1 => do
    let rt ← rt.toNat?
    let k ← parseHexBytes k
    let (xs, rest) ← takeOps rest n
    pure (.js rt (.del k) :: xs, rest)
  | _, _ => none

def fmtWorld (rts : List EnvMap) (host : List Bytes) : String :=
  let r := rts.flatMap fun m =>
    let s := sortPairs m
    "R" :: toString s.length :: s.flatMap fun (k, v) => [hexOfBytes k, hexOfBytes v]
  let h := sortEntries host
  " ".intercalate (r ++ ("H" :: toString h.length :: h.map hexOfBytes))

/-- specification, computed differently from the model: the names of the host environment, each with the
    host's value (`hostValue`), then the runtime's own operations in order -/
def specRuntime (host : List Bytes) (ops : List Op) : EnvMap :=
  let names := (host.filterMap fun e => (splitEnv e).map (·.1)).eraseDups
  let start : EnvMap := names.filterMap fun k => (hostValue host k).map fun v => (k, v)
  ops.foldl (fun m op => match op with
    | .set k v => if (m.any (·.1 == k)) then m.map (fun p => if p.1 == k then (k, v) else p) else m ++ [(k, v)]
    | .del k => m.filter (·.1 != k)) start

def handle (toks : List String) : String :=
  match toks with
  | n :: rest =>
    match n.toNat? with
    | none => "BADLINE"
    | some n =>
      match takeHex rest n with
      | some (env, nrt :: nops :: rest) =>
        match nrt.toNat?, nops.toNat? with
        | some nrt, some nops =>
          match takeOps rest nops with
          | some (ops, "=>" :: impl) =>
            let impl := " ".intercalate impl
            let w := (World.init env nrt).runW ops
            let model := fmtWorld w.rts w.host
            -- specification, computed differently: for every runtime the host environment *at the moment it was
            -- created* (the host's own changes replayed as a name -> value table), then its own operations
            let hostAt (k : Nat) : List Bytes := (ops.take k).foldl (fun h o => match o with
              | .hostSet a b => hostSet h a b
              | .hostDel a => hostDel h a
              | _ => h) env
            let created : List Nat := (List.replicate nrt 0) ++
              ((List.range ops.length).filter fun k => match ops.getD k .newRuntime with
                | .newRuntime => true
                | _ => false)
            let spec := fmtWorld ((List.range created.length).map fun j =>
              specRuntime (hostAt (created.getD j 0)) (ops.filterMap fun o => match o with
                | .js i op => if i == j then some op else none
                | _ => none)) (hostAt ops.length)
            let a := if model == impl then "" else "MODELDIFF " ++ model
            let b := if spec == impl then "" else "SPECFAIL expected: " ++ spec
            if a == "" && b == "" then "OK" else (a ++ " " ++ b).trimAscii.toString
          | _ => "BADLINE"
        | _, _ => "BADLINE"
      | _ => "BADLINE"
  | _ => "BADLINE"

end GN.Driver.C20
