import GN.Buffer.Codec

/-! Line protocol for C11. Strings are UTF-16 code units, 4 hex digits each ("-" = empty); bytes are hex.
```
C11 FROM|DECB <enc|~> <str16>                      => <bytes>
C11 FILL <enc|~> <size> <str16>                    => <bytes> | throw:<Class>
C11 WRITE <enc|~> <buf> <str16> <off> <len|~>      => <n> <buf> | throw:<Class>
C11 TOSTR <enc|~> <bytes> <start> <end>            => <str16> | throw:<Class>       (start/end: U | N:<bits> | X)
C11 ENCB <enc> <bytes>                             => <str16> | buffer
C11 RT <enc> <bytes>                               => <bytes>                        (Buffer.from(b.toString(enc), enc))
C11 ALIKE <n> (N:<bits>|U)^n                       => <bytes>
C11 EQ <bytes> <bytes>                             => t | f
C11 COPY <kind>                                    => copied | shared
``` -/

namespace GN.Driver.C11
open GN GN.Buffer.Codec

def parse16 (s : String) : Option (List UInt16) :=
  if s == "-" then some [] else
  let rec go : List Char → List UInt16 → Option (List UInt16)
    | [], acc => some acc.reverse
    | a :: b :: c :: d :: rest, acc =>
      match hexDigitVal a, hexDigitVal b, hexDigitVal c, hexDigitVal d with
      | some w, some x, some y, some z => go rest (UInt16.ofNat (w * 4096 + x * 256 + y * 16 + z) :: acc)
      | _, _, _, _ => none
    | _, _ => none
  go s.toList []

def fmt16 (s : List UInt16) : String :=
  if s.isEmpty then "-" else String.join (s.map fun u => hexOfNat u.toNat 4)

def encArg (t : String) : Option String := if t == "~" then none else some t

/-- `getStringCodec`: undefined → utf8; unknown name → TypeError -/
def codecOrThrow (t : String) : Option Enc := if t == "~" then some .utf8 else encOfName t

def intArg (t : String) (dflt : Int) : Option Int :=
  if t == "U" then some dflt
  else if t == "X" then some 0
  else if t.startsWith "N:" then (parseHexNat (t.drop 2).toString).map fun n => (F64.mk (UInt64.ofNat n)).toIntegerClip
  else none

def model (toks : List String) : Option String :=
  match toks with
  | ["FROM", e, s] | ["DECB", e, s] => do pure (hexOfBytes (fromString (encArg e) (← parse16 s)))
  | ["FILL", e, n, s] => do
    let n ← n.toNat?; let s ← parse16 s
    match codecOrThrow e with
    | none => pure "throw:TypeError"
    | some c => pure (hexOfBytes (fill c n s))
  | ["WRITE", e, b, s, o, l] => do
    let b ← parseHexBytes b; let s ← parse16 s; let o ← o.toNat?
    let l ← (if l == "~" then some (b.length - o) else l.toNat?)
    match codecOrThrow e with
    | none => pure "throw:TypeError"
    | some c => let (n, nb) := write c b s o l; pure (toString n ++ " " ++ hexOfBytes nb)
  | ["TOSTR", e, b, st, en] => do
    let b ← parseHexBytes b
    match codecOrThrow e with
    | none => pure "throw:TypeError"
    | some c => pure (fmt16 (toStringRange c b (← intArg st 0) (← intArg en b.length)))
  | ["ENCB", e, b] => do
    let b ← parseHexBytes b
    match encOfName e with
    | some c => pure (fmt16 (encode c b))
    | none => pure "buffer"
  | ["RT", e, b] => do
    let b ← parseHexBytes b
    match encOfName e with
    | some c => pure (hexOfBytes (decode c (encode c b)))
    | none => none
  | "ALIKE" :: n :: rest => do
    let _ ← n.toNat?
    -- ToUint8: the exact integer part (no int64 saturation) modulo 256
    let vals ← rest.mapM fun t =>
      if t.startsWith "N:" then (parseHexNat (t.drop 2).toString).map fun n => (F64.mk (UInt64.ofNat n)).toIntegerExact
      else intArg t 0
    pure (hexOfBytes (fromArrayLike vals))
  | ["EQ", a, b] => do pure (if (← parseHexBytes a) == (← parseHexBytes b) then "t" else "f")
  | ["COPY", k] => pure (if k == "arraybuffer" then "shared" else "copied")
  | _ => none

/-- the property's own clauses, evaluated on the implementation's answer where they are independent of the model -/
def specOK (toks : List String) (impl : String) : Option String :=
  match toks with
  | ["RT", e, b] =>
    -- Buffer.from(b.toString(enc), enc) has exactly the bytes of b (utf8: when b is well-formed)
    match parseHexBytes b with
    | some bytes =>
      if e == "utf8" && !validUtf8 bytes then none
      else if impl == hexOfBytes bytes then none else some ("round trip must give back " ++ b)
    | none => none
  | ["EQ", a, b] => if impl == (if a == b then "t" else "f") then none else some "equals is byte equality"
  | _ => none

def handle (toks : List String) : String :=
  let (inp, out) := toks.span (· != "=>")
  let impl := " ".intercalate (out.drop 1)
  match model inp with
  | none => "BADLINE"
  | some m =>
    let a := if m == impl then "" else "MODELDIFF " ++ m
    let b := match specOK inp impl with | none => "" | some e => "SPECFAIL " ++ e.replace " " "_"
    if a == "" && b == "" then "OK" else (a ++ " " ++ b).trimAscii.toString

end GN.Driver.C11
