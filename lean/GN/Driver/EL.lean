import GN.EventLoop.Model
import GN.EventLoop.Queue
import GN.EventLoop.Ledger

/-! Line protocol for the event-loop properties: `EL <event>…`, events as produced by el-sched:
`Y,role,point,job,a<n>,t<b>,c<b>,r<b>,x<b>,n<int>,j<n>,@<us>` | `R,role,point` | `A,role,field…,@<us>` |
`STUCK,…` | `STEPLIMIT` | `LEAK,role,point` | `END,leaks=<n>,<snapshot>` | `ERR,…` -/

namespace GN.Driver.EL
open GN GN.EventLoop

def parseSnap (f : List String) : Option Snap :=
  match f with
  | [a, t, c, r, x, n, j] =>
    let b (s : String) : Bool := (s.drop 1).toString == "1"
    do
      let a ← (a.drop 1).toString.toNat?
      let n ← (n.drop 1).toString.toInt?
      let j ← (j.drop 1).toString.toNat?
      pure ⟨a, b t, b c, b r, b x, n, j⟩
  | _ => none

def timeOf (s : String) : Nat := ((s.drop 1).toString.toNat?).getD 0

open GN.EventLoop.Queue (Lbl stepQ)

/-- apply labels of the abstract queue system; the error names the label that is not enabled -/
def applyLabels (a : Queue.St) (ls : List Lbl) : Except String Queue.St :=
  ls.foldlM (fun a l => match stepQ a l with
    | some a' => pure a'
    | none => .error ("abstract queue/stop model (GN.EventLoop.Queue) does not allow step " ++ toString (repr l))) a

/-- the abstract steps a recorded event stands for (`pre`/`post`: the detailed model's state around the event) -/
def absLabels (pre post : St) (a : Queue.St) (kind role pt : String) (q : String) (evIdx : Nat) : Except String Queue.St := do
  let t := getThread pre role
  let p := t.pc
  -- a start shows as running false → true
  let a ← applyLabels a (if !pre.running && post.running then [Lbl.start] else [])
  if kind == "R" then
    applyLabels a (match pt with
      | "aux.wake" | "snw.wake" => [Lbl.wake]
      | "stop.wake" => [.stopWake]
      | "runaux.job" => if t.ctx == "term" then [.termExecOne] else [.execOne]
      | _ => [])
  else if kind == "A" then
    -- a call that returns straight from aux.enq was refused
    applyLabels a (if p == "aux.enq" && pt == "ret" then [Lbl.refuse (100000 + evIdx)] else [])
  else do
    -- leaving p
    let a ← applyLabels a (match p with
      | "aux.enq" => if q == "aux.wake" then [Lbl.enqueue pre.nextQid] else [.refuse (100000 + evIdx)]
      | "runaux.swap" => if t.ctx == "term" then [.termSwap] else [.swap]
      | "run.select" => if q == "run.wake" then [.takeToken] else []
      | "run.check" => [.chk]
      | "stop.store" => [.stopStore]
      | "snw.enter" => if q == "snw.wake" then [.snwStore] else []
      | "term.flag" => [.termFlag]
      | _ => [])
    -- Stop may observe the end of the loop before the loop goroutine reaches its next yield point
    let a ← applyLabels a (if p == "stop.wait" && q == "stop.exit" && a.cpc == .waiting then [Lbl.exit] else [])
    -- arriving at q
    let a ← applyLabels a (match q with
      | "runaux.done" => if (getThread post role).ctx == "term" then [Lbl.termExecDone] else [.execDone]
      | _ => [])
    let a ← applyLabels a (if q == "run.exit" && a.lpc == .sel then [Lbl.quiesce] else [])
    applyLabels a (if q == "run.done" && a.lpc == .exit then [Lbl.exit] else [])

/-! ### mapping to the job-ledger system (`GN.EventLoop.Ledger`) -/

structure LMap where
  ls : Ledger.St := {}
  idx : List (Nat × Nat) := []                 -- trace job id ↦ index in the ledger's job list
  pending : List (Nat × Ledger.Lbl) := []      -- labels that were not enabled yet (per job), in order
  willset : List (String × String) := []       -- role ↦ kind of the set* call in progress
  clearLive : List (String × Bool) := []       -- role ↦ was the job live when its clearTimeout was released
  termSet : List Nat := []                     -- timeouts cancelled by the Terminate in progress (trace ids)

def LMap.index (m : LMap) (jid : Nat) : Option Nat := (m.idx.find? (·.1 == jid)).map (·.2)

/-- try the deferred labels of job `i` again, in order, as long as one goes through -/
partial def LMap.retry (m : LMap) (i : Nat) : LMap :=
  match m.pending.find? (·.1 == i) with
  | none => m
  | some (_, l) =>
    match Ledger.stepL m.ls l with
    | none => m
    | some ls' =>
      let rec dropFirst : List (Nat × Ledger.Lbl) → List (Nat × Ledger.Lbl)
        | [] => []
        | x :: xs => if x.1 == i then xs else x :: dropFirst xs
      LMap.retry { m with ls := ls', pending := dropFirst m.pending } i

/-- take a ledger step for job `i`, or defer it behind the steps of that job still to come -/
def LMap.emit (m : LMap) (i : Nat) (l : Ledger.Lbl) : LMap :=
  -- (a deferred step of the job's goroutine may be waiting for exactly this step of the loop, e.g. the second tick
  --  of an interval for the delivery of the first)
  match Ledger.stepL m.ls l with
  | some ls' => LMap.retry { m with ls := ls' } i
  | none => { m with pending := m.pending ++ [(i, l)] }

def LMap.ensure (m : LMap) (jid : Nat) (kind : String) : LMap × Nat :=
  match m.index jid with
  | some i => (m, i)
  | none =>
    let l := if kind == "interval" then Ledger.Lbl.setInterval else if kind == "immediate" then .setImmediate else .setTimeout
    match Ledger.stepL m.ls l with
    | some ls' => ({ m with ls := ls', idx := (jid, m.ls.jobs.length) :: m.idx }, m.ls.jobs.length)
    | none => (m, 0)

def ledgerG (m : LMap) (i : Nat) : Option Ledger.GSt := (m.ls.jobs[i]?).map (·.g)

/-- clear of a timeout whose outcome (timer.Stop()) the detailed model has resolved -/
def LMap.clearTimeout (m : LMap) (post : St) (jid : Nat) (live : Bool) : LMap :=
  match m.index jid with
  | none => m
  | some i =>
    if !live then m.emit i (.clearNoop i) else
    let removed := match getJob post jid with | some j => j.g == .done && !j.inJobs | none => true
    if !removed && ledgerG m i == some .armed then (m.emit i (.expire i)).emit i (.clear i)
    else m.emit i (.clear i)

def ledgerLabels (pre post : St) (m : LMap) (kind role pt : String) (job : Option Nat) (fields : List String) : LMap :=
  let t := getThread pre role
  -- the terminated flag
  let m := if pre.terminated != post.terminated then
      match Ledger.stepL m.ls (.setTerminated post.terminated) with | some l => { m with ls := l } | none => m
    else m
  if kind == "A" then
    match fields with
    | ["willset", k] => { m with willset := (role, k) :: m.willset.filter (·.1 != role) }
    | _ => m
  else if kind == "R" then
    match pt, t.ptJob with
    | "deliver.timeout", some jid =>
      match m.index jid, getJob pre jid with
      | some i, some j => m.emit i (if j.cancelled then .deliverDead i else .deliverLive i)
      | _, _ => m
    | "deliver.immediate", some jid =>
      match m.index jid, getJob pre jid with
      | some i, some j => m.emit i (if j.cancelled then .runImmediateDead i else .runImmediateLive i)
      | _, _ => m
    | "deliver.interval", some jid => match m.index jid with | some i => m.emit i (.deliverTick i) | none => m
    | "deliver.remove", some jid => match m.index jid with | some i => m.emit i (.deliverRemove i) | none => m
    | "clear.interval", some jid | "clear.immediate", some jid =>
      match m.index jid, getJob pre jid with
      | some i, some j => m.emit i (if j.cancelled then .clearNoop i else .clear i)
      | _, _ => m
    | "clear.timeout", some jid =>
      let live := match getJob pre jid with | some j => !j.cancelled | none => false
      { m with clearLive := (role, live) :: m.clearLive.filter (·.1 != role) }
    | "term.cancel", _ =>
      -- intervals are cancelled at once (their goroutines may react before the controller's next yield point);
      -- timeouts when the registry size is known
      let victims := pre.jobs.filter fun j => j.inJobs && !j.cancelled
      let m := victims.foldl (fun m j =>
        if j.kind == .interval then match m.index j.id with | some i => m.emit i (.clear i) | none => m else m) m
      { m with termSet := (victims.filter (·.kind != .interval)).map (·.id) }
    | _, _ => m
  else
    -- Y: first what the thread has just left …
    let m := if t.pc == "clear.timeout" then
        match t.ptJob with
        | some jid => m.clearTimeout post jid ((m.clearLive.find? (·.1 == role)).map (·.2) |>.getD false)
        | none => m
      else if t.pc == "term.cancel" then
        { (m.termSet.foldl (fun m jid => m.clearTimeout post jid true) m) with termSet := [] }
      else m
    -- … then where it arrives
    match pt, job with
    | "sched.js", some jid =>
      (m.ensure jid ((m.willset.find? (·.1 == role)).map (·.2) |>.getD "timeout")).1
    | "sched.go", some jid =>
      (m.ensure jid (match pre.cur with | some ⟨_, .gosi _⟩ => "interval" | _ => "timeout")).1
    | "sched.immediate", some jid => (m.ensure jid "immediate").1
    | "timer.fire", some jid =>
      let (m, i) := m.ensure jid "timeout"
      if ledgerG m i == some .armed then m.emit i (.expire i) else m
    | "ival.select", some jid => (m.ensure jid "interval").1
    | "ival.tick", some jid => let (m, i) := m.ensure jid "interval"; m.emit i (.tick i)
    | "ival.stop", some jid => let (m, i) := m.ensure jid "interval"; m.emit i (.istop i)
    | _, _ => m

structure Outcome where
  lm : LMap := {}
  abs : Queue.St := {}
  st : St
  err : Option String := none
  stuck : Option String := none
  stepLimit : Bool := false
  leaks : Nat := 0
  ended : Bool := false
  endSnap : Option Snap := none
  harnessErr : Bool := false
  nEvents : Nat := 0
  /-- the next arrival of this thread happened while the thread the scheduler had released was still running (it
  had been blocked on a lock that thread released): its snapshot may show half of that thread's segment -/
  concurrentArrival : Option String := none

def feed (o : Outcome) (ev : String) : Outcome :=
  if o.err.isSome then o else
  let o := { o with nEvents := o.nEvents + 1 }
  let f := ev.splitOn ","
  let res : Except String Outcome :=
    match f with
    | "Y" :: role :: pt :: job :: rest =>
      match rest.reverse with
      | tm :: snapRev =>
        match parseSnap snapRev.reverse with
        | some snap => do
          let st ← stepY o.st role pt (parseNatOpt job) snap (timeOf tm) (o.concurrentArrival != some role)
          let a ← absLabels o.st st o.abs "Y" role pt pt o.nEvents
          pure { o with st := st, abs := a, lm := ledgerLabels o.st st o.lm "Y" role pt (parseNatOpt job) [],
                        concurrentArrival := none }
        | none => .error "BADEVENT snapshot"
      | [] => .error "BADEVENT"
    | ["Q", role] => pure { o with concurrentArrival := some role }
    | ["R", role, pt] => do
      let st ← stepRelease o.st role pt
      let a ← absLabels o.st st o.abs "R" role pt "" o.nEvents
      pure { o with st := st, abs := a, lm := ledgerLabels o.st st o.lm "R" role pt none [] }
    | "A" :: role :: rest =>
      match rest.reverse with
      | tm :: fr => do
        let st ← stepA o.st role fr.reverse (timeOf tm)
        let a ← absLabels o.st st o.abs "A" role ((fr.reverse.head?).getD "") "" o.nEvents
        pure { o with st := st, abs := a, lm := ledgerLabels o.st st o.lm "A" role "" none fr.reverse }
      | [] => .error "BADEVENT"
    | "STUCK" :: w => pure { o with stuck := some (",".intercalate w) }
    | ["STEPLIMIT"] => pure { o with stepLimit := true }
    | "LEAK" :: _ => pure o
    | "ERR" :: _ => pure { o with harnessErr := true }
    | "END" :: lk :: snap =>
      pure { o with ended := true, leaks := ((lk.drop 6).toString.toNat?).getD 0, endSnap := parseSnap snap }
    | _ => .error ("BADEVENT " ++ ev)
  match res with
  | .ok o' => o'
  | .error e => { o with err := some (e ++ " @event#" ++ toString o.nEvents ++ " " ++ ev) }

/-- which property a model complaint is evidence against (`none`: only the correspondence is broken) -/
def classify (msg : String) : Option String :=
  let has (p : String) : Bool := (msg.splitOn p).length > 1
  if has "overlap" || has "not executing the loop" || has "while the loop is stopped" then some "C03"
  else if has "RunOnLoop" || has "is not the one that is due (fn" || has "not due: fn" || has "did not run" || has "queue entry was skipped" then some "C04"
  else if has "early" || has "runs twice" || has "cleared before" || has "another job's callback" || has "fires twice" || has "not due: timeout" || has "not due: interval" || has "not due: immediate" then some "C05"
  else if (has "mismatch in [jobCount" || has ",jobCount" || has "mismatch in [jobs") then
    -- wrong accounting seen inside or after Terminate also contradicts "leaves nothing behind / fresh after restart"
    (if has "terminated := true" || has " term." then some "C06+C08" else some "C06")
  else if has "mismatch in [auxJobs" || has "mismatch in [token" then some "C04"
  else if has "mismatch in [canRun" || has "mismatch in [running" then some "C07"
  else if has "mismatch in [terminated" then some "C08"
  else if has "Stop() returned" || has "live-job" || has "live jobs" || has "no live job" then some "C06"
  else if has "Stop on a running loop" || has "Stop returned from Wait while" then some "C07+C03"
  else if has "Stop " || has "stop." || has "StopNoWait" || has "canRun" then some "C07"
  else if has "Terminate" || has "terminated" || has "refused" then some "C08"
  else none

def handle (toks : List String) : String :=
  let o := toks.foldl feed { st := init }
  if o.harnessErr then "OK-NOCLAIM harness-settle-timeout" else
  match o.err with
  | some e =>
    -- a jobCount mismatch in an otherwise matching state is evidence against the live-job accounting
    let isCount := (e.splitOn "state mismatch").length > 1
    match classify e with
    | some p => "SPECFAIL:" ++ p ++ " " ++ e.replace " " "_"
    | none => (if isCount then "MODELDIFF " else "MODELDIFF ") ++ e.replace " " "_"
  | none =>
    match o.stuck with
    | some w =>
      let st := o.st
      let p := if (w.splitOn "sync.Cond.Wait").length > 1 then "C07"
               else if st.inTerm || (getThread st "C").pc.startsWith "term." then "C08"
               else if !st.aux.isEmpty || !st.batch.isEmpty then "C04" else "C07"
      "SPECFAIL:" ++ p ++ " stuck:" ++ w
    | none =>
      if o.stepLimit then "OK-NOCLAIM steplimit"
      else if !o.ended then "BADLINE no-END"
      else
        let st := o.st
        if o.leaks != 0 then "SPECFAIL:C08 goroutines_left_after_Terminate:" ++ toString o.leaks
        else if !o.lm.pending.isEmpty then
          "MODELDIFF job-ledger_model_(GN.EventLoop.Ledger)_does_not_allow_step " ++ (toString (repr (o.lm.pending.head?.map (·.2)))).replace " " "_"
        else if o.lm.ls.jobCount != 0 || o.lm.ls.jobs.any (·.inJobs) then
          "SPECFAIL:C06 ledger_after_the_final_Terminate jobCount=" ++ toString o.lm.ls.jobCount
        else if o.abs.executed != o.abs.accepted then
          "SPECFAIL:C04 queue_entries_not_all_executed_once_in_order accepted=" ++ toString o.abs.accepted ++ " executed=" ++ toString o.abs.executed
        else if st.executed != st.accepted then
          "SPECFAIL:C04 accepted_functions_not_all_executed_once_in_order accepted=" ++ toString st.accepted ++ " executed=" ++ toString st.executed
        else if st.jobCount != 0 || st.regCount != 0 then
          "SPECFAIL:C06 after_the_final_Terminate jobCount=" ++ toString st.jobCount ++ " jobs=" ++ toString st.regCount
        else "OK"

/-! ## flood scenarios (large batches, run freely): C04's clauses evaluated on the observed log -/

/-- `S name k:ok,k:ok,…` sections followed by `X id id …`; ids are `name:k` -/
def handleFlood (toks : List String) : String :=
  match toks with
  | [_, "HANG"] => "SPECFAIL:C07 flood:_the_scenario_did_not_finish_(Stop/Terminate_or_the_queue_never_drained)"
  | _ :: rest =>
    let (secs, xs) := rest.span (· != "X")
    let executed := xs.drop 1
    -- sections
    let rec parseSecs (l : List String) (fuel : Nat) : Option (List (String × List (Nat × Bool))) :=
      match fuel, l with
      | _, [] => some []
      | 0, _ => none
      | fuel + 1, "S" :: name :: items :: more => do
        let its ← (items.splitOn ",").mapM fun it =>
          match it.splitOn ":" with
          | [k, ok] => do pure ((← k.toNat?), ok == "true")
          | _ => none
        let restSecs ← parseSecs more fuel
        pure ((name, its) :: restSecs)
      | _, _ => none
    match parseSecs secs (secs.length + 1) with
    | none => "BADLINE flood"
    | some ss =>
      let accepted : List String := ss.flatMap fun (n, its) => (its.filter (·.2)).map fun it => n ++ ":" ++ toString it.1
      let refused : List String := ss.flatMap fun (n, its) => (its.filter (!·.2)).map fun it => n ++ ":" ++ toString it.1
      let dup := executed.length != executed.eraseDups.length
      let missing := accepted.filter (!executed.contains ·)
      let extra := executed.filter (!accepted.contains ·)
      let ranRefused := refused.filter (executed.contains ·)
      let badOrder := ss.filter fun (n, its) =>
        let mine := executed.filterMap fun id => match id.splitOn ":" with
          | [m, k] => if m == n then k.toNat? else none
          | _ => none
        mine != (its.filter (·.2)).map (·.1)
      if dup then "SPECFAIL:C04 flood:_a_function_was_executed_more_than_once"
      else if !ranRefused.isEmpty then "SPECFAIL:C04 flood:_a_refused_function_was_executed:_" ++ (ranRefused.head?.getD "")
      else if !missing.isEmpty then "SPECFAIL:C04 flood:_an_accepted_function_was_never_executed:_" ++ (missing.head?.getD "") ++ s!"_({missing.length}_of_{accepted.length})"
      else if !extra.isEmpty then "SPECFAIL:C04 flood:_something_was_executed_that_nobody_submitted:_" ++ (extra.head?.getD "")
      else if !badOrder.isEmpty then "SPECFAIL:C04 flood:_the_functions_of_submitter_" ++ ((badOrder.head?.map (·.1)).getD "") ++ "_did_not_run_in_its_order"
      else "OK"
  | _ => "BADLINE flood"

end GN.Driver.EL
