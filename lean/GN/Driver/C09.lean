import GN.Basic

/-! Line protocol for C09: `C09 <target> <this> <args> => ok | throw:<ErrorName> | PANIC … | GOERROR … | HANG | UNCAUGHT … | LOOPDEAD`.
The property's clause is evaluated on the implementation's answer: a call returns a value or throws a JavaScript
exception the script can catch. -/

namespace GN.Driver.C09

def handle (toks : List String) : String :=
  let (inp, out) := toks.span (· != "=>")
  match inp.length, out.drop 1 with
  | 3, [r] =>
    if r == "ok" then "OK"
    else if r.startsWith "throw:" then
      -- a catchable exception; a thrown value that is not an Error object would be reported as throw:nonError
      if r == "throw:nonError" then "SPECFAIL the_library_threw_a_value_that_is_not_an_Error" else "OK"
    else "SPECFAIL " ++ r
  | 3, r :: rest => "SPECFAIL " ++ "_".intercalate (r :: rest)
  | _, _ => "BADLINE shape"

end GN.Driver.C09
