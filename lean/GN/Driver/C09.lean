import GN.Basic

/-! Line protocol for C09: `C09 <target> <this> <args> => ok | throw:<ErrorName> | PANIC … | GOERROR … | HANG | UNCAUGHT … | LOOPDEAD`.
The property's clause is evaluated on the implementation's answer: a call returns a value or throws a JavaScript
exception the script can catch. -/

namespace GN.Driver.C09

def one (r : String) : Option String :=
  if r == "ok" then none
  else if r.startsWith "throw:" then
    -- a catchable exception; a thrown value that is not an Error object would be reported as throw:nonError
    if r == "throw:nonError" then some "the_library_threw_a_value_that_is_not_an_Error" else none
  else some r

/-- a case is a session of calls; every call must return or throw a catchable Error -/
def handle (toks : List String) : String :=
  let (inp, out) := toks.span (· != "=>")
  let res := out.drop 1
  if inp.length != 1 || res.isEmpty then "BADLINE shape"
  else
    let steps := (inp.headD "").splitOn ";"
    -- a crash report takes the rest of the line
    match res.findIdx? (fun r => (one r).isSome) with
    | some i => "SPECFAIL step_" ++ toString i ++ "_" ++ (steps.getD i "?") ++ "_" ++ "_".intercalate (res.drop i)
    | none => if res.length == steps.length then "OK" else "BADLINE arity"

/-- C17: `C17 <kind> <seed> => ok | RACE … | DEADLOCK | FAIL … | CRASH …` -/
def handle17 (toks : List String) : String :=
  let (inp, out) := toks.span (· != "=>")
  match inp.length, out.drop 1 with
  | 2, ["ok"] => "OK"
  | 2, r :: rest => "SPECFAIL " ++ "_".intercalate (r :: rest)
  | _, _ => "BADLINE shape"

end GN.Driver.C09
