import GN.Util.Format

/-! Line protocol for C19.
`C19 FMT <fmt|U> <k> (s d j)^k => <outhex>`
`C19 CON <ncalls> (<method> <fmt|U> <k> (s d j)^k)^ncalls => <n> (<Sink> <hex>)^n`
strings are UTF-8 in hex, "-" is the empty string, U = undefined / absent; a rendering `!` means that this conversion of
this argument throws (cyclic object for %j, Symbol for %d, a throwing toString …): a call that needs it throws. -/

namespace GN.Driver.C19
open GN GN.Util

/-- stands for "this conversion throws"; no real rendering contains U+0001 -/
def throwMark : List Char := [Char.ofNat 1, 'T', 'H', 'R', 'O', 'W', Char.ofNat 1]

def hexToChars (s : String) : Option (List Char) := do
  if s == "!" then return throwMark
  let bs ← parseHexBytes s
  let str ← String.fromUTF8? (ByteArray.mk bs.toArray)
  pure str.toList

def charsToHex (cs : List Char) : String := hexOfBytes (String.ofList cs).toUTF8.toList

def parseRendered : List String → Nat → Option (List Rendered × List String)
  | rest, 0 => some ([], rest)
  | s :: d :: j :: rest, k + 1 => do
    let s ← hexToChars s
    let d ← hexToChars d
    let j ← hexToChars j
    let (xs, rest) ← parseRendered rest k
    pure (⟨s, d, j⟩ :: xs, rest)
  | _, _ => none

def parseFmt (t : String) : Option (Option (List Char)) :=
  if t == "U" then some none else (hexToChars t).map some

def parseCalls : List String → Nat → Option (List ConsoleCall × List String)
  | rest, 0 => some ([], rest)
  | m :: f :: k :: rest, n + 1 => do
    let f ← parseFmt f
    let k ← k.toNat?
    let (args, rest) ← parseRendered rest k
    let (cs, rest) ← parseCalls rest n
    pure (⟨m, f, args⟩ :: cs, rest)
  | _, _ => none

def fmtMsgs (ms : List (String × List Char)) : String :=
  " ".intercalate (toString ms.length :: ms.flatMap fun (s, m) => [s, charsToHex m])

def verdict (model spec impl : String) : String :=
  let a := if model == impl then "" else "MODELDIFF " ++ model
  let b := if spec == impl then "" else "SPECFAIL expected: " ++ spec
  if a == "" && b == "" then "OK" else (a ++ " " ++ b).trimAscii.toString

def handle (toks : List String) : String :=
  match toks with
  | "FMT" :: f :: k :: rest =>
    match parseFmt f, k.toNat? with
    | some f, some k =>
      match parseRendered rest k with
      | some (args, "=>" :: impl) =>
        let f := f.getD []
        -- the call throws exactly when the text it would build uses a conversion that throws
        let render (r : List Char) : String :=
          if r.contains (Char.ofNat 1) then "THROW" else charsToHex r
        verdict (render (format f args)) (render (formatSpec f args)) (" ".intercalate impl)
      | _ => "BADLINE"
    | _, _ => "BADLINE"
  | "CON" :: n :: rest =>
    match n.toNat? with
    | some n =>
      match parseCalls rest n with
      | some (calls, "=>" :: impl) =>
        verdict (fmtMsgs (consoleModel calls)) (fmtMsgs (consoleSpec calls)) (" ".intercalate impl)
      | _ => "BADLINE"
    | none => "BADLINE"
  | _ => "BADLINE"

end GN.Driver.C19
