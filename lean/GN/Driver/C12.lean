import GN.Url.Params

/-! Line protocol for C12.
`C12 <ctor> <nops> <op>… => <obs>^(nops+1)`
ctor: `CN` | `CS <hex>` | `CR|CP|CU|CC <n> (k v)^n`   (`CC`: a = new URLSearchParams(pairs); the object under test is
      `new URLSearchParams(a)`; `a` is kept, and op `X` swaps the two: a copy must be independent of its source)
op:   `A k v` `D1 k` `D2 k v` `DU k` `S k v` `O` `G k` `L k` `H1 k` `H2 k v` `HU k` `IK` `IV` `IE` `N <i>`
obs:  `<res> <rt> <n> (k v)^n <toStringHex>`  -/

namespace GN.Driver.C12
open GN GN.Url

inductive Op where
  | append (k v : Bytes) | del (k : Bytes) (v : Option Bytes) | set (k v : Bytes) | sort
  | get (k : Bytes) | getAll (k : Bytes) | has (k : Bytes) (v : Option Bytes)
  | iter (typ : Nat) | next (i : Nat)
  | swap
  | feMut (k mk : Nat) (key val : Bytes)   -- forEach whose k-th callback call appends (0) / deletes by name (1) / sets (2)
  deriving Repr, Inhabited

def hx (s : String) : Option Bytes := parseHexBytes s

def parsePairs : List String → Nat → Option (Params × List String)
  | rest, 0 => some ([], rest)
  | k :: v :: rest, n + 1 => do
    let k ← hx k; let v ← hx v
    let (ps, rest) ← parsePairs rest n
    pure (⟨k, v⟩ :: ps, rest)
  | _, _ => none

def parseOps : List String → Nat → Option (List Op × List String)
  | rest, 0 => some ([], rest)
  | toks, n + 1 =>
    let one : Option (Op × List String) :=
      match toks with
      | "A" :: k :: v :: r => do pure (.append (← hx k) (← hx v), r)
      | "D1" :: k :: r => do pure (.del (← hx k) none, r)
      | "DU" :: k :: r => do pure (.del (← hx k) none, r)
      | "D2" :: k :: v :: r => do pure (.del (← hx k) (some (← hx v)), r)
      | "S" :: k :: v :: r => do pure (.set (← hx k) (← hx v), r)
      | "O" :: r => some (.sort, r)
      | "G" :: k :: r => do pure (.get (← hx k), r)
      | "L" :: k :: r => do pure (.getAll (← hx k), r)
      | "H1" :: k :: r => do pure (.has (← hx k) none, r)
      | "HU" :: k :: r => do pure (.has (← hx k) none, r)
      | "H2" :: k :: v :: r => do pure (.has (← hx k) (some (← hx v)), r)
      | "IK" :: r => some (.iter 0, r)
      | "IV" :: r => some (.iter 1, r)
      | "IE" :: r => some (.iter 2, r)
      | "N" :: i :: r => do pure (.next (← i.toNat?), r)
      | "X" :: r => some (.swap, r)
      | "FM" :: k :: mk :: key :: v :: r => do pure (.feMut (← k.toNat?) (← mk.toNat?) (← hx key) (← hx v), r)
      | _ => none
    match one with
    | none => none
    | some (op, r) => do
      let (ops, r) ← parseOps r n
      pure (op :: ops, r)

def out (b : Bytes) : String := hexOfBytes (sanitizeUtf8 b)

def obs (res : String) (sp : Params) : String :=
  " ".intercalate ([res, "rt:1", toString sp.length] ++ sp.flatMap (fun p => [out p.name, out p.value]) ++ [hexOfBytes (serialize sp)])

structure St where
  sp : Params
  other : Params := []                  -- the source object of a copy construction (ctor CC)
  iters : List (Nat × Nat × Bool)       -- (type, idx, belongs to `other`)

/-- `useSpec = false`: the code's loops; `true`: the list-level specification -/
def step (useSpec : Bool) (st : St) : Op → St × String
  | .append k v => ({ st with sp := append st.sp k v }, "-")
  | .del k v => ({ st with sp := if useSpec then deleteSpec st.sp k v else delete st.sp k v }, "-")
  | .set k v => ({ st with sp := if useSpec then setSpec st.sp k v else set st.sp k v }, "-")
  | .sort => ({ st with sp := if useSpec then st.sp.mergeSort (fun a b => !ltName b.name a.name) else sort st.sp }, "-")
  | .get k => (st, match get st.sp k with | none => "n" | some v => "v" ++ out v)
  | .getAll k => (st, "l" ++ ",".intercalate ((getAll st.sp k).map out))
  | .has k v => (st, if has st.sp k v then "t" else "f")
  | .feMut k mk key v =>
    -- the WHATWG iteration: position i against the list as it is now; the k-th call changes the list
    let mutate (l : Params) : Params :=
      if mk == 0 then append l key v
      else if mk == 1 then (if useSpec then deleteSpec l key none else delete l key none)
      else (if useSpec then setSpec l key v else set l key v)
    let rec walk (fuel i : Nat) (l : Params) (seen : List String) : Params × List String :=
      match fuel with
      | 0 => (l, seen)
      | fuel + 1 =>
        match l[i]? with
        | none => (l, seen)
        | some p =>
          let seen := seen ++ [out p.name ++ "=" ++ out p.value]
          let l := if i == k then mutate l else l
          walk fuel (i + 1) l seen
    let (l, seen) := walk (st.sp.length + 2) 0 st.sp []
    ({ st with sp := l }, "m" ++ ",".intercalate seen)
  | .swap => ({ st with sp := st.other, other := st.sp, iters := st.iters.map fun (t, i, o) => (t, i, !o) }, "-")
  | .iter t => ({ st with iters := st.iters ++ [(t, 0, false)] }, "-")
  | .next i =>
    match st.iters[i]? with
    | none => (st, "noiter")
    | some (t, idx, onOther) =>
      let (r, idx') := iterNext (if onOther then st.other else st.sp) idx
      let res := match r with
        | none => "d"
        | some p => if t == 0 then "k" ++ out p.name else if t == 1 then "v" ++ out p.value
                    else "e" ++ out p.name ++ "," ++ out p.value
      ({ st with iters := st.iters.set i (t, idx', onOther) }, res)

def runAll (useSpec : Bool) (init : Params) (ops : List Op) : String :=
  let st0 : St := { sp := init, other := init, iters := [] }
  let (_, outs) := ops.foldl (fun (acc : St × List String) op =>
    let (st, o) := step useSpec acc.1 op
    (st, acc.2 ++ [obs o st.sp])) (st0, [obs "-" init])
  " ".intercalate outs

def handle (toks : List String) : String :=
  let ctor : Option (Params × List String) :=
    match toks with
    | "CN" :: r => some ([], r)
    | "CS" :: h :: r => (hx h).map fun b => (parse b, r)
    | c :: n :: r =>
      if c == "CR" || c == "CP" || c == "CU" || c == "CC" then n.toNat?.bind fun n => parsePairs r n else none
    | _ => none
  match ctor with
  | some (init, n :: rest) =>
    match n.toNat? with
    | some n =>
      match parseOps rest n with
      | some (ops, "=>" :: impl) =>
        let impl := " ".intercalate impl
        let model := runAll false init ops
        let spec := runAll true init ops
        let a := if model == impl then "" else "MODELDIFF " ++ model
        let b := if spec == impl then "" else "SPECFAIL expected: " ++ spec
        if a == "" && b == "" then "OK" else (a ++ " " ++ b).trimAscii.toString
      | _ => "BADLINE ops"
    | none => "BADLINE n"
  | _ => "BADLINE ctor"

end GN.Driver.C12
