/-!
# GN.Basic — shared kit: Go int64, outcomes, IEEE-754 doubles as bit patterns, hex helpers.

Everything here is core Lean only (no Mathlib), so the line-protocol driver can be run with
`lake env lean --run` or built as a `lean_exe`.
-/

namespace GN

/-- Go's `int64`: two's-complement, wrapping arithmetic. -/
abbrev I64 := BitVec 64

/-- The JavaScript error classes the library's properties distinguish. -/
inductive ErrClass where
  | typeError | rangeError | syntaxError | error | goError
  deriving DecidableEq, Repr, Inhabited

def ErrClass.toString : ErrClass → String
  | .typeError => "TypeError"
  | .rangeError => "RangeError"
  | .syntaxError => "SyntaxError"
  | .error => "Error"
  | .goError => "GoError"

instance : ToString ErrClass := ⟨ErrClass.toString⟩

/-- The three ways a call into the library can end.  `panic` is a Go run-time panic that is *not* a
JavaScript exception (index out of range, makeslice, nil dereference, …) or divergence. -/
inductive Outcome (α : Type) where
  | ok (a : α)
  | throw (c : ErrClass)
  | panic (why : String)
  deriving Repr, Inhabited

namespace Outcome
def bind {α β} (x : Outcome α) (f : α → Outcome β) : Outcome β :=
  match x with
  | .ok a => f a
  | .throw c => .throw c
  | .panic w => .panic w

instance : Monad Outcome where
  pure := .ok
  bind := bind

def isPanic {α} : Outcome α → Bool
  | .panic _ => true
  | _ => false

def isOk {α} : Outcome α → Bool
  | .ok _ => true
  | _ => false

@[simp] theorem bind_ok {α β} (a : α) (f : α → Outcome β) : (Outcome.ok a >>= f) = f a := rfl
@[simp] theorem bind_throw {α β} (c : ErrClass) (f : α → Outcome β) :
    ((Outcome.throw c : Outcome α) >>= f) = .throw c := rfl
@[simp] theorem bind_panic {α β} (w : String) (f : α → Outcome β) :
    ((Outcome.panic w : Outcome α) >>= f) = .panic w := rfl
@[simp] theorem pure_eq {α} (a : α) : (pure a : Outcome α) = .ok a := rfl
end Outcome

/-! ## IEEE-754 binary64 as a bit pattern (no `Float` anywhere in a theorem) -/

structure F64 where
  bits : UInt64
  deriving DecidableEq, Repr, Inhabited

namespace F64
def sign (f : F64) : Bool := f.bits >>> 63 != 0
def expo (f : F64) : Nat := ((f.bits >>> 52) &&& 0x7ff).toNat
def mant (f : F64) : Nat := (f.bits &&& 0xfffffffffffff).toNat
def isNaN (f : F64) : Bool := f.expo == 2047 && f.mant != 0
def isInf (f : F64) : Bool := f.expo == 2047 && f.mant == 0

/-- magnitude truncated towards zero, for finite `f` -/
def truncMag (f : F64) : Nat :=
  if f.expo == 0 then 0            -- zero and subnormals: |x| < 1
  else
    let m := f.mant + 2 ^ 52
    let e := f.expo
    if e ≥ 1075 then m * 2 ^ (e - 1075) else m / 2 ^ (1075 - e)

/-- is the finite value an integer? -/
def isIntegral (f : F64) : Bool :=
  if f.expo == 2047 then false
  else if f.expo == 0 then f.mant == 0
  else
    let m := f.mant + 2 ^ 52
    let e := f.expo
    if e ≥ 1075 then true else (e ≥ 1023) && m % 2 ^ (1075 - e) == 0

/-- goja's `floatToIntClip` (`Value.ToInteger` on a float): NaN ↦ 0, clamp to int64, truncate. -/
def toIntegerClip (f : F64) : Int :=
  if f.isNaN then 0
  else if f.isInf then (if f.sign then -(2 ^ 63 : Int) else 2 ^ 63 - 1)
  else
    let m : Int := f.truncMag
    let v := if f.sign then -m else m
    if v ≥ 2 ^ 63 - 1 then 2 ^ 63 - 1 else if v ≤ -(2 ^ 63 : Int) then -(2 ^ 63 : Int) else v

/-- the mathematical integer part of a double (truncation towards zero, exact for every magnitude); NaN and the
infinities give 0 — the first step of ECMAScript's ToUint8/ToInt32 family -/
def toIntegerExact (f : F64) : Int :=
  if f.isNaN || f.isInf then 0
  else
    let m : Int := f.truncMag
    if f.sign then -m else m

/-- the double that represents integer `n`, when `|n| < 2^53` (exact) -/
def ofSmallInt (n : Int) : F64 :=
  if n == 0 then ⟨0⟩
  else
    let a := n.natAbs
    let l := Nat.log2 a          -- a in [2^l, 2^(l+1))
    let m := a * 2 ^ (52 - l) - 2 ^ 52
    let e := 1023 + l
    let s : UInt64 := if n < 0 then 1 else 0
    ⟨(s <<< 63) ||| (UInt64.ofNat e <<< 52) ||| UInt64.ofNat m⟩
end F64

/-! ## hex helpers for the line protocol -/

def hexDigitVal (c : Char) : Option Nat :=
  if '0' ≤ c ∧ c ≤ '9' then some (c.toNat - '0'.toNat)
  else if 'a' ≤ c ∧ c ≤ 'f' then some (c.toNat - 'a'.toNat + 10)
  else if 'A' ≤ c ∧ c ≤ 'F' then some (c.toNat - 'A'.toNat + 10)
  else none

def parseHexNat (s : String) : Option Nat :=
  if s.isEmpty then none else
  s.toList.foldl (fun acc c => match acc, hexDigitVal c with
    | some a, some d => some (a * 16 + d)
    | _, _ => none) (some 0)

/-- "0a1b" ↦ [0x0a, 0x1b]; "-" ↦ [] -/
def parseHexBytes (s : String) : Option (List UInt8) :=
  if s == "-" then some [] else
  let rec go : List Char → List UInt8 → Option (List UInt8)
    | [], acc => some acc.reverse
    | [_], _ => none
    | a :: b :: rest, acc =>
      match hexDigitVal a, hexDigitVal b with
      | some x, some y => go rest (UInt8.ofNat (x * 16 + y) :: acc)
      | _, _ => none
  go s.toList []

def hexChar (n : Nat) : Char := if n < 10 then Char.ofNat (48 + n) else Char.ofNat (87 + n)

def hexOfBytes (b : List UInt8) : String :=
  if b.isEmpty then "-" else
  String.ofList (b.flatMap fun x => [hexChar (x.toNat / 16), hexChar (x.toNat % 16)])

def hexOfNat (n : Nat) (digits : Nat) : String :=
  String.ofList ((List.range digits).reverse.map fun i => hexChar ((n / 16 ^ i) % 16))

end GN
