import GN.Url.NetUrl
import GN.Url.Idna
import GN.Generated.UrlTables

/-!
# RFC 3986 §5.2 reference resolution, refined by the WHATWG URL standard — the specification side of C14

Written from the RFC text, independently of `net/url`: Appendix B splitting, §5.2.2 transform, §5.2.3 merge, §5.2.4
remove_dot_segments (the input/output-buffer algorithm, literally), then the WHATWG refinements the property names:
scheme and host lower-cased, IDN host in punycode, default port dropped, empty path of a special URL is "/",
components compared after percent-decoding.
-/

namespace GN.Url.Rfc
open GN GN.Url GN.Url.Net

/-- Appendix B: `^(([^:/?#]+):)?(//([^/?#]*))?([^?#]*)(\?([^#]*))?(#(.*))?` -/
structure Ref where
  scheme : Option Bytes
  authority : Option Bytes
  path : Bytes
  query : Option Bytes
  fragment : Option Bytes
  deriving Repr, BEq, DecidableEq, Inhabited

def isDelim (c : UInt8) : Bool := c == 58 || c == 47 || c == 63 || c == 35

def splitRef (s : Bytes) : Ref :=
  -- scheme: a non-empty run of non-delimiters followed by ':'
  let pre := s.takeWhile (fun c => !isDelim c)
  let (scheme, s1) :=
    if pre != [] && (s.drop pre.length).head? == some 58 then (some pre, s.drop (pre.length + 1)) else (none, s)
  let (authority, s2) :=
    if hasPrefix s1 [47, 47] then
      let a := (s1.drop 2).takeWhile (fun c => !(c == 47 || c == 63 || c == 35))
      (some a, s1.drop (2 + a.length))
    else (none, s1)
  let path := s2.takeWhile (fun c => !(c == 63 || c == 35))
  let s3 := s2.drop path.length
  let (query, s4) :=
    if s3.head? == some 63 then
      let q := (s3.drop 1).takeWhile (· != 35)
      (some q, s3.drop (1 + q.length))
    else (none, s3)
  let fragment := if s4.head? == some 35 then some (s4.drop 1) else none
  { scheme, authority, path, query, fragment }

/-- remove the last segment and its preceding "/" (if any) from the output buffer -/
def dropLastSegment (out : Bytes) : Bytes :=
  match lastIndexByte out 47 with
  | some i => out.take i
  | none => []

/-- §5.2.4, steps A–E, one pass per loop iteration -/
def removeDotsLoop : Nat → Bytes → Bytes → Bytes
  | 0, _, out => out
  | _ + 1, [], out => out
  | fuel + 1, inp, out =>
    -- A
    if hasPrefix inp [46, 46, 47] then removeDotsLoop fuel (inp.drop 3) out
    else if hasPrefix inp [46, 47] then removeDotsLoop fuel (inp.drop 2) out
    -- B
    else if hasPrefix inp [47, 46, 47] then removeDotsLoop fuel (inp.drop 2) out
    else if inp == [47, 46] then removeDotsLoop fuel [47] out
    -- C
    else if hasPrefix inp [47, 46, 46, 47] then removeDotsLoop fuel (inp.drop 3) (dropLastSegment out)
    else if inp == [47, 46, 46] then removeDotsLoop fuel [47] (dropLastSegment out)
    -- D
    else if inp == [46] || inp == [46, 46] then removeDotsLoop fuel [] out
    -- E
    else
      let seg := match inp with
        | 47 :: rest => 47 :: rest.takeWhile (· != 47)
        | _ => inp.takeWhile (· != 47)
      removeDotsLoop fuel (inp.drop seg.length) (out ++ seg)

def removeDotSegments (p : Bytes) : Bytes := removeDotsLoop (p.length + 1) p []

/-- §5.2.3 -/
def merge (baseHasAuthority : Bool) (basePath refPath : Bytes) : Bytes :=
  if baseHasAuthority && basePath == [] then 47 :: refPath
  else match lastIndexByte basePath 47 with
    | some i => basePath.take (i + 1) ++ refPath
    | none => refPath

/-- §5.2.2 (strict) -/
def transform (base r : Ref) : Ref :=
  let t : Ref :=
    if r.scheme.isSome then { r with path := removeDotSegments r.path }
    else
      let t : Ref :=
        if r.authority.isSome then { r with path := removeDotSegments r.path }
        else
          let t : Ref :=
            if r.path == [] then
              { r with path := base.path, query := if r.query.isSome then r.query else base.query }
            else if hasPrefix r.path [47] then { r with path := removeDotSegments r.path }
            else { r with path := removeDotSegments (merge base.authority.isSome base.path r.path) }
          { t with authority := base.authority }
      { t with scheme := base.scheme }
  { t with fragment := r.fragment }

/-! ## WHATWG refinements and the per-component view -/

def bytesOf (s : String) : Bytes := s.toUTF8.toList

def specialNet : List Bytes := Generated.specialNetProtocols.map bytesOf

def defaultPort (scheme : Bytes) : Option Nat :=
  (Generated.defaultPorts.find? fun (_, protos) => protos.any fun s => bytesOf s == scheme).map (·.1)

/-- percent-decoding for comparison: every well-formed `%XX` becomes its byte, anything else stays -/
def pctDecode : Bytes → Bytes
  | [] => []
  | 37 :: a :: b :: rest =>
    if isHex a && isHex b then (unhex a <<< 4 ||| unhex b) :: pctDecode rest else 37 :: pctDecode (a :: b :: rest)
  | c :: rest => c :: pctDecode rest

/-- what the property compares -/
structure Components where
  scheme : Bytes
  username : Bytes
  password : Bytes
  host : Bytes               -- lower case, punycode, brackets kept
  port : Option Nat
  segments : List Bytes      -- decoded path segments; a trailing slash shows as a final empty segment
  query : Bytes              -- decoded; absent = empty
  fragment : Bytes           -- decoded; absent = empty
  deriving Repr, BEq, DecidableEq, Inhabited

def natOfDigits (s : Bytes) : Nat := s.foldl (fun n c => n * 10 + (c.toNat - 48)) 0

/-- split an authority into userinfo, host and port (RFC 3986 §3.2) -/
def splitAuthority (a : Bytes) : Option (Bytes × Bytes) × Bytes × Option Nat :=
  let (userinfo, hostport) := match lastIndexByte a 64 with
    | some i => (some (a.take i), a.drop (i + 1))
    | none => (none, a)
  let user := userinfo.map fun ui =>
    let (u, p, _) := cut ui 58
    (u, p)
  let (host, port) :=
    if hasPrefix hostport [91] then
      match lastIndexByte hostport 93 with
      | some i => (hostport.take (i + 1), (hostport.drop (i + 1)).drop 1)
      | none => (hostport, [])
    else match lastIndexByte hostport 58 with
      | some i => (hostport.take i, hostport.drop (i + 1))
      | none => (hostport, [])
  (user, host, if port == [] then none else some (natOfDigits port))

def pathSegments (p : Bytes) : List Bytes :=
  match p with
  | 47 :: rest => (splitOn 47 rest).map pctDecode
  | p => (splitOn 47 p).map pctDecode

/-- the URL a resolved reference denotes; `none` = the host cannot be brought to ASCII inside the punycode model -/
def denote (t : Ref) : Option Components :=
  let scheme := toLowerAscii (t.scheme.getD [])
  let (user, host, port) := splitAuthority (t.authority.getD [])
  let hostL : Option Bytes :=
    if hasPrefix host [91] then some (toLowerAscii host)
    else match Idna.toASCII (pctDecode host) with
      | .ok h => some h
      | _ => none
  hostL.map fun h =>
    { scheme := scheme
      username := pctDecode (user.map (·.1) |>.getD [])
      password := pctDecode (user.map (·.2) |>.getD [])
      host := h
      port := match port with
        | some n => if defaultPort scheme == some n then none else some n
        | none => none
      segments := pathSegments (if t.path == [] then [47] else t.path)
      query := pctDecode (t.query.getD [])
      fragment := pctDecode (t.fragment.getD []) }

/-- `new URL(ref, base)` as the standard prescribes (on the grammar of the property) -/
def resolveSpec (ref base : Bytes) : Option Components :=
  -- WHATWG: the base is itself a parsed URL, i.e. its dot segments are already removed (RFC 3986 §5.2.1 allows that)
  let b := splitRef base
  let b := { b with path := removeDotSegments (if b.path == [] then [47] else b.path) }
  denote (transform b (splitRef ref))

/-- `new URL(s)`: the same function without a base; a string without a scheme is rejected (`none`) -/
def parseSpec (s : Bytes) : Option (Option Components) :=
  let r := splitRef s
  if r.scheme.isNone then none else some (denote { r with path := removeDotSegments r.path })

/-! ## the grammar the property quantifies over (checked by the driver, not trusted from the generator) -/

def isUnreserved (c : UInt8) : Bool := isAlpha c || isDigit c || c == 45 || c == 46 || c == 95 || c == 126
def isSubDelim (c : UInt8) : Bool := [33, 36, 38, 39, 40, 41, 42, 43, 44, 59, 61].contains c
/-- "unsafe" printable characters that must come out percent-encoded: `" < > ^ ` { | }` -/
def isUnsafe (c : UInt8) : Bool := [34, 60, 62, 94, 96, 123, 124, 125].contains c

/-- well-formed percent escapes only, and none that encodes `/`, `.` or a control/space/backslash -/
def pctOk : Bytes → Bool
  | [] => true
  | 37 :: a :: b :: rest =>
    isHex a && isHex b &&
      (let v := unhex a <<< 4 ||| unhex b; v != 47 && v != 46 && v != 92 && v > 32 && v != 127) && pctOk rest
  | 37 :: _ => false
  | _ :: rest => pctOk rest

def ordinaryChar (extra : UInt8 → Bool) (c : UInt8) : Bool :=
  isUnreserved c || isSubDelim c || c == 37 || c ≥ 128 || isUnsafe c || extra c

def validUtf8 (b : Bytes) : Bool := (String.fromUTF8? ⟨b.toArray⟩).isSome

def segmentOk (s : Bytes) : Bool := s.all (ordinaryChar fun c => c == 58 || c == 64) && pctOk s && validUtf8 s

/-- a path of the grammar: ordinary segments, `.`/`..` segments, no empty segment except a single trailing one -/
def pathOk (p : Bytes) : Bool :=
  let segs := match p with
    | 47 :: rest => splitOn 47 rest
    | p => splitOn 47 p
  segs.all segmentOk && (segs.dropLast.all (· != []))

def queryOk (q : Bytes) : Bool :=
  q.all (ordinaryChar fun c => c == 58 || c == 64 || c == 47 || c == 63) && pctOk q && validUtf8 q

def fragmentOk (f : Bytes) : Bool := queryOk f

def userinfoOk (u : Bytes) : Bool :=
  u.all (fun c => isUnreserved c || isSubDelim c || c == 37 || c == 58) && pctOk u && countByte u 58 ≤ 1

def isHexDigit (c : UInt8) : Bool := isHex c

/-- reg-name hosts of letters, digits, `-`, `.` and non-ASCII letters, with at least one letter in the last label
(not an IPv4 number form), or a bracketed IPv6 literal of hex digits and colons -/
def hostOk (h : Bytes) : Bool :=
  if hasPrefix h [91] then
    hasSuffix h [93] && ((h.drop 1).dropLast.all fun c => isHexDigit c || c == 58) && h.length > 3
  else
    h != [] && h.all (fun c => isAlpha c || isDigit c || c == 45 || c == 46 || c ≥ 128) && validUtf8 h
    && (splitOn 46 h).all (· != [])
    && ((splitOn 46 h).getLast?.getD []).any (fun c => isAlpha c || c ≥ 128)
    && !((splitOn 46 h).any fun l => hasPrefix (toLowerAscii l) [120, 110, 45, 45])

def authorityOk (a : Bytes) : Bool :=
  let (userinfo, hostport) := match lastIndexByte a 64 with
    | some i => (a.take i, a.drop (i + 1))
    | none => ([], a)
  let (host, port) :=
    if hasPrefix hostport [91] then
      match lastIndexByte hostport 93 with
      | some i => (hostport.take (i + 1), hostport.drop (i + 1))
      | none => (hostport, [])
    else match lastIndexByte hostport 58 with
      | some i => (hostport.take i, hostport.drop i)
      | none => (hostport, [])
  userinfoOk userinfo && countByte a 64 ≤ 1 && hostOk host
  && (port == [] || (port.head? == some 58 && port.length > 1 && port.length ≤ 6 && (port.drop 1).all isDigit
        && natOfDigits (port.drop 1) ≤ 65535 && (port.getD 1 0 != 48 || port.length == 2)))

def schemeOk (s : Bytes) : Bool := specialNet.contains (toLowerAscii s)

/-- an absolute URL of the grammar -/
def absoluteOk (r : Ref) : Bool :=
  (match r.scheme with
   | some s => schemeOk s
   | none => false)
  && (match r.authority with
      | some a => authorityOk a
      | none => false)
  && (r.path == [] || hasPrefix r.path [47]) && pathOk r.path
  && (r.query.getD []).all (· != 35) && queryOk (r.query.getD []) && fragmentOk (r.fragment.getD [])
  && !(r.fragment.getD []).contains 35

/-- a reference of the grammar: absolute, scheme-relative, path-absolute, path-relative, query-only, fragment-only, empty -/
def referenceOk (r : Ref) : Bool :=
  if r.scheme.isSome then absoluteOk r
  else
    (match r.authority with
     | some a => authorityOk a && (r.path == [] || hasPrefix r.path [47])
     | none => true)
    && pathOk r.path
    -- a relative path whose first segment contains ':' would read as a scheme
    && !((r.path.takeWhile (· != 47)).contains 58)
    && queryOk (r.query.getD []) && fragmentOk (r.fragment.getD []) && !(r.fragment.getD []).contains 35

def inGrammar (ref : Bytes) (base : Option Bytes) : Bool :=
  let noCtl (s : Bytes) : Bool := s.all fun c => c > 32 && c != 127 && c != 92
  match base with
  | some b => noCtl ref && noCtl b && absoluteOk (splitRef b) && referenceOk (splitRef ref)
  | none => noCtl ref && absoluteOk (splitRef ref)

end GN.Url.Rfc
