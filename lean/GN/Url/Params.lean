import GN.Basic
import GN.Generated.UrlTables

/-!
# URLSearchParams — model (B) and list-level specification (A)   [C12]

The model mirrors url/urlsearchparams.go, url/nodeurl.go and url/escape.go: `delete` and `set` are the code's
index loops with their in-place writes, serialisation and parsing are byte-level functions over the
*generated* escape table.
-/

namespace GN.Url
open GN

abbrev Bytes := List UInt8

structure Pair where
  name : Bytes
  value : Bytes
  deriving Repr, DecidableEq, Inhabited

abbrev Params := List Pair

/-! ## escape / unescape (url/escape.go) -/

/-- `table[c] != 0` for the generated `tblEscapeURLQueryParam` -/
def safeParam (c : UInt8) : Bool := Generated.tblEscapeURLQueryParam.getD c.toNat 0 != 0

def upperHexDigit (n : UInt8) : UInt8 :=
  (Generated.upperhex.toUTF8.toList).getD n.toNat 0

/-- one byte of `escape(s, table, spaceToPlus = true)` -/
def escByte (safe : UInt8 → Bool) (c : UInt8) : Bytes :=
  if c = 32 then [43]
  else if c > 127 || !safe c then [37, upperHexDigit (c >>> 4), upperHexDigit (c &&& 15)]
  else [c]

/-- `escape`: when nothing needs escaping the code returns `s` itself, which is what `flatMap` yields too -/
def escape (safe : UInt8 → Bool) (s : Bytes) : Bytes := s.flatMap (escByte safe)

def isHex (c : UInt8) : Bool :=
  (48 ≤ c && c ≤ 57) || (97 ≤ c && c ≤ 102) || (65 ≤ c && c ≤ 70)

def unhex (c : UInt8) : UInt8 :=
  if 48 ≤ c && c ≤ 57 then c - 48
  else if 97 ≤ c && c ≤ 102 then c - 97 + 10
  else if 65 ≤ c && c ≤ 70 then c - 65 + 10
  else 0

/-- `unescapeSearchParam` (its second loop; the first only counts) -/
def unescape : Bytes → Bytes
  | [] => []
  | 37 :: a :: b :: rest =>
      if isHex a && isHex b then (unhex a <<< 4 ||| unhex b) :: unescape rest
      else 37 :: unescape (a :: b :: rest)
  | 43 :: rest => 32 :: unescape rest
  | c :: rest => c :: unescape rest

/-! ## serialise / parse (url/nodeurl.go) -/

def serializePair (p : Pair) : Bytes := escape safeParam p.name ++ [61] ++ escape safeParam p.value

/-- `searchParams.Encode` -/
def serialize : Params → Bytes
  | [] => []
  | [p] => serializePair p
  | p :: ps => serializePair p ++ [38] ++ serialize ps

/-- `strings.Split(s, sep)` for a one-byte separator -/
def splitOn (sep : UInt8) : Bytes → List Bytes
  | [] => [[]]
  | c :: cs =>
    if c = sep then [] :: splitOn sep cs
    else match splitOn sep cs with
      | [] => [[c]]          -- unreachable: splitOn never returns []
      | w :: ws => (c :: w) :: ws

/-- `strings.SplitN(s, "=", 2)`: the part before the first `=` and, if there is one, the part after it -/
def splitFirst (sep : UInt8) : Bytes → Bytes × Option Bytes
  | [] => ([], none)
  | c :: cs =>
    if c = sep then ([], some cs)
    else let (a, b) := splitFirst sep cs; (c :: a, b)

/-- `parseSearchQuery` -/
def parse (query : Bytes) : Params :=
  if query = [] then [] else
  let q := match query with
    | 63 :: rest => rest
    | q => q
  (splitOn 38 q).filterMap fun v =>
    if v = [] then none
    else match splitFirst 61 v with
      | (n, none) => some ⟨unescape n, []⟩
      | (n, some val) => some ⟨unescape n, unescape val⟩

/-- the `application/x-www-form-urlencoded` parser proper: what `parseSearchQuery` does after it has dropped one
leading `?`.  A URL's own query (which never includes the `?` delimiter) is parsed with this one. -/
def parseBody (q : Bytes) : Params :=
  (splitOn 38 q).filterMap fun v =>
    if v = [] then none
    else match splitFirst 61 v with
      | (n, none) => some ⟨unescape n, []⟩
      | (n, some val) => some ⟨unescape n, unescape val⟩

theorem parse_eq_parseBody (q : Bytes) (h : q.head? ≠ some 63) : parse q = parseBody q := by
  unfold parse parseBody
  cases q with
  | nil => simp [splitOn]
  | cons c cs =>
    have hc : c ≠ 63 := by simpa using h
    simp only [List.cons_ne_nil, ↓reduceIte]
    split
    · next rest heq => simp at heq; exact absurd heq.1 hc
    · rfl

/-! ## mutators, with the code's loops -/

def append (sp : Params) (k v : Bytes) : Params := sp ++ [⟨k, v⟩]

/-- `for i, v := range sp { if keep v { if i != j { sp[j] = v }; j++ } }` -/
def compactLoop (keep : Pair → Bool) (sp : List Pair) (i j : Nat) : List Pair × Nat :=
  if h : i < sp.length then
    if keep sp[i] then
      compactLoop keep (if i ≠ j then sp.set j sp[i] else sp) (i + 1) (j + 1)
    else
      compactLoop keep sp (i + 1) j
  else (sp, j)
termination_by sp.length - i
decreasing_by all_goals (simp_wf; try split) <;> simp_all <;> omega

/-- `delete`: `sp = sp[:j]` after the loop -/
def deleteWith (keep : Pair → Bool) (sp : Params) : Params :=
  let r := compactLoop keep sp 0 0
  r.1.take r.2

/-- the `isValid` closure of `delete`; `value = none` means one argument or an undefined second argument -/
def keepOnDelete (name : Bytes) (value : Option Bytes) (p : Pair) : Bool :=
  match value with
  | none => p.name != name
  | some v => !(p.name == name && p.value == v)

def delete (sp : Params) (name : Bytes) (value : Option Bytes) : Params :=
  deleteWith (keepOnDelete name value) sp

/-- the loop of `set`:
```
for i, sp := range u.searchParams {      // sp is a copy of element i taken at the start of the iteration
    if sp.name == name {
        if found { continue }
        u.searchParams[i].value = value  // in-place write; the copy `sp` keeps the old value
        found = true
    }
    if i != j { u.searchParams[j] = sp }
    j++
}
``` -/
def setLoop (name value : Bytes) (sp : List Pair) (i j : Nat) (found : Bool) : List Pair × Nat × Bool :=
  if h : i < sp.length then
    let cur := sp[i]
    if cur.name = name then
      if found then setLoop name value sp (i + 1) j found
      else
        let sp1 := sp.set i { cur with value := value }
        let sp2 := if i ≠ j then sp1.set j cur else sp1
        setLoop name value sp2 (i + 1) (j + 1) true
    else
      let sp2 := if i ≠ j then sp.set j cur else sp
      setLoop name value sp2 (i + 1) (j + 1) found
  else (sp, j, found)
termination_by sp.length - i
decreasing_by
  all_goals simp_wf
  all_goals (try split)
  all_goals (first | omega | (simp only [List.length_set]; omega) | (simp at *; omega))

def set (sp : Params) (name value : Bytes) : Params :=
  let (arr, j, found) := setLoop name value sp 0 0 false
  if found then arr.take j else sp ++ [⟨name, value⟩]

/-- bytewise `strings.Compare(a, b) < 0` -/
def ltBytes : Bytes → Bytes → Bool
  | [], [] => false
  | [], _ :: _ => true
  | _ :: _, [] => false
  | a :: as, b :: bs => if a < b then true else if b < a then false else ltBytes as bs

/-- lexicographic `<` on sequences of code units -/
def ltUnits : List Nat → List Nat → Bool
  | [], [] => false
  | [], _ :: _ => true
  | _ :: _, [] => false
  | a :: as, b :: bs => if a < b then true else if b < a then false else ltUnits as bs

def isCont (b : UInt8) : Bool := 0x80 ≤ b && b ≤ 0xBF

/-- `utf8.DecodeRuneInString`: the code point at the head of `l` and how many further bytes belong to it; an
ill-formed head is U+FFFD of width one (Unicode table 3-7: no overlong forms, no surrogates, nothing above U+10FFFF) -/
def decodeHead (b0 : UInt8) (rest : Bytes) : Nat × Nat :=
  if b0 < 0x80 then (b0.toNat, 0)
  else if 0xC2 ≤ b0 && b0 ≤ 0xDF then
    match rest with
    | b1 :: _ => if isCont b1 then ((b0.toNat % 32) * 64 + b1.toNat % 64, 1) else (0xFFFD, 0)
    | _ => (0xFFFD, 0)
  else if 0xE0 ≤ b0 && b0 ≤ 0xEF then
    match rest with
    | b1 :: b2 :: _ =>
      let lo : UInt8 := if b0 == 0xE0 then 0xA0 else 0x80
      let hi : UInt8 := if b0 == 0xED then 0x9F else 0xBF
      if lo ≤ b1 && b1 ≤ hi && isCont b2 then ((b0.toNat % 16) * 4096 + (b1.toNat % 64) * 64 + b2.toNat % 64, 2) else (0xFFFD, 0)
    | _ => (0xFFFD, 0)
  else if 0xF0 ≤ b0 && b0 ≤ 0xF4 then
    match rest with
    | b1 :: b2 :: b3 :: _ =>
      let lo : UInt8 := if b0 == 0xF0 then 0x90 else 0x80
      let hi : UInt8 := if b0 == 0xF4 then 0x8F else 0xBF
      if lo ≤ b1 && b1 ≤ hi && isCont b2 && isCont b3 then
        ((b0.toNat % 8) * 262144 + (b1.toNat % 64) * 4096 + (b2.toNat % 64) * 64 + b3.toNat % 64, 3)
      else (0xFFFD, 0)
    | _ => (0xFFFD, 0)
  else (0xFFFD, 0)

/-- the UTF-16 code units of a code point -/
def unitsOf (cp : Nat) : List Nat :=
  if cp < 0x10000 then [cp] else [0xD800 + (cp - 0x10000) / 1024, 0xDC00 + (cp - 0x10000) % 1024]

/-- the UTF-16 code units of a name (names are UTF-8 in the library): the key the URL standard sorts by -/
def u16key : Bytes → List Nat
  | [] => []
  | b0 :: rest =>
    let (cp, extra) := decodeHead b0 rest
    unitsOf cp ++ u16key (rest.drop extra)
termination_by l => l.length
decreasing_by simp [List.length_drop]; omega

/-- `utf16Less(a, b)` of url/nodeurl.go: order by UTF-16 code units (the URL standard's sort order) -/
def ltName (a b : Bytes) : Bool := ltUnits (u16key a) (u16key b)

/-- insertion into a list sorted by name, after every element that is not greater (stability) -/
def insertSorted (p : Pair) : List Pair → List Pair
  | [] => [p]
  | q :: qs => if ltName p.name q.name then p :: q :: qs else q :: insertSorted p qs

/-- `sort.Stable(searchParams)`: the result of a stable sort is unique, so any stable sort is a model of it -/
def sort (sp : Params) : Params := sp.foldl (fun acc p => insertSorted p acc) []

/-! ## getters -/

def get (sp : Params) (name : Bytes) : Option Bytes := (sp.find? (·.name == name)).map (·.value)
def getAll (sp : Params) (name : Bytes) : List Bytes := (sp.filter (·.name == name)).map (·.value)
def has (sp : Params) (name : Bytes) (value : Option Bytes) : Bool :=
  match value with
  | none => sp.any (·.name == name)
  | some v => sp.any fun p => p.name == name && p.value == v

/-- a live iterator is an index into the shared list; `next` reads the list as it is *now* -/
def iterNext (sp : Params) (idx : Nat) : Option Pair × Nat :=
  match sp[idx]? with
  | some p => (some p, idx + 1)
  | none => (none, idx)

/-! ## list-level specification -/

def deleteSpec (sp : Params) (name : Bytes) (value : Option Bytes) : Params :=
  match value with
  | none => sp.filter (·.name != name)
  | some v => sp.filter fun p => !(p.name == name && p.value == v)

/-- WHATWG set: the first pair with that name gets the value and stays in place, later ones are removed;
    appended when there is none -/
def setSpec : Params → Bytes → Bytes → Params
  | [], k, v => [⟨k, v⟩]
  | p :: ps, k, v =>
    if p.name = k then ⟨p.name, v⟩ :: ps.filter (·.name != k)
    else p :: setSpec ps k v

def SortedByName : Params → Prop
  | [] => True
  | [_] => True
  | p :: q :: rest => ltName q.name p.name = false ∧ SortedByName (q :: rest)

/-- Go string → JS string → UTF-8: every byte that is not part of a well-formed sequence becomes U+FFFD -/
def sanitizeUtf8 : Bytes → Bytes
  | [] => []
  | b0 :: rest =>
    let cont (b : UInt8) (lo hi : UInt8) : Bool := lo ≤ b && b ≤ hi
    if b0 < 0x80 then b0 :: sanitizeUtf8 rest
    else
      -- a thunk: evaluated eagerly it would double the work at every non-ASCII byte (exponential in their number)
      let bad := fun (_ : Unit) => 0xEF :: 0xBF :: 0xBD :: sanitizeUtf8 rest
      match rest with
      | b1 :: r1 =>
        if 0xC2 ≤ b0 && b0 ≤ 0xDF then
          if cont b1 0x80 0xBF then b0 :: b1 :: sanitizeUtf8 r1 else bad ()
        else
          let lo1 : UInt8 := if b0 = 0xE0 then 0xA0 else if b0 = 0xF0 then 0x90 else 0x80
          let hi1 : UInt8 := if b0 = 0xED then 0x9F else if b0 = 0xF4 then 0x8F else 0xBF
          if 0xE0 ≤ b0 && b0 ≤ 0xEF then
            match r1 with
            | b2 :: r2 =>
              if cont b1 lo1 hi1 && cont b2 0x80 0xBF then b0 :: b1 :: b2 :: sanitizeUtf8 r2 else bad ()
            | [] => bad ()
          else if 0xF0 ≤ b0 && b0 ≤ 0xF4 then
            match r1 with
            | b2 :: b3 :: r3 =>
              if cont b1 lo1 hi1 && cont b2 0x80 0xBF && cont b3 0x80 0xBF then
                b0 :: b1 :: b2 :: b3 :: sanitizeUtf8 r3
              else bad ()
            | _ => bad ()
          else bad ()
      | [] => bad ()
termination_by l => l.length
decreasing_by all_goals simp_wf; all_goals omega

end GN.Url
