import GN.Url.Params

/-!
# `idna.Punycode.ToASCII` on lower-cased host names   [C13, C14]

The URL class normalises the host of an http/https/ws/wss/ftp URL with
`idna.Punycode.ToASCII(strings.ToLower(hostname))` (golang.org/x/net/idna, the raw-punycode profile: no mapping, no
validation).  For a host none of whose labels starts with `xn--` that is: every label that contains a non-ASCII
character is replaced by `xn--` + its RFC 3492 encoding; the other labels are kept.  This file transcribes
`punycode.go`'s `encode`/`adapt` over unbounded naturals.  *Modelled, not verified* (library code); exercised by the
correspondence.  Outside the model (the driver then makes no model claim): labels that start with `xn--` (the library
decodes and re-encodes them), ill-formed UTF-8, non-ASCII characters whose lower-casing is not known to be the identity.
-/

namespace GN.Url.Idna
open GN GN.Url

def utf8Dec (b : Bytes) : Option (List Nat) :=
  (String.fromUTF8? ⟨b.toArray⟩).map fun s => s.toList.map Char.toNat

/-- code points on which `unicode.ToLower` is known to be the identity (what the generators use) -/
def caseless (c : Nat) : Bool :=
  (0xDF ≤ c && c ≤ 0xF6) || (0xF8 ≤ c && c ≤ 0xFF) || (0x3B1 ≤ c && c ≤ 0x3C9) || (0x430 ≤ c && c ≤ 0x44F)
  || (0x3041 ≤ c && c ≤ 0x3096) || (0x4E00 ≤ c && c ≤ 0x9FFF) || (0x1F600 ≤ c && c ≤ 0x1F64F)

def digit (d : Nat) : UInt8 := if d < 26 then (d + 97).toUInt8 else (d + 22).toUInt8

def adaptLoop : Nat → Nat → Nat → Nat × Nat
  | 0, d, k => (d, k)
  | f + 1, d, k => if d > 455 then adaptLoop f (d / 35) (k + 36) else (d, k)

/-- `adapt` -/
def adapt (delta numPoints : Nat) (first : Bool) : Nat :=
  let d := if first then delta / 700 else delta / 2
  let d := d + d / numPoints
  let (d, k) := adaptLoop 64 d 0
  k + 36 * d / (d + 38)

/-- the variable-length integer loop `for k := base; ; k += base` -/
def encVar : Nat → Nat → Nat → Nat → Bytes → Bytes
  | 0, _, _, _, out => out
  | f + 1, q, k, bias, out =>
    let t := if k ≤ bias then 1 else if k ≥ bias + 26 then 26 else k - bias
    if q < t then out ++ [digit q]
    else encVar f ((q - t) / (36 - t)) (k + 36) bias (out ++ [digit (t + (q - t) % (36 - t))])

structure PSt where
  delta : Nat
  n : Nat
  bias : Nat
  h : Nat
  remaining : Nat
  out : Bytes

/-- the inner `for _, r := range s` of one round -/
def encInner (b : Nat) (st : PSt) (r : Nat) : PSt :=
  if r < st.n then { st with delta := st.delta + 1 }
  else if r > st.n then st
  else
    { st with out := encVar 64 st.delta 36 st.bias st.out,
              bias := adapt st.delta (st.h + 1) (st.h == b),
              delta := 0, h := st.h + 1, remaining := st.remaining - 1 }

def encOuter (s : List Nat) (b : Nat) : Nat → PSt → PSt
  | 0, st => st
  | f + 1, st =>
    if st.remaining == 0 then st
    else
      let m := (s.filter (· ≥ st.n)).foldl min 0x7fffffff
      let st := { st with delta := st.delta + (m - st.n) * (st.h + 1), n := m }
      let st := s.foldl (encInner b) st
      encOuter s b f { st with delta := st.delta + 1, n := st.n + 1 }

/-- `encode("xn--", label)` -/
def punyEncode (s : List Nat) : Bytes :=
  let basic := (s.filter (· < 128)).map Nat.toUInt8
  let b := basic.length
  let rem := s.length - b
  let out : Bytes := [120, 110, 45, 45] ++ basic ++ (if b > 0 then [45] else [])
  (encOuter s b (rem + 1) { delta := 0, n := 128, bias := 72, h := b, remaining := rem, out := out }).out

inductive R where
  | ok (b : Bytes)
  | error          -- the library returns an error (the URL class throws "Invalid hostname")
  | noclaim        -- outside what this model covers
  deriving Repr, BEq, Inhabited

def labelToASCII (l : Bytes) : R :=
  if [120, 110, 45, 45].isPrefixOf l then .noclaim
  else if l.all (· < 128) then .ok l
  else match utf8Dec l with
    | none => .noclaim
    | some cps =>
      if cps.all (fun c => c < 128 || caseless c) && cps.length < 200 then .ok (punyEncode cps) else .noclaim

/-- `unicode.ToLower` on the letters the model knows: ASCII, Latin-1, Greek and Cyrillic capitals -/
def lowerCp (c : Nat) : Nat :=
  if 65 ≤ c && c ≤ 90 then c + 32
  else if 0xC0 ≤ c && c ≤ 0xDE && c != 0xD7 then c + 32
  else if 0x391 ≤ c && c ≤ 0x3A9 && c != 0x3A2 then c + 32
  else if 0x410 ≤ c && c ≤ 0x42F then c + 32
  else if 0x400 ≤ c && c ≤ 0x40F then c + 80
  else c

/-- code points whose lower-casing the model knows -/
def knownCase (c : Nat) : Bool :=
  c < 128 || caseless c || (0xC0 ≤ c && c ≤ 0xDE && c != 0xD7) || (0x391 ≤ c && c ≤ 0x3A9 && c != 0x3A2)
  || (0x400 ≤ c && c ≤ 0x42F)

def utf8Enc (cps : List Nat) : Bytes := (String.ofList (cps.map Char.ofNat)).toUTF8.toList

/-- `strings.ToLower(h)`; `none` = ill-formed UTF-8 or a letter outside what the model knows -/
def lowerHost (h : Bytes) : Option Bytes :=
  if h.all (· < 128) then some (h.map fun c => if 65 ≤ c && c ≤ 90 then c + 32 else c)
  else match utf8Dec h with
    | none => none
    | some cps => if cps.all knownCase then some (utf8Enc (cps.map lowerCp)) else none

/-- the labels of a lower-cased host brought to ASCII -/
def toASCIILower (lh : Bytes) : R :=
  let labels := splitOn 46 lh
  let rec go : List Bytes → Option (List Bytes) → R
    | [], some acc => .ok (([46] : Bytes).intercalate acc.reverse)
    | [], none => .noclaim
    | l :: ls, some acc =>
      match labelToASCII l with
      | .ok a => go ls (some (a :: acc))
      | r => r
    | _ :: _, none => .noclaim
  go labels (some [])

/-- `idna.Punycode.ToASCII(strings.ToLower(h))` -/
def toASCII (h : Bytes) : R :=
  match lowerHost h with
  | none => .noclaim
  | some lh => toASCIILower lh

end GN.Url.Idna
