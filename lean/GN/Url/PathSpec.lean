import GN.Url.UrlObj
import GN.Url.Rfc3986

/-!
# C14: statements relating the code's path handling (net/url `resolvePath`, `path.Clean` + the trailing-slash repair in
`cleanPath`) to RFC 3986 §5.2.3/§5.2.4, and the component choice of `ResolveReference` to §5.2.2

Only definitions and statements; proofs in `GN/Url/PathLemmas.lean`, property theorems in `GN/Props/C14.lean`.
Paths are taken apart into segments: `render ["a", "b", ""] = "/a/b/"` (a final empty segment is a trailing slash).
-/

namespace GN.Url.Rfc
open GN GN.Url GN.Url.Net

/-- segments of a path of the property's grammar: no segment contains `/`; no segment is empty except possibly the
last one (no `//` inside a path) -/
def SegsOK (segs : List Bytes) : Prop :=
  segs ≠ [] ∧ (∀ s ∈ segs, (47 : UInt8) ∉ s) ∧ (∀ s ∈ segs.dropLast, s ≠ [])

def joinSegs : List Bytes → Bytes
  | [] => []
  | [s] => s
  | s :: rest => s ++ 47 :: joinSegs rest

/-- an absolute path -/
def render (segs : List Bytes) : Bytes := 47 :: joinSegs segs
/-- a relative path -/
def renderRel (segs : List Bytes) : Bytes := joinSegs segs

def isDot (s : Bytes) : Bool := s == [46] || s == [46, 46]

/-- the reference normaliser: a stack of segments; `.` is dropped, `..` pops -/
def normStep (stack : List Bytes) (s : Bytes) : List Bytes :=
  if s == [46] then stack else if s == [46, 46] then stack.dropLast else stack ++ [s]

/-- dot segments removed; the result names a directory (ends in an empty segment) iff the input ended in `/`, `/.` or `/..` -/
def normSegs (segs : List Bytes) : List Bytes :=
  let st := (segs.filter (· != [])).foldl normStep []
  match segs.getLast? with
  | some l => if l == [] || isDot l then st ++ [[]] else (if st == [] then [[]] else st)
  | none => [[]]

/-- §5.2.4 computes the reference normaliser -/
def RemoveDotsIsNorm : Prop :=
  ∀ segs, SegsOK segs → removeDotSegments (render segs) = render (normSegs segs)

/-- the output has no dot segments, for every input -/
def NoDotSegmentsLeft : Prop :=
  ∀ segs, SegsOK segs → ∀ s ∈ normSegs segs, isDot s = false

/-- a trailing slash is preserved, and only a directory-like input gets one -/
def TrailingSlashKept : Prop :=
  ∀ segs, SegsOK segs →
    ((normSegs segs).getLast? = some [] ↔
      (segs.getLast? = some [] ∨ segs.getLast? = some [46] ∨ segs.getLast? = some [46, 46] ∨
       (segs.filter (· != [])).foldl normStep [] = []))

/-- normalising twice changes nothing (so the normalisation pass that follows resolution leaves the path alone) -/
def NormIdempotent : Prop :=
  ∀ segs, SegsOK segs → SegsOK (normSegs segs) ∧ normSegs (normSegs segs) = normSegs segs

/-- url.go's `cleanPath` (`path.Clean` plus the trailing-slash repair) is §5.2.4 on every absolute path of the grammar,
whatever the scheme -/
def CleanPathIsRfc : Prop :=
  ∀ segs proto, SegsOK segs → Obj.cleanPath (render segs) proto = removeDotSegments (render segs)

/-- net/url's `resolvePath` is §5.2.3 merge followed by §5.2.4, for a relative reference path … -/
def GoResolveRelativeIsRfc : Prop :=
  ∀ base ref, SegsOK base → SegsOK ref → ref ≠ [[]] →
    resolvePath (render base) (renderRel ref) = removeDotSegments (merge true (render base) (renderRel ref))

/-- … §5.2.4 alone for an absolute reference path … -/
def GoResolveAbsoluteIsRfc : Prop :=
  ∀ base ref, SegsOK base → SegsOK ref →
    resolvePath (render base) (render ref) = removeDotSegments (render ref)

/-- … and the (normalised) base path for an empty one -/
def GoResolveEmptyIsBase : Prop :=
  ∀ base, SegsOK base → resolvePath (render base) [] = removeDotSegments (render base)

/-- §5.2.2: which of base and reference supplies authority and query, for a reference without a scheme -/
def ResolveChoice : Prop :=
  ∀ (b r : URL), b.opaq = [] → r.scheme = [] → r.opaq = [] →
    let t := resolveReference b r
    t.scheme = b.scheme ∧
    -- the reference has an authority: authority and query are the reference's
    ((r.host ≠ [] ∨ r.user.isSome) → t.host = r.host ∧ t.user = r.user ∧ t.rawQuery = r.rawQuery) ∧
    -- no authority: the base's authority
    (r.host = [] → r.user = none → t.host = b.host ∧ t.user = b.user) ∧
    -- empty reference path and no query: the base's query; otherwise the reference's
    (r.host = [] → r.user = none → r.path = [] → r.forceQuery = false → r.rawQuery = [] → t.rawQuery = b.rawQuery) ∧
    (r.host = [] → r.user = none → (r.path ≠ [] ∨ r.forceQuery = true ∨ r.rawQuery ≠ []) → t.rawQuery = r.rawQuery) ∧
    -- the path is what resolvePath computes from the two escaped paths
    (r.host = [] → r.user = none →
      ∀ t', setPath { t with path := [], rawPath := [] } (resolvePath b.escapedPath r.escapedPath) = some t' →
        t.path = t'.path ∧ t.rawPath = t'.rawPath)

/-- `new URL(s)` rejects a string that has no scheme; every URL the constructor returns has a lower-case scheme -/
def SchemeRequiredAndLower : Prop :=
  ∀ s base u, Obj.construct s base = .ok u → u.scheme ≠ [] ∧ toLowerAscii u.scheme = u.scheme

/-- the fragment of `new URL(ref, base)` is the reference's, never the base's -/
def FragmentIsReferences : Prop :=
  ∀ s b u ref, Obj.construct s (some b) = .ok u → Net.Parse s = some ref → ref.scheme = [] →
    u.fragment = ref.fragment

end GN.Url.Rfc
