import GN.Url.ObjSpec
import GN.Url.ParamsLemmas2

/-!
# C13: proofs of the statements of `GN/Url/ObjSpec.lean`
-/

namespace GN.Url.Obj
open GN GN.Url GN.Url.Net

/-! ## the query escaper -/

/-- a byte `escapeQuery` copies -/
def qsafe (c : UInt8) : Bool := !(c > 127 || !safeQuery c)

def escQ (c : UInt8) : Bytes :=
  if c > 127 || !safeQuery c then [37, upperHexDigit (c >>> 4), upperHexDigit (c &&& 15)] else [c]

theorem escapeQuery_eq (s : Bytes) : escapeQuery s = s.flatMap escQ := rfl

theorem escQ_qsafe_fin : ∀ n : Fin 256, (escQ (UInt8.ofNat n.val)).all qsafe = true := by decide +kernel

theorem escQ_qsafe (c : UInt8) : (escQ c).all qsafe = true := by
  have h := escQ_qsafe_fin ⟨c.toNat, c.toNat_lt⟩
  simpa [UInt8.ofNat_toNat] using h

theorem escQ_of_qsafe (c : UInt8) (h : qsafe c = true) : escQ c = [c] := by
  unfold qsafe at h
  unfold escQ
  simp only [Bool.not_eq_true'] at h
  simp [h]

theorem escapeQuery_of_all_qsafe (s : Bytes) (h : s.all qsafe = true) : escapeQuery s = s := by
  induction s with
  | nil => rfl
  | cons c cs ih =>
    simp only [List.all_cons, Bool.and_eq_true] at h
    rw [escapeQuery_eq, List.flatMap_cons, escQ_of_qsafe c h.1, ← escapeQuery_eq, ih h.2]
    rfl

theorem escapeQuery_all_qsafe (s : Bytes) : (escapeQuery s).all qsafe = true := by
  rw [escapeQuery_eq]
  simp only [List.all_flatMap]
  simp [escQ_qsafe]

theorem escapeQuery_idem (q : Bytes) : escapeQuery (escapeQuery q) = escapeQuery q :=
  escapeQuery_of_all_qsafe _ (escapeQuery_all_qsafe q)

theorem escParam_qsafe_fin : ∀ n : Fin 256, (Url.escByte safeParam (UInt8.ofNat n.val)).all qsafe = true := by
  decide +kernel

theorem escParam_qsafe (c : UInt8) : (Url.escByte safeParam c).all qsafe = true := by
  have h := escParam_qsafe_fin ⟨c.toNat, c.toNat_lt⟩
  simpa [UInt8.ofNat_toNat] using h

theorem escapeParam_all_qsafe (s : Bytes) : (Url.escape safeParam s).all qsafe = true := by
  unfold Url.escape
  simp only [List.all_flatMap]
  simp [escParam_qsafe]

theorem serializePair_all_qsafe (p : Pair) : (serializePair p).all qsafe = true := by
  unfold serializePair
  simp only [List.all_append, escapeParam_all_qsafe, Bool.true_and, Bool.and_true]
  decide

theorem serialize_all_qsafe : ∀ l : Params, (serialize l).all qsafe = true
  | [] => rfl
  | [p] => by simp only [serialize]; exact serializePair_all_qsafe p
  | p :: q :: ps => by
    rw [serialize_cons_cons]
    have h38 : qsafe 38 = true := by decide
    simp only [List.all_append, List.all_cons, serializePair_all_qsafe, serialize_all_qsafe (q :: ps),
      h38, Bool.and_true]

theorem escapeQuery_serialize (l : Params) : escapeQuery (serialize l) = serialize l :=
  escapeQuery_of_all_qsafe _ (serialize_all_qsafe l)

theorem queryEscapeStable : QueryEscapeStable := ⟨escapeQuery_idem, escapeQuery_serialize⟩

/-! ## synchronisation, `href` -/

theorem sync_sp (st : St) : st.sync.sp = st.sp := by
  unfold St.sync; split <;> try split
  all_goals rfl

theorem sync_cases (st : St) :
    (st.sync = st ∧ (st.sp = none ∨ st.url.rawQuery ≠ [] ∨ st.sp = some [])) ∨
    (∃ l, st.sp = some l ∧ l ≠ [] ∧ st.url.rawQuery = [] ∧
      st.sync = { st with url := { st.url with rawQuery := serialize l } }) := by
  unfold St.sync
  split
  · next l hl =>
    split
    · next h =>
      simp only [Bool.and_eq_true, decide_eq_true_eq, beq_iff_eq] at h
      refine Or.inr ⟨l, hl, ?_, h.2, rfl⟩
      intro e; subst e; simp at h
    · next h =>
      simp only [Bool.and_eq_true, decide_eq_true_eq, beq_iff_eq, not_and] at h
      refine Or.inl ⟨rfl, ?_⟩
      cases l with
      | nil => exact Or.inr (Or.inr hl)
      | cons a t => exact Or.inr (Or.inl (h (by simp)))
  · next h => exact Or.inl ⟨rfl, Or.inl h⟩

theorem sync_idem (st : St) : st.sync.sync = st.sync := by
  rcases sync_cases st with ⟨h, _⟩ | ⟨l, hl, hne, hq, h⟩
  · rw [h, h]
  · rcases sync_cases st.sync with ⟨h', _⟩ | ⟨l', _, _, hq', _⟩
    · exact h'
    · rw [h] at hq'
      simp only at hq'
      rw [serialize_eq_nil_iff] at hq'
      exact absurd hq' hne

theorem hrefShowsQuery : HrefShowsQuery := by
  intro st _
  refine ⟨rfl, rfl, ?_⟩
  simp only [observe, sync_idem]

/-- the host computed by `fixURL` -/
def fixHost (scheme host : Bytes) : Except Err Bytes :=
  let host1 := trimSuffix host [58]
  if hasPrefix host1 [91] then
    if host1.all (· < 128) then .ok (toLowerAscii host1) else .error .noclaim
  else if isSpecialNetProtocol scheme then
    match Idna.toASCII (splitHostPort host1).1 with
    | .noclaim => .error .noclaim
    | .error => .error .invalidHostname
    | .ok ch =>
      if ch != (splitHostPort host1).1 then
        .ok (if (splitHostPort host1).2 != [] then ch ++ 58 :: (splitHostPort host1).2 else ch)
      else .ok host1
  else .ok host1

theorem fixURL_eq (u : URL) :
    fixURL u = match fixHost u.scheme u.host with
      | .error e => .error e
      | .ok h => .ok (fixRawQuery { u with path := cleanPath u.path u.scheme, host := h }) := by
  unfold fixURL fixHost
  simp only [bind, Except.bind, pure, Except.pure, throw, throwThe, MonadExceptOf.throw, URL.hostname, URL.port]
  by_cases h1 : hasPrefix (trimSuffix u.host [58]) [91] = true
  · by_cases h2 : (trimSuffix u.host [58]).all (· < 128) = true
    · simp [h1, h2]
    · simp [h1, h2]
  · by_cases h3 : isSpecialNetProtocol u.scheme = true
    · simp only [h1, h3]
      cases h4 : Idna.toASCII (splitHostPort (trimSuffix u.host [58])).1 with
      | noclaim => simp
      | error => simp
      | ok ch =>
        by_cases h5 : (ch != (splitHostPort (trimSuffix u.host [58])).1) = true
        · simp [h5]
        · simp [h5]
    · simp [h1, h3]


/-- the port handling of `normalizeURL` -/
def normPort (u : URL) : URL :=
  if u.port != [] then
    match atoi u.port with
    | none => clearURLPort u
    | some n => if isDefaultURLPort u.scheme n then clearURLPort u else u
  else u

theorem normalizeURL_eq (u : URL) :
    normalizeURL u =
      if isSpecialNetProtocol u.scheme && u.host == [] && u.path == [] then .error .invalidURL
      else if !validHostColons u then .error .invalidURL
      else fixURL (normPort u) := by
  unfold normalizeURL normPort
  simp only [bind, Except.bind, throw, throwThe, MonadExceptOf.throw]
  by_cases h1 : (isSpecialNetProtocol u.scheme && u.host == [] && u.path == []) = true
  · simp only [h1]; rfl
  · by_cases h2 : (!validHostColons u) = true
    · simp only [h1, h2]; rfl
    · simp only [h1, h2]; rfl

theorem normalizeURL_ok (u u' : URL) (h : normalizeURL u = .ok u') :
    validHostColons u = true ∧ fixURL (normPort u) = .ok u' := by
  rw [normalizeURL_eq] at h
  split at h
  · cases h
  · split at h
    · cases h
    · next h2 => simp at h2; exact ⟨h2, h⟩

/-! ## the setters that can throw -/

theorem step_host (st st' : St) (host : Bytes) (h : step st (.set .host host) = .ok st') :
    st' = st ∨ (validHost st.url.scheme host = .ok true ∧
      ∃ u, fixURL { st.url with host := host } = .ok u ∧ st' = { st with url := dropDefaultPort u }) := by
  simp only [step, bind, Except.bind, pure, Except.pure] at h
  cases hv : validHost st.url.scheme host with
  | error e => rw [hv] at h; cases h
  | ok b =>
    rw [hv] at h
    cases b with
    | false => simp at h; exact Or.inl h.symm
    | true =>
      simp only [if_true] at h
      generalize hf : fixURL _ = f at h
      cases f with
      | error e => cases h
      | ok u => simp only [Except.ok.injEq] at h; exact Or.inr ⟨rfl, u, rfl, h.symm⟩

theorem step_hostname (st st' : St) (hn : Bytes) (h : step st (.set .hostname hn) = .ok st') :
    st' = st ∨ (hn.contains 58 = false ∧ validHost st.url.scheme hn = .ok true ∧
      ∃ u, fixURL { st.url with host := if st.url.port != [] then hn ++ 58 :: st.url.port else hn } = .ok u ∧
        st' = { st with url := u }) := by
  simp only [step, bind, Except.bind, pure, Except.pure] at h
  cases hc : hn.contains 58 with
  | true => rw [hc] at h; simp only [if_true] at h; cases h; exact Or.inl rfl
  | false =>
    rw [hc] at h
    simp only [Bool.false_eq_true, if_false] at h
    cases hv : validHost st.url.scheme hn with
    | error e => rw [hv] at h; cases h
    | ok b =>
      rw [hv] at h
      cases b with
      | false => simp at h; exact Or.inl h.symm
      | true =>
        simp only [if_true] at h
        generalize hf : fixURL _ = f at h
        cases f with
        | error e => cases h
        | ok u => simp only [Except.ok.injEq] at h; exact Or.inr ⟨rfl, rfl, u, rfl, h.symm⟩

theorem step_protocol (st st' : St) (v : Bytes) (h : step st (.set .protocol v) = .ok st') :
    st' = st ∨ ∃ s u, fixURL { st.url with scheme := s } = .ok u ∧ st' = { st with url := dropDefaultPort u } := by
  simp only [step, bind, Except.bind, pure, Except.pure, throw, throwThe, MonadExceptOf.throw] at h
  split at h
  · cases h
  split at h
  · split at h
    · generalize (if (st.url.opaq == []) = true then validHost (toLowerAscii (cut v 58).fst) st.url.host
            else Except.ok false) = w at h
      cases w with
      | error e => cases h
      | ok b =>
        cases b with
        | false => simp at h; exact Or.inl h.symm
        | true =>
          simp only [if_true] at h
          generalize hf : fixURL _ = f at h
          cases f with
          | error e => cases h
          | ok u => simp only [Except.ok.injEq] at h; exact Or.inr ⟨_, u, hf, h.symm⟩
    · simp only [if_true] at h
      generalize hf : fixURL _ = f at h
      cases f with
      | error e => cases h
      | ok u => simp only [Except.ok.injEq] at h; exact Or.inr ⟨_, u, hf, h.symm⟩
  · cases h; exact Or.inl rfl

/-! ## the query is a fixed point of the escaper -/

/-- the invariant behind `SearchParamsCoherent` -/
def QInv (st : St) : Prop :=
  escapeQuery st.url.rawQuery = st.url.rawQuery ∧
  ∀ l, st.sp = some l → st.url.rawQuery ≠ [] → parseParams st.url.rawQuery = l

theorem fixRawQuery_fixed (u : URL) : escapeQuery (fixRawQuery u).rawQuery = (fixRawQuery u).rawQuery := by
  unfold fixRawQuery
  split
  · exact escapeQuery_idem _
  · next h => simp at h; rw [h]; rfl

theorem fixRawQuery_of_fixed (u : URL) (h : escapeQuery u.rawQuery = u.rawQuery) : fixRawQuery u = u := by
  unfold fixRawQuery
  split
  · rw [h]
  · rfl

theorem fixURL_query (u u' : URL) (h : fixURL u = .ok u') :
    escapeQuery u'.rawQuery = u'.rawQuery ∧ (escapeQuery u.rawQuery = u.rawQuery → u'.rawQuery = u.rawQuery) := by
  rw [fixURL_eq] at h
  split at h
  · cases h
  · next hst _ =>
    cases h
    refine ⟨fixRawQuery_fixed _, fun hq => ?_⟩
    rw [fixRawQuery_of_fixed _ (by exact hq)]

theorem clearURLPort_rawQuery (u : URL) : (clearURLPort u).rawQuery = u.rawQuery := rfl

theorem normPort_rawQuery (u : URL) : (normPort u).rawQuery = u.rawQuery := by
  unfold normPort
  split
  · split
    · rfl
    · split <;> rfl
  · rfl

theorem dropDefaultPort_rawQuery (u : URL) : (dropDefaultPort u).rawQuery = u.rawQuery := by
  unfold dropDefaultPort
  split
  · split <;> rfl
  · rfl

theorem setURLPort_rawQuery (u : URL) (v : PortArg) : (setURLPort u v).rawQuery = u.rawQuery := by
  unfold setURLPort
  split
  · rfl
  · split
    split
    · rfl
    · split
      · rfl
      · split <;> rfl

theorem normalizeURL_query (u u' : URL) (h : normalizeURL u = .ok u') : escapeQuery u'.rawQuery = u'.rawQuery :=
  (fixURL_query _ _ (normalizeURL_ok u u' h).2).1

theorem parseURL_query (s : Bytes) (b : Bool) (u : URL) (h : parseURL s b = .ok u) :
    escapeQuery u.rawQuery = u.rawQuery := by
  unfold parseURL at h
  split at h
  · cases h
  · split at h
    · cases h
    · exact normalizeURL_query _ _ h

theorem construct_query (s : Bytes) (base : Option Bytes) (u : URL) (h : construct s base = .ok u) :
    escapeQuery u.rawQuery = u.rawQuery := by
  unfold construct at h
  split at h
  · exact parseURL_query _ _ _ h
  · simp only [bind, Except.bind] at h
    split at h
    · cases h
    · split at h
      · cases h
      · split at h
        · exact parseURL_query _ _ _ h
        · exact normalizeURL_query _ _ h

/-! ## searchParams and the query -/

theorem qinv_same (st st' : St) (hsp : st'.sp = st.sp) (hq : st'.url.rawQuery = st.url.rawQuery)
    (h : QInv st) : QInv st' := by
  unfold QInv at *
  rw [hsp, hq]; exact h

theorem qinv_of_empty (st : St) (h : st.url.rawQuery = []) : QInv st := by
  unfold QInv
  rw [h]
  exact ⟨rfl, fun _ _ hne => absurd rfl hne⟩

theorem markUpdated_rawQuery (st : St) : st.markUpdated.url.rawQuery = [] := by
  unfold St.markUpdated
  split
  · rfl
  · next h => simpa using h

theorem qinv_refresh (st : St) (h : escapeQuery st.url.rawQuery = st.url.rawQuery) : QInv st.refreshParams := by
  unfold St.refreshParams
  split
  · refine ⟨h, ?_⟩
    intro l hl _
    simp only [Option.some.injEq] at hl
    exact hl
  · next hn => exact ⟨h, fun l hl => by rw [hn] at hl; cases hl⟩

theorem qinv_sync (st : St) (h : QInv st) : QInv st.sync := by
  rcases sync_cases st with ⟨e, _⟩ | ⟨l, hl, hne, hq, e⟩
  · rw [e]; exact h
  · rw [e]
    refine ⟨escapeQuery_serialize l, ?_⟩
    intro l' hl' _
    simp only at hl'
    rw [hl] at hl'
    cases hl'
    exact parse_serialize tableOK_generated l

theorem qinv_step (st st' : St) (op : Op) (hi : QInv st) (h : step st op = .ok st') : QInv st' := by
  cases op with
  | set p v =>
    cases p with
    | href =>
      simp only [step, bind, Except.bind, pure, Except.pure] at h
      generalize hp : parseURL v true = r at h
      cases r with
      | error e => cases h
      | ok u =>
        simp only [Except.ok.injEq] at h
        subst h
        exact qinv_refresh _ (parseURL_query _ _ _ hp)
    | protocol =>
      rcases step_protocol st st' v h with e | ⟨s, u, hf, e⟩
      · rw [e]; exact hi
      · subst e
        refine qinv_same st _ rfl ?_ hi
        simp only [dropDefaultPort_rawQuery]
        exact (fixURL_query _ _ hf).2 hi.1
    | host =>
      rcases step_host st st' v h with e | ⟨_, u, hf, e⟩
      · rw [e]; exact hi
      · subst e
        refine qinv_same st _ rfl ?_ hi
        simp only [dropDefaultPort_rawQuery]
        exact (fixURL_query _ _ hf).2 hi.1
    | hostname =>
      rcases step_hostname st st' v h with e | ⟨_, _, u, hf, e⟩
      · rw [e]; exact hi
      · subst e
        exact qinv_same st _ rfl ((fixURL_query _ _ hf).2 hi.1) hi
    | search =>
      simp only [step, pure, Except.pure, Except.ok.injEq] at h
      subst h
      exact qinv_refresh _ (fixRawQuery_fixed _)
    | port =>
      simp only [step, pure, Except.pure, Except.ok.injEq] at h
      subst h
      exact qinv_same st _ rfl (setURLPort_rawQuery _ _) hi
    | username | password | pathname | hash =>
      simp only [step, pure, Except.pure, Except.ok.injEq] at h
      subst h
      exact qinv_same st _ rfl rfl hi
  | setPort v =>
    simp only [step, pure, Except.pure, Except.ok.injEq] at h
    subst h
    exact qinv_same st _ rfl (setURLPort_rawQuery _ _) hi
  | getSP =>
    simp only [step, pure, Except.pure] at h
    split at h
    · cases h; exact hi
    · cases h
      exact ⟨hi.1, fun l hl _ => by simp only [Option.some.injEq] at hl; exact hl⟩
  | spAppend k v | spDelete k v | spSet k v | spSort =>
    simp only [step, pure, Except.pure, Except.ok.injEq] at h
    subst h
    exact qinv_of_empty _ (markUpdated_rawQuery _)

theorem qinv_reach (st : St) (h : Reach st) : QInv st := by
  induction h with
  | ctor s base u hc => exact ⟨construct_query s base u hc, fun l hl => by cases hl⟩
  | step st st' op _ hs ih => exact qinv_step st st' op ih hs
  | read st _ ih => exact qinv_sync st ih

theorem searchParamsCoherent : SearchParamsCoherent := by
  intro st hr
  have hi := qinv_sync st (qinv_reach st hr)
  simp only [observe, shownQuery]
  constructor
  · by_cases hq : st.sync.url.rawQuery = []
    · left; simp [hq]
    · right; exact ⟨_, hq, by simp [hq]⟩
  · intro l hl
    by_cases hq : st.sync.url.rawQuery = []
    · simp only [hq, bne_self_eq_false, Bool.false_eq_true, if_false, List.drop_nil]
      rcases sync_cases st with ⟨e, hc⟩ | ⟨l', hl', hne, hq', e⟩
      · rw [e] at hl hq
        rcases hc with hc | hc | hc
        · rw [hc] at hl; cases hl
        · exact absurd hq hc
        · rw [hc] at hl; cases hl; rfl
      · rw [e] at hq
        simp only [serialize_eq_nil_iff] at hq
        exact absurd hq hne
    · have : (st.sync.url.rawQuery != []) = true := by simpa using hq
      simp only [this, if_true, List.drop_succ_cons, List.drop_zero]
      exact hi.2 l hl hq

/-! ## percent-encoding round trip (path, fragment, userinfo) -/

def hexUOK (c : UInt8) : Bool :=
  isHex (hexU (c >>> 4)) && isHex (hexU (c &&& 15)) && (unhex (hexU (c >>> 4)) <<< 4 ||| unhex (hexU (c &&& 15))) == c

theorem hexUOK_fin : ∀ n : Fin 256, hexUOK (UInt8.ofNat n.val) = true := by decide +kernel

theorem hexUOK_all (c : UInt8) : hexUOK c = true := by
  have h := hexUOK_fin ⟨c.toNat, c.toNat_lt⟩
  simpa [UInt8.ofNat_toNat] using h

theorem hexU_roundtrip (c : UInt8) :
    isHex (hexU (c >>> 4)) = true ∧ isHex (hexU (c &&& 15)) = true ∧
    (unhex (hexU (c >>> 4)) <<< 4 ||| unhex (hexU (c &&& 15))) = c := by
  have h := hexUOK_all c
  simp only [hexUOK, Bool.and_eq_true, beq_iff_eq] at h
  exact ⟨h.1.1, h.1.2, h.2⟩

/-- the modes of `EscapeRoundTrip` -/
def PlainMode (m : Mode) : Prop := m = .path ∨ m = .fragment ∨ m = .userPassword

theorem shouldEscape_percent (m : Mode) (hm : PlainMode m) : shouldEscape 37 m = true := by
  rcases hm with h | h | h <;> subst h <;> decide

theorem unescape_escByte (m : Mode) (hm : PlainMode m) (c : UInt8) (rest : Bytes) :
    unescapeOk m (Net.escByte m c ++ rest) = unescapeOk m rest ∧
    unescapeRaw m (Net.escByte m c ++ rest) = c :: unescapeRaw m rest := by
  have hq : (m == Mode.queryComponent) = false := by rcases hm with h | h | h <;> subst h <;> rfl
  have hh : (m == Mode.host) = false := by rcases hm with h | h | h <;> subst h <;> rfl
  have hz : (m == Mode.zone) = false := by rcases hm with h | h | h <;> subst h <;> rfl
  unfold Net.escByte
  simp only [hq, Bool.and_false, Bool.false_eq_true, if_false]
  split
  · have := hexU_roundtrip c
    simp [unescapeOk, unescapeRaw, this, hh, hz]
  · next hs =>
    have h37 : c ≠ 37 := by
      intro e; subst e; exact hs (shouldEscape_percent m hm)
    simp only [List.cons_append, List.nil_append]
    constructor
    · rw [unescapeOk.eq_def]
      split <;> simp_all
    · rw [unescapeRaw.eq_def]
      split <;> simp_all

theorem unescape_escape (m : Mode) (hm : PlainMode m) (s : Bytes) :
    unescapeOk m (Net.escape m s) = true ∧ unescapeRaw m (Net.escape m s) = s := by
  induction s with
  | nil => simp [Net.escape, unescapeOk, unescapeRaw]
  | cons c cs ih =>
    simp only [Net.escape, List.flatMap_cons] at *
    rw [(unescape_escByte m hm c _).1, (unescape_escByte m hm c _).2, ih.1, ih.2]
    exact ⟨rfl, rfl⟩

theorem escapeRoundTrip : EscapeRoundTrip := by
  intro m s hm
  have := unescape_escape m hm s
  simp [Net.unescape, this.1, this.2]

end GN.Url.Obj
